(* PyCall_proofs: build1 = reference_view under valid_sig and the C01 storage invariant. *)
From Fiddle Require Import PyBase PySlice Sig ArgStore ArgSpec PyCall C01Check.
Require Import Lia.

(* ------------------------------------------------------------------------------------------ *)
(* Stores: sget / sdel / keys_distinct                                                          *)

Lemma skey_eqb_sym a b : skey_eqb a b = skey_eqb b a.
Proof.
  destruct (skey_eq_dec a b) as [E|E].
  - subst. reflexivity.
  - rewrite (skey_eqb_neq _ _ E). symmetry. apply skey_eqb_neq. congruence.
Qed.

Lemma sget_cons k0 v0 st k :
  sget ((k0, v0) :: st) k = if skey_eqb k k0 then Some v0 else sget st k.
Proof. reflexivity. Qed.

Lemma sdel_cons k0 v0 st k :
  sdel ((k0, v0) :: st) k = if skey_eqb k k0 then st else (k0, v0) :: sdel st k.
Proof. reflexivity. Qed.

Lemma smem_sget st k : smem st k = match sget st k with Some _ => true | None => false end.
Proof. reflexivity. Qed.

Lemma smem_false_sget st k : smem st k = false -> sget st k = None.
Proof. rewrite smem_sget. destruct (sget st k); congruence. Qed.

Lemma smem_true_sget st k : smem st k = true -> exists v, sget st k = Some v.
Proof. rewrite smem_sget. destruct (sget st k); [eauto|congruence]. Qed.

Lemma sget_In st k v : sget st k = Some v -> In (k, v) st.
Proof.
  induction st as [|[k0 v0] st IH]; [discriminate|].
  rewrite sget_cons. destruct (skey_eqb k k0) eqn:E.
  - intros H; inversion H; subst. apply skey_eqb_eq in E; subst. left; reflexivity.
  - intros H; right; auto.
Qed.

Lemma In_sget_some st k v : In (k, v) st -> sget st k <> None.
Proof.
  induction st as [|[k0 v0] st IH]; [intros []|].
  intros [H|H]; rewrite sget_cons.
  - inversion H; subst. rewrite skey_eqb_refl. discriminate.
  - destruct (skey_eqb k k0); [discriminate|auto].
Qed.

Lemma sget_sdel_neq st k k' : k <> k' -> sget (sdel st k) k' = sget st k'.
Proof.
  intros N. induction st as [|[k0 v0] st IH]; [reflexivity|].
  rewrite sdel_cons. destruct (skey_eqb k k0) eqn:E.
  - apply skey_eqb_eq in E; subst. rewrite sget_cons.
    rewrite (skey_eqb_neq k' k0) by congruence. reflexivity.
  - rewrite !sget_cons. destruct (skey_eqb k' k0); [reflexivity|exact IH].
Qed.

Lemma In_sdel st k kv : In kv (sdel st k) -> In kv st.
Proof.
  induction st as [|[k0 v0] st IH]; [intros []|].
  rewrite sdel_cons. destruct (skey_eqb k k0).
  - intros H; right; exact H.
  - intros [H|H]; [left; exact H|right; auto].
Qed.

Lemma sget_sdel_none st k k' : sget st k' = None -> sget (sdel st k) k' = None.
Proof.
  intros H. destruct (sget (sdel st k) k') eqn:E; [|reflexivity].
  apply sget_In, In_sdel, In_sget_some in E. congruence.
Qed.

Lemma keys_distinct_cons k v st :
  keys_distinct ((k, v) :: st) = negb (smem st k) && keys_distinct st.
Proof. reflexivity. Qed.

Lemma sget_sdel_eq st k : keys_distinct st = true -> sget (sdel st k) k = None.
Proof.
  induction st as [|[k0 v0] st IH]; [reflexivity|].
  rewrite keys_distinct_cons. intros H. apply andb_true_iff in H. destruct H as [H1 H2].
  apply negb_true_iff in H1. rewrite sdel_cons. destruct (skey_eqb k k0) eqn:E.
  - apply skey_eqb_eq in E; subst. apply smem_false_sget; exact H1.
  - rewrite sget_cons, E. auto.
Qed.

Lemma keys_distinct_sdel st k : keys_distinct st = true -> keys_distinct (sdel st k) = true.
Proof.
  induction st as [|[k0 v0] st IH]; [reflexivity|].
  rewrite keys_distinct_cons. intros H. apply andb_true_iff in H. destruct H as [H1 H2].
  rewrite sdel_cons. destruct (skey_eqb k k0); [exact H2|].
  rewrite keys_distinct_cons. apply andb_true_iff; split; [|auto].
  apply negb_true_iff in H1. apply negb_true_iff. rewrite smem_sget.
  rewrite (sget_sdel_none st k k0 (smem_false_sget _ _ H1)). reflexivity.
Qed.

Lemma length_sdel st k : (length (sdel st k) <= length st)%nat.
Proof.
  induction st as [|[k0 v0] st IH]; [apply le_n|].
  rewrite sdel_cons. destruct (skey_eqb k k0); cbn [length]; lia.
Qed.

Lemma length_sdel_lt st k v : sget st k = Some v -> (S (length (sdel st k)) = length st)%nat.
Proof.
  induction st as [|[k0 v0] st IH]; [discriminate|].
  rewrite sget_cons, sdel_cons. destruct (skey_eqb k k0); cbn [length]; [reflexivity|].
  intros H. rewrite (IH H). reflexivity.
Qed.

(* several deletions *)
Definition sdels (ks : list skey) (st : store) : store := fold_left sdel ks st.

Lemma sdels_cons k ks st : sdels (k :: ks) st = sdels ks (sdel st k).
Proof. reflexivity. Qed.

Lemma sdels_app ks1 ks2 st : sdels (ks1 ++ ks2) st = sdels ks2 (sdels ks1 st).
Proof. unfold sdels. apply fold_left_app. Qed.

Lemma sget_sdels_notin ks : forall st k, ~ In k ks -> sget (sdels ks st) k = sget st k.
Proof.
  induction ks as [|k0 ks IH]; intros st k H; [reflexivity|].
  rewrite sdels_cons, IH by (intros X; apply H; right; exact X).
  apply sget_sdel_neq. intros X; apply H; left; exact X.
Qed.

Lemma sget_sdels_none ks : forall st k, sget st k = None -> sget (sdels ks st) k = None.
Proof.
  induction ks as [|k0 ks IH]; intros st k H; [exact H|].
  rewrite sdels_cons. apply IH, sget_sdel_none, H.
Qed.

Lemma keys_distinct_sdels ks : forall st, keys_distinct st = true -> keys_distinct (sdels ks st) = true.
Proof.
  induction ks as [|k0 ks IH]; intros st H; [exact H|].
  rewrite sdels_cons. apply IH, keys_distinct_sdel, H.
Qed.

Lemma sget_sdels_in ks : forall st k, keys_distinct st = true -> In k ks -> sget (sdels ks st) k = None.
Proof.
  induction ks as [|k0 ks IH]; intros st k D H; [destruct H|].
  rewrite sdels_cons. destruct H as [H|H].
  - subst. apply sget_sdels_none, sget_sdel_eq, D.
  - apply IH; [apply keys_distinct_sdel, D|exact H].
Qed.

Lemma In_sdels ks : forall st kv, In kv (sdels ks st) -> In kv st.
Proof.
  induction ks as [|k0 ks IH]; intros st kv H; [exact H|].
  rewrite sdels_cons in H. apply IH in H. eapply In_sdel; exact H.
Qed.

Lemma length_sdels ks : forall st, (length (sdels ks st) <= length st)%nat.
Proof.
  induction ks as [|k0 ks IH]; intros st; [apply le_n|].
  rewrite sdels_cons. specialize (IH (sdel st k0)). pose proof (length_sdel st k0). lia.
Qed.

Lemma kpos_inj i j : kpos i = kpos j -> i = j.
Proof. unfold kpos. intros H. inversion H. lia. Qed.

(* ------------------------------------------------------------------------------------------ *)
(* varargs_of: fuel                                                                             *)

Lemma varargs_of_S f st i :
  varargs_of (S f) st i =
  match sget st (kpos i) with Some v => v :: varargs_of f st (S i) | None => [] end.
Proof. reflexivity. Qed.

Lemma varargs_of_ext f : forall st st' i,
  (forall j, (i <= j)%nat -> sget st (kpos j) = sget st' (kpos j)) ->
  varargs_of f st i = varargs_of f st' i.
Proof.
  induction f as [|f IH]; intros st st' i H; [reflexivity|].
  rewrite !varargs_of_S. rewrite <- (H i (le_n _)).
  destruct (sget st (kpos i)); [|reflexivity].
  f_equal. apply IH. intros j Hj. apply H. lia.
Qed.

Lemma varargs_of_sdel f st i j : (i < j)%nat -> varargs_of f (sdel st (kpos i)) j = varargs_of f st j.
Proof.
  intros H. apply varargs_of_ext. intros j' Hj. apply sget_sdel_neq.
  intros E. apply kpos_inj in E. lia.
Qed.

Lemma varargs_of_fuel_S f : forall st i, (length st <= f)%nat -> varargs_of (S f) st i = varargs_of f st i.
Proof.
  induction f as [|f IH]; intros st i H.
  - destruct st; [reflexivity|cbn [length] in H; lia].
  - rewrite (varargs_of_S (S f) st i), (varargs_of_S f st i).
    destruct (sget st (kpos i)) as [v|] eqn:E; [|reflexivity].
    f_equal. rewrite <- (varargs_of_sdel (S f) st i (S i)), <- (varargs_of_sdel f st i (S i)) by lia.
    apply IH. pose proof (length_sdel_lt _ _ _ E). lia.
Qed.

Lemma varargs_of_fuel st i f : (length st <= f)%nat -> varargs_of f st i = varargs_of (length st) st i.
Proof.
  intros H. induction H as [|f H IH]; [reflexivity|].
  rewrite varargs_of_fuel_S by exact H. exact IH.
Qed.

Lemma varargs_of_length f : forall st i, (length (varargs_of f st i) <= f)%nat.
Proof.
  induction f as [|f IH]; intros st i; [apply le_n|].
  rewrite varargs_of_S. destruct (sget st (kpos i)); cbn [length]; [specialize (IH st (S i))|]; lia.
Qed.

(* the run is stored *)
Lemma varargs_of_present f : forall st i j,
  (i <= j < i + length (varargs_of f st i))%nat -> sget st (kpos j) <> None.
Proof.
  induction f as [|f IH]; intros st i j H; [cbn [varargs_of length] in H; lia|].
  rewrite varargs_of_S in H. destruct (sget st (kpos i)) as [v|] eqn:E; [|cbn [length] in H; lia].
  cbn [length] in H. destruct (Nat.eq_dec i j) as [->|N]; [congruence|].
  apply (IH st (S i)). lia.
Qed.

(* the run is maximal when the fuel was not exhausted *)
Lemma varargs_of_stop f : forall st i,
  (length (varargs_of f st i) < f)%nat -> sget st (kpos (i + length (varargs_of f st i))) = None.
Proof.
  induction f as [|f IH]; intros st i H; [lia|].
  rewrite varargs_of_S in *. destruct (sget st (kpos i)) as [v|] eqn:E.
  - cbn [length] in *. replace (i + S (length (varargs_of f st (S i))))%nat
      with (S i + length (varargs_of f st (S i)))%nat by lia. apply IH. lia.
  - cbn [length]. rewrite Nat.add_0_r. exact E.
Qed.

Lemma varargs_of_maximal st i :
  sget st (kpos (i + length (varargs_of (length st) st i))) = None.
Proof.
  rewrite <- (varargs_of_fuel st i (S (length st))) by lia.
  apply varargs_of_stop. rewrite (varargs_of_fuel st i (S (length st))) by lia.
  pose proof (varargs_of_length (length st) st i). lia.
Qed.

(* ------------------------------------------------------------------------------------------ *)
(* fill_skipped, the positional accumulation                                                    *)

Fixpoint all_some {A} (l : list (option A)) : option (list A) :=
  match l with
  | [] => Some []
  | o :: l' => match o, all_some l' with Some x, Some r => Some (x :: r) | _, _ => None end
  end.

Lemma all_some_map {A} (l : list (option A)) r : all_some l = Some r -> l = map Some r.
Proof.
  revert r. induction l as [|o l IH]; intros r H; cbn [all_some] in H.
  - inversion H; reflexivity.
  - destruct o as [x|]; [|discriminate]. destruct (all_some l) as [r'|]; [|discriminate].
    inversion H; subst. cbn [map]. rewrite (IH r' eq_refl). reflexivity.
Qed.

Lemma all_some_length {A} (l : list (option A)) r : all_some l = Some r -> length r = length l.
Proof. intros H. apply all_some_map in H. subst. rewrite map_length. reflexivity. Qed.

Lemma all_some_none_nth {A} (l : list (option A)) :
  all_some l = None -> exists j, nth_error l j = Some None.
Proof.
  induction l as [|o l IH]; cbn [all_some]; [discriminate|].
  destruct o as [x|]; [|intros _; exists 0%nat; reflexivity].
  destruct (all_some l); [discriminate|]. intros _. destruct (IH eq_refl) as [j Hj].
  exists (S j). exact Hj.
Qed.

Lemma fill_skipped_spec sk : forall acc,
  fill_skipped sk acc =
  match all_some (map pdefault sk) with Some ds => Some (acc ++ ds) | None => None end.
Proof.
  induction sk as [|p sk IH]; intros acc; cbn [fill_skipped map all_some].
  - rewrite app_nil_r. reflexivity.
  - destruct (pdefault p) as [d|]; [|reflexivity]. rewrite IH.
    destruct (all_some (map pdefault sk)); [|reflexivity]. rewrite <- app_assoc. reflexivity.
Qed.

Lemma fill_skipped_app sk : forall acc p,
  fill_skipped (sk ++ [p]) acc =
  match fill_skipped sk acc with
  | Some a => match pdefault p with Some d => Some (a ++ [d]) | None => None end
  | None => None
  end.
Proof.
  induction sk as [|q sk IH]; intros acc p; cbn [app fill_skipped].
  - destruct (pdefault p); reflexivity.
  - destruct (pdefault q); [apply IH|reflexivity].
Qed.

Definition vd (e : param * option ref) : option ref :=
  match snd e with Some v => Some v | None => pdefault (fst e) end.
Definition full (l : list (param * option ref)) : option (list ref) := all_some (map vd l).

Fixpoint pos_of (l : list (param * option ref)) (sk : list param) (acc : list ref)
  : option (list ref * list param) :=
  match l with
  | [] => Some (acc, sk)
  | (p, Some v) :: l' =>
      match append_positional sk acc v with
      | Some acc' => pos_of l' [] acc'
      | None => None
      end
  | (p, None) :: l' => pos_of l' (sk ++ [p]) acc
  end.

Lemma pos_of_fill l : forall sk acc,
  match pos_of l sk acc with Some (acc', sk') => fill_skipped sk' acc' | None => None end =
  match fill_skipped sk acc with
  | Some a => match full l with Some r => Some (a ++ r) | None => None end
  | None => None
  end.
Proof.
  unfold full. induction l as [|[p [v|]] l IH]; intros sk acc; cbn [pos_of map all_some].
  - destruct (fill_skipped sk acc); [rewrite app_nil_r|]; reflexivity.
  - unfold append_positional. destruct (fill_skipped sk acc) as [a|]; [|reflexivity].
    rewrite IH. cbn [fill_skipped]. change (vd (p, Some v)) with (Some v).
    destruct (all_some (map vd l)); [|reflexivity]. rewrite <- app_assoc. reflexivity.
  - rewrite IH, fill_skipped_app. change (vd (p, None)) with (pdefault p).
    destruct (fill_skipped sk acc) as [a|]; [|reflexivity].
    destruct (pdefault p) as [d|]; [|reflexivity].
    destruct (all_some (map vd l)); [|reflexivity]. rewrite <- app_assoc. reflexivity.
Qed.

Lemma pos_of_length l : forall sk acc acc' sk',
  pos_of l sk acc = Some (acc', sk') ->
  (length acc' + length sk' = length acc + length sk + length l)%nat.
Proof.
  induction l as [|[p [v|]] l IH]; intros sk acc acc' sk' H; cbn [pos_of] in H.
  - inversion H; subst. cbn [length]. lia.
  - unfold append_positional in H. rewrite fill_skipped_spec in H.
    destruct (all_some (map pdefault sk)) as [ds|] eqn:E; [|discriminate].
    apply IH in H. apply all_some_length in E. rewrite map_length in E.
    rewrite !app_length in H. cbn [length] in *. lia.
  - apply IH in H. rewrite app_length in H. cbn [length] in *. lia.
Qed.

Fixpoint pview (ps : list param) (pos : list ref) : list (option ref) :=
  match ps with
  | [] => []
  | p :: ps' =>
      match pos with
      | v :: pos' => Some v :: pview ps' pos'
      | [] => pdefault p :: pview ps' []
      end
  end.

Lemma pview_nil ps : pview ps [] = map pdefault ps.
Proof. induction ps as [|p ps IH]; cbn [pview map]; [|rewrite IH]; reflexivity. Qed.

Lemma pview_app psa : forall acc r x,
  length psa = length acc -> pview (psa ++ r) (acc ++ x) = map Some acc ++ pview r x.
Proof.
  induction psa as [|p psa IH]; intros [|v acc] r x H; cbn [length] in H; try discriminate.
  - reflexivity.
  - cbn [app pview map]. rewrite IH by lia. reflexivity.
Qed.

Lemma pview_nth ps : forall pos j p,
  nth_error ps j = Some p ->
  nth_error (pview ps pos) j =
  Some (match nth_error pos j with Some v => Some v | None => pdefault p end).
Proof.
  induction ps as [|q ps IH]; intros pos j p H; [destruct j; discriminate|].
  destruct j as [|j]; cbn [nth_error] in H.
  - inversion H; subst. destruct pos; reflexivity.
  - destruct pos as [|v pos]; cbn [pview nth_error].
    + rewrite (IH [] j p H). destruct j; reflexivity.
    + apply IH, H.
Qed.

Lemma pos_of_pview l : forall sk acc acc' sk',
  pos_of l sk acc = Some (acc', sk') ->
  forall psa, length psa = length acc ->
  pview (psa ++ sk ++ map fst l) acc' = map Some acc ++ map pdefault sk ++ map vd l.
Proof.
  induction l as [|[p [v|]] l IH]; intros sk acc acc' sk' H psa L; cbn [pos_of] in H.
  - inversion H; subst. cbn [map]. rewrite !app_nil_r.
    rewrite <- (app_nil_r acc') at 1. rewrite pview_app by exact L. rewrite pview_nil. reflexivity.
  - unfold append_positional in H. rewrite fill_skipped_spec in H.
    destruct (all_some (map pdefault sk)) as [ds|] eqn:E; [|discriminate].
    pose proof (all_some_length _ _ E) as Lds. rewrite map_length in Lds.
    apply all_some_map in E.
    specialize (IH [] (((acc ++ ds) ++ [v])) acc' sk' H (psa ++ sk ++ [p])).
    rewrite !app_length in IH. cbn [length] in IH. specialize (IH ltac:(lia)).
    cbn [map fst app] in *. rewrite E.
    replace (psa ++ sk ++ p :: map fst l) with ((psa ++ sk ++ [p]) ++ map fst l)
      by (rewrite <- !app_assoc; reflexivity).
    rewrite IH. rewrite !map_app. cbn [map]. change (vd (p, Some v)) with (Some v).
    rewrite <- !app_assoc. reflexivity.
  - specialize (IH _ _ _ _ H psa L). cbn [map fst].
    replace (psa ++ sk ++ p :: map fst l) with (psa ++ (sk ++ [p]) ++ map fst l)
      by (rewrite <- !app_assoc; reflexivity).
    rewrite IH. rewrite map_app. cbn [map]. change (vd (p, None)) with (pdefault p).
    rewrite <- !app_assoc. reflexivity.
Qed.

(* ------------------------------------------------------------------------------------------ *)
(* tb_varargs                                                                                   *)

Lemma tb_varargs_S f args i sk acc :
  tb_varargs (S f) args i sk acc =
  match sget args (kpos i) with
  | Some v =>
      match append_positional sk acc v with
      | Some acc' => tb_varargs f (sdel args (kpos i)) (S i) [] acc'
      | None => None
      end
  | None => Some (acc, args)
  end.
Proof. reflexivity. Qed.

Lemma tb_varargs_spec f : forall args i sk acc,
  tb_varargs f args i sk acc =
  match varargs_of f args i with
  | [] => Some (acc, args)
  | vs => match fill_skipped sk acc with
          | Some a => Some (a ++ vs, sdels (map kpos (seq i (length vs))) args)
          | None => None
          end
  end.
Proof.
  induction f as [|f IH]; intros args i sk acc; [reflexivity|].
  rewrite tb_varargs_S, varargs_of_S.
  destruct (sget args (kpos i)) as [v|] eqn:E; [|reflexivity].
  unfold append_positional. destruct (fill_skipped sk acc) as [a|]; [|reflexivity].
  rewrite IH. rewrite (varargs_of_sdel f args i (S i)) by lia.
  cbn [fill_skipped length seq map]. rewrite sdels_cons.
  destruct (varargs_of f args (S i)) as [|v' vs'].
  - reflexivity.
  - rewrite <- app_assoc. reflexivity.
Qed.

(* ------------------------------------------------------------------------------------------ *)
(* tb_params                                                                                    *)

Definition akey (p : param) (i : nat) : skey :=
  match pk p with PosOnly => kpos i | _ => KName (pname p) end.

Definition active (vin : bool) (p : param) : bool :=
  match pk p with PosOnly => true | PosOrKw => vin | _ => false end.

Lemma akey_eq p i q j : akey p i = akey q j -> i = j \/ pname p = pname q.
Proof.
  unfold akey. destruct (pk p), (pk q); intros H;
    try discriminate; try (left; apply kpos_inj; exact H); right; congruence.
Qed.

Lemma tb_params_active vin p ps i args sk acc :
  active vin p = true ->
  tb_params vin (p :: ps) i args sk acc =
  match sget args (akey p i) with
  | Some v =>
      match append_positional sk acc v with
      | Some acc' => tb_params vin ps (S i) (sdel args (akey p i)) [] acc'
      | None => None
      end
  | None => tb_params vin ps (S i) args (sk ++ [p]) acc
  end.
Proof.
  unfold active, akey. cbn [tb_params]. destruct (pk p); try discriminate.
  - reflexivity.
  - intros ->. reflexivity.
Qed.

Lemma tb_params_inactive vin p ps i args sk acc :
  active vin p = false ->
  tb_params vin (p :: ps) i args sk acc = tb_params vin ps (S i) args sk acc.
Proof.
  unfold active. cbn [tb_params]. destruct (pk p); try discriminate; try reflexivity.
  intros ->. reflexivity.
Qed.

Lemma tb_params_inert vin ps : forall i args sk acc,
  Forall (fun p => active vin p = false) ps ->
  tb_params vin ps i args sk acc = Some (acc, args, sk).
Proof.
  induction ps as [|p ps IH]; intros i args sk acc H; [reflexivity|].
  inversion H; subst. rewrite tb_params_inactive by assumption. apply IH. assumption.
Qed.

Fixpoint lk (st : store) (ps : list param) (i : nat) : list (param * option ref) :=
  match ps with
  | [] => []
  | p :: ps' => (p, sget st (akey p i)) :: lk st ps' (S i)
  end.

Fixpoint ksof (st : store) (ps : list param) (i : nat) : list skey :=
  match ps with
  | [] => []
  | p :: ps' =>
      match sget st (akey p i) with
      | Some _ => akey p i :: ksof st ps' (S i)
      | None => ksof st ps' (S i)
      end
  end.

Lemma lk_fst st ps : forall i, map fst (lk st ps i) = ps.
Proof. induction ps as [|p ps IH]; intros i; cbn [lk map fst]; [|rewrite IH]; reflexivity. Qed.

Lemma lk_length st ps i : length (lk st ps i) = length ps.
Proof. rewrite <- (lk_fst st ps i) at 2. rewrite map_length. reflexivity. Qed.

Lemma lk_nth st ps : forall i j p,
  nth_error ps j = Some p -> nth_error (lk st ps i) j = Some (p, sget st (akey p (i + j))).
Proof.
  induction ps as [|q ps IH]; intros i j p H; [destruct j; discriminate|].
  destruct j as [|j]; cbn [nth_error lk] in *.
  - inversion H; subst. rewrite Nat.add_0_r. reflexivity.
  - rewrite (IH (S i) j p H). replace (S i + j)%nat with (i + S j)%nat by lia. reflexivity.
Qed.

Lemma lk_sdel st k ps : forall i,
  (forall q j, In q ps -> (i <= j)%nat -> akey q j <> k) ->
  lk (sdel st k) ps i = lk st ps i /\ ksof (sdel st k) ps i = ksof st ps i.
Proof.
  induction ps as [|p ps IH]; intros i H; [split; reflexivity|].
  cbn [lk ksof]. rewrite sget_sdel_neq.
  2:{ intros E. apply (H p i); [left; reflexivity|apply le_n|symmetry; exact E]. }
  destruct (IH (S i)) as [E1 E2].
  { intros q j Hq Hj. apply H; [right; exact Hq|lia]. }
  rewrite E1, E2. split; reflexivity.
Qed.

Lemma ksof_in st ps : forall i k,
  In k (ksof st ps i) ->
  exists j p, nth_error ps j = Some p /\ k = akey p (i + j) /\ sget st k <> None.
Proof.
  induction ps as [|q ps IH]; intros i k H; [destruct H|].
  cbn [ksof] in H. destruct (sget st (akey q i)) eqn:E.
  - destruct H as [H|H].
    + exists 0%nat, q. rewrite Nat.add_0_r. subst. repeat split. congruence.
    + destruct (IH _ _ H) as (j & p & H1 & H2 & H3). exists (S j), p.
      replace (i + S j)%nat with (S i + j)%nat by lia. auto.
  - destruct (IH _ _ H) as (j & p & H1 & H2 & H3). exists (S j), p.
    replace (i + S j)%nat with (S i + j)%nat by lia. auto.
Qed.

Lemma ksof_complete st ps : forall i j p,
  nth_error ps j = Some p -> sget st (akey p (i + j)) <> None -> In (akey p (i + j)) (ksof st ps i).
Proof.
  induction ps as [|q ps IH]; intros i j p H HS; [destruct j; discriminate|].
  destruct j as [|j]; cbn [nth_error ksof] in *.
  - inversion H; subst. rewrite Nat.add_0_r in *. destruct (sget st (akey p i)); [left; reflexivity|congruence].
  - replace (i + S j)%nat with (S i + j)%nat in * by lia.
    specialize (IH (S i) j p H HS). destruct (sget st (akey q i)); [right|]; exact IH.
Qed.

Lemma tb_params_spec vin inert (Hin : Forall (fun p => active vin p = false) inert) act :
  forall i args sk acc,
  Forall (fun p => active vin p = true) act ->
  NoDup (map pname act) ->
  tb_params vin (act ++ inert) i args sk acc =
  match pos_of (lk args act i) sk acc with
  | Some (acc', sk') => Some (acc', sdels (ksof args act i) args, sk')
  | None => None
  end.
Proof.
  induction act as [|p act IH]; intros i args sk acc HA HN.
  - cbn [app lk pos_of ksof]. apply tb_params_inert, Hin.
  - inversion HA as [|? ? Hp HA']; subst. cbn [map] in HN. inversion HN as [|? ? Hnin HN']; subst.
    cbn [app]. rewrite tb_params_active by exact Hp. cbn [lk ksof pos_of].
    destruct (sget args (akey p i)) as [v|] eqn:E.
    + destruct (append_positional sk acc v) as [acc1|]; [|reflexivity].
      rewrite IH by assumption.
      destruct (lk_sdel args (akey p i) act (S i)) as [E1 E2].
      { intros q j Hq Hj X. apply akey_eq in X. destruct X as [X|X]; [lia|].
        apply Hnin. rewrite <- X. apply in_map, Hq. }
      rewrite E1, E2. rewrite sdels_cons. reflexivity.
    + apply IH; assumption.
Qed.

(* ------------------------------------------------------------------------------------------ *)
(* py_call: positional binding, keyword binding, the per-parameter view                         *)

Lemma bind_positional_nil ps bound : bind_positional ps [] bound = (bound, []).
Proof. destruct ps as [|p ps]; cbn [bind_positional]; [|destruct (is_prefix_kind (pk p))]; reflexivity. Qed.

Lemma bind_positional_short ps1 : forall ps2 pos bound,
  Forall (fun p => is_prefix_kind (pk p) = true) ps1 ->
  (length pos <= length ps1)%nat ->
  bind_positional (ps1 ++ ps2) pos bound = (bound ++ combine (map pname ps1) pos, []).
Proof.
  induction ps1 as [|p ps1 IH]; intros ps2 pos bound HF HL.
  - destruct pos; [|cbn [length] in HL; lia]. cbn [app map combine]. rewrite app_nil_r.
    apply bind_positional_nil.
  - inversion HF as [|? ? Hp HF']; subst. cbn [app bind_positional map]. rewrite Hp.
    destruct pos as [|v pos].
    + cbn [combine]. rewrite app_nil_r. reflexivity.
    + cbn [length] in HL. rewrite IH by (assumption || lia). cbn [combine].
      rewrite <- app_assoc. reflexivity.
Qed.

Lemma bind_positional_full ps1 : forall ps2 pos1 lo bound,
  Forall (fun p => is_prefix_kind (pk p) = true) ps1 ->
  length pos1 = length ps1 ->
  match ps2 with [] => True | q :: _ => is_prefix_kind (pk q) = false end ->
  bind_positional (ps1 ++ ps2) (pos1 ++ lo) bound = (bound ++ combine (map pname ps1) pos1, lo).
Proof.
  induction ps1 as [|p ps1 IH]; intros ps2 pos1 lo bound HF HL H2.
  - destruct pos1; [|discriminate]. cbn [app map combine]. rewrite app_nil_r.
    destruct ps2 as [|q ps2]; cbn [bind_positional]; [reflexivity|]. rewrite H2. reflexivity.
  - inversion HF as [|? ? Hp HF']; subst. destruct pos1 as [|v pos1]; [discriminate|].
    cbn [app bind_positional map]. rewrite Hp. cbn [length] in HL.
    rewrite IH by (assumption || lia). cbn [combine]. rewrite <- app_assoc. reflexivity.
Qed.

Lemma nget_cons n0 v0 l n : nget ((n0, v0) :: l) n = if N.eqb n n0 then Some v0 else nget l n.
Proof. reflexivity. Qed.

Lemma nget_app a : forall b n,
  nget (a ++ b) n = match nget a n with Some v => Some v | None => nget b n end.
Proof.
  induction a as [|[n0 v0] a IH]; intros b n; [reflexivity|].
  cbn [app]. rewrite !nget_cons. destruct (N.eqb n n0); [reflexivity|apply IH].
Qed.

Lemma nget_combine_notin names : forall pos n, ~ In n names -> nget (combine names pos) n = None.
Proof.
  induction names as [|m names IH]; intros pos n H; [reflexivity|].
  destruct pos as [|v pos]; [reflexivity|]. cbn [combine]. rewrite nget_cons.
  destruct (N.eqb_spec n m) as [->|N]; [exfalso; apply H; left; reflexivity|].
  apply IH. intros X; apply H; right; exact X.
Qed.

Lemma nget_combine_nth ps : forall pos j p,
  NoDup (map pname ps) -> nth_error ps j = Some p ->
  nget (combine (map pname ps) pos) (pname p) = nth_error pos j.
Proof.
  induction ps as [|q ps IH]; intros pos j p HN H; [destruct j; discriminate|].
  cbn [map] in HN. inversion HN as [|? ? Hnin HN']; subst.
  destruct pos as [|v pos]; [destruct j; reflexivity|].
  cbn [map combine]. rewrite nget_cons. destruct j as [|j]; cbn [nth_error] in *.
  - inversion H; subst. rewrite N.eqb_refl. reflexivity.
  - destruct (N.eqb_spec (pname p) (pname q)) as [E|N].
    + exfalso. apply Hnin. rewrite <- E. apply in_map. eapply nth_error_In; exact H.
    + apply IH; assumption.
Qed.

Definition nameable (sg : sig) (n : N) : bool :=
  match find_param sg n with
  | Some p => match pk p with PosOrKw | KwOnly => true | _ => false end
  | None => false
  end.

Fixpoint named_of (sg : sig) (kws : store) : list (N * ref) :=
  match kws with
  | [] => []
  | (KName n, v) :: kws' => if nameable sg n then (n, v) :: named_of sg kws' else named_of sg kws'
  | (KPos _, _) :: kws' => named_of sg kws'
  end.

Lemma extras_of_cons_name sg n v st :
  extras_of sg ((KName n, v) :: st) =
  if nameable sg n then extras_of sg st else (n, v) :: extras_of sg st.
Proof.
  unfold nameable. cbn [extras_of]. destruct (find_param sg n) as [p|]; [destruct (pk p)|]; reflexivity.
Qed.

Lemma bind_keywords_cons_name sg n v kws bound extra :
  bind_keywords sg ((KName n, v) :: kws) bound extra =
  if nameable sg n then
    match nget bound n with
    | Some _ => None
    | None => bind_keywords sg kws (bound ++ [(n, v)]) extra
    end
  else if has_var_kw sg then bind_keywords sg kws bound (extra ++ [(n, v)]) else None.
Proof.
  unfold nameable. cbn [bind_keywords]. destruct (find_param sg n) as [p|]; [destruct (pk p)|]; reflexivity.
Qed.

Lemma bind_keywords_spec sg kws : forall bound extra,
  keys_distinct kws = true ->
  (forall k v, In (k, v) kws ->
     exists n, k = KName n /\ (nameable sg n = true -> nget bound n = None)
               /\ (nameable sg n = false -> has_var_kw sg = true)) ->
  bind_keywords sg kws bound extra = Some (bound ++ named_of sg kws, extra ++ extras_of sg kws).
Proof.
  induction kws as [|[k0 v0] kws IH]; intros bound extra HD HK.
  - cbn [bind_keywords named_of extras_of]. rewrite !app_nil_r. reflexivity.
  - rewrite keys_distinct_cons in HD. apply andb_true_iff in HD. destruct HD as [HD1 HD2].
    apply negb_true_iff in HD1.
    destruct (HK k0 v0 (or_introl eq_refl)) as (n & -> & Hn1 & Hn2).
    rewrite bind_keywords_cons_name, extras_of_cons_name. cbn [named_of].
    destruct (nameable sg n) eqn:En.
    + rewrite (Hn1 eq_refl). rewrite IH; [rewrite <- app_assoc; reflexivity|exact HD2|].
      intros k v Hkv. destruct (HK k v (or_intror Hkv)) as (n' & -> & Hn1' & Hn2').
      exists n'. split; [reflexivity|]. split; [|exact Hn2'].
      intros X. rewrite nget_app, (Hn1' X), nget_cons.
      destruct (N.eqb_spec n' n) as [->|N]; [|reflexivity].
      exfalso. apply In_sget_some in Hkv. apply smem_false_sget in HD1. congruence.
    + rewrite (Hn2 eq_refl). rewrite IH; [rewrite <- app_assoc; reflexivity|exact HD2|].
      intros k v Hkv. apply (HK k v (or_intror Hkv)).
Qed.

Lemma nget_named_of sg kws n :
  nget (named_of sg kws) n = if nameable sg n then sget kws (KName n) else None.
Proof.
  induction kws as [|[[z|m] v] kws IH].
  - cbn [named_of sget dget nget]. destruct (nameable sg n); reflexivity.
  - cbn [named_of]. rewrite sget_cons, IH.
    rewrite (skey_eqb_neq (KName n) (KPos z)) by discriminate. reflexivity.
  - cbn [named_of]. rewrite sget_cons. destruct (N.eqb_spec n m) as [->|N].
    + rewrite skey_eqb_refl. destruct (nameable sg m) eqn:E.
      * rewrite nget_cons, N.eqb_refl. reflexivity.
      * rewrite IH. reflexivity.
    + rewrite (skey_eqb_neq (KName n) (KName m)) by congruence.
      destruct (nameable sg m); [rewrite nget_cons|]; rewrite ?IH.
      * destruct (N.eqb_spec n m); [contradiction|]. reflexivity.
      * reflexivity.
Qed.

Definition here_fv (bound : list (N * ref)) (star : list ref) (extra : list (N * ref)) (p : param)
  : option pval :=
  match pk p with
  | VarPos => Some (PTuple star)
  | VarKw => Some (PDict extra)
  | _ => match nget bound (pname p) with
         | Some v => Some (PV v)
         | None => match pdefault p with Some d => Some (PV d) | None => None end
         end
  end.

Definition here_ref (sg : sig) (st : store) (p : param) (index : nat) : option pval :=
  match pk p with
  | VarPos => Some (PTuple (varargs_of (length st) st index))
  | VarKw => Some (PDict (extras_of sg st))
  | _ => match sget st (akey p index) with
         | Some v => Some (PV v)
         | None => match pdefault p with Some d => Some (PV d) | None => None end
         end
  end.

Lemma finish_view_cons p ps bound star extra :
  finish_view (p :: ps) bound star extra =
  match here_fv bound star extra p, finish_view ps bound star extra with
  | Some x, Some rest => Some ((pname p, x) :: rest)
  | _, _ => None
  end.
Proof. reflexivity. Qed.

Lemma reference_params_cons sg p ps idx st :
  reference_params sg (p :: ps) idx st =
  match here_ref sg st p idx, reference_params sg ps (S idx) st with
  | Some x, Some rest => Some ((pname p, x) :: rest)
  | _, _ => None
  end.
Proof. unfold here_ref, akey. cbn [reference_params]. destruct (pk p); reflexivity. Qed.

Lemma here_ref_vd sg st p i :
  pk p <> VarPos -> pk p <> VarKw ->
  here_ref sg st p i = option_map PV (vd (p, sget st (akey p i))).
Proof.
  unfold here_ref, vd. cbn [fst snd]. intros H1 H2.
  destruct (pk p); try congruence; destruct (sget st (akey p i)); try reflexivity;
    destruct (pdefault p); reflexivity.
Qed.

Lemma here_fv_vd bound star extra p :
  pk p <> VarPos -> pk p <> VarKw ->
  here_fv bound star extra p = option_map PV (vd (p, nget bound (pname p))).
Proof.
  unfold here_fv, vd. cbn [fst snd]. intros H1 H2.
  destruct (pk p); try congruence; destruct (nget bound (pname p)); try reflexivity;
    destruct (pdefault p); reflexivity.
Qed.

Lemma finish_ref_pointwise sg st bound star extra ps : forall idx,
  (forall j p, nth_error ps j = Some p ->
     here_fv bound star extra p = here_ref sg st p (idx + j)) ->
  finish_view ps bound star extra = reference_params sg ps idx st.
Proof.
  induction ps as [|p ps IH]; intros idx H; [reflexivity|].
  rewrite finish_view_cons, reference_params_cons.
  rewrite (H 0%nat p eq_refl), Nat.add_0_r. rewrite (IH (S idx)); [reflexivity|].
  intros j q Hq. rewrite (H (S j) q Hq). f_equal. lia.
Qed.

Lemma reference_none sg st ps : forall idx j p,
  nth_error ps j = Some p -> here_ref sg st p (idx + j) = None ->
  reference_params sg ps idx st = None.
Proof.
  induction ps as [|q ps IH]; intros idx j p H HN; [destruct j; discriminate|].
  rewrite reference_params_cons. destruct j as [|j]; cbn [nth_error] in H.
  - inversion H; subst. rewrite Nat.add_0_r in HN. rewrite HN. reflexivity.
  - replace (idx + S j)%nat with (S idx + j)%nat in HN by lia.
    rewrite (IH (S idx) j p H HN). destruct (here_ref sg st q idx); reflexivity.
Qed.

Lemma reference_in sg st ps : forall idx vw n x,
  reference_params sg ps idx st = Some vw -> In (n, x) vw ->
  exists j p, nth_error ps j = Some p /\ pname p = n /\ here_ref sg st p (idx + j) = Some x.
Proof.
  induction ps as [|q ps IH]; intros idx vw n x H HI.
  - inversion H; subst. destruct HI.
  - rewrite reference_params_cons in H.
    destruct (here_ref sg st q idx) as [y|] eqn:E1; [|discriminate].
    destruct (reference_params sg ps (S idx) st) as [rest|] eqn:E2; [|discriminate].
    inversion H; subst. destruct HI as [HI|HI].
    + inversion HI; subst. exists 0%nat, q. rewrite Nat.add_0_r. auto.
    + destruct (IH _ _ _ _ E2 HI) as (j & p & H1 & H2 & H3). exists (S j), p.
      replace (idx + S j)%nat with (S idx + j)%nat by lia. auto.
Qed.

(* ------------------------------------------------------------------------------------------ *)
(* structure of a valid signature                                                               *)

Lemma names_distinct_NoDup sg : names_distinct sg = true -> NoDup (map pname sg).
Proof.
  induction sg as [|p sg IH]; intros H; [constructor|].
  cbn [names_distinct] in H. apply andb_true_iff in H. destruct H as [H1 H2].
  cbn [map]. constructor; [|auto].
  intros HI. apply in_map_iff in HI. destruct HI as (q & Hq1 & Hq2).
  apply negb_true_iff in H1. assert (X : existsb (fun q => N.eqb (pname q) (pname p)) sg = true).
  { apply existsb_exists. exists q. split; [exact Hq2|]. apply N.eqb_eq. exact Hq1. }
  congruence.
Qed.

Lemma find_param_some sg n p : find_param sg n = Some p -> In p sg /\ pname p = n.
Proof.
  induction sg as [|q sg IH]; [discriminate|]. cbn [find_param].
  destruct (N.eqb_spec (pname q) n) as [E|N].
  - intros H; inversion H; subst. split; [left|]; reflexivity.
  - intros H. destruct (IH H). split; [right|]; assumption.
Qed.

Lemma find_param_nodup sg p : NoDup (map pname sg) -> In p sg -> find_param sg (pname p) = Some p.
Proof.
  induction sg as [|q sg IH]; intros HN HI; [destruct HI|].
  cbn [map] in HN. inversion HN as [|? ? Hnin HN']; subst. cbn [find_param].
  destruct HI as [->|HI]; [rewrite N.eqb_refl; reflexivity|].
  destruct (N.eqb_spec (pname q) (pname p)) as [E|N]; [|auto].
  exfalso. apply Hnin. rewrite E. apply in_map, HI.
Qed.

Lemma nodup_names_nth ps i j p q :
  NoDup (map pname ps) -> nth_error ps i = Some p -> nth_error ps j = Some q ->
  pname p = pname q -> i = j /\ p = q.
Proof.
  intros HN Hi Hj E.
  assert (i = j).
  { apply (proj1 (NoDup_nth_error (map pname ps)) HN).
    - rewrite map_length. apply nth_error_Some. congruence.
    - rewrite !nth_error_map, Hi, Hj. cbn [option_map]. congruence. }
  subst. split; [reflexivity|congruence].
Qed.

Definition rk (p : param) : nat := kind_rank (pk p).

Lemma kinds_sorted_cons2 p q sg :
  kinds_sorted (p :: q :: sg) =
  (let a := rk p in let b := rk q in
   (Nat.ltb a b || (Nat.eqb a b && negb (Nat.eqb a 2) && negb (Nat.eqb a 4))))
  && kinds_sorted (q :: sg).
Proof. reflexivity. Qed.

Lemma kinds_sorted_cons sg : forall p,
  kinds_sorted (p :: sg) = true ->
  kinds_sorted sg = true /\
  Forall (fun q => (rk p <= rk q)%nat /\ (pk p = VarPos -> pk q <> VarPos)) sg.
Proof.
  induction sg as [|q sg IH]; intros p H; [split; [reflexivity|constructor]|].
  rewrite kinds_sorted_cons2 in H. apply andb_true_iff in H. destruct H as [Hc Hs].
  split; [exact Hs|]. destruct (IH q Hs) as [_ HF].
  assert (A : (rk p <= rk q)%nat /\ (pk p = VarPos -> (2 < rk q)%nat)).
  { unfold rk in *. destruct (pk p), (pk q); cbn in Hc; try discriminate;
      (split; [cbn; lia|intros X; try discriminate X; cbn; lia]). }
  destruct A as [A1 A2]. constructor.
  - split; [exact A1|]. intros X Y. specialize (A2 X). unfold rk in A2. rewrite Y in A2. cbn in A2. lia.
  - eapply Forall_impl; [|exact HF]. cbn beta. intros x [X1 X2]. split; [lia|].
    intros X Y. specialize (A2 X). unfold rk in *. rewrite Y in X1. cbn in X1. lia.
Qed.

Lemma sorted_split r sg :
  kinds_sorted sg = true ->
  exists l1 l2, sg = l1 ++ l2 /\ Forall (fun p => (rk p <= r)%nat) l1 /\
                Forall (fun p => (r < rk p)%nat) l2 /\ kinds_sorted l2 = true.
Proof.
  induction sg as [|p sg IH]; intros H.
  - exists [], []. repeat split; constructor.
  - destruct (kinds_sorted_cons sg p H) as [Hs HF]. destruct (le_lt_dec (rk p) r) as [L|L].
    + destruct (IH Hs) as (l1 & l2 & E & F1 & F2 & S2). exists (p :: l1), l2. subst.
      repeat split; try assumption. constructor; assumption.
    + exists [], (p :: sg). repeat split; try assumption; [constructor|].
      constructor; [exact L|]. eapply Forall_impl; [|exact HF]. cbn beta. intros x [X _]. lia.
Qed.

Lemma vps_from_cons p sg k :
  vps_from (p :: sg) k = match pk p with VarPos => Some k | _ => vps_from sg (S k) end.
Proof. reflexivity. Qed.

Lemma vps_from_novp sg : forall k, Forall (fun p => pk p <> VarPos) sg -> vps_from sg k = None.
Proof.
  induction sg as [|p sg IH]; intros k H; [reflexivity|].
  inversion H as [|? ? Hp HF]; subst. rewrite vps_from_cons.
  destruct (pk p); try congruence; apply IH, HF.
Qed.

Lemma vps_from_app l1 : forall l2 k,
  Forall (fun p => pk p <> VarPos) l1 -> vps_from (l1 ++ l2) k = vps_from l2 (k + length l1).
Proof.
  induction l1 as [|p l1 IH]; intros l2 k H.
  - cbn [app length]. rewrite Nat.add_0_r. reflexivity.
  - inversion H as [|? ? Hp HF]; subst. cbn [app length]. rewrite vps_from_cons.
    replace (k + S (length l1))%nat with (S k + length l1)%nat by lia.
    destruct (pk p); try congruence; apply IH, HF.
Qed.

Lemma vps_unique sg : forall k j p,
  kinds_sorted sg = true -> nth_error sg j = Some p -> pk p = VarPos ->
  vps_from sg k = Some (k + j)%nat.
Proof.
  induction sg as [|q sg IH]; intros k j p HS H HK; [destruct j; discriminate|].
  destruct (kinds_sorted_cons sg q HS) as [HS' HF]. rewrite vps_from_cons.
  destruct j as [|j]; cbn [nth_error] in H.
  - inversion H; subst. rewrite HK, Nat.add_0_r. reflexivity.
  - replace (k + S j)%nat with (S k + j)%nat by lia.
    pose proof (nth_error_In _ _ H) as HI. rewrite Forall_forall in HF.
    destruct (HF p HI) as [_ X].
    destruct (pk q) eqn:Kq; try (apply (IH (S k) j p HS' H HK)).
    exfalso. apply X; [reflexivity|exact HK].
Qed.

Lemma vps_split pre post s :
  Forall (fun p => (rk p <= 1)%nat) pre -> Forall (fun p => (1 < rk p)%nat) post ->
  kinds_sorted post = true -> vps (pre ++ post) = Some s -> s = length pre.
Proof.
  intros F1 F2 HS H. unfold vps in H. rewrite vps_from_app in H.
  2:{ eapply Forall_impl; [|exact F1]. cbn beta. intros x X Y. unfold rk in X. rewrite Y in X. cbn in X. lia. }
  cbn [Nat.add] in H. destruct post as [|q post]; [discriminate|].
  rewrite vps_from_cons in H. inversion F2 as [|? ? Hq F2']; subst.
  destruct (kinds_sorted_cons post q HS) as [_ HF].
  assert (N : pk q <> VarPos -> vps_from post (S (length pre)) = None).
  { intros N. apply vps_from_novp. eapply Forall_impl; [|exact HF]. cbn beta.
    intros x [X _] Y. unfold rk in *. rewrite Y in X. destruct (pk q); cbn in *; try lia. congruence. }
  destruct (pk q); try (rewrite N in H by discriminate; discriminate).
  inversion H; reflexivity.
Qed.

Lemma filter_all {A} (f : A -> bool) l : Forall (fun x => f x = true) l -> filter f l = l.
Proof.
  induction l as [|x l IH]; intros H; [reflexivity|]. inversion H; subst.
  cbn [filter]. rewrite H2, IH by assumption. reflexivity.
Qed.

Lemma filter_none {A} (f : A -> bool) l : Forall (fun x => f x = false) l -> filter f l = [].
Proof.
  induction l as [|x l IH]; intros H; [reflexivity|]. inversion H; subst.
  cbn [filter]. rewrite H2, IH by assumption. reflexivity.
Qed.

Lemma rk_prefix p : is_prefix_kind (pk p) = true <-> (rk p <= 1)%nat.
Proof. unfold rk. destruct (pk p); cbn; split; intros; try lia; try reflexivity; discriminate. Qed.

Lemma prefix_params_split pre post :
  Forall (fun p => (rk p <= 1)%nat) pre -> Forall (fun p => (1 < rk p)%nat) post ->
  prefix_params (pre ++ post) = pre.
Proof.
  intros F1 F2. unfold prefix_params. rewrite filter_app, filter_all, filter_none.
  - apply app_nil_r.
  - eapply Forall_impl; [|exact F2]. cbn beta. intros x X.
    destruct (is_prefix_kind (pk x)) eqn:E; [|reflexivity]. apply rk_prefix in E. lia.
  - eapply Forall_impl; [|exact F1]. cbn beta. intros x X. apply rk_prefix. exact X.
Qed.

Lemma nth_error_app_act {A} (act inert : list A) (P : A -> Prop) j p :
  Forall (fun x => ~ P x) inert -> nth_error (act ++ inert) j = Some p -> P p ->
  nth_error act j = Some p.
Proof.
  intros HF H HP. destruct (lt_dec j (length act)) as [L|L].
  - rewrite nth_error_app1 in H by exact L. exact H.
  - rewrite nth_error_app2 in H by lia. apply nth_error_In in H.
    rewrite Forall_forall in HF. exfalso. apply (HF p H HP).
Qed.

(* ------------------------------------------------------------------------------------------ *)
(* the core: from a description of (positional list, remaining store) to the reference view     *)

Lemma nodup_app_disj {A} (l1 l2 : list A) x : NoDup (l1 ++ l2) -> In x l1 -> In x l2 -> False.
Proof.
  induction l1 as [|y l1 IH]; intros HN H1 H2; [destruct H1|].
  cbn [app] in HN. inversion HN as [|? ? Hnin HN']; subst. destruct H1 as [->|H1].
  - apply Hnin. apply in_or_app. right; exact H2.
  - apply IH; assumption.
Qed.

Lemma nodup_app_l {A} (l1 l2 : list A) : NoDup (l1 ++ l2) -> NoDup l1.
Proof.
  induction l1 as [|y l1 IH]; intros HN; [constructor|].
  cbn [app] in HN. inversion HN as [|? ? Hnin HN']; subst. constructor; [|auto].
  intros X. apply Hnin. apply in_or_app. left; exact X.
Qed.

Lemma nameable_param sg p :
  NoDup (map pname sg) -> In p sg ->
  nameable sg (pname p) = match pk p with PosOrKw | KwOnly => true | _ => false end.
Proof. intros HN HI. unfold nameable. rewrite (find_param_nodup sg p HN HI). reflexivity. Qed.

Lemma core sg st act inert pos1 lo rest :
  sg = act ++ inert ->
  NoDup (map pname sg) ->
  Forall (fun p => is_prefix_kind (pk p) = true) act ->
  Forall (fun p => pk p <> PosOnly) inert ->
  bind_positional sg (pos1 ++ lo) [] = (combine (map pname act) pos1, lo) ->
  (lo = [] \/ vps sg <> None) ->
  ((forall p, In p act -> pk p = PosOnly) \/ length pos1 = length act) ->
  keys_distinct rest = true ->
  (forall k v, In (k, v) rest ->
     exists n, k = KName n /\ (nameable sg n = true -> ~ In n (map pname act))
               /\ (nameable sg n = false -> has_var_kw sg = true)) ->
  (forall p, In p inert -> sget rest (KName (pname p)) = sget st (KName (pname p))) ->
  extras_of sg rest = extras_of sg st ->
  (forall j p, nth_error act j = Some p ->
     vd (p, nth_error pos1 j) = vd (p, sget st (akey p j))) ->
  (forall j p, nth_error sg j = Some p -> pk p = VarPos -> lo = varargs_of (length st) st j) ->
  py_call sg (pos1 ++ lo) rest = reference_view sg st.
Proof.
  intros Hsg HN HFa HFi Hbind Hlo Hmode HD HK Hc Hd H4 H5.
  unfold py_call. rewrite Hbind.
  assert (Hstar : negb (match lo, vps sg with [] , _ => true | _ :: _, Some _ => true
                                         | _ :: _, None => false end) = false).
  { destruct lo; [reflexivity|]. destruct (vps sg); [reflexivity|].
    destruct Hlo as [X|X]; [discriminate|congruence]. }
  rewrite Hstar.
  rewrite (bind_keywords_spec sg rest (combine (map pname act) pos1) [] HD).
  2:{ intros k v Hkv. destruct (HK k v Hkv) as (n & -> & A & B). exists n.
      split; [reflexivity|]. split; [|exact B]. intros X. apply nget_combine_notin, A, X. }
  cbn [app]. unfold reference_view. apply finish_ref_pointwise. intros j p Hj. cbn [Nat.add].
  assert (HNa : NoDup (map pname act)).
  { rewrite Hsg, map_app in HN. eapply nodup_app_l; exact HN. }
  assert (Hpin : In p sg) by (eapply nth_error_In; exact Hj).
  pose proof Hj as Hj0.
  destruct (lt_dec j (length act)) as [L|L].
  - (* an active positional parameter *)
    rewrite Hsg, nth_error_app1 in Hj by exact L.
    assert (Hpk : is_prefix_kind (pk p) = true).
    { rewrite Forall_forall in HFa. apply HFa. eapply nth_error_In; exact Hj. }
    assert (K1 : pk p <> VarPos) by (intros X; rewrite X in Hpk; discriminate).
    assert (K2 : pk p <> VarKw) by (intros X; rewrite X in Hpk; discriminate).
    rewrite here_fv_vd, here_ref_vd by assumption. f_equal.
    rewrite <- (H4 j p Hj). rewrite nget_app, (nget_combine_nth act pos1 j p HNa Hj).
    destruct (nth_error pos1 j) as [v|] eqn:E; [reflexivity|].
    rewrite nget_named_of.
    destruct Hmode as [Hm|Hm].
    + rewrite (nameable_param sg p HN Hpin), (Hm p (nth_error_In _ _ Hj)). reflexivity.
    + exfalso. apply nth_error_None in E. lia.
  - (* a parameter that is not bound positionally *)
    rewrite Hsg, nth_error_app2 in Hj by lia.
    assert (Hpi : In p inert) by (eapply nth_error_In; exact Hj).
    assert (Hnot : ~ In (pname p) (map pname act)).
    { intros X. rewrite Hsg, map_app in HN. eapply nodup_app_disj; [exact HN|exact X|].
      apply in_map, Hpi. }
    assert (Hnm : pk p <> VarPos -> pk p <> VarKw ->
                  here_fv (combine (map pname act) pos1 ++ named_of sg rest) lo (extras_of sg rest) p
                  = here_ref sg st p j).
    { intros K1 K2. rewrite here_fv_vd, here_ref_vd by assumption. f_equal.
      rewrite nget_app, (nget_combine_notin _ pos1 _ Hnot), nget_named_of.
      rewrite (nameable_param sg p HN Hpin).
      assert (K3 : pk p <> PosOnly) by (rewrite Forall_forall in HFi; apply HFi, Hpi).
      unfold akey. destruct (pk p); try congruence; rewrite (Hc p Hpi); reflexivity. }
    destruct (pk p) eqn:K.
    + apply Hnm; discriminate.
    + apply Hnm; discriminate.
    + unfold here_fv, here_ref. rewrite K. rewrite (H5 j p Hj0 K). reflexivity.
    + apply Hnm; discriminate.
    + unfold here_fv, here_ref. rewrite K, Hd. reflexivity.
Qed.

(* ------------------------------------------------------------------------------------------ *)
(* consuming the storage invariant                                                              *)

Lemma nat_seq_in len : forall a j, In j (nat_seq a len) <-> (a <= j < a + len)%nat.
Proof.
  induction len as [|len IH]; intros a j; cbn [nat_seq In].
  - split; [intros []|lia].
  - rewrite IH. lia.
Qed.

Lemma inv01_keys sg st :
  inv01_b sg st = true ->
  keys_distinct st = true /\ forall k v, In (k, v) st -> key_ok01 sg st k = true.
Proof.
  unfold inv01_b. intros H. apply andb_true_iff in H. destruct H as [H1 H2].
  split; [exact H1|]. intros k v HI. rewrite forallb_forall in H2. apply (H2 (k, v) HI).
Qed.

Lemma key_ok_name sg st n :
  key_ok01 sg st (KName n) = true -> nameable sg n = false -> has_var_kw sg = true.
Proof.
  unfold key_ok01, key_ok, nameable.
  destruct (find_param sg n) as [p|]; [destruct (pk p)|]; cbn [orb];
    intros H X; try discriminate; try exact H; apply orb_true_iff in H; destruct H; assumption.
Qed.

Lemma key_ok_pos sg st z pre :
  key_ok01 sg st (KPos z) = true -> prefix_params sg = pre ->
  exists i, z = Z.of_nat i /\
    ((exists p, nth_error pre i = Some p /\ pk p = PosOnly) \/
     ((length pre <= i)%nat /\ vps sg <> None /\
      forall j, (length pre <= j < i)%nat -> smem st (kpos j) = true)).
Proof.
  unfold key_ok01, key_ok, n0, n_prefix. intros H <-.
  apply andb_true_iff in H. destruct H as [H0 H]. apply Z.leb_le in H0.
  exists (Z.to_nat z). split; [lia|].
  destruct (z <? Z.of_nat (length (prefix_params sg))) eqn:E.
  - left. destruct (nth_error (prefix_params sg) (Z.to_nat z)) as [p|]; [|discriminate].
    exists p. split; [reflexivity|]. unfold pkind_eqb in H.
    destruct (pkind_eq_dec (pk p) PosOnly); [assumption|discriminate].
  - right. apply Z.ltb_ge in E. apply andb_true_iff in H. destruct H as [H1 H2].
    split; [lia|]. split.
    + unfold has_varpos in H1. destruct (vps sg); [discriminate|discriminate H1].
    + intros j Hj. rewrite forallb_forall in H2. apply H2. apply nat_seq_in. lia.
Qed.

Definition nonextra (sg : sig) (k : skey) : bool :=
  match k with KPos _ => true | KName n => nameable sg n end.

Lemma extras_of_sdel sg k st : nonextra sg k = true -> extras_of sg (sdel st k) = extras_of sg st.
Proof.
  intros H. induction st as [|[k0 v0] st IH]; [reflexivity|].
  rewrite sdel_cons. destruct (skey_eqb k k0) eqn:E.
  - apply skey_eqb_eq in E; subst. destruct k0 as [z|n]; [reflexivity|].
    rewrite extras_of_cons_name. cbn [nonextra] in H. rewrite H. reflexivity.
  - destruct k0 as [z|n].
    + cbn [extras_of]. exact IH.
    + rewrite !extras_of_cons_name, IH. reflexivity.
Qed.

Lemma extras_of_sdels sg ks : forall st,
  Forall (fun k => nonextra sg k = true) ks -> extras_of sg (sdels ks st) = extras_of sg st.
Proof.
  induction ks as [|k ks IH]; intros st H; [reflexivity|]. inversion H; subst.
  rewrite sdels_cons, IH by assumption. apply extras_of_sdel. assumption.
Qed.

Lemma rest_common sg st act inert ks2 :
  sg = act ++ inert -> NoDup (map pname sg) ->
  Forall (fun p => is_prefix_kind (pk p) = true) act ->
  keys_distinct st = true ->
  (forall k, In k ks2 -> exists i, k = kpos i) ->
  let rest := sdels (ksof st act 0 ++ ks2) st in
  keys_distinct rest = true /\
  (forall p, In p inert -> sget rest (KName (pname p)) = sget st (KName (pname p))) /\
  extras_of sg rest = extras_of sg st /\
  (forall n v, In (KName n, v) rest -> nameable sg n = true -> ~ In n (map pname act)) /\
  (forall i p v, nth_error act i = Some p -> pk p = PosOnly -> ~ In (kpos i, v) rest) /\
  (forall kv, In kv rest -> In kv st).
Proof.
  intros Hsg HN HFa HD Hks2 rest.
  assert (Hact : forall p, In p act -> In p sg) by (intros p X; rewrite Hsg; apply in_or_app; left; exact X).
  assert (Hsub : forall kv, In kv rest -> In kv st) by (intros kv; apply In_sdels).
  repeat split.
  - apply keys_distinct_sdels, HD.
  - intros p Hp. apply sget_sdels_notin. intros X. apply in_app_or in X. destruct X as [X|X].
    + apply ksof_in in X. destruct X as (j & q & Hq & E & _). unfold akey in E.
      assert (E' : pname p = pname q)
        by (destruct (pk q); try discriminate E; inversion E; reflexivity).
      rewrite Hsg, map_app in HN. eapply nodup_app_disj; [exact HN| |apply in_map, Hp].
      rewrite E'. apply in_map. eapply nth_error_In; exact Hq.
    + destruct (Hks2 _ X) as [i E]. discriminate E.
  - apply extras_of_sdels. apply Forall_forall. intros k X. apply in_app_or in X. destruct X as [X|X].
    + apply ksof_in in X. destruct X as (j & q & Hq & E & _). subst k.
      pose proof (nth_error_In _ _ Hq) as Hqa. rewrite Forall_forall in HFa. specialize (HFa q Hqa).
      unfold akey. destruct (pk q) eqn:K; try discriminate HFa; [reflexivity|].
      cbn [nonextra]. rewrite (nameable_param sg q HN (Hact q Hqa)), K. reflexivity.
    + destruct (Hks2 _ X) as [i ->]. reflexivity.
  - intros n v HI Hn X. apply in_map_iff in X. destruct X as (q & <- & Hqa).
    destruct (In_nth_error _ _ Hqa) as [j Hj].
    rewrite (nameable_param sg q HN (Hact q Hqa)) in Hn.
    rewrite Forall_forall in HFa. specialize (HFa q Hqa).
    assert (K : akey q (0 + j) = KName (pname q)).
    { unfold akey. destruct (pk q); try discriminate; reflexivity. }
    assert (S1 : sget st (KName (pname q)) <> None) by (eapply In_sget_some, Hsub, HI).
    assert (S2 : sget rest (KName (pname q)) = None).
    { apply sget_sdels_in; [exact HD|]. apply in_or_app. left. rewrite <- K.
      apply ksof_complete; [exact Hj|]. rewrite K. exact S1. }
    apply In_sget_some in HI. congruence.
  - intros i p v Hi K HI.
    assert (Ka : akey p (0 + i) = kpos i) by (unfold akey; rewrite K; reflexivity).
    assert (S1 : sget st (kpos i) <> None) by (eapply In_sget_some, Hsub, HI).
    assert (S2 : sget rest (kpos i) = None).
    { apply sget_sdels_in; [exact HD|]. apply in_or_app. left. rewrite <- Ka.
      apply ksof_complete; [exact Hi|]. rewrite Ka. exact S1. }
    apply In_sget_some in HI. congruence.
  - exact Hsub.
Qed.

(* ------------------------------------------------------------------------------------------ *)
(* the two modes of transform_build                                                             *)

Lemma full_none_reference sg st act inert :
  sg = act ++ inert -> Forall (fun p => is_prefix_kind (pk p) = true) act ->
  full (lk st act 0) = None -> reference_view sg st = None.
Proof.
  intros Hsg HFa H. unfold full in H. apply all_some_none_nth in H. destruct H as [j H].
  rewrite nth_error_map in H.
  destruct (nth_error (lk st act 0) j) as [e|] eqn:El; [|discriminate H].
  cbn [option_map] in H. inversion H as [Hv]. clear H.
  assert (L : (j < length act)%nat).
  { rewrite <- (lk_length st act 0). apply nth_error_Some. congruence. }
  destruct (nth_error act j) as [p|] eqn:Ea; [|apply nth_error_None in Ea; lia].
  rewrite (lk_nth st act 0 j p Ea) in El. inversion El; subst e. cbn [Nat.add] in Hv.
  unfold reference_view. apply (reference_none sg st sg 0 j p).
  - rewrite Hsg, nth_error_app1 by exact L. exact Ea.
  - cbn [Nat.add]. rewrite Forall_forall in HFa. specialize (HFa p (nth_error_In _ _ Ea)).
    rewrite here_ref_vd, Hv; [reflexivity| |]; intros X; rewrite X in HFa; discriminate.
Qed.

Lemma varargs_of_empty f st i : sget st (kpos i) = None -> varargs_of f st i = [].
Proof. intros H. destruct f; [reflexivity|]. rewrite varargs_of_S, H. reflexivity. Qed.

Lemma varargs_of_nonempty st i v : sget st (kpos i) = Some v -> varargs_of (length st) st i <> [].
Proof.
  intros H. destruct st as [|kv st]; [discriminate|]. cbn [length]. rewrite varargs_of_S, H. discriminate.
Qed.

Lemma valid_sig_parts sg :
  valid_sig sg = true -> kinds_sorted sg = true /\ NoDup (map pname sg).
Proof.
  unfold valid_sig. intros H. repeat (apply andb_true_iff in H; destruct H as [H ?]).
  split; [assumption|]. apply names_distinct_NoDup. assumption.
Qed.

Lemma build_vin sg st s :
  valid_sig sg = true -> inv01_b sg st = true ->
  vps sg = Some s -> smem st (kpos s) = true ->
  build1 sg st = reference_view sg st.
Proof.
  intros HV HI Hvps Hmem.
  destruct (valid_sig_parts sg HV) as [HS HN].
  destruct (inv01_keys sg st HI) as [HD HK].
  destruct (sorted_split 1 sg HS) as (act & inert & Hsg & F1 & F2 & S2).
  assert (Hs : s = length act) by (rewrite Hsg in Hvps; eapply vps_split; eassumption).
  assert (Hpre : prefix_params sg = act) by (rewrite Hsg; apply prefix_params_split; assumption).
  assert (HFa : Forall (fun p => is_prefix_kind (pk p) = true) act).
  { eapply Forall_impl; [|exact F1]. cbn beta. intros x X. apply rk_prefix, X. }
  assert (HAa : Forall (fun p => active true p = true) act).
  { eapply Forall_impl; [|exact F1]. cbn beta. unfold rk, active. intros x X.
    destruct (pk x); cbn in X; try lia; reflexivity. }
  assert (HAi : Forall (fun p => active true p = false) inert).
  { eapply Forall_impl; [|exact F2]. cbn beta. unfold rk, active. intros x X.
    destruct (pk x); cbn in X; try lia; reflexivity. }
  assert (HFi : Forall (fun p => pk p <> PosOnly) inert).
  { eapply Forall_impl; [|exact F2]. cbn beta. unfold rk. intros x X Y. rewrite Y in X. cbn in X. lia. }
  assert (HNa : NoDup (map pname act)).
  { rewrite Hsg, map_app in HN. eapply nodup_app_l; exact HN. }
  destruct (smem_true_sget _ _ Hmem) as [v0 Hv0].
  unfold build1, transform_build. rewrite Hvps, Hmem.
  rewrite Hsg at 1. rewrite (tb_params_spec true inert HAi act 0 st [] [] HAa HNa).
  pose proof (pos_of_fill (lk st act 0) [] []) as Q. cbn [fill_skipped app] in Q.
  destruct (pos_of (lk st act 0) [] []) as [[acc' sk']|] eqn:Epos.
  2:{ destruct (full (lk st act 0)) eqn:Ef; [discriminate Q|].
      symmetry. eapply full_none_reference; eassumption. }
  set (rest0 := sdels (ksof st act 0) st).
  set (vs := varargs_of (length st) st s).
  assert (Hvs : varargs_of (length rest0) rest0 s = vs).
  { rewrite <- (varargs_of_fuel rest0 s (length st)) by apply length_sdels.
    apply varargs_of_ext. intros j Hj. apply sget_sdels_notin. intros X.
    apply ksof_in in X. destruct X as (j' & q & Hq & E & _).
    assert (j' < length act)%nat by (apply nth_error_Some; congruence).
    unfold akey in E. destruct (pk q); try discriminate E. apply kpos_inj in E. lia. }
  rewrite tb_varargs_spec, Hvs.
  assert (Hne : vs <> []) by (eapply varargs_of_nonempty; exact Hv0).
  destruct vs as [|v1 vs'] eqn:Evs; [congruence|]. rewrite <- Evs. clear Hne.
  rewrite Q.
  destruct (full (lk st act 0)) as [a|] eqn:Ef.
  2:{ symmetry. eapply full_none_reference; eassumption. }
  assert (La : length a = length act).
  { unfold full in Ef. apply all_some_length in Ef. rewrite map_length, lk_length in Ef. exact Ef. }
  unfold rest0. rewrite <- sdels_app.
  destruct (rest_common sg st act inert (map kpos (seq s (length vs))) Hsg HN HFa HD)
    as (R1 & R2 & R3 & R4 & R5 & R6).
  { intros k X. apply in_map_iff in X. destruct X as (i & <- & _). exists i. reflexivity. }
  apply core with (act := act) (inert := inert); try assumption.
  - rewrite Hsg. rewrite bind_positional_full; [reflexivity|exact HFa|exact La|].
    destruct inert as [|q inert]; [exact I|]. inversion F2 as [|? ? Hq ?]; subst.
    destruct (is_prefix_kind (pk q)) eqn:E; [|reflexivity]. apply rk_prefix in E. lia.
  - right. congruence.
  - right. exact La.
  - intros k v Hkv. pose proof (R6 _ Hkv) as Hst. specialize (HK k v Hst). destruct k as [z|n].
    + exfalso. destruct (key_ok_pos sg st z act HK Hpre) as (i & -> & [(p & Hp & Kp)|(Li & _ & Hc)]).
      * apply (R5 i p v Hp Kp). exact Hkv.
      * fold (kpos i) in Hkv, Hst.
        destruct (lt_dec i (s + length vs)) as [L|L].
        -- assert (X : sget (sdels (ksof st act 0 ++ map kpos (seq s (length vs))) st) (kpos i) = None).
           { apply sget_sdels_in; [exact HD|]. apply in_or_app. right. apply in_map, in_seq. lia. }
           apply In_sget_some in Hkv. congruence.
        -- pose proof (varargs_of_maximal st s) as M. fold vs in M.
           destruct (Nat.eq_dec i (s + length vs)) as [E|E].
           ++ apply In_sget_some in Hst. congruence.
           ++ specialize (Hc (s + length vs)%nat ltac:(lia)). apply smem_true_sget in Hc.
              destruct Hc as [w Hw]. congruence.
    + exists n. split; [reflexivity|]. split.
      * intros X. eapply R4; eassumption.
      * intros X. eapply key_ok_name; eassumption.
  - intros j p Hj. unfold full in Ef. apply all_some_map in Ef.
    assert (X : nth_error (map vd (lk st act 0)) j = Some (vd (p, sget st (akey p j)))).
    { rewrite nth_error_map, (lk_nth st act 0 j p Hj). reflexivity. }
    rewrite Ef, nth_error_map in X. destruct (nth_error a j) as [x|]; [|discriminate X].
    cbn [option_map] in X. change (vd (p, Some x)) with (Some x). congruence.
  - intros j p Hj Kp. pose proof (vps_unique sg 0 j p HS Hj Kp) as U. fold (vps sg) in U.
    cbn [Nat.add] in U. rewrite Hvps in U. inversion U; subst j. reflexivity.
Qed.

Lemma build_novin sg st :
  valid_sig sg = true -> inv01_b sg st = true ->
  match vps sg with Some s => smem st (kpos s) | None => false end = false ->
  build1 sg st = reference_view sg st.
Proof.
  intros HV HI Hvin.
  destruct (valid_sig_parts sg HV) as [HS HN].
  destruct (inv01_keys sg st HI) as [HD HK].
  destruct (sorted_split 0 sg HS) as (act & inert & Hsg & F1 & F2 & S2).
  destruct (sorted_split 1 sg HS) as (pre & post & Hsg' & G1 & G2 & T2).
  assert (Hpre : prefix_params sg = pre) by (rewrite Hsg'; apply prefix_params_split; assumption).
  assert (Hall : forall p, In p act -> pk p = PosOnly).
  { rewrite Forall_forall in F1. intros p Hp. specialize (F1 p Hp). unfold rk in F1.
    destruct (pk p); cbn in F1; try lia; reflexivity. }
  assert (HFa : Forall (fun p => is_prefix_kind (pk p) = true) act).
  { apply Forall_forall. intros p Hp. rewrite (Hall p Hp). reflexivity. }
  assert (HAa : Forall (fun p => active false p = true) act).
  { apply Forall_forall. intros p Hp. unfold active. rewrite (Hall p Hp). reflexivity. }
  assert (HAi : Forall (fun p => active false p = false) inert).
  { eapply Forall_impl; [|exact F2]. cbn beta. unfold rk, active. intros x X.
    destruct (pk x); cbn in X; try lia; reflexivity. }
  assert (HFi : Forall (fun p => pk p <> PosOnly) inert).
  { eapply Forall_impl; [|exact F2]. cbn beta. unfold rk. intros x X Y. rewrite Y in X. cbn in X. lia. }
  assert (HNa : NoDup (map pname act)).
  { rewrite Hsg, map_app in HN. eapply nodup_app_l; exact HN. }
  unfold build1, transform_build. cbv zeta. rewrite Hvin.
  rewrite Hsg at 1. rewrite (tb_params_spec false inert HAi act 0 st [] [] HAa HNa).
  pose proof (pos_of_fill (lk st act 0) [] []) as Q. cbn [fill_skipped app] in Q.
  destruct (pos_of (lk st act 0) [] []) as [[acc' sk']|] eqn:Epos.
  2:{ destruct (full (lk st act 0)) eqn:Ef; [discriminate Q|].
      symmetry. exact (full_none_reference sg st act inert Hsg HFa Ef). }
  clear Q.
  set (rest0 := sdels (ksof st act 0) st).
  assert (Htv : match vps sg with
                | Some s => tb_varargs (length rest0) rest0 s sk' acc'
                | None => Some (acc', rest0)
                end = Some (acc', rest0)).
  { destruct (vps sg) as [s|] eqn:Ev; [|reflexivity].
    rewrite tb_varargs_spec, varargs_of_empty; [reflexivity|].
    apply sget_sdels_none, smem_false_sget, Hvin. }
  rewrite Htv. clear Htv.
  destruct (rest_common sg st act inert [] Hsg HN HFa HD) as (R1 & R2 & R3 & R4 & R5 & R6).
  { intros k []. }
  rewrite app_nil_r in R1, R2, R3, R4, R5, R6. fold rest0 in R1, R2, R3, R4, R5, R6.
  replace acc' with (acc' ++ []) by apply app_nil_r.
  apply core with (act := act) (inert := inert); try assumption.
  - rewrite app_nil_r. rewrite Hsg. rewrite bind_positional_short; [reflexivity|exact HFa|].
    apply pos_of_length in Epos. rewrite lk_length in Epos. cbn [length] in Epos. lia.
  - left. reflexivity.
  - left. exact Hall.
  - intros k v Hkv. pose proof (R6 _ Hkv) as Hst. specialize (HK k v Hst). destruct k as [z|n].
    + exfalso. destruct (key_ok_pos sg st z pre HK Hpre) as (i & -> & [(p & Hp & Kp)|(Li & Hv & Hc)]).
      * assert (Hsgi : nth_error sg i = Some p).
        { rewrite Hsg', nth_error_app1; [exact Hp|]. apply nth_error_Some. congruence. }
        rewrite Hsg in Hsgi.
        assert (Hai : nth_error act i = Some p).
        { apply (nth_error_app_act act inert (fun p => pk p = PosOnly) i p HFi Hsgi Kp). }
        apply (R5 i p v Hai Kp). exact Hkv.
      * fold (kpos i) in Hkv, Hst.
        destruct (vps sg) as [s|] eqn:Ev; [|congruence].
        assert (Hs : s = length pre) by (rewrite Hsg' in Ev; eapply vps_split; eassumption).
        apply smem_false_sget in Hvin.
        destruct (Nat.eq_dec i s) as [E|E].
        -- subst i. apply In_sget_some in Hst. congruence.
        -- specialize (Hc s ltac:(lia)). apply smem_true_sget in Hc. destruct Hc as [w Hw]. congruence.
    + exists n. split; [reflexivity|]. split.
      * intros X. eapply R4; eassumption.
      * intros X. eapply key_ok_name; eassumption.
  - intros j p Hj. pose proof (pos_of_pview _ _ _ _ _ Epos [] eq_refl) as P.
    cbn [app map] in P. rewrite lk_fst in P.
    pose proof (pview_nth act acc' j p Hj) as P1. rewrite P in P1.
    rewrite nth_error_map, (lk_nth st act 0 j p Hj) in P1. cbn [option_map Nat.add] in P1.
    inversion P1 as [P2]. rewrite P2. unfold vd. cbn [fst snd]. reflexivity.
  - intros j p Hj Kp. pose proof (vps_unique sg 0 j p HS Hj Kp) as U. fold (vps sg) in U.
    cbn [Nat.add] in U. rewrite U in Hvin. symmetry. apply varargs_of_empty, smem_false_sget, Hvin.
Qed.

Theorem build_binds_exactly : forall sg st,
  valid_sig sg = true -> inv01_b sg st = true -> build1 sg st = reference_view sg st.
Proof.
  intros sg st HV HI.
  destruct (match vps sg with Some s => smem st (kpos s) | None => false end) eqn:E.
  - destruct (vps sg) as [s|] eqn:Ev; [|discriminate]. eapply build_vin; eassumption.
  - apply build_novin; assumption.
Qed.

(* no value is ever bound to a different parameter *)
Corollary no_value_moves : forall sg st vw,
  valid_sig sg = true -> inv01_b sg st = true -> build1 sg st = Some vw ->
  forall p i x, nth_error sg i = Some p ->
  (pk p = PosOnly \/ pk p = PosOrKw \/ pk p = KwOnly) ->
  In (pname p, PV x) vw ->
  let key := match pk p with PosOnly => kpos i | _ => KName (pname p) end in
  (sget st key = Some x) \/ (sget st key = None /\ pdefault p = Some x).
Proof.
  intros sg st vw HV HI HB p i x Hi Hk HIn key.
  rewrite (build_binds_exactly sg st HV HI) in HB. unfold reference_view in HB.
  destruct (reference_in sg st sg 0 vw (pname p) (PV x) HB HIn) as (j & q & Hj & Hn & Hr).
  destruct (valid_sig_parts sg HV) as [_ HN].
  destruct (nodup_names_nth sg j i q p HN Hj Hi Hn) as [-> ->].
  cbn [Nat.add] in Hr. unfold here_ref in Hr. fold (akey p i) in key. subst key.
  destruct Hk as [K|[K|K]]; rewrite K in Hr;
    (destruct (sget st (akey p i)) as [v|];
     [left; inversion Hr; reflexivity
     |right; split; [reflexivity|]; destruct (pdefault p); inversion Hr; reflexivity]).
Qed.

(* ------------------------------------------------------------------------------------------ *)
(* non-vacuity: def f(a, b=10, /, c=20, d=30, *args, k, m=5, **kw)
   names: a=1 b=2 c=3 d=4 args=5 k=6 m=7 kw=8; an extra keyword z=9 *)
Definition ex_sg : sig :=
  [ mkparam 1 PosOnly None false;
    mkparam 2 PosOnly (Some (RA (AInt 10))) false;
    mkparam 3 PosOrKw (Some (RA (AInt 20))) false;
    mkparam 4 PosOrKw (Some (RA (AInt 30))) false;
    mkparam 5 VarPos None false;
    mkparam 6 KwOnly None false;
    mkparam 7 KwOnly (Some (RA (AInt 5))) false;
    mkparam 8 VarKw None false ].

(* Config(f, 1, c=33, k=66, z=99) then cfg[4:] = [100, 101]:
   b (unset, has a default) lies before c (set); d (unset) lies before the *args run *)
Definition ex_st : store :=
  [ (KPos 0, RA (AInt 1)); (KName 3, RA (AInt 33)); (KPos 4, RA (AInt 100));
    (KPos 5, RA (AInt 101)); (KName 6, RA (AInt 66)); (KName 9, RA (AInt 99)) ].

Example ex_nonvacuous :
  valid_sig ex_sg = true /\ inv01_b ex_sg ex_st = true /\
  build1 ex_sg ex_st =
  Some [ (1%N, PV (RA (AInt 1))); (2%N, PV (RA (AInt 10))); (3%N, PV (RA (AInt 33)));
         (4%N, PV (RA (AInt 30))); (5%N, PTuple [RA (AInt 100); RA (AInt 101)]);
         (6%N, PV (RA (AInt 66))); (7%N, PV (RA (AInt 5)));
         (8%N, PDict [(9%N, RA (AInt 99))]) ].
Proof. vm_compute. repeat split. Qed.

(* the same without a value for the required parameter a: the call is impossible *)
Definition ex_st_missing : store :=
  [ (KName 3, RA (AInt 33)); (KPos 4, RA (AInt 100));
    (KPos 5, RA (AInt 101)); (KName 6, RA (AInt 66)); (KName 9, RA (AInt 99)) ].

Example ex_missing_required :
  valid_sig ex_sg = true /\ inv01_b ex_sg ex_st_missing = true /\
  build1 ex_sg ex_st_missing = None /\ reference_view ex_sg ex_st_missing = None.
Proof. vm_compute. repeat split. Qed.

(* and without the required keyword-only k (no *args stored: the transformation succeeds,
   the call itself fails) *)
Definition ex_st_missing_kw : store := [ (KPos 0, RA (AInt 1)); (KName 3, RA (AInt 33)) ].

Example ex_missing_required_kw :
  inv01_b ex_sg ex_st_missing_kw = true /\
  transform_build ex_sg ex_st_missing_kw <> None /\
  build1 ex_sg ex_st_missing_kw = None.
Proof. vm_compute. repeat split. discriminate. Qed.
