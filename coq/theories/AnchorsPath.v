(* AnchorsPath: pins the constants regenerated from /repo (gen/Extracted.v) to what the models assume.
   If the source changes at an anchor, one of these Examples stops compiling and every property
   whose model depends on it reports a broken tie (other properties are not affected). *)
From Coq Require Import String List ZArith.
From FiddleGen Require Import Extracted.
Import ListNotations.
Open Scope string_scope.

(* C18: PathText.match_part models exactly these two alternatives (key_min_len = 0: repaired grammar) *)
Example anchor_path_part :
  path_part_alternatives =
    ["(?:{})"; "|"; "\.(?P<attr_name>[\w_]+)"; "\[(?P<key>\d+|'[^']*'|\""[^\""]*\"")\]"].
Proof. reflexivity. Qed.
Example anchor_command_re : command_re = "^(config|config_file|config_str|fiddler|set):(.+)$".
Proof. reflexivity. Qed.
Example anchor_base_directives : base_config_directives = ["config"; "config_file"; "config_str"].
Proof. reflexivity. Qed.
Example anchor_path_str : path_str_strips_leading_dot = true. Proof. reflexivity. Qed.
