(* ArgStore: the canonical storage format (`Buildable.__arguments__`) and every read / edit
   algorithm of fiddle/_src/config.py and fiddle/_src/signatures.py, followed line by line.
   Errors are values; a failing edit returns the (possibly partially written) store it left. *)
From Fiddle Require Import PyBase PySlice Sig.

Inductive write := WSet (k : skey) (v : ref) | WDel (k : skey).

(* state threaded through an edit: the store and the log of primitive writes
   (_arguments_set_value / _arguments_del_value calls, which is what history records) *)
Definition wstate := (store * list write)%type.

Definition arg_set (s : wstate) (k : skey) (v : ref) : wstate :=
  (sset (fst s) k v, snd s ++ [WSet k v]).

Definition arg_del (s : wstate) (k : skey) : wstate + exn :=
  if smem (fst s) k then inl (sdel (fst s) k, snd s ++ [WDel k]) else inr EKey.

Inductive idx := IInt (z : Z) | IVarargs.
Record pslice := mkslice { sl_start : option idx; sl_stop : option idx; sl_step : option Z }.

Inductive op :=
| OGetAttr (n : N) | OSetAttr (n : N) (v : ref) | ODelAttr (n : N)
| OGetItem (i : idx) | OSetItem (i : idx) (v : ref) | ODelItem (i : idx)
| OGetSlice (s : pslice) | OSetSlice (s : pslice) (vs : list ref) | ODelSlice (s : pslice).

Inductive out := OUnit | OVal (v : ref) | OList (l : list ref) | OErr (e : exn).

Definition out_eq_dec : forall a b : out, {a = b} + {a <> b}.
Proof.
  decide equality; auto using ref_eq_dec, exn_eq_dec, (list_eq_dec ref_eq_dec).
Defined.

Record oa_flags := mkflags { f_var_keyword : bool; f_defaults : bool; f_unset : bool;
                             f_positional : bool; f_equal_to_default : bool }.


Section WithSig.
  Variable sg : sig.

  Definition kpos (i : nat) : skey := KPos (Z.of_nat i).

  (* SignatureInfo.get_default(index, NO_VALUE): the default of the positional parameter at that
     index (positional-only or positional-or-keyword), with or without *args *)
  Definition get_default_idx (i : nat) : ref :=
    match nth_error sg i with
    | Some p =>
        if is_prefix_kind (pk p)
        then match pdefault p with Some d => d | None => NoValue end
        else NoValue
    | None => NoValue
    end.

  (* the parameter loop of transform_to_args_kwargs *)
  Fixpoint transform_params (ipk inv vin : bool) (ps : list param) (index : nat)
           (args : store) (acc : list ref) : list ref * store :=
    match ps with
    | [] => (acc, args)
    | p :: ps' =>
        match pk p with
        | PosOnly =>
            match sget args (kpos index) with
            | Some v => transform_params ipk inv vin ps' (S index) (sdel args (kpos index)) (acc ++ [v])
            | None =>
                transform_params ipk inv vin ps' (S index) args
                  (if inv then acc ++ [get_default_idx index] else acc)
            end
        | PosOrKw =>
            if ipk || vin then
              match sget args (KName (pname p)) with
              | Some v =>
                  transform_params ipk inv vin ps' (S index) (sdel args (KName (pname p))) (acc ++ [v])
              | None =>
                  transform_params ipk inv vin ps' (S index) args
                    (if inv then acc ++ [get_default_idx index] else acc)
              end
            else transform_params ipk inv vin ps' (S index) args acc
        | _ => transform_params ipk inv vin ps' (S index) args acc
        end
    end.

  (* while index in arguments: ... *)
  Fixpoint take_varargs (fuel : nat) (args : store) (index : nat) (acc : list ref)
    : list ref * store :=
    match fuel with
    | O => (acc, args)
    | S f =>
        match sget args (kpos index) with
        | Some v => take_varargs f (sdel args (kpos index)) (S index) (acc ++ [v])
        | None => (acc, args)
        end
    end.

  Definition transform (ipk inv : bool) (args : store) : list ref * store :=
    let vin := match vps sg with Some s => smem args (kpos s) | None => false end in
    let '(pos, rest) := transform_params ipk inv vin sg 0 args [] in
    match vps sg with
    | Some s => take_varargs (length rest) rest s pos
    | None => (pos, rest)
    end.

  Definition all_positional (args : store) : list ref := fst (transform true true args).

  (* Buildable.__getitem__: defaults filled into the NO_VALUE slots *)
  Fixpoint fill_defaults (l : list ref) (index : nat) : list ref :=
    match l with
    | [] => []
    | v :: l' =>
        let v' :=
          if ref_eqb v NoValue then
            match nth_error sg index with
            | Some p => match pdefault p with Some d => d | None => v end
            | None => v
            end
          else v in
        v' :: fill_defaults l' (S index)
    end.

  Definition positional_view (args : store) : list ref := fill_defaults (all_positional args) 0.

  (* SignatureInfo.index_to_key *)
  Definition index_to_key (index : Z) (args : store) : skey + exn :=
    let adjusted :=
      if index <? 0 then
        let i := index + zlen (all_positional args) in
        if i <? 0 then inr EIndex else inl i
      else inl index in
    match adjusted with
    | inr e => inr e
    | inl i =>
        if i <? Z.of_nat (length sg) then
          match py_nth_param sg i with
          | Some p => match pk p with PosOrKw => inl (KName (pname p)) | _ => inl (KPos i) end
          | None => inr EIndex
          end
        else inl (KPos i)
    end.

  (* ---------------------------------------------------------------- attribute access *)

  Definition getattr (args : store) (n : N) : ref + exn :=
    match sget args (KName n) with
    | Some v => inl v                 (* includes a **kwargs entry named like a positional-only parameter *)
    | None =>
        match find_param sg n with
        | Some p =>
            match pk p with
            | PosOnly | VarPos => inr EAttribute
            | _ =>
                if pfactory p then inr EValue else
                match pdefault p with Some d => inl d | None => inr EAttribute end
            end
        | None => inr EAttribute
        end
    end.

  (* SignatureInfo.validate_param_name *)
  Definition validate_param_name (n : N) : option exn :=
    match find_param sg n with
    | Some p =>
        match pk p with
        | PosOnly | VarPos => Some EAttribute
        | VarKw => if has_var_kw sg then None else Some EAttribute
        | _ => None
        end
    | None => if has_var_kw sg then None else Some EAttribute
    end.

  Definition setattr (s : wstate) (n : N) (v : ref) : wstate * option exn :=
    match validate_param_name n with
    | Some e => (s, Some e)
    | None => (arg_set s (KName n) v, None)
    end.

  Definition delattr (s : wstate) (n : N) : wstate * option exn :=
    match arg_del s (KName n) with
    | inl s' => (s', None)
    | inr _ => (s, Some EAttribute)
    end.

  (* ---------------------------------------------------------------- index access *)


  (* replace_varargs_handle on one slice component: VARARGS -> var_positional_start (maybe None) *)
  Definition replace_part (x : option idx) : option Z :=
    match x with
    | None => None
    | Some (IInt z) => Some z
    | Some IVarargs => match vps sg with Some s => Some (Z.of_nat s) | None => None end
    end.

  (* on an int key: the assert fails when the handle resolves to None *)
  Definition replace_int (i : idx) : Z + exn :=
    match i with
    | IInt z => inl z
    | IVarargs => match vps sg with Some s => inl (Z.of_nat s) | None => inr EAssert end
    end.

  Definition getitem (args : store) (i : idx) : ref + exn :=
    match replace_int i with
    | inr e => inr e
    | inl z => match list_get (positional_view args) z with Some v => inl v | None => inr EIndex end
    end.

  Definition getslice (args : store) (sl : pslice) : list ref + exn :=
    match list_get_slice (positional_view args) (replace_part (sl_start sl))
            (replace_part (sl_stop sl)) (sl_step sl) with
    | Some l => inl l
    | None => inr EValue
    end.

  (* _set_item_by_index *)
  Definition positional_num : Z :=
    match vps sg with Some s => Z.of_nat s | None => Z.of_nat (n_prefix sg) end.

  Definition set_item_by_index (s : wstate) (key : Z) (v : ref) : wstate * option exn :=
    match index_to_key key (fst s) with
    | inr e => (s, Some e)
    | inl k =>
        let oob := match k with
                   | KPos i => (positional_num <=? i) && negb (smem (fst s) k)
                   | KName _ => false
                   end in
        if oob then (s, Some EIndex) else (arg_set s k v, None)
    end.

  Fixpoint set_each (s : wstate) (idxs : list Z) (vs : list ref) : wstate * option exn :=
    match idxs, vs with
    | i :: idxs', v :: vs' =>
        match set_item_by_index s i v with
        | (s', None) => set_each s' idxs' vs'
        | r => r
        end
    | _, _ => (s, None)
    end.

  (* placeholders: inl i = _Placeholder(i), inr v = a new value *)
  Definition ph := (Z + ref)%type.
  Definition placeholders (n : nat) : list ph := map (fun i => inl (Z.of_nat i)) (nat_seq 0 n).

  (* the two re-numbering loops of _set_item_by_slice; `snap` is the snapshot of __arguments__ *)
  Fixpoint renumber_set (s : wstate) (snap : store) (new : list ph) (indices : list nat)
    : wstate * option exn :=
    match indices with
    | [] => (s, None)
    | index :: rest =>
        match nth_error new index with
        | Some (inl j) =>
            if j =? Z.of_nat index then renumber_set s snap new rest
            else match sget snap (KPos j) with
                 | Some v => renumber_set (arg_set s (kpos index) v) snap new rest
                 | None => (s, Some EKey)
                 end
        | Some (inr v) => renumber_set (arg_set s (kpos index) v) snap new rest
        | None =>
            match arg_del s (kpos index) with
            | inl s' => renumber_set s' snap new rest
            | inr e => (s, Some e)
            end
        end
    end.

  Fixpoint append_new (s : wstate) (snap : store) (new : list ph) (indices : list nat)
    : wstate * option exn :=
    match indices with
    | [] => (s, None)
    | index :: rest =>
        match nth_error new index with
        | Some (inl j) =>
            match sget snap (KPos j) with
            | Some v => append_new (arg_set s (kpos index) v) snap new rest
            | None => (s, Some EKey)
            end
        | Some (inr v) => append_new (arg_set s (kpos index) v) snap new rest
        | None => (s, Some EIndex)
        end
    end.

  Definition set_item_by_slice (s : wstate) (sl : pslice) (vs : list ref) : wstate * option exn :=
    let all := all_positional (fst s) in
    let n := length all in
    let a := replace_part (sl_start sl) in
    let b := replace_part (sl_stop sl) in
    match slice_indices a b (sl_step sl) (Z.of_nat n) with
    | None => (s, Some EValue)
    | Some (st, en, step) =>
        let rng := py_range st en step in
        let first_index := list_min st rng in
        let spans := match vps sg with
                     | None => true
                     | Some v => first_index <? Z.of_nat v
                     end in
        if spans then
          if Nat.eqb (length rng) (length vs) then set_each s rng vs else (s, Some EValue)
        else
          match vps sg with
          | None => (s, Some EOther) (* unreachable *)
          | Some v =>
              let old := placeholders n in
              match list_set_slice old a b (sl_step sl) (map inr vs) with
              | None => (s, Some EValue)
              | Some new =>
                  let snap := fst s in
                  match renumber_set s snap new (nat_seq v (n - v)) with
                  | (s1, None) => append_new s1 snap new (nat_seq n (length new - n))
                  | r => r
                  end
              end
          end
    end.

  Definition setitem (s : wstate) (i : idx) (v : ref) : wstate * option exn :=
    match replace_int i with
    | inr e => (s, Some e)
    | inl z => set_item_by_index s z v
    end.

  (* __delitem__ *)
  Fixpoint del_prefix_or_placeholder (s : wstate) (v : Z) (new : list Z) (indices : list Z)
    : wstate * list Z * option exn :=
    match indices with
    | [] => (s, new, None)
    | index :: rest =>
        if index <? v then
          match index_to_key index (fst s) with
          | inr e => (s, new, Some e)
          | inl k =>
              if smem (fst s) k then
                match arg_del s k with
                | inl s' => del_prefix_or_placeholder s' v new rest
                | inr e => (s, new, Some e)
                end
              else del_prefix_or_placeholder s v new rest
          end
        else
          match list_del_at new index with
          | Some new' => del_prefix_or_placeholder s v new' rest
          | None => (s, new, Some EIndex)
          end
    end.

  Fixpoint compact (s : wstate) (new : list Z) (indices : list nat) : wstate * option exn :=
    match indices with
    | [] => (s, None)
    | index :: rest =>
        match nth_error new index with
        | Some j =>
            if j =? Z.of_nat index then compact s new rest
            else match sget (fst s) (KPos j) with
                 | Some v => compact (arg_set s (kpos index) v) new rest
                 | None => (s, Some EKey)
                 end
        | None =>
            match arg_del s (kpos index) with
            | inl s' => compact s' new rest
            | inr e => (s, Some e)
            end
        end
    end.

  Definition del_indices (s : wstate) (indices : list Z) : wstate * option exn :=
    let all := all_positional (fst s) in
    let n := length all in
    let v := match vps sg with Some v => v | None => n end in
    let old := map Z.of_nat (nat_seq 0 n) in
    match del_prefix_or_placeholder s (Z.of_nat v) old (sort_desc indices) with
    | (s1, new, None) => compact s1 new (nat_seq v (n - v))
    | (s1, _, Some e) => (s1, Some e)
    end.

  Definition delitem (s : wstate) (i : idx) : wstate * option exn :=
    match replace_int i with
    | inr e => (s, Some e)
    | inl z =>
        let n := zlen (all_positional (fst s)) in
        let key := if z <? 0 then z + n else z in
        if (key <? 0) || (n <=? key) then (s, Some EIndex) else del_indices s [key]
    end.

  Definition delslice (s : wstate) (sl : pslice) : wstate * option exn :=
    let n := zlen (all_positional (fst s)) in
    match slice_indices (replace_part (sl_start sl)) (replace_part (sl_stop sl)) (sl_step sl) n with
    | None => (s, Some EValue)
    | Some (st, en, step) => del_indices s (py_range st en step)
    end.

  (* ---------------------------------------------------------------- one edit / read *)


  Definition out_of (r : option exn) : out := match r with None => OUnit | Some e => OErr e end.

  Definition step_w (args : store) (o : op) : wstate * out :=
    let s : wstate := (args, []) in
    match o with
    | OGetAttr n => (s, match getattr args n with inl v => OVal v | inr e => OErr e end)
    | OSetAttr n v => let '(s', r) := setattr s n v in (s', out_of r)
    | ODelAttr n => let '(s', r) := delattr s n in (s', out_of r)
    | OGetItem i => (s, match getitem args i with inl v => OVal v | inr e => OErr e end)
    | OSetItem i v => let '(s', r) := setitem s i v in (s', out_of r)
    | ODelItem i => let '(s', r) := delitem s i in (s', out_of r)
    | OGetSlice sl => (s, match getslice args sl with inl l => OList l | inr e => OErr e end)
    | OSetSlice sl vs => let '(s', r) := set_item_by_slice s sl vs in (s', out_of r)
    | ODelSlice sl => let '(s', r) := delslice s sl in (s', out_of r)
    end.

  Definition step (args : store) (o : op) : store * out :=
    let '(s, r) := step_w args o in (fst s, r).

  (* ---------------------------------------------------------------- ordered_arguments *)


  Definition default_flags := mkflags true false false true true.

  Fixpoint oa_varargs (fuel : nat) (args : store) (index : nat) (result : store) : store :=
    match fuel with
    | O => result
    | S f =>
        match sget args (kpos index) with
        | Some v => oa_varargs f args (S index) (sset result (kpos index) v)
        | None => result
        end
    end.

  Fixpoint oa_params (veq : ref -> ref -> bool) (fl : oa_flags) (args : store)
           (ps : list param) (index : nat) (result : store) : store :=
    match ps with
    | [] => result
    | p :: ps' =>
        let result' :=
          match pk p with
          | VarPos => oa_varargs (length args) args index result
          | VarKw => result
          | k =>
              let key := match k with PosOnly => kpos index | _ => KName (pname p) end in
              let value :=
                match sget args key with
                | Some v => Some v
                | None =>
                    match pdefault p with
                    | Some d => if f_defaults fl then Some d else None
                    | None => if f_unset fl then Some NoValue else None
                    end
                end in
              match value with
              | None => result
              | Some v =>
                  let keep := f_equal_to_default fl
                              || match pdefault p with Some d => negb (veq v d) | None => true end in
                  if keep then
                    sset result (match k with PosOnly => kpos index | _ => KName (pname p) end) v
                  else result
              end
          end in
        oa_params veq fl args ps' (S index) result'
    end.

  Fixpoint oa_var_keyword (items : store) (result : store) : store :=
    match items with
    | [] => result
    | (k, v) :: items' =>
        let take := match k with
                    | KPos _ => true
                    | KName n => match find_param sg n with
                                 | None => true
                                 | Some p => match pk p with
                                             | VarKw | PosOnly | VarPos => true
                                             | _ => false
                                             end
                                 end
                    end in
        oa_var_keyword items' (if take then sset result k v else result)
    end.

  Definition ordered_arguments (veq : ref -> ref -> bool) (fl : oa_flags) (args : store)
    : store + exn :=
    if negb (f_equal_to_default fl) && f_defaults fl then inr EValue else
    let r1 := oa_params veq fl args sg 0 [] in
    let r2 := if f_var_keyword fl then oa_var_keyword args r1 else r1 in
    let r3 := if f_positional fl then r2
              else filter (fun kv => match fst kv with KName _ => true | KPos _ => false end) r2 in
    inl r3.

  (* __dir__ as a set: valid names plus the keys that are set *)
  Definition valid_param_names : list N :=
    map pname (filter (fun p => match pk p with PosOrKw | KwOnly => true | _ => false end) sg).
End WithSig.

