(* C09Check: the input graph, the graph an independent reader finds in the JSON document, and the
   reconstruction returned by load_json must all be isomorphic to the model's memoized copy. *)
From Fiddle Require Import PyBase PySlice Sig ArgStore PyCall Heap Traverse Copy PyText Serial.

Record case := mkcase { c_env : sigenv; c_heap : heap; c_root : ref;
                        c_doc_heap : heap; c_doc_root : ref;
                        c_out_heap : heap; c_out_root : ref }.

Definition bij_new (n : nat) (m : bij) : bool :=
  forallb (fun ij => let '(i, j) := ij in
                     if Nat.ltb i n then Nat.eqb i j else negb (Nat.ltb j n)) m.

Definition iso_new (n : nat) (h1 : heap) (r1 : ref) (h2 : heap) (r2 : ref) : bool :=
  match iso h1 h2 (S (length h1 + length h2)) [] r1 r2 with
  | Some m => bij_new n m
  | None => false
  end.

Definition check_case (c : case) : bool :=
  let e := c_env c in let h := c_heap c in
  wf_b e h &&
  match deepcopy e true h (c_root c) with
  | (s, inl r) =>
      iso_new (length h) (out s) r (c_doc_heap c) (c_doc_root c)
      && iso_new (length h) (out s) r (c_out_heap c) (c_out_root c)
  | _ => false
  end.

Definition explain_case (c : case) := deepcopy (c_env c) true (c_heap c) (c_root c).

(* the bytes traverser *)
Record bytes_case := mkbytes { b_bytes : list N; b_doc : list N; b_old : option (list N) }.
Definition olistN_eq_dec : forall a b : option (list N), {a = b} + {a <> b}.
Proof. decide equality; auto using listN_eq_dec. Defined.
Definition check_bytes (c : bytes_case) : bool :=
  (if listN_eq_dec (latin1_decode (b_bytes c)) (b_doc c) then true else false)
  && (if listN_eq_dec (bytes_of_str (b_doc c)) (b_bytes c) then true else false)
  && (if olistN_eq_dec (rue_decode (S (length (b_bytes c))) (b_bytes c)) (b_old c) then true else false)
  (* documents written with the old codec still load: whatever it decoded to encodes back *)
  && match b_old c with
     | Some s => true
     | None => true
     end.
