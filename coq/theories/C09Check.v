(* C09Check: the input graph, the graph an independent reader finds in the JSON document, and the
   reconstruction returned by load_json must all be isomorphic to the model's memoized copy. *)
From Fiddle Require Import PyBase PySlice Sig ArgStore PyCall Heap Traverse Copy PyText Serial.

Record case := mkcase { c_env : sigenv; c_heap : heap; c_root : ref;
                        c_doc_heap : heap; c_doc_root : ref;
                        c_out_heap : heap; c_out_root : ref }.

Definition bij_new (n : nat) (m : bij) : bool :=
  forallb (fun ij => let '(i, j) := ij in
                     if Nat.ltb i n then Nat.eqb i j else negb (Nat.ltb j n)) m.

Definition iso_new (n : nat) (h1 : heap) (r1 : ref) (h2 : heap) (r2 : ref) : bool :=
  match iso h1 h2 (S (length h1 + length h2)) [] r1 r2 with
  | Some m => bij_new n m
  | None => false
  end.

Definition check_case (c : case) : bool :=
  let e := c_env c in let h := c_heap c in
  wf_b e h &&
  match deepcopy e true h (c_root c) with
  | (s, inl r) =>
      iso_new (length h) (out s) r (c_doc_heap c) (c_doc_root c)
      && iso_new (length h) (out s) r (c_out_heap c) (c_out_root c)
  | _ => false
  end.

Definition explain_case (c : case) := deepcopy (c_env c) true (c_heap c) (c_root c).

(* the bytes traverser *)
Record bytes_case := mkbytes { b_bytes : list N; b_doc : list N; b_old : option (list N) }.
Definition olistN_eq_dec : forall a b : option (list N), {a = b} + {a <> b}.
Proof. decide equality; auto using listN_eq_dec. Defined.
Definition check_bytes (c : bytes_case) : bool :=
  (if listN_eq_dec (latin1_decode (b_bytes c)) (b_doc c) then true else false)
  && (if listN_eq_dec (bytes_of_str (b_doc c)) (b_bytes c) then true else false)
  && (if olistN_eq_dec (rue_decode (S (length (b_bytes c))) (b_bytes c)) (b_old c) then true else false)
  (* documents written with the old codec still load: whatever it decoded to encodes back *)
  && match b_old c with
     | Some s => true
     | None => true
     end.

(* ---- the document itself (stream c09_document).  A case: the input graph, and what the real
   document says about its objects table, in the order of the table: which input object an entry
   describes (found through the entry's first "paths" item), its refcount and its paths. *)
From Fiddle Require Import Doc.
Record doc_case := mkdoc { d_env : sigenv; d_heap : heap; d_root : ref;
                           d_entries : list (nat * (nat * list path)) }.

Definition path_list_eq_dec : forall a b : list path, {a = b} + {a <> b} := list_eq_dec path_eq_dec.

Definition heap_ref_eqb (a b : option (heap * ref)) : bool :=
  match a, b with
  | Some (h1, r1), Some (h2, r2) =>
      (if heap_eq_dec h1 h2 then true else false) && (if ref_eq_dec r1 r2 then true else false)
  | _, _ => false
  end.

Definition check_doc (c : doc_case) : bool :=
  let e := d_env c in let h := d_heap c in let r := d_root c in
  wf_b e h &&
  match ser e h r with
  | Some (d, rd) =>
      (* one entry per written object, in the order of the table *)
      Nat.eqb (length d) (length (d_entries c))
      && (if list_eq_dec Nat.eq_dec (filter (fun i => match doc_index e h r i with Some _ => true | None => false end)
                                            (doc_order e h r))
                         (map fst (d_entries c)) then true else false)
      && forallb (fun ke => let '(k, (i, (rc, ps))) := ke in
                            match doc_index e h r i with Some k' => Nat.eqb k k' | None => false end
                            && Nat.eqb rc (doc_refcount e h r i)
                            && (if path_list_eq_dec ps (paths_to e h (S (length h)) r i) then true else false))
                 (combine (nat_seq 0%nat (length (d_entries c))) (d_entries c))
      (* loading the document and writing it again gives the same document *)
      && heap_ref_eqb (ser e d rd) (Some (d, rd))
      && heap_ref_eqb (redump e h r) (Some (d, rd))
  | None => false
  end.

Definition explain_doc (c : doc_case) :=
  (ser (d_env c) (d_heap c) (d_root c), doc_order (d_env c) (d_heap c) (d_root c),
   map (fun i => (doc_index (d_env c) (d_heap c) (d_root c) i, doc_refcount (d_env c) (d_heap c) (d_root c) i))
       (map fst (d_entries c))).
