(* Fiddler: the order in which codegen_diff.fiddler_from_diff emits the statements of a fiddler, and
   their execution when every referenced path has been captured in a variable first (old not supplied:
   "pessimistically assume that we need to create variables for all used paths").
     _group_changes_by_parent : changes grouped by parent path (groups emitted in path_str order);
     _cst_for_changes         : inside one group: deletes and remove_tag calls (diff order), then
                                update_callable, then assignments and add_tag calls (diff order).
   diffing._apply_changes instead runs five global phases (Diff.apply_changes).  C13 says the two agree. *)
From Fiddle Require Import PyBase PySlice Sig ArgStore PyCall Heap Traverse Tags History Diff.

Definition stage (c : change) : nat :=
  match c with
  | CDelete _ _ | CRemoveTag _ _ _ => 0%nat
  | CModify _ LFn _ => 1%nat
  | _ => 2%nat
  end.

Definition in_stage (k : nat) (c : change) : bool := Nat.eqb (stage c) k.

Definition group_of (p : path) (cs : list change) : list change :=
  filter (fun c => if path_eq_dec (parent_of c) p then true else false) cs.

Definition group_order (g : list change) : list change :=
  filter (in_stage 0) g ++ filter (in_stage 1) g ++ filter (in_stage 2) g.

(* parents: the distinct parent paths in the order the groups are emitted *)
Definition fiddler_order (parents : list path) (cs : list change) : list change :=
  flat_map (fun p => group_order (group_of p cs)) parents.

Fixpoint dedup_paths (ps : list path) : list path :=
  match ps with
  | [] => []
  | p :: ps' => p :: filter (fun q => if path_eq_dec p q then false else true) (dedup_paths ps')
  end.

(* the parents in first-occurrence order (any order of the groups gives the same result: theorem) *)
Definition parents_of (cs : list change) : list path := dedup_paths (map parent_of cs).

Section Exec.
  Variable e : sigenv.

  (* all parents are resolved in the structure as it is before the first statement runs *)
  Definition exec_fiddler (h : heap) (root : ref) (parents : list path) (cs : list change) : heap :=
    fold_left apply_one (resolve_parents e h root (fiddler_order parents cs)) h.
End Exec.
