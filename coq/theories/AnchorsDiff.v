(* AnchorsDiff: pins the constants regenerated from /repo (gen/Extracted.v) to what the models assume.
   If the source changes at an anchor, one of these Examples stops compiling and every property
   whose model depends on it reports a broken tie (other properties are not affected). *)
From Coq Require Import String List ZArith.
From FiddleGen Require Import Extracted.
Import ListNotations.
Open Scope string_scope.

(* C10: Diff.phase_order / Diff.resolve_parents model this loop of _apply_changes *)
Example anchor_apply_changes_phases :
  apply_changes_phases = ["DeleteValue"; "RemoveTag"; "ModifyValue"; "SetValue"; "AddTag"].
Proof. reflexivity. Qed.
Example anchor_apply_changes_parents : apply_changes_resolves_parents_first = true.
Proof. reflexivity. Qed.
