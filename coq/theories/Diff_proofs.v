(* Diff_proofs: diffing._apply_changes (Diff.apply_changes) decomposes per parent node.
   The five global phases are one left fold of apply_one over the resolved changes sorted by phase;
   the node at index i of the result is the fold of apply_op over the changes whose parent resolves
   to i, in that order.  Also: generic facts about insertion-ordered dictionaries (dget/dset/ddel)
   used here and by Fiddler_proofs, and the reader-level characterisation of apply_op. *)
From Fiddle Require Import PyBase PySlice Sig ArgStore PyCall Heap Traverse Tags History Diff.
From Coq Require Import List Arith Lia Permutation.
Import ListNotations.

(* ------------------------------------------------------------------------------------------ *)
(* insertion-ordered dictionaries                                                              *)

Section DictFacts.
  Context {K V : Type} (keqb : K -> K -> bool).
  Hypothesis keqb_spec : forall a b, keqb a b = true <-> a = b.

  Lemma keqb_refl a : keqb a a = true.
  Proof. apply keqb_spec. reflexivity. Qed.

  Lemma keqb_false a b : keqb a b = false <-> a <> b.
  Proof.
    split.
    - intros Hf Heq. apply keqb_spec in Heq. congruence.
    - intros Hne. destruct (keqb a b) eqn:E; [| reflexivity]. apply keqb_spec in E. contradiction.
  Qed.

  Lemma keqb_sym a b : keqb a b = keqb b a.
  Proof.
    destruct (keqb a b) eqn:E1, (keqb b a) eqn:E2; try reflexivity.
    - apply keqb_spec in E1. subst. rewrite keqb_refl in E2. discriminate.
    - apply keqb_spec in E2. subst. rewrite keqb_refl in E1. discriminate.
  Qed.

  Lemma dget_dset (d : list (K * V)) k v k' :
    dget keqb (dset keqb d k v) k' = if keqb k' k then Some v else dget keqb d k'.
  Proof.
    induction d as [|[k0 v0] d IH]; cbn [dset dget].
    - destruct (keqb k' k); reflexivity.
    - destruct (keqb k k0) eqn:E; cbn [dget].
      + apply keqb_spec in E. subst k0. destruct (keqb k' k); reflexivity.
      + destruct (keqb k' k0) eqn:E2.
        * apply keqb_spec in E2. subst k0. rewrite keqb_sym, E. reflexivity.
        * exact IH.
  Qed.

  Lemma dget_dset_same (d : list (K * V)) k v : dget keqb (dset keqb d k v) k = Some v.
  Proof. rewrite dget_dset, keqb_refl. reflexivity. Qed.

  Lemma dget_dset_other (d : list (K * V)) k v k' :
    k' <> k -> dget keqb (dset keqb d k v) k' = dget keqb d k'.
  Proof. intros Hne. rewrite dget_dset. apply keqb_false in Hne. rewrite Hne. reflexivity. Qed.

  Lemma dget_none (d : list (K * V)) k : dget keqb d k = None <-> ~ In k (map fst d).
  Proof.
    induction d as [|[k0 v0] d IH]; cbn [dget map fst In].
    - split; [intros _ [] | reflexivity].
    - destruct (keqb k k0) eqn:E.
      + apply keqb_spec in E. subst. split; [discriminate | intros Hn; exfalso; apply Hn; left; reflexivity].
      + apply keqb_false in E. rewrite IH. split.
        * intros Hn [Heq|Hin]; [congruence | contradiction].
        * intros Hn Hin. apply Hn. right. exact Hin.
  Qed.

  Lemma dget_in (d : list (K * V)) k v : dget keqb d k = Some v -> In (k, v) d.
  Proof.
    induction d as [|[k0 v0] d IH]; cbn [dget In]; [discriminate |].
    destruct (keqb k k0) eqn:E.
    - apply keqb_spec in E. subst. intros H. inversion H. left. reflexivity.
    - intros H. right. apply IH. exact H.
  Qed.

  Lemma in_dget (d : list (K * V)) k v :
    NoDup (map fst d) -> In (k, v) d -> dget keqb d k = Some v.
  Proof.
    induction d as [|[k0 v0] d IH]; cbn [dget In map fst]; [intros _ [] |].
    intros Hnd [Heq|Hin].
    - inversion Heq. subst. rewrite keqb_refl. reflexivity.
    - inversion Hnd as [|? ? Hnot Hnd']. subst.
      destruct (keqb k k0) eqn:E.
      + apply keqb_spec in E. subst. exfalso. apply Hnot. apply (in_map fst) in Hin. exact Hin.
      + apply IH; assumption.
  Qed.

  Lemma ddel_keys_incl (d : list (K * V)) k k' :
    In k' (map fst (ddel keqb d k)) -> In k' (map fst d).
  Proof.
    induction d as [|[k0 v0] d IH]; cbn [ddel map fst In]; [auto |].
    destruct (keqb k k0); cbn [map fst In]; [auto |]. intros [H|H]; auto.
  Qed.

  Lemma ddel_nodup (d : list (K * V)) k : NoDup (map fst d) -> NoDup (map fst (ddel keqb d k)).
  Proof.
    induction d as [|[k0 v0] d IH]; cbn [ddel map fst]; [auto |].
    intros Hnd. inversion Hnd as [|? ? Hnot Hnd']. subst.
    destruct (keqb k k0); cbn [map fst]; [assumption |].
    constructor; [| apply IH; assumption].
    intros Hin. apply Hnot. eapply ddel_keys_incl. exact Hin.
  Qed.

  Lemma dget_ddel (d : list (K * V)) k k' :
    NoDup (map fst d) ->
    dget keqb (ddel keqb d k) k' = if keqb k' k then None else dget keqb d k'.
  Proof.
    induction d as [|[k0 v0] d IH]; cbn [ddel dget map fst].
    - intros _. destruct (keqb k' k); reflexivity.
    - intros Hnd. inversion Hnd as [|? ? Hnot Hnd']. subst.
      destruct (keqb k k0) eqn:E.
      + apply keqb_spec in E. subst k0. destruct (keqb k' k) eqn:E2; [| reflexivity].
        apply keqb_spec in E2. subst k'. apply dget_none. exact Hnot.
      + cbn [dget]. destruct (keqb k' k0) eqn:E2.
        * apply keqb_spec in E2. subst k0. rewrite keqb_sym, E. reflexivity.
        * apply IH. exact Hnd'.
  Qed.

  Lemma dget_ddel_other (d : list (K * V)) k k' :
    k' <> k -> dget keqb (ddel keqb d k) k' = dget keqb d k'.
  Proof.
    intros Hne. apply keqb_false in Hne.
    induction d as [|[k0 v0] d IH]; cbn [ddel dget]; [reflexivity |].
    destruct (keqb k k0) eqn:E.
    - apply keqb_spec in E. subst k0. rewrite Hne. reflexivity.
    - cbn [dget]. destruct (keqb k' k0); [reflexivity | exact IH].
  Qed.

  Lemma dset_keys_in (d : list (K * V)) k v k' :
    In k' (map fst (dset keqb d k v)) <-> k' = k \/ In k' (map fst d).
  Proof.
    induction d as [|[k0 v0] d IH]; cbn [dset map fst In].
    - split; [intros [H|[]]; auto | intros [H|[]]; auto].
    - destruct (keqb k k0) eqn:E; cbn [map fst In].
      + apply keqb_spec in E. subst k0. split; [intros [H|H]; auto | intros [H|[H|H]]; auto].
      + rewrite IH. split; [intros [H|[H|H]]; auto | intros [H|[H|H]]; auto].
  Qed.

  Lemma dset_nodup (d : list (K * V)) k v : NoDup (map fst d) -> NoDup (map fst (dset keqb d k v)).
  Proof.
    induction d as [|[k0 v0] d IH]; cbn [dset map fst].
    - intros _. constructor; [intros [] | constructor].
    - intros Hnd. inversion Hnd as [|? ? Hnot Hnd']. subst.
      destruct (keqb k k0) eqn:E; cbn [map fst]; [constructor; assumption |].
      constructor; [| apply IH; assumption].
      intros Hin. apply dset_keys_in in Hin. destruct Hin as [Heq|Hin]; [| contradiction].
      subst k0. rewrite keqb_refl in E. discriminate.
  Qed.

  (* a key that is present is overwritten in place: the keys, and their order, do not change *)
  Lemma dset_keys_present (d : list (K * V)) k v :
    In k (map fst d) -> map fst (dset keqb d k v) = map fst d.
  Proof.
    induction d as [|[k0 v0] d IH]; cbn [dset map fst In]; [intros [] |].
    intros Hin. destruct (keqb k k0) eqn:E; cbn [map fst]; [reflexivity |].
    f_equal. apply IH. destruct Hin as [Heq|Hin]; [| exact Hin].
    subst k0. rewrite keqb_refl in E. discriminate.
  Qed.

  (* a key that is absent is appended *)
  Lemma dset_absent (d : list (K * V)) k v : ~ In k (map fst d) -> dset keqb d k v = d ++ [(k, v)].
  Proof.
    induction d as [|[k0 v0] d IH]; cbn [dset map fst In app]; [reflexivity |].
    intros Hn. destruct (keqb k k0) eqn:E.
    - apply keqb_spec in E. subst. exfalso. apply Hn. left. reflexivity.
    - f_equal. apply IH. intros Hin. apply Hn. right. exact Hin.
  Qed.

  (* finite-map equality of two insertion-ordered dictionaries *)
  Definition meq (d d' : list (K * V)) : Prop :=
    NoDup (map fst d) /\ NoDup (map fst d') /\ forall k, dget keqb d k = dget keqb d' k.

  Lemma meq_refl d : NoDup (map fst d) -> meq d d.
  Proof. intros H. split; [exact H | split; [exact H | reflexivity]]. Qed.

  Lemma meq_sym d d' : meq d d' -> meq d' d.
  Proof. intros (H1 & H2 & H3). split; [exact H2 | split; [exact H1 | intros k; symmetry; apply H3]]. Qed.

  Lemma meq_trans d1 d2 d3 : meq d1 d2 -> meq d2 d3 -> meq d1 d3.
  Proof.
    intros (H1 & H2 & H3) (_ & H4 & H5). split; [exact H1 | split; [exact H4 |]].
    intros k. rewrite H3. apply H5.
  Qed.

  Lemma meq_dset d d' k v : meq d d' -> meq (dset keqb d k v) (dset keqb d' k v).
  Proof.
    intros (H1 & H2 & H3). split; [apply dset_nodup; exact H1 | split; [apply dset_nodup; exact H2 |]].
    intros k'. rewrite !dget_dset, H3. reflexivity.
  Qed.

  Lemma meq_ddel d d' k : meq d d' -> meq (ddel keqb d k) (ddel keqb d' k).
  Proof.
    intros (H1 & H2 & H3). split; [apply ddel_nodup; exact H1 | split; [apply ddel_nodup; exact H2 |]].
    intros k'. rewrite !dget_ddel by assumption. rewrite H3. reflexivity.
  Qed.

  Lemma meq_permutation d d' : meq d d' -> Permutation d d'.
  Proof.
    intros (H1 & H2 & H3). apply NoDup_Permutation.
    - eapply NoDup_map_inv. exact H1.
    - eapply NoDup_map_inv. exact H2.
    - intros [k v]. split; intros Hin.
      + apply dget_in. rewrite <- H3. apply in_dget; assumption.
      + apply dget_in. rewrite H3. apply in_dget; assumption.
  Qed.

  Lemma permutation_meq d d' : NoDup (map fst d) -> Permutation d d' -> meq d d'.
  Proof.
    intros H1 Hp.
    assert (H2 : NoDup (map fst d')).
    { eapply Permutation_NoDup; [| exact H1]. apply Permutation_map. exact Hp. }
    split; [exact H1 | split; [exact H2 |]]. intros k.
    destruct (dget keqb d k) as [v|] eqn:E.
    - symmetry. apply in_dget; [exact H2 |]. eapply Permutation_in; [exact Hp |]. apply dget_in. exact E.
    - symmetry. apply dget_none. apply dget_none in E. intros Hin. apply E.
      eapply Permutation_in; [| exact Hin]. apply Permutation_map. apply Permutation_sym. exact Hp.
  Qed.
End DictFacts.

Lemma atom_eqb_spec a b : atom_eqb a b = true <-> a = b.
Proof. unfold atom_eqb. destruct (atom_eq_dec a b); split; congruence. Qed.

Lemma akv_set_dset d k v : akv_set d k v = dset atom_eqb d k v.
Proof.
  induction d as [|[k0 v0] d IH]; cbn [akv_set dset]; [reflexivity |].
  destruct (atom_eqb k k0); [reflexivity | rewrite IH; reflexivity].
Qed.

Lemma akv_del_ddel d k : akv_del d k = ddel atom_eqb d k.
Proof.
  induction d as [|[k0 v0] d IH]; cbn [akv_del ddel]; [reflexivity |].
  destruct (atom_eqb k k0); [reflexivity | rewrite IH; reflexivity].
Qed.

(* ------------------------------------------------------------------------------------------ *)
(* heaps                                                                                       *)

Lemma heap_set_length h : forall i n, length (heap_set h i n) = length h.
Proof.
  induction h as [|x h IH]; intros i n; [reflexivity |].
  destruct i; cbn [heap_set length]; [reflexivity | rewrite IH; reflexivity].
Qed.

Lemma heap_set_same h : forall i n, (i < length h)%nat -> nth_error (heap_set h i n) i = Some n.
Proof.
  induction h as [|x h IH]; intros i n Hi; cbn [length] in Hi; [lia |].
  destruct i; cbn [heap_set nth_error]; [reflexivity | apply IH; lia].
Qed.

Lemma heap_set_other h : forall i n j, i <> j -> nth_error (heap_set h i n) j = nth_error h j.
Proof.
  induction h as [|x h IH]; intros i n j Hij; [reflexivity |].
  destruct i, j; cbn [heap_set nth_error]; try reflexivity; [lia | apply IH; lia].
Qed.

Lemma nth_error_ext {A} (l l' : list A) :
  length l = length l' -> (forall i, nth_error l i = nth_error l' i) -> l = l'.
Proof.
  revert l'. induction l as [|x l IH]; intros [|y l'] Hlen Hnth; cbn [length] in Hlen; try discriminate.
  - reflexivity.
  - pose proof (Hnth 0%nat) as H0. cbn [nth_error] in H0. inversion H0. subst. f_equal.
    apply IH; [lia |]. intros i. exact (Hnth (S i)).
Qed.

(* ------------------------------------------------------------------------------------------ *)
(* one left fold                                                                               *)

Definition cpair := (change * option nat)%type.

(* the statements run one after the other *)
Definition run (h : heap) (cps : list cpair) : heap := fold_left apply_one cps h.

Definition at_node (i : nat) (cp : cpair) : bool :=
  match snd cp with Some j => Nat.eqb j i | None => false end.

(* the changes applied to node i, in execution order *)
Definition node_ops (i : nat) (cps : list cpair) : list change := map fst (filter (at_node i) cps).

Definition apply_ops (l : list change) (n : node) : node := fold_left (fun n c => apply_op c n) l n.

Lemma apply_one_length h cp : length (apply_one h cp) = length h.
Proof.
  unfold apply_one. destruct (snd cp) as [i|]; [| reflexivity].
  destruct (nth_error h i); [apply heap_set_length | reflexivity].
Qed.

Lemma run_length cps : forall h, length (run h cps) = length h.
Proof.
  induction cps as [|cp cps IH]; intros h; [reflexivity |].
  unfold run in *. cbn [fold_left]. rewrite IH. apply apply_one_length.
Qed.

Lemma apply_one_nth h cp i :
  nth_error (apply_one h cp) i
  = option_map (fun n => if at_node i cp then apply_op (fst cp) n else n) (nth_error h i).
Proof.
  unfold apply_one, at_node. destruct (snd cp) as [j|].
  - destruct (nth_error h j) as [n|] eqn:Hj.
    + destruct (Nat.eqb j i) eqn:E.
      * apply Nat.eqb_eq in E. subst j. rewrite Hj. cbn [option_map].
        apply heap_set_same. apply nth_error_Some. congruence.
      * apply Nat.eqb_neq in E. rewrite heap_set_other by exact E.
        destruct (nth_error h i); reflexivity.
    + destruct (Nat.eqb j i) eqn:E.
      * apply Nat.eqb_eq in E. subst j. rewrite Hj. reflexivity.
      * destruct (nth_error h i); reflexivity.
  - destruct (nth_error h i); reflexivity.
Qed.

Lemma run_nth cps : forall h i,
  nth_error (run h cps) i = option_map (apply_ops (node_ops i cps)) (nth_error h i).
Proof.
  induction cps as [|cp cps IH]; intros h i.
  - unfold run, node_ops, apply_ops. cbn. destruct (nth_error h i); reflexivity.
  - unfold run in *. cbn [fold_left]. rewrite IH, apply_one_nth.
    unfold node_ops. cbn [filter]. destruct (nth_error h i) as [n|]; [| reflexivity].
    cbn [option_map]. destruct (at_node i cp); reflexivity.
Qed.

Lemma run_app h cps1 cps2 : run h (cps1 ++ cps2) = run (run h cps1) cps2.
Proof. unfold run. apply fold_left_app. Qed.

(* two statement lists with the same per-node operations give the same heap *)
Lemma run_ext h cps1 cps2 :
  (forall i n, nth_error h i = Some n ->
               apply_ops (node_ops i cps1) n = apply_ops (node_ops i cps2) n) ->
  run h cps1 = run h cps2.
Proof.
  intros H. apply nth_error_ext.
  - rewrite !run_length. reflexivity.
  - intros i. rewrite !run_nth. destruct (nth_error h i) as [n|] eqn:E; [| reflexivity].
    cbn [option_map]. f_equal. apply H. exact E.
Qed.

(* ------------------------------------------------------------------------------------------ *)
(* the five phases                                                                             *)

Definition is_type (ty : optype) (c : change) : bool :=
  if optype_eq_dec (type_of c) ty then true else false.

(* the changes sorted by phase (stable: diff order inside a phase) *)
Definition phase_sort_with (order : list optype) (cs : list change) : list change :=
  flat_map (fun ty => filter (is_type ty) cs) order.
Definition phase_sort (cs : list change) : list change := phase_sort_with phase_order cs.

Lemma filter_map_comm {A B} (f : B -> bool) (g : A -> B) l :
  filter f (map g l) = map g (filter (fun x => f (g x)) l).
Proof.
  induction l as [|x l IH]; [reflexivity |]. cbn [map filter].
  destruct (f (g x)); cbn [map]; rewrite IH; reflexivity.
Qed.

Lemma filter_filter {A} (f g : A -> bool) l :
  filter f (filter g l) = filter (fun x => g x && f x) l.
Proof.
  induction l as [|x l IH]; [reflexivity |]. cbn [filter].
  destruct (g x); cbn [filter andb]; [destruct (f x) |]; rewrite IH; reflexivity.
Qed.

Lemma filter_flat_map {A B} (f : B -> bool) (g : A -> list B) l :
  filter f (flat_map g l) = flat_map (fun x => filter f (g x)) l.
Proof.
  induction l as [|x l IH]; [reflexivity |]. cbn [flat_map].
  rewrite filter_app, IH. reflexivity.
Qed.

Lemma apply_phase_run ty cps : forall h,
  apply_phase ty h cps = run h (filter (fun cp => is_type ty (fst cp)) cps).
Proof.
  unfold apply_phase, run, is_type.
  induction cps as [|cp cps IH]; intros h; [reflexivity |].
  cbn [fold_left filter]. rewrite IH.
  destruct (optype_eq_dec (type_of (fst cp)) ty); reflexivity.
Qed.

Section Phases.
  Variable e : sigenv.

  Definition resolve_one (h : heap) (root : ref) (c : change) : cpair :=
    (c, match follow e h root (parent_of c) with Some (RP i) => Some i | _ => None end).

  Lemma resolve_parents_map h root cs : resolve_parents e h root cs = map (resolve_one h root) cs.
  Proof. reflexivity. Qed.

  (* _apply_changes with an arbitrary phase order (the real one is Diff.phase_order) *)
  Definition apply_changes_with (order : list optype) (h : heap) (root : ref) (cs : list change) : heap :=
    let cps := resolve_parents e h root cs in
    fold_left (fun h ty => apply_phase ty h cps) order h.

  Lemma apply_changes_with_phase_order h root cs :
    apply_changes e h root cs = apply_changes_with phase_order h root cs.
  Proof. reflexivity. Qed.

  Lemma apply_changes_with_run order h0 root cs : forall h,
    fold_left (fun h ty => apply_phase ty h (resolve_parents e h0 root cs)) order h
    = run h (resolve_parents e h0 root (phase_sort_with order cs)).
  Proof.
    induction order as [|ty order IH]; intros h; [reflexivity |].
    cbn [fold_left]. rewrite IH, apply_phase_run.
    unfold phase_sort_with. cbn [flat_map]. rewrite !resolve_parents_map, map_app, run_app.
    rewrite filter_map_comm. reflexivity.
  Qed.

  (* the five global phases are one pass over the changes sorted by phase *)
  Lemma apply_changes_run h root cs :
    apply_changes e h root cs = run h (resolve_parents e h root (phase_sort cs)).
  Proof. unfold apply_changes. apply apply_changes_with_run. Qed.

  (* does the parent of c resolve to node i (in the structure before any change)? *)
  Definition resolves_to (h : heap) (root : ref) (i : nat) (c : change) : bool :=
    match follow e h root (parent_of c) with Some (RP j) => Nat.eqb j i | _ => false end.

  Lemma resolves_to_iff h root i c :
    resolves_to h root i c = true <-> follow e h root (parent_of c) = Some (RP i).
  Proof.
    unfold resolves_to. destruct (follow e h root (parent_of c)) as [[a|j]|].
    - split; discriminate.
    - rewrite Nat.eqb_eq. split; [intros ->; reflexivity | intros H; inversion H; reflexivity].
    - split; discriminate.
  Qed.

  Lemma node_ops_resolve h root i cs :
    node_ops i (resolve_parents e h root cs) = filter (resolves_to h root i) cs.
  Proof.
    unfold node_ops. rewrite resolve_parents_map, filter_map_comm, map_map. cbn [fst].
    rewrite map_id. apply filter_ext. intros c. unfold at_node, resolve_one, resolves_to. cbn [snd].
    destruct (follow e h root (parent_of c)) as [[a|j]|]; reflexivity.
  Qed.

  (* the changes of one phase whose parent resolves to node i, in diff order *)
  Definition changes_for (h : heap) (root : ref) (i : nat) (cs : list change) (ty : optype) : list change :=
    filter (fun c => is_type ty c && resolves_to h root i c) cs.

  Lemma node_ops_phase_sort order h root i cs :
    node_ops i (resolve_parents e h root (phase_sort_with order cs))
    = flat_map (changes_for h root i cs) order.
  Proof.
    rewrite node_ops_resolve. unfold phase_sort_with. rewrite filter_flat_map.
    apply flat_map_ext. intros ty. apply filter_filter.
  Qed.

  Lemma changes_for_spec h root i cs ty c :
    In c (changes_for h root i cs ty)
    <-> In c cs /\ type_of c = ty /\ follow e h root (parent_of c) = Some (RP i).
  Proof.
    unfold changes_for. rewrite filter_In, Bool.andb_true_iff.
    unfold is_type. rewrite resolves_to_iff.
    destruct (optype_eq_dec (type_of c) ty); intuition congruence.
  Qed.

  Theorem apply_length h root cs : length (apply_changes e h root cs) = length h.
  Proof. rewrite apply_changes_run. apply run_length. Qed.

  Theorem apply_node h root cs i :
    nth_error (apply_changes e h root cs) i
    = option_map
        (apply_ops (changes_for h root i cs OpDelete ++ changes_for h root i cs OpRemoveTag
                    ++ changes_for h root i cs OpModify ++ changes_for h root i cs OpSet
                    ++ changes_for h root i cs OpAddTag))
        (nth_error h i).
  Proof.
    rewrite apply_changes_run, run_nth. unfold phase_sort. rewrite node_ops_phase_sort.
    unfold phase_order. cbn [flat_map]. rewrite app_nil_r. reflexivity.
  Qed.

  Theorem apply_frame h root cs i :
    (forall c, In c cs -> follow e h root (parent_of c) <> Some (RP i)) ->
    nth_error (apply_changes e h root cs) i = nth_error h i.
  Proof.
    intros Hno. rewrite apply_changes_run, run_nth, node_ops_resolve.
    assert (Hnil : filter (resolves_to h root i) (phase_sort cs) = []).
    { unfold phase_sort, phase_sort_with. rewrite filter_flat_map.
      unfold phase_order. cbn [flat_map]. rewrite !filter_filter, app_nil_r.
      assert (Hf : forall ty, filter (fun c => is_type ty c && resolves_to h root i c) cs = []).
      { intros ty. induction cs as [|c cs' IH]; [reflexivity |]. cbn [filter].
        assert (Hc : resolves_to h root i c = false).
        { destruct (resolves_to h root i c) eqn:E; [| reflexivity].
          apply resolves_to_iff in E. exfalso. apply (Hno c); [left; reflexivity | exact E]. }
        rewrite Hc, Bool.andb_false_r. apply IH. intros c' Hin. apply Hno. right. exact Hin. }
      rewrite !Hf. reflexivity. }
    rewrite Hnil. unfold apply_ops. cbn [fold_left]. destruct (nth_error h i); reflexivity.
  Qed.
End Phases.

(* ------------------------------------------------------------------------------------------ *)
(* apply_op, case by case                                                                      *)

Lemma skey_eqb_spec a b : skey_eqb a b = true <-> a = b.
Proof. apply skey_eqb_eq. Qed.

(* an assignment (new or modified argument) on a Buildable *)
Theorem apply_op_set_attr c p a v k fn args tags :
  c = CSet p (LAttr a) v \/ c = CModify p (LAttr a) v ->
  exists args',
    apply_op c (NBuildable k fn args tags) = NBuildable k fn args' tags
    /\ sget args' (KName a) = Some v
    /\ (forall k', k' <> KName a -> sget args' k' = sget args k').
Proof.
  intros [Hc|Hc]; subst c; exists (sset args (KName a) v); cbn [apply_op];
    (split; [reflexivity | split]).
  - apply (dget_dset_same skey_eqb skey_eqb_spec).
  - intros k' Hne. apply (dget_dset_other skey_eqb skey_eqb_spec). exact Hne.
  - apply (dget_dset_same skey_eqb skey_eqb_spec).
  - intros k' Hne. apply (dget_dset_other skey_eqb skey_eqb_spec). exact Hne.
Qed.

(* an argument that was already set keeps its position (and all keys their order) *)
Theorem apply_op_set_attr_keys c p a v k fn args tags :
  c = CSet p (LAttr a) v \/ c = CModify p (LAttr a) v ->
  exists args',
    apply_op c (NBuildable k fn args tags) = NBuildable k fn args' tags
    /\ (In (KName a) (map fst args) -> map fst args' = map fst args)
    /\ (~ In (KName a) (map fst args) -> args' = args ++ [(KName a, v)]).
Proof.
  intros [Hc|Hc]; subst c; exists (sset args (KName a) v); cbn [apply_op];
    (split; [reflexivity | split]).
  - apply (dset_keys_present skey_eqb skey_eqb_spec).
  - apply (dset_absent skey_eqb skey_eqb_spec).
  - apply (dset_keys_present skey_eqb skey_eqb_spec).
  - apply (dset_absent skey_eqb skey_eqb_spec).
Qed.

Theorem apply_op_delete_attr p a k fn args tags :
  exists args',
    apply_op (CDelete p (LAttr a)) (NBuildable k fn args tags) = NBuildable k fn args' tags
    /\ (NoDup (map fst args) -> sget args' (KName a) = None)
    /\ (forall k', k' <> KName a -> sget args' k' = sget args k').
Proof.
  exists (sdel args (KName a)). cbn [apply_op]. split; [reflexivity | split].
  - intros Hnd. unfold sget, sdel. rewrite (dget_ddel skey_eqb skey_eqb_spec) by exact Hnd.
    rewrite skey_eqb_refl. reflexivity.
  - intros k' Hne. apply (dget_ddel_other skey_eqb skey_eqb_spec). exact Hne.
Qed.

Lemma tags_get_set m k l k' :
  tags_get (tags_set m k l) k' = if skey_eqb k' k then l else tags_get m k'.
Proof.
  unfold tags_get, tags_set. rewrite (dget_dset skey_eqb skey_eqb_spec).
  destruct (skey_eqb k' k); reflexivity.
Qed.

Lemma tset_add_in t l x : In x (tset_add t l) <-> x = t \/ In x l.
Proof.
  induction l as [|y l IH]; cbn [tset_add In].
  - split; [intros [H|[]]; auto | intros [H|[]]; auto].
  - destruct (N.eqb t y) eqn:E.
    + apply N.eqb_eq in E. subst y. cbn [In]. split; [auto | intros [H|H]; auto].
    + destruct (N.ltb t y); cbn [In].
      * split; [intros [H|H]; auto | intros [H|H]; auto].
      * rewrite IH. split; [intros [H|[H|H]]; auto | intros [H|[H|H]]; auto].
Qed.

Lemma tset_remove_in t l x : In x (tset_remove t l) <-> x <> t /\ In x l.
Proof.
  unfold tset_remove. rewrite filter_In. split.
  - intros [Hin Hne]. split; [| exact Hin]. intros Heq. subst x.
    rewrite N.eqb_refl in Hne. discriminate.
  - intros [Hne Hin]. split; [exact Hin |]. destruct (N.eqb t x) eqn:E; [| reflexivity].
    apply N.eqb_eq in E. congruence.
Qed.

Theorem apply_op_add_tag p a t k fn args tags :
  exists tags',
    apply_op (CAddTag p a t) (NBuildable k fn args tags) = NBuildable k fn args tags'
    /\ (forall x, In x (tags_get tags' (KName a)) <-> x = t \/ In x (tags_get tags (KName a)))
    /\ (forall k', k' <> KName a -> tags_get tags' k' = tags_get tags k').
Proof.
  exists (tags_add tags (KName a) t). cbn [apply_op]. split; [reflexivity | split].
  - intros x. unfold tags_add. rewrite tags_get_set, skey_eqb_refl. apply tset_add_in.
  - intros k' Hne. unfold tags_add. rewrite tags_get_set, skey_eqb_neq by exact Hne. reflexivity.
Qed.

Theorem apply_op_remove_tag p a t k fn args tags :
  exists tags',
    apply_op (CRemoveTag p a t) (NBuildable k fn args tags) = NBuildable k fn args tags'
    /\ (forall x, In x (tags_get tags' (KName a)) <-> x <> t /\ In x (tags_get tags (KName a)))
    /\ (forall k', k' <> KName a -> tags_get tags' k' = tags_get tags k').
Proof.
  exists (tags_remove tags (KName a) t). cbn [apply_op]. split; [reflexivity | split].
  - intros x. unfold tags_remove. rewrite tags_get_set, skey_eqb_refl. apply tset_remove_in.
  - intros k' Hne. unfold tags_remove. rewrite tags_get_set, skey_eqb_neq by exact Hne. reflexivity.
Qed.

Theorem apply_op_callable p f k fn args tags :
  apply_op (CModify p LFn (RA (ASym f))) (NBuildable k fn args tags) = NBuildable k f args tags.
Proof. reflexivity. Qed.

Theorem apply_op_dict_set c p key v kvs :
  c = CSet p (LKey key) v \/ c = CModify p (LKey key) v ->
  exists kvs',
    apply_op c (NDict kvs) = NDict kvs'
    /\ dget atom_eqb kvs' key = Some v
    /\ (forall k', k' <> key -> dget atom_eqb kvs' k' = dget atom_eqb kvs k').
Proof.
  intros [Hc|Hc]; subst c; exists (akv_set kvs key v); cbn [apply_op];
    (split; [reflexivity | rewrite akv_set_dset; split]).
  - apply (dget_dset_same atom_eqb atom_eqb_spec).
  - intros k' Hne. apply (dget_dset_other atom_eqb atom_eqb_spec). exact Hne.
  - apply (dget_dset_same atom_eqb atom_eqb_spec).
  - intros k' Hne. apply (dget_dset_other atom_eqb atom_eqb_spec). exact Hne.
Qed.

Theorem apply_op_dict_delete p key kvs :
  exists kvs',
    apply_op (CDelete p (LKey key)) (NDict kvs) = NDict kvs'
    /\ (NoDup (map fst kvs) -> dget atom_eqb kvs' key = None)
    /\ (forall k', k' <> key -> dget atom_eqb kvs' k' = dget atom_eqb kvs k').
Proof.
  exists (akv_del kvs key). cbn [apply_op]. rewrite akv_del_ddel. split; [reflexivity | split].
  - intros Hnd. rewrite (dget_ddel atom_eqb atom_eqb_spec) by exact Hnd.
    rewrite (keqb_refl atom_eqb atom_eqb_spec). reflexivity.
  - intros k' Hne. apply (dget_ddel_other atom_eqb atom_eqb_spec). exact Hne.
Qed.

Lemma list_set_nat_length {A} (l : list A) : forall i v, length (list_set_nat l i v) = length l.
Proof.
  induction l as [|x l IH]; intros i v; [reflexivity |].
  destruct i; cbn [list_set_nat length]; [reflexivity | rewrite IH; reflexivity].
Qed.

Lemma list_set_nat_nth {A} (l : list A) : forall i v j,
  nth_error (list_set_nat l i v) j
  = if Nat.eqb i j then (if Nat.ltb i (length l) then Some v else None) else nth_error l j.
Proof.
  induction l as [|x l IH]; intros i v j.
  - cbn [list_set_nat length]. destruct (Nat.eqb i j); [| reflexivity].
    destruct j; reflexivity.
  - destruct i, j; cbn [list_set_nat nth_error length]; try reflexivity.
    rewrite IH. cbn [Nat.eqb]. destruct (Nat.eqb i j); [| reflexivity].
    change (Nat.ltb (S i) (S (length l))) with (Nat.ltb i (length l)). reflexivity.
Qed.

Theorem apply_op_list_index p i v xs :
  exists xs',
    apply_op (CModify p (LIndex i) v) (NList xs) = NList xs'
    /\ length xs' = length xs
    /\ ((Z.to_nat i < length xs)%nat -> nth_error xs' (Z.to_nat i) = Some v)
    /\ (forall j, j <> Z.to_nat i -> nth_error xs' j = nth_error xs j).
Proof.
  exists (list_set_nat xs (Z.to_nat i) v). cbn [apply_op]. split; [reflexivity | split; [| split]].
  - apply list_set_nat_length.
  - intros Hlt. rewrite list_set_nat_nth, Nat.eqb_refl.
    apply Nat.ltb_lt in Hlt. rewrite Hlt. reflexivity.
  - intros j Hne. rewrite list_set_nat_nth.
    destruct (Nat.eqb (Z.to_nat i) j) eqn:E; [| reflexivity].
    apply Nat.eqb_eq in E. congruence.
Qed.

(* ------------------------------------------------------------------------------------------ *)
(* the phase order is not vacuous: sets before deletes give another configuration              *)

Definition pom_env : sigenv := [].
Definition pom_heap : heap := [NBuildable BConfig 7%N [(KName 1%N, RA (AInt 1))] []].
Definition pom_changes : list change :=
  [CDelete [] (LAttr 1%N); CSet [] (LAttr 1%N) (RA (AInt 2))].
Definition pom_other_order : list optype := [OpSet; OpDelete; OpRemoveTag; OpModify; OpAddTag].

Theorem phase_order_matters :
  exists (e : sigenv) (h : heap) (root : ref) (cs : list change) (order : list optype),
    Permutation order phase_order
    /\ apply_changes_with e order h root cs <> apply_changes e h root cs.
Proof.
  exists pom_env, pom_heap, (RP 0), pom_changes, pom_other_order. split.
  - unfold pom_other_order, phase_order.
    apply (Permutation_cons_app [OpDelete; OpRemoveTag; OpModify] [OpAddTag]).
    apply Permutation_refl.
  - vm_compute. discriminate.
Qed.
