(* History: one Buildable's arguments, tags and argument history, with the global sequence
   counter and the (nestable) tracking switch.  Every edit of ArgStore is lifted to this state:
   each primitive write (_arguments_set_value / _arguments_del_value) appends one entry. *)
From Fiddle Require Import PyBase PySlice Sig ArgStore.

Inductive hkey := HK (k : skey) | HFn.          (* HFn: the '__fn_or_cls__' pseudo parameter *)
Inductive hval := HVal (v : ref) | HDeleted | HTags (ts : list N) | HFnVal (fn : N).
Record hentry := mk_he { he_seq : nat; he_val : hval }.
Definition hist := list (hkey * list hentry).

Definition hkey_eq_dec : forall a b : hkey, {a = b} + {a <> b}.
Proof. decide equality; auto using skey_eq_dec. Defined.
Definition hkey_eqb (a b : hkey) : bool := if hkey_eq_dec a b then true else false.
Definition hval_eq_dec : forall a b : hval, {a = b} + {a <> b}.
Proof. decide equality; auto using ref_eq_dec, (list_eq_dec N.eq_dec), N.eq_dec. Defined.
Definition hentry_eq_dec : forall a b : hentry, {a = b} + {a <> b}.
Proof. decide equality; auto using Nat.eq_dec, hval_eq_dec. Defined.
Definition hist_eq_dec : forall a b : hist, {a = b} + {a <> b}.
Proof.
  apply list_eq_dec. decide equality; auto using hkey_eq_dec, (list_eq_dec hentry_eq_dec).
Defined.

Definition tagmap := list (skey * list N).
Definition tagmap_eq_dec : forall a b : tagmap, {a = b} + {a <> b}.
Proof. apply list_eq_dec. decide equality; auto using skey_eq_dec, (list_eq_dec N.eq_dec). Defined.

Record bstate := mk_bs {
  b_args : store;
  b_tags : tagmap;              (* __argument_tags__ (a defaultdict: reading creates an empty entry) *)
  b_hist : hist;
  b_counter : nat;              (* history._set_counter *)
  b_tracking : bool;            (* history._tracking_state.enabled *)
  b_stack : list bool           (* saved values of enclosing suspend_tracking blocks *)
}.

(* History.__missing__ + append *)
Fixpoint hist_append (hs : hist) (k : hkey) (en : hentry) : hist :=
  match hs with
  | [] => [(k, [en])]
  | (k', es) :: hs' => if hkey_eqb k k' then (k', es ++ [en]) :: hs' else (k', es) :: hist_append hs' k en
  end.

Definition hist_get (hs : hist) (k : hkey) : list hentry :=
  match dget hkey_eqb hs k with Some es => es | None => [] end.

Definition log_entry (s : bstate) (k : hkey) (v : hval) : bstate :=
  if b_tracking s then
    mk_bs (b_args s) (b_tags s) (hist_append (b_hist s) k (mk_he (b_counter s) v))
          (S (b_counter s)) (b_tracking s) (b_stack s)
  else s.

Definition log_write (s : bstate) (w : write) : bstate :=
  match w with
  | WSet k v => log_entry s (HK k) (HVal v)
  | WDel k => log_entry s (HK k) HDeleted
  end.

(* tag sets are kept sorted (they are Python sets; the harness sorts them) *)
Fixpoint tset_add (t : N) (l : list N) : list N :=
  match l with
  | [] => [t]
  | x :: l' => if N.eqb t x then l else if N.ltb t x then t :: l else x :: tset_add t l'
  end.
Definition tset_mem (t : N) (l : list N) : bool := existsb (N.eqb t) l.
Definition tset_remove (t : N) (l : list N) : list N := filter (fun x => negb (N.eqb t x)) l.

Definition tags_get (m : tagmap) (k : skey) : list N :=
  match dget skey_eqb m k with Some l => l | None => [] end.
Definition tags_set (m : tagmap) (k : skey) (l : list N) : tagmap := dset skey_eqb m k l.

Inductive targ := TName (n : N) | TIndex (i : Z).

Inductive hop :=
| HEdit (o : op)
| HAddTag (a : targ) (t : N) | HRemoveTag (a : targ) (t : N)
| HSetTags (a : targ) (ts : list N) | HClearTags (a : targ)
| HSuspendBegin | HSuspendEnd.

Section WithSig.
  Variable sg : sig.

  (* tagging._validate_argument_name / _validate_param_index *)
  Definition validate_targ (a : targ) : option exn :=
    match a with
    | TName n => validate_param_name sg n
    | TIndex i =>
        if i <? 0 then Some EIndex else
        match vps sg with
        | Some _ => None
        | None =>
            if Z.of_nat (length sg) <=? i then Some EIndex else
            match nth_error sg (Z.to_nat i) with
            | Some p => if is_prefix_kind (pk p) then None else Some EIndex
            | None => Some EIndex
            end
        end
    end.

  Definition targ_key (s : bstate) (a : targ) : skey + exn :=
    match a with
    | TName n => inl (KName n)
    | TIndex i => index_to_key sg i (b_args s)
    end.

  Definition with_tags (s : bstate) (m : tagmap) : bstate :=
    mk_bs (b_args s) m (b_hist s) (b_counter s) (b_tracking s) (b_stack s).

  Definition add_tag (s : bstate) (a : targ) (t : N) : bstate * option exn :=
    match validate_targ a with
    | Some e => (s, Some e)
    | None =>
        match targ_key s a with
        | inr e => (s, Some e)
        | inl k =>
            let l := tset_add t (tags_get (b_tags s) k) in
            (log_entry (with_tags s (tags_set (b_tags s) k l)) (HK k) (HTags l), None)
        end
    end.

  Definition clear_tags (s : bstate) (a : targ) : bstate * option exn :=
    match validate_targ a with
    | Some e => (s, Some e)
    | None =>
        match targ_key s a with
        | inr e => (s, Some e)
        | inl k => (log_entry (with_tags s (tags_set (b_tags s) k [])) (HK k) (HTags []), None)
        end
    end.

  Definition remove_tag (s : bstate) (a : targ) (t : N) : bstate * option exn :=
    match validate_targ a with
    | Some e => (s, Some e)
    | None =>
        match targ_key s a with
        | inr e => (s, Some e)
        | inl k =>
            let cur := tags_get (b_tags s) k in
            (* reading the defaultdict creates the (empty) entry even when the tag is absent *)
            let s1 := with_tags s (tags_set (b_tags s) k cur) in
            if tset_mem t cur then
              let l := tset_remove t cur in
              (log_entry (with_tags s1 (tags_set (b_tags s1) k l)) (HK k) (HTags l), None)
            else (s1, Some EValue)
        end
    end.

  Fixpoint add_tags (s : bstate) (a : targ) (ts : list N) : bstate * option exn :=
    match ts with
    | [] => (s, None)
    | t :: ts' => match add_tag s a t with
                  | (s', None) => add_tags s' a ts'
                  | r => r
                  end
    end.

  Definition set_tags (s : bstate) (a : targ) (ts : list N) : bstate * option exn :=
    match clear_tags s a with
    | (s1, None) =>
        match add_tags s1 a ts with
        | (s2, None) =>
            match targ_key s2 a with
            | inr e => (s2, Some e)
            | inl k => (log_entry s2 (HK k) (HTags (tags_get (b_tags s2) k)), None)
            end
        | r => r
        end
    | r => r
    end.

  Definition hstep (s : bstate) (o : hop) : bstate * out :=
    match o with
    | HEdit ed =>
        let '((args', writes), r) := step_w sg (b_args s) ed in
        let s1 := mk_bs args' (b_tags s) (b_hist s) (b_counter s) (b_tracking s) (b_stack s) in
        (fold_left log_write writes s1, r)
    | HAddTag a t => let '(s', r) := add_tag s a t in (s', out_of r)
    | HRemoveTag a t => let '(s', r) := remove_tag s a t in (s', out_of r)
    | HSetTags a ts => let '(s', r) := set_tags s a ts in (s', out_of r)
    | HClearTags a => let '(s', r) := clear_tags s a in (s', out_of r)
    | HSuspendBegin =>
        (mk_bs (b_args s) (b_tags s) (b_hist s) (b_counter s) false (b_tracking s :: b_stack s), OUnit)
    | HSuspendEnd =>
        match b_stack s with
        | prev :: rest => (mk_bs (b_args s) (b_tags s) (b_hist s) (b_counter s) prev rest, OUnit)
        | [] => (s, OUnit)
        end
    end.

  Definition hrun (s : bstate) (ops : list hop) : bstate := fold_left (fun s o => fst (hstep s o)) ops s.
End WithSig.

(* ------------------------------------------------------------------------------------------
   The invariants of C16, as booleans (tested on every generated history) *)

Definition is_value_entry (en : hentry) : bool :=
  match he_val en with HVal _ | HDeleted => true | _ => false end.
Definition is_tag_entry (en : hentry) : bool :=
  match he_val en with HTags _ => true | _ => false end.

Definition last_opt {A} (l : list A) : option A := match rev l with [] => None | x :: _ => Some x end.

(* every key with a value entry: the last value entry is the stored value / DELETED iff unset;
   every key with a tag entry: the last tag entry is the current tag set *)
Definition last_is_current_b (s : bstate) : bool :=
  forallb (fun kes =>
             match fst kes with
             | HFn => true
             | HK k =>
                 (match last_opt (filter is_value_entry (snd kes)) with
                  | None => true
                  | Some en =>
                      match he_val en, sget (b_args s) k with
                      | HVal v, Some v' => ref_eqb v v'
                      | HDeleted, None => true
                      | _, _ => false
                      end
                  end)
                 && (match last_opt (filter is_tag_entry (snd kes)) with
                     | None => true
                     | Some en =>
                         match he_val en with
                         | HTags ts => if list_eq_dec N.eq_dec ts (tags_get (b_tags s) k) then true else false
                         | _ => false
                         end
                     end)
             end) (b_hist s).

Definition all_entries (hs : hist) : list hentry := flat_map snd hs.

Fixpoint strictly_increasing (l : list nat) : bool :=
  match l with
  | a :: ((b :: _) as l') => Nat.ltb a b && strictly_increasing l'
  | _ => true
  end.

Fixpoint nodup_nat_b (l : list nat) : bool :=
  match l with
  | [] => true
  | x :: l' => negb (existsb (Nat.eqb x) l') && nodup_nat_b l'
  end.

(* sequence ids: below the counter, pairwise distinct, increasing along each key's list *)
Definition seqs_ok_b (s : bstate) : bool :=
  forallb (fun en => Nat.ltb (he_seq en) (b_counter s)) (all_entries (b_hist s))
  && forallb (fun kes => strictly_increasing (map he_seq (snd kes))) (b_hist s)
  && nodup_nat_b (map he_seq (all_entries (b_hist s))).
