(* C12Check: a configuration (heap, root) and what the real generator did with it: the program
   parsed back from the emitted module text (fail-closed translator in the harness), or a rejection.
     1. the parsed program, run under the configuration semantics of Lang, rebuilds a heap
        isomorphic to the input up to the storage order of arguments (faithfulness of the emitted text);
     2. when both the implementation and the model generator produce a program, they declare the same
        number of variables for shared containers and Buildables (same sharing analysis; the
        implementation also names leaf objects such as functions when they occur twice); a rejection by the implementation is always allowed;
     3. the model generator's own program rebuilds the input (the instance of theorem C12 on the case). *)
From Fiddle Require Import PyBase PySlice Sig ArgStore PyCall Heap Traverse Build Lang Codegen C02Check.

Record case := mkcase {
  c_env : sigenv; c_heap : heap; c_root : ref;
  c_emitted : option program;      (* None: the generator raised *)
  c_default_options : bool         (* false: max_expression_complexity was set, sub-expressions over the
                                      threshold become variables too *)
}.

Definition rebuilds (e : sigenv) (h : heap) (r : ref) (p : program) : bool :=
  match run_program e true 64 [] [] p with
  | (h', Some r') => iso_b (canon_heap h') (canon_heap h) r' r
  | _ => false
  end.

Definition check_case (c : case) : bool :=
  let e := c_env c in
  match c_emitted c, gen e (c_heap c) (c_root c) with
  | Some p, Some g =>
      rebuilds e (c_heap c) (c_root c) p
      && rebuilds e (c_heap c) (c_root c) g
      && (if c_default_options c
          then Nat.eqb (length (filter (fun x => match x with EConst _ => false | _ => true end) (p_body p)))
                       (length (p_body g))
          else Nat.leb (length (p_body g))
                       (length (filter (fun x => match x with EConst _ => false | _ => true end) (p_body p))))
  | Some p, None => rebuilds e (c_heap c) (c_root c) p   (* outside the model generator's fragment *)
  | None, _ => true     (* a rejection is always allowed by the property *)
  end.

Definition explain_case (c : case) :=
  (gen (c_env c) (c_heap c) (c_root c),
   match c_emitted c with Some p => Some (run_program (c_env c) true 64 [] [] p) | None => None end).
