(* C03Check: the correspondence checker evaluated by the generated case files.
   A case is a signature, the initial __arguments__ (as the implementation stored it after the
   constructor), and an edit history with, per step, what the implementation returned / raised and
   the __arguments__ dict (items in insertion order) it left. *)
From Fiddle Require Import PyBase PySlice Sig ArgStore ArgSpec.


Record case := mkcase { c_sig : sig; c_init : store; c_steps : list (op * (out * store)) }.

Fixpoint run_steps (sg : sig) (st : store) (steps : list (op * (out * store))) : bool :=
  match steps with
  | [] => true
  | (o, (exp_out, exp_store)) :: rest =>
      let '(st', r) := step sg st o in
      if out_eq_dec r exp_out then
        if store_eq_dec st' exp_store then run_steps sg st' rest else false
      else false
  end.

(* the refinement statement C03_refines, tested along the same history *)
Fixpoint refines_along (sg : sig) (st : store) (ops : list op) : bool :=
  match ops with
  | [] => true
  | o :: rest =>
      (negb (op_ok o) || refines_step_b sg st o) && refines_along sg (fst (step sg st o)) rest
  end.

Definition check_case (c : case) : bool :=
  valid_sig (c_sig c) && run_steps (c_sig c) (c_init c) (c_steps c)
  && inv_b (c_sig c) (c_init c) && refines_along (c_sig c) (c_init c) (map fst (c_steps c)).

(* for replay files: what the model computes along the history *)
Fixpoint model_trace (sg : sig) (st : store) (ops : list op) : list (out * store) :=
  match ops with
  | [] => []
  | o :: rest => let '(st', r) := step sg st o in (r, st') :: model_trace sg st' rest
  end.
Definition explain_case (c : case) := model_trace (c_sig c) (c_init c) (map fst (c_steps c)).
