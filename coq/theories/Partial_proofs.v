(* Partial_proofs: properties of the model of fdl.Partial / fdl.ArgFactory (Partial.v).
   - functools.partial keyword merge (merge_kw)
   - bind_arg makes a new wrapper per binding
   - calling a built partial only appends to the heap (frame), results are fresh NObj nodes
   - arguments without factories are passed with their build-time identity *)
From Fiddle Require Import PyBase PySlice Sig ArgStore PyCall Heap Traverse Build Build_stmt
  Traverse_proofs Partial.
From Coq Require Import List Arith Lia Bool.
Import ListNotations.
Local Open Scope nat_scope.

(* ------------------------------------------------------------------------------------------ *)
(* 3. keyword merge *)

Lemma dgetN_dset_same (d : list (N * ref)) k v : dget N.eqb (dset N.eqb d k v) k = Some v.
Proof.
  induction d as [|[k' v'] d IH]; cbn [dset dget].
  - rewrite N.eqb_refl. reflexivity.
  - destruct (N.eqb k k') eqn:Hk; cbn [dget]; rewrite Hk; [reflexivity | exact IH].
Qed.

Lemma dgetN_dset_other (d : list (N * ref)) k v k' :
  k' <> k -> dget N.eqb (dset N.eqb d k v) k' = dget N.eqb d k'.
Proof.
  intros Hne. induction d as [|[k0 v0] d IH]; cbn [dset dget].
  - destruct (N.eqb k' k) eqn:Hk; [apply N.eqb_eq in Hk; contradiction | reflexivity].
  - destruct (N.eqb k k0) eqn:Hk; cbn [dget].
    + apply N.eqb_eq in Hk; subst k0.
      destruct (N.eqb k' k) eqn:Hk'; [apply N.eqb_eq in Hk'; contradiction | reflexivity].
    + destruct (N.eqb k' k0); [reflexivity | exact IH].
Qed.

Lemma dsetN_keys (d : list (N * ref)) k v :
  map fst (dset N.eqb d k v) = map fst d ++ (if dmem N.eqb d k then [] else [k]).
Proof.
  unfold dmem. induction d as [|[k0 v0] d IH]; cbn [dset dget map fst app].
  - reflexivity.
  - destruct (N.eqb k k0) eqn:Hk; cbn [map fst].
    + rewrite app_nil_r. reflexivity.
    + rewrite IH. reflexivity.
Qed.

Lemma dsetN_length_values (d : list (N * ref)) k v : length d <= length (dset N.eqb d k v).
Proof.
  pose proof (f_equal (@length _) (dsetN_keys d k v)) as H.
  rewrite app_length, !map_length in H. lia.
Qed.

Lemma dgetN_none_notin (d : list (N * ref)) k : dget N.eqb d k = None <-> ~ In k (map fst d).
Proof.
  induction d as [|[k0 v0] d IH]; cbn [dget map fst In].
  - tauto.
  - destruct (N.eqb k k0) eqn:Hk.
    + apply N.eqb_eq in Hk; subst. split; [discriminate | intros H; exfalso; apply H; auto].
    + apply N.eqb_neq in Hk. rewrite IH. split; [intros H [Hq|Hq]; [congruence|auto] | tauto].
Qed.

Lemma NoDup_snoc {A} (l : list A) (k : A) : NoDup l -> ~ In k l -> NoDup (l ++ [k]).
Proof.
  induction l as [|x l IH]; cbn [app In]; intros Hnd Hni.
  - constructor; [intros []|constructor].
  - inversion Hnd as [|? ? Hx Hnd']; subst. constructor.
    + intros Hin. apply in_app_or in Hin. destruct Hin as [Hin|[Heq|[]]]; [auto|].
      subst. apply Hni. auto.
    + apply IH; auto.
Qed.

Lemma dsetN_keys_nodup (d : list (N * ref)) k v :
  NoDup (map fst d) -> NoDup (map fst (dset N.eqb d k v)).
Proof.
  intros Hnd. rewrite dsetN_keys. unfold dmem. destruct (dget N.eqb d k) eqn:Hg.
  - rewrite app_nil_r. exact Hnd.
  - apply dgetN_none_notin in Hg. apply NoDup_snoc; assumption.
Qed.

(* the exact characterization: the last call-time binding of k wins, else the bound value *)
Lemma merge_kw_get bound call k :
  dget N.eqb (merge_kw bound call) k =
  match dget N.eqb (rev call) k with Some v => Some v | None => dget N.eqb bound k end.
Proof.
  revert bound. induction call as [|[k0 v0] call IH]; intros bound; cbn [merge_kw rev].
  - reflexivity.
  - rewrite IH.
    assert (Happ : forall (a b : list (N * ref)), dget N.eqb (a ++ b) k =
              match dget N.eqb a k with Some v => Some v | None => dget N.eqb b k end).
    { clear. induction a as [|[k1 v1] a IHa]; intros b; cbn [app dget]; [reflexivity|].
      destruct (N.eqb k k1); [reflexivity | apply IHa]. }
    rewrite Happ. destruct (dget N.eqb (rev call) k) as [v|]; [reflexivity|].
    cbn [dget]. destruct (N.eqb k k0) eqn:Hk.
    + apply N.eqb_eq in Hk; subst. apply dgetN_dset_same.
    + apply N.eqb_neq in Hk. apply dgetN_dset_other. exact Hk.
Qed.

Lemma merge_kw_not_called bound call k :
  ~ In k (map fst call) -> dget N.eqb (merge_kw bound call) k = dget N.eqb bound k.
Proof.
  intros Hni. rewrite merge_kw_get.
  assert (Hn : dget N.eqb (rev call) k = None).
  { apply dgetN_none_notin. rewrite map_rev, <- in_rev. exact Hni. }
  rewrite Hn. reflexivity.
Qed.

Lemma dgetN_in_nodup (d : list (N * ref)) k v :
  NoDup (map fst d) -> In (k, v) d -> dget N.eqb d k = Some v.
Proof.
  induction d as [|[k0 v0] d IH]; cbn [map fst In dget]; intros Hnd Hin; [contradiction|].
  inversion Hnd as [|? ? Hni Hnd']; subst. destruct Hin as [Heq|Hin].
  - inversion Heq; subst. rewrite N.eqb_refl. reflexivity.
  - destruct (N.eqb k k0) eqn:Hk.
    + apply N.eqb_eq in Hk; subst. exfalso. apply Hni.
      change k0 with (fst (k0, v)). apply in_map. exact Hin.
    + apply IH; assumption.
Qed.

Lemma merge_kw_override bound call k v :
  NoDup (map fst call) -> In (k, v) call -> dget N.eqb (merge_kw bound call) k = Some v.
Proof.
  intros Hnd Hin. rewrite merge_kw_get.
  rewrite (dgetN_in_nodup (rev call) k v).
  - reflexivity.
  - rewrite map_rev. apply NoDup_rev. exact Hnd.
  - rewrite <- in_rev. exact Hin.
Qed.

Lemma merge_kw_keys_prefix bound call :
  exists ext, map fst (merge_kw bound call) = map fst bound ++ ext /\
              (forall k, In k ext -> In k (map fst call) /\ ~ In k (map fst bound)).
Proof.
  revert bound. induction call as [|[k0 v0] call IH]; intros bound; cbn [merge_kw].
  - exists []. rewrite app_nil_r. split; [reflexivity | intros k []].
  - destruct (IH (dset N.eqb bound k0 v0)) as (ext & Hk & Hext).
    rewrite dsetN_keys in Hk. rewrite <- app_assoc in Hk.
    eexists. split; [exact Hk|]. intros k Hin. cbn [map fst In].
    apply in_app_or in Hin. destruct Hin as [Hin|Hin].
    + unfold dmem in Hin. destruct (dget N.eqb bound k0) eqn:Hg; [destruct Hin|].
      destruct Hin as [Heq|[]]; subst. split; [auto|]. apply dgetN_none_notin. exact Hg.
    + destruct (Hext k Hin) as [H1 H2]. split; [auto|].
      intros Hb. apply H2. rewrite dsetN_keys. apply in_or_app. auto.
Qed.

Lemma merge_kw_keys_nodup bound call :
  NoDup (map fst bound) -> NoDup (map fst (merge_kw bound call)).
Proof.
  revert bound. induction call as [|[k0 v0] call IH]; intros bound Hnd; cbn [merge_kw].
  - exact Hnd.
  - apply IH. apply dsetN_keys_nodup. exact Hnd.
Qed.

(* the i-th bound keyword keeps its position (its value may be overridden) *)
Lemma merge_kw_position bound call i k :
  nth_error (map fst bound) i = Some k -> nth_error (map fst (merge_kw bound call)) i = Some k.
Proof.
  intros Hn. destruct (merge_kw_keys_prefix bound call) as (ext & Hk & _). rewrite Hk.
  rewrite nth_error_app1; [exact Hn|]. apply nth_error_Some. congruence.
Qed.

(* ------------------------------------------------------------------------------------------ *)
(* 5. bind_arg: a NEW wrapper for each binding of a factory *)

Lemma bind_arg_factory e o i n t f :
  nth_error o i = Some n -> factory_of n = Some (t, f) ->
  bind_arg e o (RP i) = (o ++ [mk_factory 2 f], RP (length o)).
Proof.
  intros Hn Hf. unfold bind_arg. rewrite Hn, Hf. reflexivity.
Qed.

Lemma bind_arg_factory_inv e o r o' r' i n t f :
  bind_arg e o r = (o', r') -> r = RP i -> nth_error o i = Some n -> factory_of n = Some (t, f) ->
  r' = RP (length o) /\ o' = o ++ [mk_factory 2 f].
Proof.
  intros Hb Hr Hn Hf. subst r. rewrite (bind_arg_factory e o i n t f Hn Hf) in Hb.
  inversion Hb; subst. split; reflexivity.
Qed.

Lemma bind_arg_plain e o r :
  contains_factory e (S (length o)) o r = false -> bind_arg e o r = (o, r).
Proof.
  intros Hc. unfold bind_arg. destruct r as [a|i]; [reflexivity|].
  destruct (nth_error o i) as [n|] eqn:Hn; [|reflexivity].
  destruct (factory_of n) as [[t f]|] eqn:Hf.
  - cbn [contains_factory] in Hc. rewrite Hn, Hf in Hc. discriminate.
  - rewrite Hc. reflexivity.
Qed.

(* a container holding a factory is bound through a new container wrapper *)
Lemma bind_arg_container e o i n :
  nth_error o i = Some n -> factory_of n = None ->
  contains_factory e (S (length o)) o (RP i) = true ->
  bind_arg e o (RP i) = (o ++ [mk_factory 3 (RP i)], RP (length o)).
Proof.
  intros Hn Hf Hc. unfold bind_arg. rewrite Hn, Hf, Hc. reflexivity.
Qed.

(* two bindings of the same factory give two different wrappers *)
Lemma bind_arg_twice_distinct e o i n t f o1 r1 o2 r2 :
  nth_error o i = Some n -> factory_of n = Some (t, f) ->
  bind_arg e o (RP i) = (o1, r1) -> bind_arg e o1 (RP i) = (o2, r2) ->
  r1 = RP (length o) /\ r2 = RP (S (length o)) /\ r1 <> r2 /\
  o2 = o ++ [mk_factory 2 f; mk_factory 2 f].
Proof.
  intros Hn Hf H1 H2. rewrite (bind_arg_factory e o i n t f Hn Hf) in H1. inversion H1; subst.
  assert (Hn' : nth_error (o ++ [mk_factory 2 f]) i = Some n).
  { rewrite nth_error_app1; [exact Hn|]. apply nth_error_Some. congruence. }
  rewrite (bind_arg_factory e _ i n t f Hn' Hf) in H2. inversion H2; subst.
  rewrite app_length. cbn [length]. rewrite Nat.add_1_r, <- app_assoc. cbn [app].
  repeat split; try reflexivity. intros Heq. inversion Heq. lia.
Qed.

Lemma bind_arg_appends e o r o' r' : bind_arg e o r = (o', r') -> exists ext, o' = o ++ ext.
Proof.
  unfold bind_arg, alloc. intros H.
  destruct r as [a|i]; [inversion H; subst; exists []; symmetry; apply app_nil_r|].
  destruct (nth_error o i) as [n|]; [|inversion H; subst; exists []; symmetry; apply app_nil_r].
  destruct (factory_of n) as [[t f]|].
  - inversion H; subst. eexists; reflexivity.
  - destruct (contains_factory e (S (length o)) o (RP i)); inversion H; subst.
    + eexists; reflexivity.
    + exists []; symmetry; apply app_nil_r.
Qed.

(* ------------------------------------------------------------------------------------------ *)
(* the local fixes of call_partial / invoke_struct, named *)

Definition inv_list_of (step : heap -> ref -> heap * option ref)
  : heap -> list ref -> heap * option (list ref) :=
  fix inv_list (o : heap) (l : list ref) : heap * option (list ref) :=
    match l with
    | [] => (o, Some [])
    | x :: l' =>
        match step o x with
        | (o1, Some x') =>
            match inv_list o1 l' with
            | (o2, Some l'') => (o2, Some (x' :: l''))
            | (o2, None) => (o2, None)
            end
        | (o1, None) => (o1, None)
        end
    end.

Definition inv_kw_of (step : heap -> ref -> heap * option ref)
  : heap -> list (N * ref) -> heap * option (list (N * ref)) :=
  fix inv_kw (o : heap) (l : list (N * ref)) : heap * option (list (N * ref)) :=
    match l with
    | [] => (o, Some [])
    | (k, x) :: l' =>
        match step o x with
        | (o1, Some x') =>
            match inv_kw o1 l' with
            | (o2, Some l'') => (o2, Some ((k, x') :: l''))
            | (o2, None) => (o2, None)
            end
        | (o1, None) => (o1, None)
        end
    end.

Definition go_of (step : heap -> list (nat * ref) -> ref -> heap * list (nat * ref) * option ref)
  : heap -> list (nat * ref) -> list ref -> heap * list (nat * ref) * option (list ref) :=
  fix go (o : heap) (memo : list (nat * ref)) (l : list ref)
    : heap * list (nat * ref) * option (list ref) :=
    match l with
    | [] => (o, memo, Some [])
    | c :: l' =>
        match step o memo c with
        | (o1, m1, Some c') =>
            match go o1 m1 l' with
            | (o2, m2, Some l'') => (o2, m2, Some (c' :: l''))
            | (o2, m2, None) => (o2, m2, None)
            end
        | (o1, m1, None) => (o1, m1, None)
        end
    end.

Lemma call_partial_S e f o p cpos ckw :
  call_partial e (S f) o p cpos ckw =
  match p with
  | RP i =>
      match nth_error o i with
      | Some (NPartialObj fn pos kw) =>
          match inv_list_of (invoke_arg e f) o (pos ++ cpos) with
          | (o1, Some pos') =>
              match inv_kw_of (invoke_arg e f) o1 (merge_kw kw ckw) with
              | (o2, Some kw') =>
                  match py_call (sig_of e fn) pos' (map (fun kv => (KName (fst kv), snd kv)) kw') with
                  | Some vw => let '(o3, r) := alloc o2 (NObj fn vw) in (o3, Some r)
                  | None => (o2, None)
                  end
              | (o2, None) => (o2, None)
              end
          | (o1, None) => (o1, None)
          end
      | _ => (o, None)
      end
  | RA _ => (o, None)
  end.
Proof. reflexivity. Qed.

Lemma invoke_arg_S e f o x :
  invoke_arg e (S f) o x =
  match x with
  | RP i =>
      match nth_error o i with
      | Some n =>
          match factory_of n with
          | Some (t, g) =>
              if N.eqb t 3 then let '(o', _, r) := invoke_struct e f o [] g in (o', r)
              else invoke_factory e f o g
          | None => (o, Some x)
          end
      | None => (o, Some x)
      end
  | RA _ => (o, Some x)
  end.
Proof. reflexivity. Qed.

Lemma invoke_factory_S e f o g :
  invoke_factory e (S f) o g =
  match g with
  | RA (ASym fn) =>
      match py_call (sig_of e fn) [] [] with
      | Some vw => let '(o', r) := alloc o (NObj fn vw) in (o', Some r)
      | None => (o, None)
      end
  | RP _ => call_partial e f o g [] []
  | _ => (o, None)
  end.
Proof. reflexivity. Qed.

Lemma invoke_struct_S e f o memo x :
  invoke_struct e (S f) o memo x =
  match x with
  | RA _ => (o, memo, Some x)
  | RP i =>
      match memo_get memo i with
      | Some r => (o, memo, Some r)
      | None =>
          match nth_error o i with
          | Some n =>
              match factory_of n with
              | Some (t, g) =>
                  match (if N.eqb t 3 then let '(o', _, r) := invoke_struct e f o [] g in (o', r)
                         else invoke_factory e f o g) with
                  | (o1, Some r) => (o1, (i, r) :: memo, Some r)
                  | (o1, None) => (o1, memo, None)
                  end
              | None =>
                  if traversable n then
                    match go_of (invoke_struct e f) o memo (children e n) with
                    | (o1, m1, Some cs) =>
                        if (if list_eq_dec ref_eq_dec cs (children e n) then true else false)
                        then (o1, (i, x) :: m1, Some x)
                        else let '(o2, r) := alloc o1 (with_children e n cs) in (o2, (i, r) :: m1, Some r)
                    | (o1, m1, None) => (o1, m1, None)
                    end
                  else (o, (i, x) :: memo, Some x)
              end
          | None => (o, memo, Some x)
          end
      end
  end.
Proof. reflexivity. Qed.

Lemma call_partial_0 e o p cpos ckw : call_partial e 0 o p cpos ckw = (o, None).
Proof. reflexivity. Qed.
Lemma invoke_arg_0 e o x : invoke_arg e 0 o x = (o, None).
Proof. reflexivity. Qed.
Lemma invoke_factory_0 e o g : invoke_factory e 0 o g = (o, None).
Proof. reflexivity. Qed.
Lemma invoke_struct_0 e o memo x : invoke_struct e 0 o memo x = (o, memo, None).
Proof. reflexivity. Qed.

(* ------------------------------------------------------------------------------------------ *)
(* 1. calls only append *)

Definition extends (o o' : heap) : Prop := exists ext, o' = o ++ ext.

Lemma extends_refl o : extends o o.
Proof. exists []. symmetry. apply app_nil_r. Qed.

Lemma extends_trans o1 o2 o3 : extends o1 o2 -> extends o2 o3 -> extends o1 o3.
Proof. intros [a Ha] [b Hb]. exists (a ++ b). subst. symmetry. apply app_assoc. Qed.

Lemma extends_alloc o n o' r : alloc o n = (o', r) -> extends o o'.
Proof. unfold alloc. intros H. inversion H; subst. exists [n]. reflexivity. Qed.

Lemma extends_length o o' : extends o o' -> length o <= length o'.
Proof. intros [a Ha]. subst. rewrite app_length. lia. Qed.

Lemma extends_firstn o o' : extends o o' -> firstn (length o) o' = o.
Proof.
  intros [a Ha]. subst. rewrite firstn_app, Nat.sub_diag, firstn_all. cbn [firstn]. apply app_nil_r.
Qed.

Lemma extends_nth o o' i : extends o o' -> i < length o -> nth_error o' i = nth_error o i.
Proof. intros [a Ha] Hi. subst. apply nth_error_app1. exact Hi. Qed.

Lemma extends_nth_some o o' i n : extends o o' -> nth_error o i = Some n -> nth_error o' i = Some n.
Proof.
  intros Hext Hn. rewrite (extends_nth o o' i Hext); [exact Hn|]. apply nth_error_Some. congruence.
Qed.

Lemma inv_list_of_extends step :
  (forall o x o' r, step o x = (o', r) -> extends o o') ->
  forall l o o' r, inv_list_of step o l = (o', r) -> extends o o'.
Proof.
  intros Hstep. induction l as [|x l IH]; intros o o' r H; cbn [inv_list_of] in H.
  - inversion H; subst. apply extends_refl.
  - destruct (step o x) as [o1 [x'|]] eqn:Hs.
    + fold (inv_list_of step) in H. destruct (inv_list_of step o1 l) as [o2 [l''|]] eqn:Hl;
        inversion H; subst; eapply extends_trans; eauto.
    + inversion H; subst. eauto.
Qed.

Lemma inv_kw_of_extends step :
  (forall o x o' r, step o x = (o', r) -> extends o o') ->
  forall l o o' r, inv_kw_of step o l = (o', r) -> extends o o'.
Proof.
  intros Hstep. induction l as [|[k x] l IH]; intros o o' r H; cbn [inv_kw_of] in H.
  - inversion H; subst. apply extends_refl.
  - destruct (step o x) as [o1 [x'|]] eqn:Hs.
    + fold (inv_kw_of step) in H. destruct (inv_kw_of step o1 l) as [o2 [l''|]] eqn:Hl;
        inversion H; subst; eapply extends_trans; eauto.
    + inversion H; subst. eauto.
Qed.

Lemma go_of_extends step :
  (forall o m x o' m' r, step o m x = (o', m', r) -> extends o o') ->
  forall l o m o' m' r, go_of step o m l = (o', m', r) -> extends o o'.
Proof.
  intros Hstep. induction l as [|x l IH]; intros o m o' m' r H; cbn [go_of] in H.
  - inversion H; subst. apply extends_refl.
  - destruct (step o m x) as [[o1 m1] [x'|]] eqn:Hs.
    + fold (go_of step) in H. destruct (go_of step o1 m1 l) as [[o2 m2] [l''|]] eqn:Hl;
        inversion H; subst; eapply extends_trans; eauto.
    + inversion H; subst. eauto.
Qed.

Definition frame_at e (f : nat) : Prop :=
  (forall o p cpos ckw o' r, call_partial e f o p cpos ckw = (o', r) -> extends o o') /\
  (forall o x o' r, invoke_arg e f o x = (o', r) -> extends o o') /\
  (forall o g o' r, invoke_factory e f o g = (o', r) -> extends o o') /\
  (forall o m x o' m' r, invoke_struct e f o m x = (o', m', r) -> extends o o').

Lemma frame_all e : forall f, frame_at e f.
Proof.
  induction f as [|f IH].
  - unfold frame_at. repeat split; intros *; intros H.
    + rewrite call_partial_0 in H. inversion H; subst. apply extends_refl.
    + rewrite invoke_arg_0 in H. inversion H; subst. apply extends_refl.
    + rewrite invoke_factory_0 in H. inversion H; subst. apply extends_refl.
    + rewrite invoke_struct_0 in H. inversion H; subst. apply extends_refl.
  - destruct IH as (IHc & IHa & IHf & IHs). unfold frame_at. repeat split.
    + intros o p cpos ckw o' r H. rewrite call_partial_S in H.
      destruct p as [a|i]; [inversion H; subst; apply extends_refl|].
      destruct (nth_error o i) as [n|]; [|inversion H; subst; apply extends_refl].
      destruct n; try (inversion H; subst; apply extends_refl).
      destruct (inv_list_of (invoke_arg e f) o (pos ++ cpos)) as [o1 [pos'|]] eqn:Hl.
      * pose proof (inv_list_of_extends _ IHa _ _ _ _ Hl) as E1.
        destruct (inv_kw_of (invoke_arg e f) o1 (merge_kw kw ckw)) as [o2 [kw'|]] eqn:Hk.
        -- pose proof (inv_kw_of_extends _ IHa _ _ _ _ Hk) as E2.
           destruct (py_call _ _ _) as [vw|].
           ++ destruct (alloc o2 (NObj fn vw)) as [o3 r3] eqn:Ha. inversion H; subst.
              eapply extends_trans; [exact E1|]. eapply extends_trans; [exact E2|].
              eapply extends_alloc; eauto.
           ++ inversion H; subst. exact (extends_trans _ _ _ E1 E2).
        -- pose proof (inv_kw_of_extends _ IHa _ _ _ _ Hk) as E2.
           inversion H; subst. exact (extends_trans _ _ _ E1 E2).
      * inversion H; subst. exact (inv_list_of_extends _ IHa _ _ _ _ Hl).
    + intros o x o' r H. rewrite invoke_arg_S in H.
      destruct x as [a|i]; [inversion H; subst; apply extends_refl|].
      destruct (nth_error o i) as [n|]; [|inversion H; subst; apply extends_refl].
      destruct (factory_of n) as [[t g]|]; [|inversion H; subst; apply extends_refl].
      destruct (N.eqb t 3).
      * destruct (invoke_struct e f o [] g) as [[o1 m1] r1] eqn:Hs. inversion H; subst. eauto.
      * eauto.
    + intros o g o' r H. rewrite invoke_factory_S in H.
      destruct g as [a|i]; [|eauto].
      destruct a; try (inversion H; subst; apply extends_refl).
      destruct (py_call _ _ _) as [vw|]; [|inversion H; subst; apply extends_refl].
      destruct (alloc o (NObj n vw)) as [o3 r3] eqn:Ha. inversion H; subst.
      eapply extends_alloc; eauto.
    + intros o m x o' m' r H. rewrite invoke_struct_S in H.
      destruct x as [a|i]; [inversion H; subst; apply extends_refl|].
      destruct (memo_get m i); [inversion H; subst; apply extends_refl|].
      destruct (nth_error o i) as [n|]; [|inversion H; subst; apply extends_refl].
      destruct (factory_of n) as [[t g]|].
      * assert (E : forall o1 r1, (if N.eqb t 3 then let '(o', _, r) := invoke_struct e f o [] g in (o', r)
                                   else invoke_factory e f o g) = (o1, r1) -> extends o o1).
        { intros o1 r1 Hq. destruct (N.eqb t 3).
          - destruct (invoke_struct e f o [] g) as [[o1' m1'] r1'] eqn:Hs. inversion Hq; subst. eauto.
          - eauto. }
        destruct (if N.eqb t 3 then _ else _) as [o1 [r1|]] eqn:Hq;
          inversion H; subst; eapply E; eauto.
      * destruct (traversable n); [|inversion H; subst; apply extends_refl].
        destruct (go_of (invoke_struct e f) o m (children e n)) as [[o1 m1] [cs|]] eqn:Hg.
        -- pose proof (go_of_extends _ IHs _ _ _ _ _ _ Hg) as E1.
           destruct (if list_eq_dec ref_eq_dec cs (children e n) then true else false).
           ++ inversion H; subst. exact E1.
           ++ destruct (alloc o1 (with_children e n cs)) as [o2 r2] eqn:Ha. inversion H; subst.
              eapply extends_trans; [exact E1|]. eapply extends_alloc; eauto.
        -- inversion H; subst. exact (go_of_extends _ IHs _ _ _ _ _ _ Hg).
Qed.

Theorem call_partial_appends e fuel o p cpos ckw o' r :
  call_partial e fuel o p cpos ckw = (o', r) -> exists ext, o' = o ++ ext.
Proof. apply (frame_all e fuel). Qed.

Theorem invoke_arg_appends e fuel o x o' r :
  invoke_arg e fuel o x = (o', r) -> exists ext, o' = o ++ ext.
Proof. apply (frame_all e fuel). Qed.

Theorem invoke_factory_appends e fuel o g o' r :
  invoke_factory e fuel o g = (o', r) -> exists ext, o' = o ++ ext.
Proof. apply (frame_all e fuel). Qed.

Theorem invoke_struct_appends e fuel o m x o' m' r :
  invoke_struct e fuel o m x = (o', m', r) -> exists ext, o' = o ++ ext.
Proof. apply (frame_all e fuel). Qed.

Theorem call_appends e o p cpos ckw o' r :
  call e o p cpos ckw = (o', r) -> exists ext, o' = o ++ ext.
Proof. unfold call. apply call_partial_appends. Qed.

(* the configuration and everything made at build time or by earlier calls is never modified *)
Theorem call_partial_frame e fuel o p cpos ckw o' r :
  call_partial e fuel o p cpos ckw = (o', r) ->
  firstn (length o) o' = o /\ length o <= length o' /\
  (forall i, i < length o -> nth_error o' i = nth_error o i).
Proof.
  intros H. apply call_partial_appends in H. fold (extends o o') in H.
  split; [apply extends_firstn; exact H|]. split; [apply extends_length; exact H|].
  intros i Hi. apply extends_nth; assumption.
Qed.

Theorem call_frame e o p cpos ckw o' r :
  call e o p cpos ckw = (o', r) ->
  firstn (length o) o' = o /\ length o <= length o' /\
  (forall i, i < length o -> nth_error o' i = nth_error o i).
Proof. unfold call. apply call_partial_frame. Qed.

(* ------------------------------------------------------------------------------------------ *)
(* 2. the result of a successful call is a freshly allocated NObj, the last node of the heap *)

Lemma call_partial_result_strong e fuel o p cpos ckw o' r :
  call_partial e fuel o p cpos ckw = (o', Some r) ->
  exists i fn pos kw vw o2 pos' kw',
    p = RP i /\ nth_error o i = Some (NPartialObj fn pos kw) /\
    extends o o2 /\ o' = o2 ++ [NObj fn vw] /\ r = RP (length o2) /\
    length pos' = length (pos ++ cpos) /\
    map fst kw' = map fst (merge_kw kw ckw) /\
    py_call (sig_of e fn) pos' (map (fun kv => (KName (fst kv), snd kv)) kw') = Some vw.
Proof.
  destruct fuel as [|f]; intros H; [rewrite call_partial_0 in H; discriminate|].
  rewrite call_partial_S in H.
  destruct p as [a|i]; [discriminate|].
  destruct (nth_error o i) as [n|] eqn:Hn; [|discriminate].
  destruct n; try discriminate.
  destruct (inv_list_of (invoke_arg e f) o (pos ++ cpos)) as [o1 [pos'|]] eqn:Hl; [|discriminate].
  destruct (inv_kw_of (invoke_arg e f) o1 (merge_kw kw ckw)) as [o2 [kw'|]] eqn:Hk; [|discriminate].
  destruct (py_call _ _ _) as [vw|] eqn:Hpy; [|discriminate].
  unfold alloc in H. inversion H; subst.
  exists i, fn, pos, kw, vw, o2, pos', kw'.
  assert (Hia : forall o x o' r, invoke_arg e f o x = (o', r) -> extends o o').
  { intros. eapply (invoke_arg_appends e f); eauto. }
  repeat split; try reflexivity; try exact Hpy; try exact Hn.
  - exact (extends_trans _ _ _ (inv_list_of_extends _ Hia _ _ _ _ Hl)
                               (inv_kw_of_extends _ Hia _ _ _ _ Hk)).
  - clear - Hl. revert o o1 pos' Hl. induction (pos ++ cpos) as [|x l IH]; intros o o1 pos' Hl;
      cbn [inv_list_of] in Hl.
    + inversion Hl; subst. reflexivity.
    + destruct (invoke_arg e f o x) as [oa [x'|]]; [|discriminate].
      fold (inv_list_of (invoke_arg e f)) in Hl.
      destruct (inv_list_of (invoke_arg e f) oa l) as [ob [l''|]] eqn:Hl'; [|discriminate].
      inversion Hl; subst. cbn [length]. f_equal. eapply IH; eauto.
  - clear - Hk. revert o1 o2 kw' Hk. induction (merge_kw kw ckw) as [|[k x] l IH]; intros o1 o2 kw' Hk;
      cbn [inv_kw_of] in Hk.
    + inversion Hk; subst. reflexivity.
    + destruct (invoke_arg e f o1 x) as [oa [x'|]]; [|discriminate].
      fold (inv_kw_of (invoke_arg e f)) in Hk.
      destruct (inv_kw_of (invoke_arg e f) oa l) as [ob [l''|]] eqn:Hk'; [|discriminate].
      inversion Hk; subst. cbn [map fst]. f_equal. eapply IH; eauto.
Qed.

Theorem call_partial_result e fuel o p cpos ckw o' r :
  call_partial e fuel o p cpos ckw = (o', Some r) ->
  exists i fn pos kw vw,
    p = RP i /\ nth_error o i = Some (NPartialObj fn pos kw) /\
    r = RP (length o' - 1) /\ nth_error o' (length o' - 1) = Some (NObj fn vw) /\
    length o <= length o' - 1.
Proof.
  intros H. destruct (call_partial_result_strong _ _ _ _ _ _ _ _ H)
    as (i & fn & pos & kw & vw & o2 & pos' & kw' & Hp & Hn & He & Ho & Hr & _).
  exists i, fn, pos, kw, vw. subst o' r.
  rewrite app_length. cbn [length]. rewrite Nat.add_sub.
  repeat split; try assumption.
  - rewrite nth_error_app2, Nat.sub_diag; [reflexivity|lia].
  - apply extends_length. exact He.
Qed.

Theorem call_result e o p cpos ckw o' r :
  call e o p cpos ckw = (o', Some r) ->
  exists i fn pos kw vw,
    p = RP i /\ nth_error o i = Some (NPartialObj fn pos kw) /\
    r = RP (length o' - 1) /\ nth_error o' (length o' - 1) = Some (NObj fn vw) /\
    length o <= length o' - 1.
Proof. unfold call. apply call_partial_result. Qed.

(* the callable receives exactly the bound + call-time positionals and the merged keywords,
   in functools.partial's order *)
Theorem call_partial_received e fuel o p cpos ckw o' r i fn pos kw :
  call_partial e fuel o p cpos ckw = (o', Some r) -> p = RP i ->
  nth_error o i = Some (NPartialObj fn pos kw) ->
  exists pos' kw' vw,
    length pos' = length pos + length cpos /\
    map fst kw' = map fst (merge_kw kw ckw) /\
    py_call (sig_of e fn) pos' (map (fun kv => (KName (fst kv), snd kv)) kw') = Some vw /\
    nth_error o' (length o' - 1) = Some (NObj fn vw).
Proof.
  intros H Hp Hn. destruct (call_partial_result_strong _ _ _ _ _ _ _ _ H)
    as (i' & fn' & pos0 & kw0 & vw & o2 & pos' & kw' & Hp' & Hn' & He & Ho & Hr & Hlen & Hkeys & Hpy).
  subst p. inversion Hp'; subst i'. rewrite Hn in Hn'. inversion Hn'; subst fn' pos0 kw0.
  exists pos', kw', vw. rewrite app_length in Hlen. repeat split; try assumption.
  subst o'. rewrite app_length. cbn [length]. rewrite Nat.add_sub.
  rewrite nth_error_app2, Nat.sub_diag; [reflexivity|lia].
Qed.

(* two successive calls: the second call's objects are disjoint from everything before it *)
Theorem two_calls_disjoint e o p a1 k1 a2 k2 o1 r1 o2 r2 :
  call e o p a1 k1 = (o1, Some r1) -> call e o1 p a2 k2 = (o2, Some r2) ->
  exists j1 j2, r1 = RP j1 /\ r2 = RP j2 /\
    length o <= j1 /\ j1 < length o1 /\ length o1 <= j2 /\ j2 < length o2 /\ r1 <> r2 /\
    firstn (length o1) o2 = o1 /\
    (forall i, i < length o1 -> nth_error o2 i = nth_error o1 i) /\
    (forall i n, nth_error o2 i = Some n -> nth_error o1 i = None -> length o1 <= i).
Proof.
  intros H1 H2.
  destruct (call_result _ _ _ _ _ _ _ H1) as (i1 & fn1 & pos1 & kw1 & vw1 & _ & _ & Hr1 & Hn1 & Hl1).
  destruct (call_result _ _ _ _ _ _ _ H2) as (i2 & fn2 & pos2 & kw2 & vw2 & _ & _ & Hr2 & Hn2 & Hl2).
  destruct (call_frame _ _ _ _ _ _ _ H2) as (Hf & Hle & Hnth).
  assert (Hlt1 : length o1 - 1 < length o1) by (apply nth_error_Some; congruence).
  assert (Hlt2 : length o2 - 1 < length o2) by (apply nth_error_Some; congruence).
  exists (length o1 - 1), (length o2 - 1). repeat split; try assumption.
  - subst. intros Heq. inversion Heq. lia.
  - intros i n Hs Hnone. apply nth_error_None. exact Hnone.
Qed.

(* ------------------------------------------------------------------------------------------ *)
(* 4. arguments without factories are passed with their build-time identity *)

Lemma invoke_arg_not_wrapper e f o x :
  is_wrapper o x = false -> invoke_arg e (S f) o x = (o, Some x).
Proof.
  intros Hw. rewrite invoke_arg_S. destruct x as [a|i]; [reflexivity|].
  unfold is_wrapper in Hw. destruct (nth_error o i) as [n|]; [|reflexivity].
  destruct (factory_of n) as [[t g]|]; [discriminate|reflexivity].
Qed.

Lemma contains_factory_false_not_wrapper e cf o x :
  contains_factory e (S cf) o x = false -> is_wrapper o x = false.
Proof.
  intros Hc. destruct x as [a|i]; [reflexivity|]. cbn [contains_factory] in Hc. unfold is_wrapper.
  destruct (nth_error o i) as [n|]; [|reflexivity].
  destruct (factory_of n) as [[t g]|]; [discriminate|reflexivity].
Qed.

Theorem invoke_arg_passthrough e fuel o x :
  0 < fuel -> contains_factory e (S (length o)) o x = false ->
  invoke_arg e fuel o x = (o, Some x).
Proof.
  intros Hf Hc. destruct fuel as [|f]; [lia|].
  apply invoke_arg_not_wrapper. eapply contains_factory_false_not_wrapper; eauto.
Qed.

Definition memo_id (m : list (nat * ref)) : Prop := forall j r, memo_get m j = Some r -> r = RP j.

Lemma memo_id_nil : memo_id [].
Proof. intros j r H. discriminate. Qed.

Lemma memo_id_cons i m : memo_id m -> memo_id ((i, RP i) :: m).
Proof.
  intros Hm j r H. cbn [memo_get] in H. destruct (Nat.eqb j i) eqn:Hj.
  - apply Nat.eqb_eq in Hj. inversion H; subst. reflexivity.
  - apply Hm. exact H.
Qed.

Lemma go_of_id step o l :
  (forall c, In c l -> forall m, memo_id m ->
             exists m', step o m c = (o, m', Some c) /\ memo_id m') ->
  forall m, memo_id m -> exists m', go_of step o m l = (o, m', Some l) /\ memo_id m'.
Proof.
  induction l as [|c l IH]; intros Hstep m Hm; cbn [go_of].
  - exists m. split; [reflexivity|exact Hm].
  - destruct (Hstep c (or_introl eq_refl) m Hm) as (m1 & Hs & Hm1). rewrite Hs.
    fold (go_of step).
    destruct (IH (fun c' Hin => Hstep c' (or_intror Hin)) m1 Hm1) as (m2 & Hg & Hm2).
    rewrite Hg. exists m2. split; [reflexivity|exact Hm2].
Qed.

(* fuel an argument needs: atoms 1, node i: i + 2 (its children may be atoms) *)
Definition struct_fuel (x : ref) : nat := match x with RA _ => 1 | RP i => i + 2 end.

Lemma invoke_struct_id_gen e o :
  wf_b e o = true ->
  forall fuel cf m x,
    struct_fuel x <= fuel -> (forall i, x = RP i -> i < cf) -> memo_id m ->
    contains_factory e cf o x = false ->
    exists m', invoke_struct e fuel o m x = (o, m', Some x) /\ memo_id m'.
Proof.
  intros Hwf. induction fuel as [|f IH]; intros cf m x Hfuel Hcf Hm Hc.
  - destruct x; cbn [struct_fuel] in Hfuel; lia.
  - rewrite invoke_struct_S. destruct x as [a|i]; [exists m; split; [reflexivity|exact Hm]|].
    cbn [struct_fuel] in Hfuel.
    destruct (memo_get m i) as [r|] eqn:Hg.
    { rewrite (Hm i r Hg). exists m. split; [reflexivity|exact Hm]. }
    destruct (nth_error o i) as [n|] eqn:Hn; [|exists m; split; [reflexivity|exact Hm]].
    specialize (Hcf i eq_refl). destruct cf as [|cf']; [lia|].
    cbn [contains_factory] in Hc. rewrite Hn in Hc.
    destruct (factory_of n) as [[t g]|]; [discriminate|].
    destruct (traversable n).
    + destruct (go_of_id (invoke_struct e f) o (children e n)) with (m := m) as (m1 & Hgo & Hm1).
      * intros c Hin m0 Hm0. apply (IH cf' m0 c).
        -- destruct c as [a|j]; cbn [struct_fuel]; [lia|].
           pose proof (wf_children_lt e o i n j Hwf Hn Hin). lia.
        -- intros j Hj. subst c. pose proof (wf_children_lt e o i n j Hwf Hn Hin). lia.
        -- exact Hm0.
        -- destruct (contains_factory e cf' o c) eqn:Hcc; [|reflexivity].
           assert (Hex : existsb (contains_factory e cf' o) (children e n) = true).
           { apply existsb_exists. exists c. split; assumption. }
           rewrite Hex in Hc. discriminate.
      * exact Hm.
      * rewrite Hgo. destruct (list_eq_dec ref_eq_dec (children e n) (children e n)) as [_|Hne];
          [|exfalso; apply Hne; reflexivity].
        exists ((i, RP i) :: m1). split; [reflexivity|]. apply memo_id_cons. exact Hm1.
    + exists ((i, RP i) :: m). split; [reflexivity|]. apply memo_id_cons. exact Hm.
Qed.

(* no copy: a structure without factories comes back as itself, the heap is unchanged *)
Theorem invoke_struct_passthrough e o fuel x :
  wf_b e o = true -> struct_fuel x <= fuel ->
  contains_factory e (S (length o)) o x = false ->
  exists m', invoke_struct e fuel o [] x = (o, m', Some x).
Proof.
  intros Hwf Hfuel Hc.
  destruct x as [a|i].
  - destruct fuel as [|f]; [cbn [struct_fuel] in Hfuel; lia|]. exists []. reflexivity.
  - destruct (nth_error o i) as [n|] eqn:Hn.
    + destruct (invoke_struct_id_gen e o Hwf fuel (S (length o)) [] (RP i)) as (m' & H & _);
        try assumption; [|apply memo_id_nil|exists m'; exact H].
      intros j Hj. inversion Hj; subst j.
      assert (i < length o) by (apply nth_error_Some; congruence). lia.
    + destruct fuel as [|f]; [cbn [struct_fuel] in Hfuel; lia|]. exists [].
      rewrite invoke_struct_S. cbn [memo_get]. rewrite Hn. reflexivity.
Qed.

(* fuel = node id + 1 is not enough: the children of node 0 are atoms and need one more unit *)
Example invoke_struct_fuel_tight :
  invoke_struct [] 1 [NList [RA (AInt 1%Z)]] [] (RP 0) = ([NList [RA (AInt 1%Z)]], [], None) /\
  invoke_struct [] 2 [NList [RA (AInt 1%Z)]] [] (RP 0)
    = ([NList [RA (AInt 1%Z)]], [(0, RP 0)], Some (RP 0)).
Proof. vm_compute. split; reflexivity. Qed.

(* ------------------------------------------------------------------------------------------ *)
(* 6. non-vacuity: Partial(f, x=ArgFactory(g), y=[ArgFactory(g), Config(h)]) called twice *)

Definition ex_env : sigenv :=
  [(10%N, [mkparam 1%N PosOrKw None false; mkparam 2%N PosOrKw (Some (RA ANone)) false]);
   (20%N, []); (30%N, [])].
Definition ex_heap : heap :=
  [NBuildable BArgFactory 20%N [] [];
   NBuildable BArgFactory 20%N [] [];
   NBuildable BConfig 30%N [] [];
   NList [RP 1; RP 2];
   NBuildable BPartial 10%N [(KName 1%N, RP 0); (KName 2%N, RP 3)] []].

Example two_calls_example :
  wf_b ex_env ex_heap = true /\
  let b := pbuild ex_env ex_heap (RP 4) in
  let o := out (fst b) in
  snd b = inl (RP 11) /\ length o = 12 /\
  nth_error o 11 = Some (NPartialObj 10%N [] [(1%N, RP 9); (2%N, RP 10)]) /\
  nth_error o 9 = Some (mk_factory 2 (RA (ASym 20%N))) /\
  nth_error o 10 = Some (mk_factory 3 (RP 8)) /\
  nth_error o 8 = Some (NList [RP 6; RP 7]) /\
  nth_error o 6 = Some (mk_factory 0 (RA (ASym 20%N))) /\
  nth_error o 7 = Some (NObj 30%N []) /\
  let c1 := call ex_env o (RP 11) [] [] in
  let c2 := call ex_env (fst c1) (RP 11) [] [] in
  let o2 := fst c2 in
  snd c1 = Some (RP 15) /\ snd c2 = Some (RP 19) /\
  (* what f received in the first and in the second call *)
  nth_error o2 15 = Some (NObj 10%N [(1%N, PV (RP 12)); (2%N, PV (RP 14))]) /\
  nth_error o2 19 = Some (NObj 10%N [(1%N, PV (RP 16)); (2%N, PV (RP 18))]) /\
  (* x: two different g() objects *)
  nth_error o2 12 = Some (NObj 20%N []) /\ nth_error o2 16 = Some (NObj 20%N []) /\
  (* y: two different lists; first elements: different g() objects; second element: the one
     h() object made at build time *)
  nth_error o2 14 = Some (NList [RP 13; RP 7]) /\ nth_error o2 18 = Some (NList [RP 17; RP 7]) /\
  nth_error o2 13 = Some (NObj 20%N []) /\ nth_error o2 17 = Some (NObj 20%N []) /\
  nth_error o2 7 = Some (NObj 30%N []) /\
  firstn 12 o2 = o /\
  (* a call-time keyword overrides the bound factory: x is the passed value, no g() for x *)
  let c3 := call ex_env o (RP 11) [] [(1%N, RA (AInt 5%Z))] in
  snd c3 = Some (RP 14) /\
  nth_error (fst c3) 14 = Some (NObj 10%N [(1%N, PV (RA (AInt 5%Z))); (2%N, PV (RP 13))]) /\
  nth_error (fst c3) 13 = Some (NList [RP 12; RP 7]).
Proof. vm_compute. repeat split; reflexivity. Qed.

(* ------------------------------------------------------------------------------------------ *)
(* 7. ArgFactory arguments are fresh per call: every top-level argument that is a factory wrapper
      is received as an object allocated by this call; every other argument is received as it is *)

Lemma factory_of_inv n t g : factory_of n = Some (t, g) -> n = NNamedTuple FACTORY [(t, g)].
Proof.
  unfold factory_of. destruct n; try discriminate. destruct fs as [|[t0 f0] [|? ?]]; try discriminate.
  destruct (N.eqb ty FACTORY) eqn:Hty; [|discriminate]. apply N.eqb_eq in Hty. intros H.
  inversion H; subst. reflexivity.
Qed.

Lemma contains_factory_atom e cf o a : contains_factory e cf o (RA a) = false.
Proof. destruct cf; reflexivity. Qed.

Lemma existsb_ext_in {A} (f g : A -> bool) l : (forall x, In x l -> f x = g x) -> existsb f l = existsb g l.
Proof.
  induction l as [|x l IH]; intros H; cbn [existsb]; [reflexivity|].
  rewrite (H x (or_introl eq_refl)), IH; [reflexivity|]. intros y Hy. apply H. right. exact Hy.
Qed.

Lemma contains_factory_fuel e o :
  wf_b e o = true ->
  forall f1 f2 i, i < f1 -> i < f2 -> contains_factory e f1 o (RP i) = contains_factory e f2 o (RP i).
Proof.
  intros Hwf. induction f1 as [|f1 IH]; intros f2 i H1 H2; [lia|].
  destruct f2 as [|f2]; [lia|]. cbn [contains_factory].
  destruct (nth_error o i) as [n|] eqn:Hn; [|reflexivity].
  destruct (factory_of n); [reflexivity|]. destruct (traversable n); [|reflexivity].
  apply existsb_ext_in. intros c Hin. destruct c as [a|j].
  - rewrite !contains_factory_atom. reflexivity.
  - pose proof (wf_children_lt e o i n j Hwf Hn Hin). apply IH; lia.
Qed.

(* every container wrapper wraps a container that holds a factory (what bind_arg creates) *)
Definition wrappers_ok_b (e : sigenv) (o : heap) : bool :=
  forallb (fun n => match factory_of n with
                    | Some (t, g) => if N.eqb t 3 then contains_factory e (S (length o)) o g else true
                    | None => true
                    end) o.

Section Fresh.
  Variable e : sigenv.
  Variable o0 : heap.
  Hypothesis Hwf : wf_b e o0 = true.
  Hypothesis Hwr : wrappers_ok_b e o0 = true.

  Definition CF (x : ref) : bool := contains_factory e (S (length o0)) o0 x.
  Definition in_base (x : ref) : Prop := match x with RA _ => True | RP i => i < length o0 end.
  Definition res_ok (o' : heap) (x r : ref) : Prop :=
    if CF x then exists j, r = RP j /\ length o0 <= j /\ j < length o' else r = x.
  Definition memo_ok (o' : heap) (m : list (nat * ref)) : Prop :=
    forall i r, memo_get m i = Some r -> res_ok o' (RP i) r.

  Lemma res_ok_mono o1 o2 x r : extends o1 o2 -> res_ok o1 x r -> res_ok o2 x r.
  Proof.
    intros He. unfold res_ok. destruct (CF x); [|auto].
    intros (j & Hr & H1 & H2). exists j. pose proof (extends_length _ _ He). repeat split; auto; lia.
  Qed.

  Lemma memo_ok_mono o1 o2 m : extends o1 o2 -> memo_ok o1 m -> memo_ok o2 m.
  Proof. intros He Hm i r Hg. eapply res_ok_mono; eauto. Qed.

  Lemma memo_ok_nil o' : memo_ok o' [].
  Proof. intros i r H. discriminate. Qed.

  Lemma memo_ok_cons o' m i r : memo_ok o' m -> res_ok o' (RP i) r -> memo_ok o' ((i, r) :: m).
  Proof.
    intros Hm Hr j r' Hg. cbn [memo_get] in Hg. destruct (Nat.eqb j i) eqn:Hj.
    - apply Nat.eqb_eq in Hj. inversion Hg; subst. exact Hr.
    - apply Hm. exact Hg.
  Qed.

  Lemma CF_node i n :
    nth_error o0 i = Some n -> factory_of n = None -> traversable n = true ->
    CF (RP i) = existsb CF (children e n).
  Proof.
    intros Hn Hf Ht. unfold CF at 1. cbn [contains_factory]. rewrite Hn, Hf, Ht.
    apply existsb_ext_in. intros c Hin. unfold CF. destruct c as [a|j].
    - rewrite !contains_factory_atom. reflexivity.
    - pose proof (wf_children_lt e o0 i n j Hwf Hn Hin).
      assert (i < length o0) by (apply nth_error_Some; congruence).
      apply contains_factory_fuel; [exact Hwf|lia|lia].
  Qed.

  Lemma children_in_base i n c : nth_error o0 i = Some n -> In c (children e n) -> in_base c.
  Proof.
    intros Hn Hin. destruct c as [a|j]; cbn [in_base]; [exact I|].
    pose proof (wf_children_lt e o0 i n j Hwf Hn Hin).
    assert (i < length o0) by (apply nth_error_Some; congruence). lia.
  Qed.

  Lemma wrapper3_CF i g : nth_error o0 i = Some (NNamedTuple FACTORY [(3%N, g)]) -> CF g = true.
  Proof.
    intros Hn. unfold wrappers_ok_b in Hwr. rewrite forallb_forall in Hwr.
    specialize (Hwr _ (nth_error_In _ _ Hn)). cbn in Hwr. exact Hwr.
  Qed.

  Lemma go_of_fresh step :
    (forall o m x o' m' r, step o m x = (o', m', r) -> extends o o') ->
    (forall o m x o' m' r, extends o0 o -> memo_ok o m -> in_base x ->
        step o m x = (o', m', Some r) -> memo_ok o' m' /\ res_ok o' x r) ->
    forall l o m o' m' cs, extends o0 o -> memo_ok o m -> Forall in_base l ->
      go_of step o m l = (o', m', Some cs) -> memo_ok o' m' /\ Forall2 (res_ok o') l cs.
  Proof.
    intros Hext Hstep. induction l as [|c l IH]; intros o m o' m' cs He Hm Hb H; cbn [go_of] in H.
    - inversion H; subst. split; [exact Hm|constructor].
    - inversion Hb as [|? ? Hc Hl]; subst.
      destruct (step o m c) as [[o1 m1] [c'|]] eqn:Hs; [|discriminate].
      fold (go_of step) in H.
      destruct (go_of step o1 m1 l) as [[o2 m2] [l''|]] eqn:Hg; [|discriminate].
      inversion H; subst.
      destruct (Hstep _ _ _ _ _ _ He Hm Hc Hs) as [Hm1 Hr1].
      pose proof (Hext _ _ _ _ _ _ Hs) as E1.
      pose proof (go_of_extends _ Hext _ _ _ _ _ _ Hg) as E2.
      destruct (IH o1 m1 o' m' l'' (extends_trans _ _ _ He E1) Hm1 Hl Hg) as [Hm2 Hr2].
      split; [exact Hm2|]. constructor; [|exact Hr2]. eapply res_ok_mono; eauto.
  Qed.

  Lemma invoke_factory_fresh fuel o g o' r :
    invoke_factory e fuel o g = (o', Some r) ->
    exists j, r = RP j /\ length o <= j /\ j < length o'.
  Proof.
    destruct fuel as [|f]; [rewrite invoke_factory_0; discriminate|]. rewrite invoke_factory_S.
    destruct g as [a|i].
    - destruct a; try discriminate. destruct (py_call _ _ _) as [vw|]; [|discriminate].
      unfold alloc. intros H. inversion H; subst. exists (length o). rewrite app_length. cbn [length].
      repeat split; lia.
    - intros H. destruct (call_partial_result _ _ _ _ _ _ _ _ H) as (i' & fn & pos & kw & vw & _ & _ & Hr & Hn & Hl).
      exists (length o' - 1). repeat split; [exact Hr|exact Hl|]. apply nth_error_Some. congruence.
  Qed.

  Lemma Forall2_res_ok_same o' l :
    Forall in_base l -> Forall2 (res_ok o') l l -> existsb CF l = false.
  Proof.
    induction l as [|c l IH]; intros Hb H; cbn [existsb]; [reflexivity|].
    inversion Hb as [|? ? Hc Hl]; subst. inversion H as [|? ? ? ? Hr Hrs]; subst.
    rewrite (IH Hl Hrs), orb_false_r. unfold res_ok in Hr. destruct (CF c) eqn:Hcf; [|reflexivity].
    destruct Hr as (j & Hj & H1 & _). subst c. cbn [in_base] in Hc. lia.
  Qed.

  Lemma Forall2_res_ok_nofactory o' l cs :
    existsb CF l = false -> Forall2 (res_ok o') l cs -> cs = l.
  Proof.
    intros Hex H. induction H as [|c c' l cs Hr Hrs IH]; [reflexivity|].
    cbn [existsb] in Hex. apply orb_false_iff in Hex. destruct Hex as [Hc Hl].
    unfold res_ok in Hr. rewrite Hc in Hr. subst c'. rewrite (IH Hl). reflexivity.
  Qed.

  Lemma invoke_struct_fresh :
    forall fuel o m x o' m' r, extends o0 o -> memo_ok o m -> in_base x ->
      invoke_struct e fuel o m x = (o', m', Some r) -> memo_ok o' m' /\ res_ok o' x r.
  Proof.
    induction fuel as [|f IH]; intros o m x o' m' r He Hm Hb H;
      [rewrite invoke_struct_0 in H; discriminate|].
    pose proof (invoke_struct_appends _ _ _ _ _ _ _ _ H) as E. fold (extends o o') in E.
    rewrite invoke_struct_S in H.
    destruct x as [a|i].
    { inversion H; subst. split; [exact Hm|]. unfold res_ok, CF. rewrite contains_factory_atom. reflexivity. }
    destruct (memo_get m i) as [r0|] eqn:Hg.
    { inversion H; subst. split; [exact Hm|]. apply Hm. exact Hg. }
    cbn [in_base] in Hb.
    destruct (nth_error o0 i) as [n|] eqn:Hn0; [|apply nth_error_None in Hn0; lia].
    rewrite (extends_nth_some _ _ _ _ He Hn0) in H.
    destruct (factory_of n) as [[t g]|] eqn:Hf.
    - (* a factory inside a container *)
      pose proof (factory_of_inv _ _ _ Hf) as Hnode.
      assert (HCF : CF (RP i) = true).
      { unfold CF. cbn [contains_factory]. rewrite Hn0, Hf. reflexivity. }
      assert (Hres : forall o1 r1,
                 (if N.eqb t 3 then let '(o', _, r) := invoke_struct e f o [] g in (o', r)
                  else invoke_factory e f o g) = (o1, Some r1) ->
                 exists j, r1 = RP j /\ length o0 <= j /\ j < length o1).
      { intros o1 r1 Hq. destruct (N.eqb t 3) eqn:Ht.
        - apply N.eqb_eq in Ht. subst t.
          destruct (invoke_struct e f o [] g) as [[o1' m1'] r1'] eqn:Hs. inversion Hq; subst.
          assert (Hgb : in_base g).
          { eapply children_in_base; [exact Hn0|]. try subst n. cbn. auto. }
          destruct (IH o [] g o1 m1' r1 He (memo_ok_nil o) Hgb Hs) as [_ Hr].
          unfold res_ok in Hr. try subst n. rewrite (wrapper3_CF i g Hn0) in Hr. exact Hr.
        - destruct (invoke_factory_fresh _ _ _ _ _ Hq) as (j & Hj & H1 & H2).
          exists j. pose proof (extends_length _ _ He). repeat split; auto; lia. }
      destruct (if N.eqb t 3 then _ else _) as [o1 [r1|]] eqn:Hq; [|discriminate].
      inversion H; subst. specialize (Hres _ _ eq_refl).
      assert (Hr : res_ok o' (RP i) r) by (unfold res_ok; rewrite HCF; exact Hres).
      split; [|exact Hr]. apply memo_ok_cons; [|exact Hr]. eapply memo_ok_mono; eauto.
    - destruct (traversable n) eqn:Ht.
      + destruct (go_of (invoke_struct e f) o m (children e n)) as [[o1 m1] [cs|]] eqn:Hgo; [|discriminate].
        assert (Hcb : Forall in_base (children e n)).
        { apply Forall_forall. intros c Hin. eapply children_in_base; eauto. }
        destruct (go_of_fresh (invoke_struct e f)
                    (fun o m x o' m' r Hq => invoke_struct_appends _ _ _ _ _ _ _ _ Hq)
                    IH _ _ _ _ _ _ He Hm Hcb Hgo) as [Hm1 Hrs].
        pose proof (go_of_extends _ (fun o m x o' m' r Hq => invoke_struct_appends _ _ _ _ _ _ _ _ Hq)
                      _ _ _ _ _ _ Hgo) as E1.
        destruct (list_eq_dec ref_eq_dec cs (children e n)) as [Heq|Hne].
        * inversion H; subst.
          assert (Hr : res_ok o' (RP i) (RP i)).
          { unfold res_ok. rewrite (CF_node i n Hn0 Hf Ht).
            rewrite (Forall2_res_ok_same o' _ Hcb Hrs). reflexivity. }
          split; [|exact Hr]. apply memo_ok_cons; assumption.
        * unfold alloc in H. inversion H; subst.
          assert (Hr : res_ok (o1 ++ [with_children e n cs]) (RP i) (RP (length o1))).
          { unfold res_ok. destruct (CF (RP i)) eqn:HCF.
            - exists (length o1). rewrite app_length. cbn [length].
              pose proof (extends_length _ _ (extends_trans _ _ _ He E1)). repeat split; lia.
            - exfalso. apply Hne. rewrite (CF_node i n Hn0 Hf Ht) in HCF.
              eapply Forall2_res_ok_nofactory; eauto. }
          split; [|exact Hr]. apply memo_ok_cons; [|exact Hr].
          eapply memo_ok_mono; [|exact Hm1]. exists [with_children e n cs]. reflexivity.
      + inversion H; subst.
        assert (Hr : res_ok o' (RP i) (RP i)).
        { unfold res_ok, CF. cbn [contains_factory]. rewrite Hn0, Hf, Ht. reflexivity. }
        split; [|exact Hr]. apply memo_ok_cons; assumption.
  Qed.

  (* what a top-level argument x is passed as, for a call that starts in heap o0 and ends in o' *)
  Definition arg_rel (o' : heap) (x x' : ref) : Prop :=
    if is_wrapper o0 x then exists j, x' = RP j /\ length o0 <= j /\ j < length o' else x' = x.

  Lemma arg_rel_mono o1 o2 x r : extends o1 o2 -> arg_rel o1 x r -> arg_rel o2 x r.
  Proof.
    intros He. unfold arg_rel. destruct (is_wrapper o0 x); [|auto].
    intros (j & Hr & H1 & H2). exists j. pose proof (extends_length _ _ He). repeat split; auto; lia.
  Qed.

  Lemma invoke_arg_fresh fuel o x o' r :
    extends o0 o -> in_base x -> invoke_arg e fuel o x = (o', Some r) -> arg_rel o' x r.
  Proof.
    intros He Hb H. destruct fuel as [|f]; [rewrite invoke_arg_0 in H; discriminate|].
    rewrite invoke_arg_S in H. unfold arg_rel, is_wrapper.
    destruct x as [a|i]; [inversion H; reflexivity|]. cbn [in_base] in Hb.
    destruct (nth_error o0 i) as [n|] eqn:Hn0; [|apply nth_error_None in Hn0; lia].
    rewrite (extends_nth_some _ _ _ _ He Hn0) in H.
    destruct (factory_of n) as [[t g]|] eqn:Hf; [|inversion H; reflexivity].
    pose proof (factory_of_inv _ _ _ Hf) as Hnode.
    destruct (N.eqb t 3) eqn:Ht.
    - apply N.eqb_eq in Ht. subst t.
      destruct (invoke_struct e f o [] g) as [[o1 m1] r1] eqn:Hs. inversion H; subst.
      assert (Hgb : in_base g).
      { eapply children_in_base; [exact Hn0|]. cbn. auto. }
      destruct (invoke_struct_fresh f o [] g o' m1 r He (memo_ok_nil o) Hgb Hs) as [_ Hr].
      unfold res_ok in Hr. rewrite (wrapper3_CF i g Hn0) in Hr. exact Hr.
    - destruct (invoke_factory_fresh _ _ _ _ _ H) as (j & Hj & H1 & H2).
      exists j. pose proof (extends_length _ _ He). repeat split; auto; lia.
  Qed.

  Lemma inv_list_of_fresh f : forall l o o' l',
    extends o0 o -> Forall in_base l ->
    inv_list_of (invoke_arg e f) o l = (o', Some l') -> Forall2 (arg_rel o') l l'.
  Proof.
    induction l as [|x l IH]; intros o o' l' He Hb H; cbn [inv_list_of] in H.
    - inversion H; subst. constructor.
    - inversion Hb as [|? ? Hx Hl]; subst.
      destruct (invoke_arg e f o x) as [o1 [x'|]] eqn:Hs; [|discriminate].
      fold (inv_list_of (invoke_arg e f)) in H.
      destruct (inv_list_of (invoke_arg e f) o1 l) as [o2 [l''|]] eqn:Hg; [|discriminate].
      inversion H; subst.
      pose proof (invoke_arg_appends _ _ _ _ _ _ Hs) as E1. fold (extends o o1) in E1.
      pose proof (inv_list_of_extends _ (fun o x o' r Hq => invoke_arg_appends _ _ _ _ _ _ Hq)
                    _ _ _ _ Hg) as E2.
      constructor.
      + eapply arg_rel_mono; [exact E2|]. eapply invoke_arg_fresh; eauto.
      + eapply IH; [|exact Hl|exact Hg]. eapply extends_trans; eauto.
  Qed.

  Lemma inv_kw_of_fresh f : forall l o o' l',
    extends o0 o -> Forall in_base (map snd l) ->
    inv_kw_of (invoke_arg e f) o l = (o', Some l') ->
    Forall2 (fun a b => fst a = fst b /\ arg_rel o' (snd a) (snd b)) l l'.
  Proof.
    induction l as [|[k x] l IH]; intros o o' l' He Hb H; cbn [inv_kw_of] in H.
    - inversion H; subst. constructor.
    - cbn [map snd] in Hb. inversion Hb as [|? ? Hx Hl]; subst.
      destruct (invoke_arg e f o x) as [o1 [x'|]] eqn:Hs; [|discriminate].
      fold (inv_kw_of (invoke_arg e f)) in H.
      destruct (inv_kw_of (invoke_arg e f) o1 l) as [o2 [l''|]] eqn:Hg; [|discriminate].
      inversion H; subst.
      pose proof (invoke_arg_appends _ _ _ _ _ _ Hs) as E1. fold (extends o o1) in E1.
      pose proof (inv_kw_of_extends _ (fun o x o' r Hq => invoke_arg_appends _ _ _ _ _ _ Hq)
                    _ _ _ _ Hg) as E2.
      constructor.
      + cbn [fst snd]. split; [reflexivity|].
        eapply arg_rel_mono; [exact E2|]. eapply invoke_arg_fresh; eauto.
      + eapply IH; [|exact Hl|exact Hg]. eapply extends_trans; eauto.
  Qed.
End Fresh.

Lemma dsetN_values_in (d : list (N * ref)) k v x :
  In x (map snd (dset N.eqb d k v)) -> x = v \/ In x (map snd d).
Proof.
  induction d as [|[k0 v0] d IH]; cbn [dset map snd In].
  - intros [H|[]]; auto.
  - destruct (N.eqb k k0); cbn [map snd In]; intros [H|H]; auto. destruct (IH H); auto.
Qed.

Lemma merge_kw_values_in bound call x :
  In x (map snd (merge_kw bound call)) -> In x (map snd bound) \/ In x (map snd call).
Proof.
  revert bound. induction call as [|[k v] call IH]; intros bound; cbn [merge_kw map snd In]; [auto|].
  intros H. destruct (IH _ H) as [Hb|Hc]; [|auto].
  destruct (dsetN_values_in _ _ _ _ Hb); auto.
Qed.

Lemma arg_rel_def o o' x x' :
  arg_rel o o' x x' <->
  (if is_wrapper o x then exists j, x' = RP j /\ length o <= j /\ j < length o' else x' = x).
Proof. unfold arg_rel. tauto. Qed.

Lemma in_base_def o x : in_base o x <-> match x with RA _ => True | RP i => i < length o end.
Proof. unfold in_base. tauto. Qed.

(* ArgFactory arguments are fresh per call.  For a call of the partial (fn, pos, kw) in heap o that
   succeeds: the callable receives, position by position and keyword by keyword, for every argument
   that is a factory wrapper an object allocated during this call (id >= length o), and every
   other argument unchanged. *)
Theorem call_partial_args_fresh e fuel o p cpos ckw o' r i fn pos kw :
  wf_b e o = true -> wrappers_ok_b e o = true ->
  Forall (in_base o) cpos -> Forall (in_base o) (map snd ckw) ->
  p = RP i -> nth_error o i = Some (NPartialObj fn pos kw) ->
  call_partial e fuel o p cpos ckw = (o', Some r) ->
  exists pos' kw' vw,
    Forall2 (arg_rel o o') (pos ++ cpos) pos' /\
    Forall2 (fun a b => fst a = fst b /\ arg_rel o o' (snd a) (snd b)) (merge_kw kw ckw) kw' /\
    py_call (sig_of e fn) pos' (map (fun kv => (KName (fst kv), snd kv)) kw') = Some vw /\
    r = RP (length o' - 1) /\ nth_error o' (length o' - 1) = Some (NObj fn vw).
Proof.
  intros Hwf Hwr Hcp Hck Hp Hn H. subst p.
  destruct fuel as [|f]; [rewrite call_partial_0 in H; discriminate|].
  rewrite call_partial_S in H. rewrite Hn in H.
  destruct (inv_list_of (invoke_arg e f) o (pos ++ cpos)) as [o1 [pos'|]] eqn:Hl; [|discriminate].
  destruct (inv_kw_of (invoke_arg e f) o1 (merge_kw kw ckw)) as [o2 [kw'|]] eqn:Hk; [|discriminate].
  destruct (py_call _ _ _) as [vw|] eqn:Hpy; [|discriminate].
  unfold alloc in H. inversion H; subst.
  assert (Hia : forall o x o' r, invoke_arg e f o x = (o', r) -> extends o o').
  { intros. eapply (invoke_arg_appends e f); eauto. }
  pose proof (inv_list_of_extends _ Hia _ _ _ _ Hl) as E1.
  pose proof (inv_kw_of_extends _ Hia _ _ _ _ Hk) as E2.
  assert (E3 : extends o2 (o2 ++ [NObj fn vw])) by (eexists; reflexivity).
  (* the bound arguments point into o *)
  assert (Hi : i < length o) by (apply nth_error_Some; congruence).
  pose proof (wf_from_nth e o 0 i _ Hwf Hn) as Hrefs. cbn [Nat.add node_refs] in Hrefs.
  rewrite forallb_forall in Hrefs.
  assert (Hbelow : forall x, In x (pos ++ map snd kw) -> in_base o x).
  { intros x Hin. specialize (Hrefs x Hin). destruct x as [a|j]; cbn [in_base]; [exact I|].
    cbn [ref_below] in Hrefs. apply Nat.ltb_lt in Hrefs. lia. }
  assert (Hposb : Forall (in_base o) (pos ++ cpos)).
  { apply Forall_forall. intros x Hin. apply in_app_or in Hin. destruct Hin as [Hin|Hin].
    - apply Hbelow. apply in_or_app. auto.
    - rewrite Forall_forall in Hcp. auto. }
  assert (Hkwb : Forall (in_base o) (map snd (merge_kw kw ckw))).
  { apply Forall_forall. intros x Hin. destruct (merge_kw_values_in _ _ _ Hin) as [Hin'|Hin'].
    - apply Hbelow. apply in_or_app. auto.
    - rewrite Forall_forall in Hck. auto. }
  exists pos', kw', vw. rewrite app_length. cbn [length]. rewrite Nat.add_sub.
  repeat split.
  - pose proof (inv_list_of_fresh e o Hwf Hwr f _ _ _ _ (extends_refl o) Hposb Hl) as HF.
    clear - HF E2 E3. induction HF; constructor; auto.
    eapply arg_rel_mono; [exact (extends_trans _ _ _ E2 E3)|]. assumption.
  - pose proof (inv_kw_of_fresh e o Hwf Hwr f _ _ _ _ E1 Hkwb Hk) as HF.
    clear - HF E3. induction HF as [|a b l l' [Hab Hr] HF' IH]; constructor; auto.
    split; [exact Hab|]. eapply arg_rel_mono; [exact E3|]. assumption.
  - exact Hpy.
  - rewrite nth_error_app2, Nat.sub_diag; [reflexivity|lia].
Qed.

Theorem call_args_fresh e o p cpos ckw o' r i fn pos kw :
  wf_b e o = true -> wrappers_ok_b e o = true ->
  Forall (in_base o) cpos -> Forall (in_base o) (map snd ckw) ->
  p = RP i -> nth_error o i = Some (NPartialObj fn pos kw) ->
  call e o p cpos ckw = (o', Some r) ->
  exists pos' kw' vw,
    Forall2 (arg_rel o o') (pos ++ cpos) pos' /\
    Forall2 (fun a b => fst a = fst b /\ arg_rel o o' (snd a) (snd b)) (merge_kw kw ckw) kw' /\
    py_call (sig_of e fn) pos' (map (fun kv => (KName (fst kv), snd kv)) kw') = Some vw /\
    r = RP (length o' - 1) /\ nth_error o' (length o' - 1) = Some (NObj fn vw).
Proof. unfold call. apply call_partial_args_fresh. Qed.

(* inside a container that is passed through a container wrapper: every element that holds a
   factory is replaced by an object of this call, every other element is shared with build time *)
Theorem invoke_struct_elements e o0 fuel o x o' m' r :
  wf_b e o0 = true -> wrappers_ok_b e o0 = true -> extends o0 o -> in_base o0 x ->
  invoke_struct e fuel o [] x = (o', m', Some r) ->
  if contains_factory e (S (length o0)) o0 x
  then exists j, r = RP j /\ length o0 <= j /\ j < length o'
  else r = x.
Proof.
  intros Hwf Hwr He Hb H.
  destruct (invoke_struct_fresh e o0 Hwf Hwr fuel o [] x o' m' r He (memo_ok_nil e o0 o) Hb H) as [_ Hr].
  exact Hr.
Qed.

(* the example satisfies the hypotheses of call_args_fresh after the build *)
Example example_hyps :
  let o := out (fst (pbuild ex_env ex_heap (RP 4))) in
  wf_b ex_env o = true /\ wrappers_ok_b ex_env o = true /\
  let o1 := fst (call ex_env o (RP 11) [] []) in
  wf_b ex_env o1 = true /\ wrappers_ok_b ex_env o1 = true.
Proof. vm_compute. repeat split; reflexivity. Qed.

(* ------------------------------------------------------------------------------------------ *)
(* 8. the binding step of the build keeps the hypotheses of call_args_fresh *)

Lemma wf_from_snoc e o n : forall b,
  wf_from e (o ++ [n]) b = wf_from e o b && forallb (ref_below (b + length o)) (node_refs e n).
Proof.
  induction o as [|n0 o IH]; intros b; cbn [app wf_from length].
  - rewrite Nat.add_0_r, andb_true_r. reflexivity.
  - rewrite IH. replace (S b + length o) with (b + S (length o)) by lia. rewrite andb_assoc. reflexivity.
Qed.

Lemma wf_b_snoc e o n :
  wf_b e (o ++ [n]) = wf_b e o && forallb (ref_below (length o)) (node_refs e n).
Proof. unfold wf_b. rewrite wf_from_snoc. reflexivity. Qed.

Lemma contains_factory_extends e o o' :
  wf_b e o = true -> extends o o' ->
  forall f i, i < length o -> contains_factory e f o' (RP i) = contains_factory e f o (RP i).
Proof.
  intros Hwf He. induction f as [|f IH]; intros i Hi; [reflexivity|]. cbn [contains_factory].
  rewrite (extends_nth _ _ _ He Hi).
  destruct (nth_error o i) as [n|] eqn:Hn; [|reflexivity].
  destruct (factory_of n); [reflexivity|]. destruct (traversable n); [|reflexivity].
  apply existsb_ext_in. intros c Hin. destruct c as [a|j].
  - rewrite !contains_factory_atom. reflexivity.
  - pose proof (wf_children_lt e o i n j Hwf Hn Hin). apply IH. lia.
Qed.

Lemma contains_factory_stable e o o' g :
  wf_b e o = true -> extends o o' -> in_base o g ->
  contains_factory e (S (length o')) o' g = contains_factory e (S (length o)) o g.
Proof.
  intros Hwf He Hb. destruct g as [a|i]; [rewrite !contains_factory_atom; reflexivity|].
  cbn [in_base] in Hb. rewrite (contains_factory_extends e o o' Hwf He _ i Hb).
  pose proof (extends_length _ _ He). apply contains_factory_fuel; [exact Hwf|lia|lia].
Qed.

Lemma in_base_mono o o' x : extends o o' -> in_base o x -> in_base o' x.
Proof.
  intros He. destruct x as [a|i]; cbn [in_base]; [auto|]. pose proof (extends_length _ _ He). lia.
Qed.

Lemma wrappers_ok_snoc e o w :
  wf_b e o = true -> wrappers_ok_b e o = true ->
  match factory_of w with
  | Some (t, g) => if N.eqb t 3 then in_base o g /\ contains_factory e (S (length o)) o g = true else True
  | None => True
  end ->
  wrappers_ok_b e (o ++ [w]) = true.
Proof.
  intros Hwf Hwr Hw. assert (He : extends o (o ++ [w])) by (eexists; reflexivity).
  unfold wrappers_ok_b in *. rewrite forallb_forall in Hwr. apply forallb_forall.
  intros n Hin. apply in_app_or in Hin. destruct Hin as [Hin|[Heq|[]]].
  - specialize (Hwr n Hin). destruct (factory_of n) as [[t g]|] eqn:Hf; [|reflexivity].
    destruct (N.eqb t 3) eqn:Ht; [|reflexivity].
    rewrite (contains_factory_stable e o (o ++ [w]) g Hwf He); [exact Hwr|].
    destruct (In_nth_error _ _ Hin) as [i Hi].
    eapply children_in_base; [exact Hwf|exact Hi|]. rewrite (factory_of_inv _ _ _ Hf). cbn. auto.
  - subst n. destruct (factory_of w) as [[t g]|]; [|reflexivity].
    destruct (N.eqb t 3); [|reflexivity]. destruct Hw as [Hb Hc].
    rewrite (contains_factory_stable e o (o ++ [w]) g Hwf He Hb). exact Hc.
Qed.

Lemma bind_arg_preserves e o r o' r' :
  wf_b e o = true -> wrappers_ok_b e o = true -> in_base o r ->
  bind_arg e o r = (o', r') ->
  wf_b e o' = true /\ wrappers_ok_b e o' = true /\ in_base o' r' /\
  (is_wrapper o' r' = true \/ (o' = o /\ r' = r /\ contains_factory e (S (length o)) o r = false)).
Proof.
  intros Hwf Hwr Hb H. unfold bind_arg, alloc in H.
  destruct r as [a|i]; [inversion H; subst; repeat split; auto; right; repeat split; apply contains_factory_atom|].
  cbn [in_base] in Hb.
  destruct (nth_error o i) as [n|] eqn:Hn; [|apply nth_error_None in Hn; lia].
  destruct (factory_of n) as [[t f]|] eqn:Hf.
  - inversion H; subst. pose proof (factory_of_inv _ _ _ Hf) as Hnode.
    assert (Hfb : in_base o f).
    { eapply children_in_base; [exact Hwf|exact Hn|]. rewrite Hnode. cbn. auto. }
    repeat split.
    + rewrite wf_b_snoc, Hwf. cbn. rewrite andb_true_r.
      destruct f as [a|j]; cbn [ref_below in_base] in *; [reflexivity|]. apply Nat.ltb_lt. exact Hfb.
    + apply wrappers_ok_snoc; auto. cbn. exact I.
    + cbn [in_base]. rewrite app_length. cbn [length]. lia.
    + left. unfold is_wrapper. rewrite nth_error_app2, Nat.sub_diag; [reflexivity|lia].
  - destruct (contains_factory e (S (length o)) o (RP i)) eqn:Hc; inversion H; subst.
    + repeat split.
      * rewrite wf_b_snoc, Hwf. cbn. rewrite andb_true_r. apply Nat.ltb_lt. exact Hb.
      * apply wrappers_ok_snoc; auto. cbn. split; [exact Hb|exact Hc].
      * cbn [in_base]. rewrite app_length. cbn [length]. lia.
      * left. unfold is_wrapper. rewrite nth_error_app2, Nat.sub_diag; [reflexivity|lia].
    + repeat split; auto.
Qed.

Lemma promote_all_preserves e : forall rs o o' rs',
  wf_b e o = true -> wrappers_ok_b e o = true -> Forall (in_base o) rs ->
  promote_all e o rs = (o', rs') ->
  wf_b e o' = true /\ wrappers_ok_b e o' = true /\ extends o o' /\ Forall (in_base o') rs'.
Proof.
  induction rs as [|r rs IH]; intros o o' rs' Hwf Hwr Hb H; cbn [promote_all] in H.
  - inversion H; subst. repeat split; auto. apply extends_refl.
  - inversion Hb as [|? ? Hr Hrs]; subst.
    destruct (bind_arg e o r) as [o1 r1] eqn:Hb1.
    destruct (promote_all e o1 rs) as [o2 rs2] eqn:Hp. inversion H; subst.
    destruct (bind_arg_preserves _ _ _ _ _ Hwf Hwr Hr Hb1) as (Hwf1 & Hwr1 & Hr1 & _).
    pose proof (bind_arg_appends _ _ _ _ _ Hb1) as E1. fold (extends o o1) in E1.
    assert (Hrs1 : Forall (in_base o1) rs).
    { eapply Forall_impl; [|exact Hrs]. intros x. apply in_base_mono. exact E1. }
    destruct (IH _ _ _ Hwf1 Hwr1 Hrs1 Hp) as (Hwf2 & Hwr2 & E2 & Hrs2).
    repeat split; auto; [eapply extends_trans; eauto|].
    constructor; [|exact Hrs2]. eapply in_base_mono; eauto.
Qed.

Lemma promote_kw_preserves e : forall kw o o' kw',
  wf_b e o = true -> wrappers_ok_b e o = true -> Forall (in_base o) (map snd kw) ->
  promote_kw e o kw = (o', kw') ->
  wf_b e o' = true /\ wrappers_ok_b e o' = true /\ extends o o' /\
  Forall (in_base o') (map snd kw') /\ map fst kw' = map fst kw.
Proof.
  induction kw as [|[k r] kw IH]; intros o o' kw' Hwf Hwr Hb H; cbn [promote_kw] in H.
  - inversion H; subst. repeat split; auto. apply extends_refl.
  - cbn [map snd] in Hb. inversion Hb as [|? ? Hr Hrs]; subst.
    destruct (bind_arg e o r) as [o1 r1] eqn:Hb1.
    destruct (promote_kw e o1 kw) as [o2 kw2] eqn:Hp. inversion H; subst.
    destruct (bind_arg_preserves _ _ _ _ _ Hwf Hwr Hr Hb1) as (Hwf1 & Hwr1 & Hr1 & _).
    pose proof (bind_arg_appends _ _ _ _ _ Hb1) as E1. fold (extends o o1) in E1.
    assert (Hrs1 : Forall (in_base o1) (map snd kw)).
    { eapply Forall_impl; [|exact Hrs]. intros x. apply in_base_mono. exact E1. }
    destruct (IH _ _ _ Hwf1 Hwr1 Hrs1 Hp) as (Hwf2 & Hwr2 & E2 & Hrs2 & Hk).
    repeat split; auto; [eapply extends_trans; eauto| |cbn [map fst]; rewrite Hk; reflexivity].
    cbn [map snd]. constructor; [|exact Hrs2]. eapply in_base_mono; eauto.
Qed.
