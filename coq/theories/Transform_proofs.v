(* Transform_proofs: C20 -- materialize_defaults and with_defaults_trimmed preserve what the callee
   of a Buildable observes (L1); the graph transformations are total, pure and visit once (L2). *)
From Fiddle Require Import PyBase PySlice Sig ArgStore ArgSpec PyCall C01Check Store_proofs
  PyCall_proofs Transform.
Require Import Lia.

(* ------------------------------------------------------------------------------------------ *)
(* stores: appending a fresh key, filtering                                                     *)

Lemma sset_fresh st k v : smem st k = false -> sset st k v = st ++ [(k, v)].
Proof.
  unfold smem, dmem, sset. induction st as [|[k0 v0] st IH]; intros H; [reflexivity|].
  cbn [dget dset app] in *. destruct (skey_eqb k k0); [discriminate|].
  rewrite IH by exact H. reflexivity.
Qed.

Lemma sget_filter_keep (f : skey * ref -> bool) st k :
  (forall v, f (k, v) = true) -> sget (filter f st) k = sget st k.
Proof.
  intros H. induction st as [|[k0 v0] st IH]; [reflexivity|].
  cbn [filter]. destruct (f (k0, v0)) eqn:E.
  - rewrite !sget_cons, IH. reflexivity.
  - rewrite sget_cons. destruct (skey_eqb k k0) eqn:K; [|exact IH].
    apply skey_eqb_eq in K. subst. rewrite H in E. discriminate.
Qed.

Lemma sget_filter_sub (f : skey * ref -> bool) st k v :
  keys_distinct st = true -> sget (filter f st) k = Some v -> sget st k = Some v.
Proof.
  induction st as [|[k0 v0] st IH]; intros HD H; [discriminate|].
  rewrite keys_distinct_cons in HD. apply andb_true_iff in HD. destruct HD as [HD1 HD2].
  cbn [filter] in H. rewrite sget_cons. destruct (f (k0, v0)) eqn:E.
  - rewrite sget_cons in H. destruct (skey_eqb k k0); [exact H|auto].
  - destruct (skey_eqb k k0) eqn:K; [|auto]. apply skey_eqb_eq in K. subst.
    specialize (IH HD2 H). apply negb_true_iff in HD1. rewrite smem_sget, IH in HD1. discriminate.
Qed.

Lemma sget_filter (f : skey * ref -> bool) st k :
  keys_distinct st = true ->
  sget (filter f st) k =
  match sget st k with Some v => if f (k, v) then Some v else None | None => None end.
Proof.
  induction st as [|[k0 v0] st IH]; intros HD; [reflexivity|].
  rewrite keys_distinct_cons in HD. apply andb_true_iff in HD. destruct HD as [HD1 HD2].
  apply negb_true_iff in HD1. cbn [filter]. rewrite (sget_cons k0 v0 st k).
  destruct (skey_eqb k k0) eqn:K.
  - apply skey_eqb_eq in K. subst. destruct (f (k0, v0)) eqn:E.
    + rewrite sget_cons, skey_eqb_refl. reflexivity.
    + rewrite IH by exact HD2. apply smem_false_sget in HD1. rewrite HD1. reflexivity.
  - destruct (f (k0, v0)) eqn:E; [rewrite sget_cons, K|]; apply IH, HD2.
Qed.

Lemma smem_filter_weak (f : skey * ref -> bool) st k :
  smem (filter f st) k = true -> smem st k = true.
Proof.
  rewrite !smem_sget. induction st as [|[k0 v0] st IH]; [auto|].
  cbn [filter]. rewrite (sget_cons k0 v0 st k). destruct (f (k0, v0)).
  - rewrite sget_cons. destruct (skey_eqb k k0); auto.
  - destruct (skey_eqb k k0); auto.
Qed.

Lemma keys_distinct_filter (f : skey * ref -> bool) st :
  keys_distinct st = true -> keys_distinct (filter f st) = true.
Proof.
  induction st as [|[k0 v0] st IH]; intros HD; [reflexivity|].
  rewrite keys_distinct_cons in HD. apply andb_true_iff in HD. destruct HD as [HD1 HD2].
  cbn [filter]. destruct (f (k0, v0)); [|auto].
  rewrite keys_distinct_cons, IH by exact HD2. rewrite andb_true_r.
  apply negb_true_iff. apply negb_true_iff in HD1.
  destruct (smem (filter f st) k0) eqn:E; [|reflexivity].
  apply smem_filter_weak in E. congruence.
Qed.

Lemma length_filter_le {A} (f : A -> bool) l : (length (filter f l) <= length l)%nat.
Proof. induction l as [|x l IH]; [apply le_n|]. cbn [filter]. destruct (f x); cbn [length]; lia. Qed.

(* ------------------------------------------------------------------------------------------ *)
(* the storage invariant only grows with the set of stored positional keys                      *)

Lemma key_ok_mono sg st st' k :
  (forall j, smem st (kpos j) = true -> smem st' (kpos j) = true) ->
  key_ok sg st k = true -> key_ok sg st' k = true.
Proof.
  intros HM. destruct k as [z|n]; [|exact (fun H => H)].
  unfold key_ok. intros H. apply andb_true_iff in H. destruct H as [H0 H]. rewrite H0. cbn [andb].
  destruct (z <? Z.of_nat (n0 sg)); [exact H|].
  apply andb_true_iff in H. destruct H as [H1 H2]. rewrite H1. cbn [andb].
  rewrite forallb_forall in *. intros j Hj. apply HM, H2, Hj.
Qed.

Lemma key_ok01_mono sg st st' k :
  (forall j, smem st (kpos j) = true -> smem st' (kpos j) = true) ->
  key_ok01 sg st k = true -> key_ok01 sg st' k = true.
Proof.
  intros HM. destruct k as [z|n]; cbn [key_ok01]; [apply key_ok_mono, HM|exact (fun H => H)].
Qed.

(* ------------------------------------------------------------------------------------------ *)
(* pointwise comparison of two reference views                                                  *)

Lemma reference_params_ext sg st st' ps : forall idx,
  (forall j p, nth_error ps j = Some p -> here_ref sg st p (idx + j) = here_ref sg st' p (idx + j)) ->
  reference_params sg ps idx st = reference_params sg ps idx st'.
Proof.
  induction ps as [|p ps IH]; intros idx H; [reflexivity|].
  rewrite !reference_params_cons.
  pose proof (H 0%nat p eq_refl) as H0. rewrite Nat.add_0_r in H0. rewrite H0.
  rewrite (IH (S idx)); [reflexivity|].
  intros j q Hq. specialize (H (S j) q Hq). replace (S idx + j)%nat with (idx + S j)%nat by lia. exact H.
Qed.

(* ------------------------------------------------------------------------------------------ *)
(* shape of a valid signature seen from one parameter                                           *)

Lemma posonly_in_prefix sg j p :
  kinds_sorted sg = true -> nth_error sg j = Some p -> pk p = PosOnly ->
  nth_error (prefix_params sg) j = Some p /\ (j < n_prefix sg)%nat.
Proof.
  intros HS Hj K. destruct (sorted_split 1 sg HS) as (l1 & l2 & E & F1 & F2 & _).
  unfold n_prefix. subst sg. rewrite (prefix_params_split l1 l2 F1 F2).
  assert (X : nth_error l1 j = Some p).
  { apply (nth_error_app_act l1 l2 (fun x => (rk x <= 1)%nat) j p); [|exact Hj|].
    - eapply Forall_impl; [|exact F2]. cbn beta. intros x X. lia.
    - unfold rk. rewrite K. cbn. lia. }
  split; [exact X|]. apply nth_error_Some. congruence.
Qed.

Lemma posonly_before_varpos sg j p s q :
  kinds_sorted sg = true -> nth_error sg j = Some p -> pk p = PosOnly ->
  nth_error sg s = Some q -> pk q = VarPos -> (j < s)%nat.
Proof.
  intros HS Hj K Hs Kq. destruct (sorted_split 1 sg HS) as (l1 & l2 & E & F1 & F2 & _). subst sg.
  assert (X : nth_error l1 j = Some p).
  { apply (nth_error_app_act l1 l2 (fun x => (rk x <= 1)%nat) j p); [|exact Hj|].
    - eapply Forall_impl; [|exact F2]. cbn beta. intros x X. lia.
    - unfold rk. rewrite K. cbn. lia. }
  assert (Y : (j < length l1)%nat) by (apply nth_error_Some; congruence).
  destruct (lt_dec s (length l1)) as [L|L]; [|lia].
  rewrite nth_error_app1 in Hs by exact L. apply nth_error_In in Hs.
  rewrite Forall_forall in F1. specialize (F1 q Hs). unfold rk in F1. rewrite Kq in F1. cbn in F1. lia.
Qed.

(* ------------------------------------------------------------------------------------------ *)
(* materialize                                                                                  *)

(* parameters whose default materialize_defaults stores *)
Definition matable (p : param) : bool :=
  match pdefault p with
  | Some _ => negb (pfactory p) &&
              match pk p with PosOnly | PosOrKw | KwOnly => true | _ => false end
  | None => false
  end.

Definition dflt_or_novalue (p : param) : ref :=
  match pdefault p with Some d => d | None => NoValue end.

Definition mat_step (p : param) (i : nat) (st : store) : store :=
  if matable p && negb (smem st (akey p i)) then sset st (akey p i) (dflt_or_novalue p) else st.

Lemma matable_default p : matable p = true -> pdefault p = Some (dflt_or_novalue p).
Proof. unfold matable, dflt_or_novalue. destruct (pdefault p); [reflexivity|discriminate]. Qed.

Lemma matable_kind p :
  matable p = true -> pfactory p = false /\ (pk p = PosOnly \/ pk p = PosOrKw \/ pk p = KwOnly).
Proof.
  unfold matable. destruct (pdefault p); [|discriminate]. intros H.
  apply andb_true_iff in H. destruct H as [H1 H2]. apply negb_true_iff in H1.
  split; [exact H1|]. destruct (pk p); try discriminate; auto.
Qed.

Lemma matable_intro p d :
  pdefault p = Some d -> pfactory p = false ->
  (pk p = PosOnly \/ pk p = PosOrKw \/ pk p = KwOnly) -> matable p = true.
Proof. unfold matable. intros -> -> [K|[K|K]]; rewrite K; reflexivity. Qed.

Lemma mat_params_cons p ps i st :
  mat_params (p :: ps) i st = mat_params ps (S i) (mat_step p i st).
Proof.
  cbn [mat_params]. f_equal. unfold mat_step, matable, dflt_or_novalue, akey.
  destruct (pdefault p) as [d|]; [|reflexivity].
  destruct (pfactory p); [reflexivity|]. cbn [negb andb].
  destruct (pk p); try reflexivity;
    match goal with |- context [smem st ?k] => destruct (smem st k); reflexivity end.
Qed.

(* an induction principle: every property kept by one step is kept by materialize *)
Lemma mat_params_ind (P : store -> Prop) ps : forall i st,
  P st ->
  (forall j p st0, nth_error ps j = Some p -> P st0 -> P (mat_step p (i + j) st0)) ->
  P (mat_params ps i st).
Proof.
  induction ps as [|p ps IH]; intros i st H0 HS; [exact H0|].
  rewrite mat_params_cons. apply IH.
  - pose proof (HS 0%nat p st eq_refl H0) as X. rewrite Nat.add_0_r in X. exact X.
  - intros j q st0 Hq HP. replace (S i + j)%nat with (i + S j)%nat by lia. apply (HS (S j) q st0 Hq HP).
Qed.

Lemma mat_step_sget p i st k :
  sget (mat_step p i st) k =
  match sget st k with
  | Some v => Some v
  | None => if matable p && skey_eqb k (akey p i) then pdefault p else None
  end.
Proof.
  unfold mat_step. destruct (matable p) eqn:M; cbn [andb]; [|destruct (sget st k); reflexivity].
  destruct (smem st (akey p i)) eqn:S; cbn [negb].
  - destruct (sget st k) eqn:G; [reflexivity|].
    destruct (skey_eqb k (akey p i)) eqn:E; [|reflexivity].
    apply skey_eqb_eq in E. subst k. rewrite smem_sget, G in S. discriminate.
  - rewrite sget_sset. destruct (skey_eqb k (akey p i)) eqn:E.
    + apply skey_eqb_eq in E. subst k. rewrite (smem_false_sget _ _ S).
      symmetry. apply matable_default, M.
    + destruct (sget st k); reflexivity.
Qed.

(* the default materialize stores under a key: that of the first storable parameter with that key *)
Fixpoint mat_dflt (ps : list param) (i : nat) (k : skey) : option ref :=
  match ps with
  | [] => None
  | p :: ps' => if matable p && skey_eqb k (akey p i) then pdefault p else mat_dflt ps' (S i) k
  end.

Lemma sget_mat_params ps : forall i st k,
  sget (mat_params ps i st) k =
  match sget st k with Some v => Some v | None => mat_dflt ps i k end.
Proof.
  induction ps as [|p ps IH]; intros i st k.
  - cbn [mat_params mat_dflt]. destruct (sget st k); reflexivity.
  - rewrite mat_params_cons, IH, mat_step_sget. cbn [mat_dflt].
    destruct (sget st k); [reflexivity|].
    destruct (matable p && skey_eqb k (akey p i)) eqn:E; [|reflexivity].
    apply andb_true_iff in E. destruct E as [M _]. rewrite (matable_default p M). reflexivity.
Qed.

Lemma mat_dflt_some ps : forall i j p,
  nth_error ps j = Some p -> matable p = true -> exists d, mat_dflt ps i (akey p (i + j)) = Some d.
Proof.
  induction ps as [|q ps IH]; intros i j p Hj M; [destruct j; discriminate|].
  cbn [mat_dflt]. destruct j as [|j]; cbn [nth_error] in Hj.
  - inversion Hj; subst q. rewrite Nat.add_0_r, M, skey_eqb_refl. cbn [andb].
    eexists. apply matable_default, M.
  - destruct (matable q && skey_eqb (akey p (i + S j)) (akey q i)) eqn:E.
    + apply andb_true_iff in E. destruct E as [Mq _]. eexists. apply matable_default, Mq.
    + replace (i + S j)%nat with (S i + j)%nat by lia. apply IH; assumption.
Qed.

Lemma mat_dflt_in ps : forall i k d,
  mat_dflt ps i k = Some d ->
  exists j q, nth_error ps j = Some q /\ matable q = true /\ k = akey q (i + j) /\ pdefault q = Some d.
Proof.
  induction ps as [|p ps IH]; intros i k d H; [discriminate|].
  cbn [mat_dflt] in H. destruct (matable p && skey_eqb k (akey p i)) eqn:E.
  - apply andb_true_iff in E. destruct E as [M E]. apply skey_eqb_eq in E.
    exists 0%nat, p. rewrite Nat.add_0_r. auto.
  - destruct (IH _ _ _ H) as (j & q & H1 & H2 & H3 & H4). exists (S j), q.
    replace (i + S j)%nat with (S i + j)%nat by lia. auto.
Qed.

(* ---- target 2: never overwrites, total, idempotent *)

Theorem materialize_keeps sg st k v :
  sget st k = Some v -> sget (materialize sg st) k = Some v.
Proof. intros H. unfold materialize. rewrite sget_mat_params, H. reflexivity. Qed.

Lemma materialize_smem_mono sg st k : smem st k = true -> smem (materialize sg st) k = true.
Proof.
  intros H. apply smem_true_sget in H. destruct H as [v H].
  rewrite smem_sget, (materialize_keeps sg st k v H). reflexivity.
Qed.

Lemma mat_params_total ps i st j p :
  nth_error ps j = Some p -> matable p = true -> smem (mat_params ps i st) (akey p (i + j)) = true.
Proof.
  intros Hj M. rewrite smem_sget, sget_mat_params.
  destruct (sget st (akey p (i + j))); [reflexivity|].
  destruct (mat_dflt_some ps i j p Hj M) as [d ->]. reflexivity.
Qed.

Theorem materialize_total sg st i p d :
  nth_error sg i = Some p -> pdefault p = Some d -> pfactory p = false ->
  (pk p = PosOnly \/ pk p = PosOrKw \/ pk p = KwOnly) ->
  smem (materialize sg st)
       (match pk p with PosOnly => kpos i | _ => KName (pname p) end) = true.
Proof.
  intros Hi Hd Hf Hk. apply (mat_params_total sg 0 st i p Hi). eapply matable_intro; eassumption.
Qed.

Lemma mat_params_fix ps : forall i st,
  (forall j p, nth_error ps j = Some p -> matable p = true -> smem st (akey p (i + j)) = true) ->
  mat_params ps i st = st.
Proof.
  induction ps as [|p ps IH]; intros i st H; [reflexivity|].
  rewrite mat_params_cons.
  assert (E : mat_step p i st = st).
  { unfold mat_step. destruct (matable p) eqn:M; [|reflexivity].
    pose proof (H 0%nat p eq_refl M) as X. rewrite Nat.add_0_r in X. rewrite X. reflexivity. }
  rewrite E. apply IH. intros j q Hq M. replace (S i + j)%nat with (i + S j)%nat by lia.
  apply (H (S j) q Hq M).
Qed.

Theorem materialize_idempotent sg st : materialize sg (materialize sg st) = materialize sg st.
Proof.
  unfold materialize. apply mat_params_fix. intros j p Hj M. apply mat_params_total; assumption.
Qed.

(* materialize only appends *)
Lemma mat_step_app p i st : exists l, mat_step p i st = st ++ l.
Proof.
  unfold mat_step. destruct (matable p && negb (smem st (akey p i))) eqn:E.
  - apply andb_true_iff in E. destruct E as [_ E]. apply negb_true_iff in E.
    eexists. apply sset_fresh, E.
  - exists []. symmetry. apply app_nil_r.
Qed.

Lemma materialize_app sg st : exists l, materialize sg st = st ++ l.
Proof.
  unfold materialize. apply (mat_params_ind (fun s => exists l, s = st ++ l)).
  - exists []. symmetry. apply app_nil_r.
  - intros j p st0 _ [l ->]. destruct (mat_step_app p (0 + j) (st ++ l)) as [l' ->].
    exists (l ++ l'). symmetry. apply app_assoc.
Qed.

(* ---- target 1: the callee's view *)

Lemma extras_of_app sg st l : extras_of sg (st ++ l) = extras_of sg st ++ extras_of sg l.
Proof.
  induction st as [|[[z|n] v] st IH]; [reflexivity| |].
  - cbn [app extras_of]. exact IH.
  - cbn [app]. rewrite !extras_of_cons_name, IH. destruct (nameable sg n); reflexivity.
Qed.

Lemma mat_step_extras sg j p st :
  NoDup (map pname sg) -> nth_error sg j = Some p ->
  extras_of sg (mat_step p j st) = extras_of sg st.
Proof.
  intros HN Hj. unfold mat_step. destruct (matable p && negb (smem st (akey p j))) eqn:E; [|reflexivity].
  apply andb_true_iff in E. destruct E as [M E]. apply negb_true_iff in E.
  rewrite (sset_fresh _ _ _ E), extras_of_app.
  assert (X : extras_of sg [(akey p j, dflt_or_novalue p)] = []).
  { destruct (matable_kind p M) as [_ K]. unfold akey.
    destruct K as [K|[K|K]]; rewrite K; [reflexivity| |];
      rewrite extras_of_cons_name, (nameable_param sg p HN (nth_error_In _ _ Hj)), K; reflexivity. }
  rewrite X. apply app_nil_r.
Qed.

Lemma materialize_extras sg st :
  NoDup (map pname sg) -> extras_of sg (materialize sg st) = extras_of sg st.
Proof.
  intros HN. unfold materialize.
  apply (mat_params_ind (fun s => extras_of sg s = extras_of sg st)); [reflexivity|].
  intros j p st0 Hj H. cbn [Nat.add]. rewrite (mat_step_extras sg j p st0 HN Hj). exact H.
Qed.

Lemma length_materialize sg st : (length st <= length (materialize sg st))%nat.
Proof. destruct (materialize_app sg st) as [l ->]. rewrite app_length. lia. Qed.

Lemma materialize_varargs sg st s q :
  kinds_sorted sg = true -> nth_error sg s = Some q -> pk q = VarPos ->
  varargs_of (length (materialize sg st)) (materialize sg st) s = varargs_of (length st) st s.
Proof.
  intros HS Hs Kq.
  rewrite <- (varargs_of_fuel st s (length (materialize sg st))) by apply length_materialize.
  apply varargs_of_ext. intros j Hj. unfold materialize. rewrite sget_mat_params.
  destruct (sget st (kpos j)) eqn:G; [reflexivity|].
  destruct (mat_dflt sg 0 (kpos j)) as [d|] eqn:D; [|reflexivity]. exfalso.
  destruct (mat_dflt_in sg 0 _ _ D) as (j' & p & H1 & H2 & H3 & _). cbn [Nat.add] in H3.
  destruct (matable_kind p H2) as [_ K]. unfold akey in H3.
  destruct K as [K|[K|K]]; rewrite K in H3; try discriminate.
  apply kpos_inj in H3. subst j'.
  pose proof (posonly_before_varpos sg j p s q HS H1 K Hs Kq). lia.
Qed.

Lemma materialize_here_ref sg st j p :
  kinds_sorted sg = true -> NoDup (map pname sg) -> nth_error sg j = Some p ->
  here_ref sg (materialize sg st) p j = here_ref sg st p j.
Proof.
  intros HS HN Hj. unfold here_ref. destruct (pk p) eqn:K.
  1,2,4: unfold materialize; rewrite sget_mat_params;
    (destruct (sget st (akey p j)) eqn:G; [reflexivity|]);
    (destruct (mat_dflt sg 0 (akey p j)) as [d|] eqn:D; [|reflexivity]);
    destruct (mat_dflt_in sg 0 _ _ D) as (j' & q & H1 & H2 & H3 & H4); cbn [Nat.add] in H3;
    assert (X : q = p);
    [ destruct (akey_eq _ _ _ _ H3) as [E|E];
      [ subst j'; congruence
      | symmetry; apply (nodup_names_nth sg j j' p q HN Hj H1 E) ]
    | subst q; rewrite H4; reflexivity ].
  - f_equal. f_equal. apply (materialize_varargs sg st j p HS Hj K).
  - rewrite (materialize_extras sg st HN). reflexivity.
Qed.

Theorem materialize_preserves_view sg st :
  valid_sig sg = true -> reference_view sg (materialize sg st) = reference_view sg st.
Proof.
  intros HV. destruct (valid_sig_parts sg HV) as [HS HN]. unfold reference_view.
  apply reference_params_ext. intros j p Hj. cbn [Nat.add].
  apply materialize_here_ref; assumption.
Qed.

Lemma inv01_app_fresh sg st k v :
  inv01_b sg st = true -> smem st k = false ->
  (forall st', key_ok01 sg st' k = true) ->
  inv01_b sg (st ++ [(k, v)]) = true.
Proof.
  intros HI HF HK. destruct (inv01_keys sg st HI) as [HD HA]. unfold inv01_b.
  rewrite <- (sset_fresh st k v HF). rewrite (keys_distinct_sset st k v HD). cbn [andb].
  rewrite (sset_fresh st k v HF). apply forallb_forall. intros [k' v'] HIn. cbn [fst].
  apply in_app_or in HIn. destruct HIn as [HIn|[HIn|[]]].
  - apply (key_ok01_mono sg st); [|apply (HA k' v' HIn)].
    intros j Hj. rewrite <- (sset_fresh st k v HF), smem_sset, Hj. apply orb_true_r.
  - inversion HIn; subst. apply HK.
Qed.

Lemma key_ok01_matable sg j p st' :
  kinds_sorted sg = true -> NoDup (map pname sg) -> nth_error sg j = Some p -> matable p = true ->
  key_ok01 sg st' (akey p j) = true.
Proof.
  intros HS HN Hj M. destruct (matable_kind p M) as [_ K]. unfold akey.
  destruct K as [K|[K|K]]; rewrite K.
  - destruct (posonly_in_prefix sg j p HS Hj K) as [X Y].
    unfold kpos, key_ok01, key_ok, n0.
    assert (A : (0 <=? Z.of_nat j) = true) by (apply Z.leb_le; lia).
    assert (B : (Z.of_nat j <? Z.of_nat (n_prefix sg)) = true) by (apply Z.ltb_lt; lia).
    rewrite A, B, Nat2Z.id, X, K. reflexivity.
  - unfold key_ok01, key_ok. rewrite (find_param_nodup sg p HN (nth_error_In _ _ Hj)), K. reflexivity.
  - unfold key_ok01, key_ok. rewrite (find_param_nodup sg p HN (nth_error_In _ _ Hj)), K. reflexivity.
Qed.

Theorem materialize_preserves_inv sg st :
  valid_sig sg = true -> inv01_b sg st = true -> inv01_b sg (materialize sg st) = true.
Proof.
  intros HV HI. destruct (valid_sig_parts sg HV) as [HS HN]. unfold materialize.
  apply (mat_params_ind (fun s => inv01_b sg s = true)); [exact HI|].
  intros j p st0 Hj H0. cbn [Nat.add]. unfold mat_step.
  destruct (matable p && negb (smem st0 (akey p j))) eqn:E; [|exact H0].
  apply andb_true_iff in E. destruct E as [M E]. apply negb_true_iff in E.
  rewrite (sset_fresh _ _ _ E). apply inv01_app_fresh; [exact H0|exact E|].
  intros st'. apply key_ok01_matable; assumption.
Qed.

Theorem materialize_preserves_build sg st :
  valid_sig sg = true -> inv01_b sg st = true -> build1 sg (materialize sg st) = build1 sg st.
Proof.
  intros HV HI.
  rewrite (build_binds_exactly sg (materialize sg st) HV (materialize_preserves_inv sg st HV HI)).
  rewrite (build_binds_exactly sg st HV HI). apply materialize_preserves_view, HV.
Qed.

(* ------------------------------------------------------------------------------------------ *)
(* trim                                                                                         *)

Definition trim_keep (sg : sig) (veq : ref -> ref -> bool) (kv : skey * ref) : bool :=
  match fst kv with
  | KName n =>
      match find_param sg n with
      | Some p =>
          match pk p, pdefault p with
          | VarKw, _ => true
          | PosOnly, _ | VarPos, _ => true
          | _, Some d => negb (veq d (snd kv))
          | _, None => true
          end
      | None => true
      end
  | KPos _ => true
  end.

Lemma trim_unfold sg veq st : trim sg veq st = filter (trim_keep sg veq) st.
Proof. reflexivity. Qed.

(* only a keyword that names a nameable parameter and equals its default is removed *)
Lemma trim_keep_false sg veq n v :
  trim_keep sg veq (KName n, v) = false ->
  exists p d, find_param sg n = Some p /\ (pk p = PosOrKw \/ pk p = KwOnly) /\
              pdefault p = Some d /\ veq d v = true.
Proof.
  unfold trim_keep. cbn [fst snd]. destruct (find_param sg n) as [p|]; [|discriminate].
  destruct (pk p) eqn:K, (pdefault p) as [d|] eqn:D; try discriminate;
    intros H; apply negb_false_iff in H; exists p, d; repeat split; auto.
Qed.

Theorem trim_subset sg veq st kv : In kv (trim sg veq st) -> In kv st.
Proof. rewrite trim_unfold. intros H. apply filter_In in H. apply H. Qed.

Theorem trim_only_removes sg veq st k v :
  keys_distinct st = true -> sget (trim sg veq st) k = Some v -> sget st k = Some v.
Proof. rewrite trim_unfold. apply sget_filter_sub. Qed.

Lemma trim_sget_pos sg veq st z : sget (trim sg veq st) (KPos z) = sget st (KPos z).
Proof. rewrite trim_unfold. apply sget_filter_keep. reflexivity. Qed.

Lemma trim_varargs sg veq st s :
  varargs_of (length (trim sg veq st)) (trim sg veq st) s = varargs_of (length st) st s.
Proof.
  rewrite <- (varargs_of_fuel (trim sg veq st) s (length st))
    by (rewrite trim_unfold; apply length_filter_le).
  apply varargs_of_ext. intros j _. apply trim_sget_pos.
Qed.

Lemma trim_extras sg veq st : extras_of sg (trim sg veq st) = extras_of sg st.
Proof.
  rewrite trim_unfold. induction st as [|[[z|n] v] st IH]; [reflexivity| |].
  - cbn [filter extras_of]. exact IH.
  - cbn [filter]. destruct (trim_keep sg veq (KName n, v)) eqn:E.
    + rewrite !extras_of_cons_name, IH. reflexivity.
    + rewrite extras_of_cons_name, IH.
      destruct (trim_keep_false sg veq n v E) as (p & d & F & K & _).
      unfold nameable. rewrite F. destruct K as [K|K]; rewrite K; reflexivity.
Qed.

(* ---- views up to an equality on parameter values *)

Definition pval_rel (veq : ref -> ref -> bool) (x y : pval) : Prop :=
  match x, y with
  | PV a, PV b => veq a b = true
  | PTuple l1, PTuple l2 => l1 = l2
  | PDict d1, PDict d2 => d1 = d2
  | _, _ => False
  end.

Definition opt_rel {A} (R : A -> A -> Prop) (x y : option A) : Prop :=
  match x, y with
  | Some a, Some b => R a b
  | None, None => True
  | _, _ => False
  end.

Definition entry_rel (veq : ref -> ref -> bool) (x y : N * pval) : Prop :=
  fst x = fst y /\ pval_rel veq (snd x) (snd y).

(* the first view is the second one with some values replaced by veq-equal ones *)
Definition view_rel (veq : ref -> ref -> bool) : option view -> option view -> Prop :=
  opt_rel (Forall2 (entry_rel veq)).

Lemma reference_params_rel veq sg st st' ps : forall idx,
  (forall j p, nth_error ps j = Some p ->
     opt_rel (pval_rel veq) (here_ref sg st p (idx + j)) (here_ref sg st' p (idx + j))) ->
  view_rel veq (reference_params sg ps idx st) (reference_params sg ps idx st').
Proof.
  induction ps as [|p ps IH]; intros idx H; [constructor|].
  rewrite !reference_params_cons.
  pose proof (H 0%nat p eq_refl) as H0. rewrite Nat.add_0_r in H0.
  assert (HR : view_rel veq (reference_params sg ps (S idx) st) (reference_params sg ps (S idx) st')).
  { apply IH. intros j q Hq. specialize (H (S j) q Hq).
    replace (S idx + j)%nat with (idx + S j)%nat by lia. exact H. }
  unfold view_rel, opt_rel in *.
  destruct (here_ref sg st p idx) as [x|], (here_ref sg st' p idx) as [y|]; try contradiction;
    destruct (reference_params sg ps (S idx) st) as [r|],
             (reference_params sg ps (S idx) st') as [r'|]; try contradiction; try exact I.
  constructor; [split; [reflexivity|exact H0]|exact HR].
Qed.

Lemma pval_rel_eq x y : pval_rel ref_eqb x y -> x = y.
Proof.
  destruct x, y; cbn [pval_rel]; try contradiction; intros H;
    [apply ref_eqb_eq in H|..]; congruence.
Qed.

Lemma view_rel_eq a b : view_rel ref_eqb a b -> a = b.
Proof.
  unfold view_rel, opt_rel. destruct a as [a|], b as [b|]; try contradiction; [|reflexivity].
  intros H. f_equal. induction H as [|[n x] [m y] a b [H1 H2] _ IH]; [reflexivity|].
  cbn [fst snd] in *. apply pval_rel_eq in H2. congruence.
Qed.

Lemma ref_eqb_refl a : ref_eqb a a = true.
Proof. apply ref_eqb_eq. reflexivity. Qed.

Lemma trim_here_ref veq sg st j p :
  (forall a, veq a a = true) ->
  NoDup (map pname sg) -> keys_distinct st = true ->
  nth_error sg j = Some p ->
  opt_rel (pval_rel veq) (here_ref sg (trim sg veq st) p j) (here_ref sg st p j).
Proof.
  intros HR HN HD Hj.
  assert (Same : forall o : option ref,
            opt_rel (pval_rel veq)
              (match o with Some v => Some (PV v)
                          | None => match pdefault p with Some d => Some (PV d) | None => None end end)
              (match o with Some v => Some (PV v)
                          | None => match pdefault p with Some d => Some (PV d) | None => None end end)).
  { intros [v|]; [apply HR|]. destruct (pdefault p); [apply HR|exact I]. }
  assert (Named : pk p = PosOrKw \/ pk p = KwOnly ->
            opt_rel (pval_rel veq)
              (match sget (trim sg veq st) (KName (pname p)) with
               | Some v => Some (PV v)
               | None => match pdefault p with Some d => Some (PV d) | None => None end end)
              (match sget st (KName (pname p)) with
               | Some v => Some (PV v)
               | None => match pdefault p with Some d => Some (PV d) | None => None end end)).
  { intros K. rewrite trim_unfold, (sget_filter _ st _ HD).
    destruct (sget st (KName (pname p))) as [v|] eqn:G; [|apply (Same None)].
    unfold trim_keep. cbn [fst snd]. rewrite (find_param_nodup sg p HN (nth_error_In _ _ Hj)).
    destruct (pdefault p) as [d|] eqn:D.
    - assert (X : match pk p with
                  | PosOrKw | KwOnly => negb (veq d v)
                  | _ => true
                  end = negb (veq d v)) by (destruct K as [K|K]; rewrite K; reflexivity).
      rewrite X. destruct (veq d v) eqn:E; cbn [negb opt_rel pval_rel]; [exact E|apply HR].
    - assert (X : match pk p with PosOrKw | KwOnly => true | _ => true end = true)
        by (destruct (pk p); reflexivity).
      rewrite X. cbn [opt_rel pval_rel]. apply HR. }
  unfold here_ref, akey. destruct (pk p) eqn:K.
  - unfold kpos. rewrite trim_sget_pos. apply Same.
  - apply Named. auto.
  - rewrite trim_varargs. cbn [opt_rel pval_rel]. reflexivity.
  - apply Named. auto.
  - rewrite (trim_extras sg veq st). cbn [opt_rel pval_rel]. reflexivity.
Qed.

Theorem trim_view_rel veq sg st :
  (forall a, veq a a = true) ->
  valid_sig sg = true -> keys_distinct st = true ->
  view_rel veq (reference_view sg (trim sg veq st)) (reference_view sg st).
Proof.
  intros HR HV HD. destruct (valid_sig_parts sg HV) as [_ HN]. unfold reference_view.
  apply reference_params_rel. intros j p Hj. cbn [Nat.add].
  apply trim_here_ref; assumption.
Qed.

Theorem trim_preserves_view sg st :
  valid_sig sg = true -> keys_distinct st = true ->
  reference_view sg (trim sg ref_eqb st) = reference_view sg st.
Proof. intros HV HD. apply view_rel_eq, trim_view_rel; try assumption. apply ref_eqb_refl. Qed.

Theorem trim_preserves_inv sg veq st :
  inv01_b sg st = true -> inv01_b sg (trim sg veq st) = true.
Proof.
  intros HI. destruct (inv01_keys sg st HI) as [HD HA]. unfold inv01_b.
  rewrite trim_unfold, (keys_distinct_filter _ st HD). cbn [andb]. rewrite <- trim_unfold.
  apply forallb_forall. intros [k v] HIn. cbn [fst].
  apply (key_ok01_mono sg st); [|apply (HA k v), (trim_subset sg veq st _ HIn)].
  intros j Hj. rewrite smem_sget in *. unfold kpos. rewrite trim_sget_pos. exact Hj.
Qed.

Theorem trim_build_rel veq sg st :
  (forall a, veq a a = true) ->
  valid_sig sg = true -> inv01_b sg st = true ->
  view_rel veq (build1 sg (trim sg veq st)) (build1 sg st).
Proof.
  intros HR HV HI.
  rewrite (build_binds_exactly sg _ HV (trim_preserves_inv sg veq st HI)).
  rewrite (build_binds_exactly sg st HV HI).
  apply trim_view_rel; try assumption. apply (inv01_keys sg st HI).
Qed.

Theorem trim_preserves_build sg st :
  valid_sig sg = true -> inv01_b sg st = true ->
  build1 sg (trim sg ref_eqb st) = build1 sg st.
Proof. intros HV HI. apply view_rel_eq, trim_build_rel; try assumption. apply ref_eqb_refl. Qed.

(* ---- trim after materialize *)

Lemma keys_distinct_materialize sg st :
  keys_distinct st = true -> keys_distinct (materialize sg st) = true.
Proof.
  intros HD. unfold materialize. apply (mat_params_ind (fun s => keys_distinct s = true)); [exact HD|].
  intros j p st0 _ H0. unfold mat_step.
  destruct (matable p && negb (smem st0 (akey p (0 + j)))); [apply keys_distinct_sset, H0|exact H0].
Qed.

Theorem trim_materialize_view_rel veq sg st :
  (forall a, veq a a = true) ->
  valid_sig sg = true -> keys_distinct st = true ->
  view_rel veq (reference_view sg (trim sg veq (materialize sg st))) (reference_view sg st).
Proof.
  intros HR HV HD.
  rewrite <- (materialize_preserves_view sg st HV).
  apply trim_view_rel; try assumption.
  apply keys_distinct_materialize, HD.
Qed.

Theorem trim_materialize_view sg st :
  valid_sig sg = true -> keys_distinct st = true ->
  reference_view sg (trim sg ref_eqb (materialize sg st)) = reference_view sg st.
Proof. intros HV HD. apply view_rel_eq, trim_materialize_view_rel; try assumption. apply ref_eqb_refl. Qed.

Theorem trim_materialize_build sg st :
  valid_sig sg = true -> inv01_b sg st = true ->
  build1 sg (trim sg ref_eqb (materialize sg st)) = build1 sg st.
Proof.
  intros HV HI.
  rewrite (build_binds_exactly sg _ HV
             (trim_preserves_inv sg ref_eqb _ (materialize_preserves_inv sg st HV HI))).
  rewrite (build_binds_exactly sg st HV HI).
  apply trim_materialize_view; try assumption. apply (inv01_keys sg st HI).
Qed.

(* ---- corner cases *)

Definition cx_int (z : Z) : ref := RA (AInt z).

(* def f(a=1, /, **kw); Config(f, 5, a=1): the keyword a=1 belongs to **kw; it is not compared with
   the default of the positional-only parameter a (the repaired with_defaults_trimmed) *)
Definition cx_sg : sig :=
  [ mkparam 1 PosOnly (Some (cx_int 1)) false; mkparam 8 VarKw None false ].
Definition cx_st : store := [ (KPos 0, cx_int 5); (KName 1, cx_int 1) ].

Example trim_keeps_kwargs :
  valid_sig cx_sg = true /\ inv01_b cx_sg cx_st = true /\
  trim cx_sg ref_eqb cx_st = cx_st /\
  build1 cx_sg cx_st = Some [ (1%N, PV (cx_int 5)); (8%N, PDict [(1%N, cx_int 1)]) ] /\
  build1 cx_sg (trim cx_sg ref_eqb cx_st) = Some [ (1%N, PV (cx_int 5)); (8%N, PDict [(1%N, cx_int 1)]) ].
Proof. vm_compute. repeat split. Qed.

(* with a duplicated key the first occurrence wins in sget, and trim may remove exactly that one *)
Definition cx_sg2 : sig := [ mkparam 3 PosOrKw (Some (cx_int 3)) false ].
Definition cx_st2 : store := [ (KName 3, cx_int 3); (KName 3, cx_int 5) ].

Example trim_sget_needs_distinct :
  sget (trim cx_sg2 ref_eqb cx_st2) (KName 3) = Some (cx_int 5) /\
  sget cx_st2 (KName 3) = Some (cx_int 3).
Proof. vm_compute. split; reflexivity. Qed.

(* ---- non-vacuity: def f(a=1, b=2, /, c=3, *, k=4) with index 1 and k set *)
Definition ex20_sg : sig :=
  [ mkparam 1 PosOnly (Some (cx_int 1)) false; mkparam 2 PosOnly (Some (cx_int 2)) false;
    mkparam 3 PosOrKw (Some (cx_int 3)) false; mkparam 4 KwOnly (Some (cx_int 4)) false ].
Definition ex20_st : store := [ (KPos 1, cx_int 20); (KName 4, cx_int 4) ].
Definition ex20_view : view :=
  [ (1%N, PV (cx_int 1)); (2%N, PV (cx_int 20)); (3%N, PV (cx_int 3)); (4%N, PV (cx_int 4)) ].

Example ex20_nonvacuous :
  valid_sig ex20_sg = true /\ inv01_b ex20_sg ex20_st = true /\
  materialize ex20_sg ex20_st =
    [ (KPos 1, cx_int 20); (KName 4, cx_int 4); (KPos 0, cx_int 1); (KName 3, cx_int 3) ] /\
  build1 ex20_sg ex20_st = Some ex20_view /\
  build1 ex20_sg (materialize ex20_sg ex20_st) = Some ex20_view /\
  trim ex20_sg ref_eqb (materialize ex20_sg ex20_st) = [ (KPos 1, cx_int 20); (KPos 0, cx_int 1) ] /\
  build1 ex20_sg (trim ex20_sg ref_eqb (materialize ex20_sg ex20_st)) = Some ex20_view.
Proof. vm_compute. repeat split. Qed.

(* ========================================================================================== *)
(* L2: the graph transformations                                                                *)

From Fiddle Require Import Heap Traverse Build Build_stmt Traverse_proofs Tags Tags_proofs
  C08Check Copy Iso_proofs Copy_proofs.
From Coq Require Import Arith.
Local Open Scope nat_scope.

(* ------------------------------------------------------------------------------------------ *)
(* materialize_defaults: the in-place pre-order walk map_visit over the mutable heap h is a
   memoized walk over the static heap  map f h  that overwrites the nodes it visits             *)

Section MapVisit.
  Variable e : sigenv.
  Variable f : node -> node.
  Variable h : heap.

  Definition all_mapped : heap := map f h.

  Definition mmarked (hc : heap) (seen : list nat) : Prop :=
    length hc = length h /\
    forall i n, nth_error h i = Some n ->
      nth_error hc i = Some (if existsb (Nat.eqb i) seen then f n else n).

  Lemma mmarked_init : mmarked h [].
  Proof. split; [reflexivity |]. intros i n Hn. exact Hn. Qed.

  Lemma mmarked_step hc seen i n :
    mmarked hc seen -> nth_error h i = Some n -> mmarked (heap_set hc i (f n)) (i :: seen).
  Proof.
    intros [Hlen Hm] Hn. split; [rewrite heap_set_length; exact Hlen |].
    intros j m Hj. cbn [existsb]. destruct (Nat.eqb j i) eqn:Hji.
    - apply Nat.eqb_eq in Hji. subst j. cbn [orb]. rewrite Hn in Hj. inversion Hj; subst m.
      apply heap_set_nth_eq. rewrite Hlen. apply nth_error_Some. congruence.
    - apply Nat.eqb_neq in Hji. cbn [orb]. rewrite heap_set_nth_neq by exact Hji. apply Hm. exact Hj.
  Qed.

  Lemma map_visit_sim : forall fu hs r,
    mmarked (fst hs) (snd hs) ->
    snd (map_visit e f fu hs r) = gdfs e all_mapped cons fu (snd hs) r /\
    mmarked (fst (map_visit e f fu hs r)) (snd (map_visit e f fu hs r)).
  Proof.
    induction fu as [|fu IH]; intros hs r Hm; destruct r as [a|i]; cbn [map_visit gdfs].
    - split; [reflexivity | exact Hm].
    - destruct (existsb _ (snd hs)); split; solve [reflexivity | exact Hm].
    - split; [reflexivity | exact Hm].
    - destruct (existsb (Nat.eqb i) (snd hs)) eqn:Hex; [split; [reflexivity | exact Hm] |].
      destruct Hm as [Hlen Hm].
      assert (HA : nth_error all_mapped i = option_map f (nth_error h i)) by apply nth_error_map.
      rewrite HA. clear HA.
      destruct (nth_error h i) as [n|] eqn:Hn; cbn [option_map].
      + rewrite (Hm i n Hn), Hex.
        pose proof (mmarked_step (fst hs) (snd hs) i n (conj Hlen Hm) Hn) as Hm1.
        revert Hm1.
        generalize (heap_set (fst hs) i (f n)). intros hc.
        generalize (i :: snd hs). intros seen.
        generalize (children e (f n)). intros cs.
        revert hc seen. induction cs as [|c cs IHcs]; intros hc seen Hm1; cbn [fold_left].
        * split; [reflexivity | exact Hm1].
        * destruct (IH (hc, seen) c Hm1) as [Hs1 Hm2]. cbn [snd] in Hs1.
          rewrite <- Hs1.
          destruct (map_visit e f fu (hc, seen) c) as [hc1 seen1]. cbn [fst snd] in *.
          apply IHcs. exact Hm2.
      + assert (Hnone : nth_error (fst hs) i = None).
        { apply nth_error_None. rewrite Hlen. apply nth_error_None. exact Hn. }
        rewrite Hnone. split; [reflexivity | split; assumption].
  Qed.

  Variable r : ref.

  Definition map_run : heap := fst (map_visit e f (S (length h)) (h, []) r).
  Definition mvisited : list nat := gdfs e all_mapped cons (S (length h)) [] r.

  Lemma map_run_marked : mmarked map_run mvisited.
  Proof.
    unfold map_run, mvisited.
    destruct (map_visit_sim (S (length h)) (h, []) r mmarked_init) as [Hs Hm].
    cbn [snd] in Hs. rewrite <- Hs. exact Hm.
  Qed.

  Theorem map_run_length : length map_run = length h.
  Proof. exact (proj1 map_run_marked). Qed.

  (* every object is left alone or overwritten with f of its original content, exactly once *)
  Theorem map_run_node i n :
    nth_error h i = Some n ->
    nth_error map_run i = Some (if existsb (Nat.eqb i) mvisited then f n else n).
  Proof. apply (proj2 map_run_marked). Qed.

  Hypothesis HwfA : wf_b e all_mapped = true.
  Hypothesis Hroot : root_ok h r.

  Lemma mvisited_exact i : In i mvisited <-> creach e all_mapped r i.
  Proof.
    unfold mvisited. replace (length h) with (length all_mapped) by apply map_length.
    apply gdfs_exact; auto.
    - intros j s k. cbn [In]. split; [intros [H|H]; auto | intros [H|H]; auto].
    - destruct r as [a|j]; cbn [root_ok] in *; [exact I |]. unfold all_mapped. rewrite map_length. exact Hroot.
  Qed.

  Lemma mvisited_node i n :
    In i mvisited -> (nth_error map_run i = Some n <-> nth_error all_mapped i = Some n).
  Proof.
    intros Hin. destruct map_run_marked as [Hlen Hm].
    unfold all_mapped. rewrite nth_error_map.
    destruct (nth_error h i) as [m|] eqn:Hi; cbn [option_map].
    - rewrite (Hm i m Hi). apply existsb_nat_in in Hin. rewrite Hin. reflexivity.
    - assert (Hnone : nth_error map_run i = None).
      { apply nth_error_None. rewrite Hlen. apply nth_error_None. exact Hi. }
      rewrite Hnone. reflexivity.
  Qed.

  Lemma mcreach_new_old : forall c k,
    creach e map_run c k -> (forall j, c = RP j -> In j mvisited) -> creach e all_mapped c k.
  Proof.
    induction 1 as [i|i n c k Hn Hin Hc IH]; intros Hv; [constructor |].
    pose proof (Hv i eq_refl) as Hi. apply (mvisited_node i n Hi) in Hn.
    eapply cr_step; [exact Hn | exact Hin |]. apply IH. intros j Hj. subst c.
    apply mvisited_exact. apply mvisited_exact in Hi.
    clear - Hi Hn Hin. induction Hi as [i|i0 n0 c0 k0 Hn0 Hin0 Hc0 IH0].
    - eapply cr_step; [exact Hn | exact Hin | constructor].
    - eapply cr_step; [exact Hn0 | exact Hin0 |]. apply IH0; assumption.
  Qed.

  Lemma mcreach_old_new : forall c k,
    creach e all_mapped c k -> (forall j, c = RP j -> In j mvisited) -> creach e map_run c k.
  Proof.
    induction 1 as [i|i n c k Hn Hin Hc IH]; intros Hv; [constructor |].
    pose proof (Hv i eq_refl) as Hi. pose proof Hn as HnA. apply (mvisited_node i n Hi) in Hn.
    eapply cr_step; [exact Hn | exact Hin |]. apply IH. intros j Hj. subst c.
    apply mvisited_exact. apply mvisited_exact in Hi.
    eapply creach_trans; [exact Hi |]. eapply cr_step; [exact HnA | exact Hin | constructor].
  Qed.

  (* the visited objects are exactly those reachable from the root in the NEW heap *)
  Theorem mvisited_reach_new i : In i mvisited <-> creach e map_run r i.
  Proof.
    assert (Hr : forall j, r = RP j -> In j mvisited).
    { intros j Hj. apply mvisited_exact. subst r. constructor. }
    rewrite mvisited_exact. split; intros Hc.
    - apply mcreach_old_new; assumption.
    - apply mcreach_new_old; assumption.
  Qed.

  Theorem map_run_nodes i n :
    nth_error h i = Some n ->
    (creach e map_run r i -> nth_error map_run i = Some (f n)) /\
    (~ creach e map_run r i -> nth_error map_run i = Some n).
  Proof.
    intros Hn. pose proof (map_run_node i n Hn) as Hm. split; intros Hc.
    - apply mvisited_reach_new, existsb_nat_in in Hc. rewrite Hc in Hm. exact Hm.
    - destruct (existsb (Nat.eqb i) mvisited) eqn:Hex; [| exact Hm].
      exfalso. apply Hc. apply mvisited_reach_new, existsb_nat_in. exact Hex.
  Qed.
End MapVisit.

Lemma nth_error_ext_eq {A} : forall (l1 l2 : list A),
  (forall i, nth_error l1 i = nth_error l2 i) -> l1 = l2.
Proof.
  induction l1 as [|x l1 IH]; intros [|y l2] H.
  - reflexivity.
  - specialize (H 0). discriminate.
  - specialize (H 0). discriminate.
  - pose proof (H 0) as H0. cbn [nth_error] in H0. inversion H0; subst. f_equal.
    apply IH. intros i. apply (H (S i)).
Qed.

(* running an idempotent node function a second time changes nothing *)
Theorem map_run_idempotent e f h r :
  (forall n, f (f n) = f n) -> map_run e f (map_run e f h r) r = map_run e f h r.
Proof.
  intros Hidem. set (h' := map_run e f h r).
  assert (Hlen : length h' = length h) by apply map_run_length.
  assert (Hnone : forall i, nth_error h i = None -> nth_error h' i = None).
  { intros i Hi. apply nth_error_None. rewrite Hlen. apply nth_error_None. exact Hi. }
  assert (HA : all_mapped f h' = all_mapped f h).
  { unfold all_mapped. apply nth_error_ext_eq. intros i. rewrite !nth_error_map.
    destruct (nth_error h i) as [n|] eqn:Hn.
    - unfold h'. rewrite (map_run_node e f h r i n Hn). cbn [option_map].
      destruct (existsb (Nat.eqb i) (mvisited e f h r)); rewrite ?Hidem; reflexivity.
    - rewrite (Hnone i Hn). reflexivity. }
  assert (HV : mvisited e f h' r = mvisited e f h r).
  { unfold mvisited. rewrite HA, Hlen. reflexivity. }
  apply nth_error_ext_eq. intros i.
  destruct (nth_error h' i) as [m|] eqn:Hm.
  - rewrite (map_run_node e f h' r i m Hm), HV.
    destruct (nth_error h i) as [n|] eqn:Hn; [| rewrite (Hnone i Hn) in Hm; discriminate].
    unfold h' in Hm. rewrite (map_run_node e f h r i n Hn) in Hm. inversion Hm as [Hm'].
    destruct (existsb (Nat.eqb i) (mvisited e f h r)); rewrite ?Hidem; reflexivity.
  - apply nth_error_None. rewrite map_run_length. apply nth_error_None. exact Hm.
Qed.

Section MaterializeDefaults.
  Variable e : sigenv.

  (* the node function is the model's Transform.mat_node: a TaggedValue is left alone, every other
     Buildable has its argument store materialized *)
  Lemma materialize_defaults_unfold h r : materialize_defaults e h r = map_run e (mat_node e) h r.
  Proof. reflexivity. Qed.

  Lemma mat_node_buildable k fn args tags :
    mat_node e (NBuildable k fn args tags) =
      NBuildable k fn (match k with BTagged => args | _ => materialize (sig_of e fn) args end) tags.
  Proof. destruct k; reflexivity. Qed.

  Lemma mat_node_other n :
    (forall k fn args tags, n <> NBuildable k fn args tags) -> mat_node e n = n.
  Proof. intros Hnb. destruct n; try reflexivity. exfalso. eapply Hnb. reflexivity. Qed.

  Lemma mat_node_idem n : mat_node e (mat_node e n) = mat_node e n.
  Proof.
    destruct n; try reflexivity.
    rewrite !mat_node_buildable. destruct k; try reflexivity;
      rewrite materialize_idempotent; reflexivity.
  Qed.

  Theorem materialize_defaults_length h r : length (materialize_defaults e h r) = length h.
  Proof. apply map_run_length. Qed.

  Theorem materialize_defaults_idempotent h r :
    materialize_defaults e (materialize_defaults e h r) r = materialize_defaults e h r.
  Proof. rewrite !materialize_defaults_unfold. apply map_run_idempotent, mat_node_idem. Qed.

  (* only the argument stores of Buildables change, and only by materialize *)
  Theorem materialize_defaults_buildable h r i k fn args tags :
    nth_error h i = Some (NBuildable k fn args tags) ->
    exists args', nth_error (materialize_defaults e h r) i = Some (NBuildable k fn args' tags) /\
                  (args' = args \/ args' = materialize (sig_of e fn) args).
  Proof.
    intros Hn. rewrite materialize_defaults_unfold, (map_run_node e (mat_node e) h r i _ Hn).
    destruct (existsb (Nat.eqb i) (mvisited e (mat_node e) h r)).
    - rewrite mat_node_buildable. eexists. split; [reflexivity |].
      destruct k; solve [right; reflexivity | left; reflexivity].
    - eexists. split; [reflexivity | left; reflexivity].
  Qed.

  (* a TaggedValue is never touched, reachable or not *)
  Theorem materialize_defaults_tagged h r i fn args tags :
    nth_error h i = Some (NBuildable BTagged fn args tags) ->
    nth_error (materialize_defaults e h r) i = Some (NBuildable BTagged fn args tags).
  Proof.
    intros Hn. rewrite materialize_defaults_unfold, (map_run_node e (mat_node e) h r i _ Hn).
    destruct (existsb (Nat.eqb i) (mvisited e (mat_node e) h r)); reflexivity.
  Qed.

  Theorem materialize_defaults_other h r i n :
    nth_error h i = Some n -> (forall k fn args tags, n <> NBuildable k fn args tags) ->
    nth_error (materialize_defaults e h r) i = Some n.
  Proof.
    intros Hn Hnb. rewrite materialize_defaults_unfold, (map_run_node e (mat_node e) h r i _ Hn).
    destruct (existsb (Nat.eqb i) (mvisited e (mat_node e) h r)); [| reflexivity].
    rewrite (mat_node_other n Hnb). reflexivity.
  Qed.

  (* hence every Buildable of the graph is called exactly as before *)
  Theorem materialize_defaults_preserves_calls h r i k fn args tags :
    nth_error h i = Some (NBuildable k fn args tags) ->
    valid_sig (sig_of e fn) = true ->
    exists args', nth_error (materialize_defaults e h r) i = Some (NBuildable k fn args' tags) /\
      reference_view (sig_of e fn) args' = reference_view (sig_of e fn) args /\
      (inv01_b (sig_of e fn) args = true ->
       inv01_b (sig_of e fn) args' = true /\ build1 (sig_of e fn) args' = build1 (sig_of e fn) args).
  Proof.
    intros Hn HV. destruct (materialize_defaults_buildable h r i k fn args tags Hn) as (args' & H1 & H2).
    exists args'. split; [exact H1 |]. destruct H2 as [-> | ->].
    - split; [reflexivity |]. intros HI. split; [exact HI | reflexivity].
    - split; [apply materialize_preserves_view, HV |]. intros HI.
      split; [apply materialize_preserves_inv | apply materialize_preserves_build]; assumption.
  Qed.

  (* every Buildable that the root still reaches, except a TaggedValue (which is left unchanged),
     has all its defaults stored *)
  Theorem materialize_defaults_reachable h r i k fn args tags :
    wf_b e (map (mat_node e) h) = true -> root_ok h r ->
    nth_error h i = Some (NBuildable k fn args tags) ->
    creach e (materialize_defaults e h r) r i ->
    nth_error (materialize_defaults e h r) i =
      Some (NBuildable k fn
              (match k with BTagged => args | _ => materialize (sig_of e fn) args end) tags).
  Proof.
    intros Hwf Hroot Hn Hc. rewrite materialize_defaults_unfold in *.
    rewrite <- mat_node_buildable.
    apply (proj1 (map_run_nodes e (mat_node e) h r Hwf Hroot i _ Hn) Hc).
  Qed.

  (* ... so afterwards every parameter of such a Buildable that has a default value (not a
     default_factory) is stored *)
  Theorem materialize_defaults_reachable_total h r i k fn args tags :
    wf_b e (map (mat_node e) h) = true -> root_ok h r ->
    nth_error h i = Some (NBuildable k fn args tags) -> k <> BTagged ->
    creach e (materialize_defaults e h r) r i ->
    exists args', nth_error (materialize_defaults e h r) i = Some (NBuildable k fn args' tags) /\
      forall j p d, nth_error (sig_of e fn) j = Some p -> pdefault p = Some d -> pfactory p = false ->
        (pk p = PosOnly \/ pk p = PosOrKw \/ pk p = KwOnly) ->
        smem args' (match pk p with PosOnly => kpos j | _ => KName (pname p) end) = true.
  Proof.
    intros Hwf Hroot Hn Hk Hc. exists (materialize (sig_of e fn) args). split.
    - rewrite (materialize_defaults_reachable h r i k fn args tags Hwf Hroot Hn Hc).
      destruct k; try reflexivity. exfalso. apply Hk. reflexivity.
    - intros j p d Hj Hd Hf Hpk. eapply materialize_total; eassumption.
  Qed.
End MaterializeDefaults.

(* ------------------------------------------------------------------------------------------ *)
(* memoized rebuilds whose node function only appends to the heap and never fails               *)

Section AppendNoFail.
  Variable e : sigenv.
  Variable h : heap.
  Variable on_node : nat -> node -> list ref -> heap -> heap * (ref + fail).
  Hypothesis Hwf : wf_b e h = true.
  Hypothesis Happ : forall i n rs o o' x, on_node i n rs o = (o', x) -> exists ext, o' = o ++ ext.
  Hypothesis Hnofail : forall i n rs o o' fl, on_node i n rs o <> (o', inr fl).

  Variables (r : ref) (s : mstate) (res : ref + fail).
  Hypothesis Hroot : root_ok h r.
  Hypothesis Hrun : mrun e h on_node r = (s, res).

  Lemma anf_vspec : vspec e h on_node (mk_ms [] h []) r s res.
  Proof. apply mrun_spec; auto. Qed.

  Lemma anf_total : exists r', res = inl r'.
  Proof.
    destruct anf_vspec as (_ & _ & _ & Hres). destruct res as [r'|fl]; [eauto |].
    destruct Hres as (i & n & rs & o & o' & Hon & _). exfalso. eapply Hnofail; eauto.
  Qed.

  Lemma anf_prefix : exists ext, out s = h ++ ext.
  Proof. destruct anf_vspec as ((_ & _ & _ & Hrec) & _). eapply recorded_prefix; eauto. Qed.

  Lemma anf_pure : firstn (length h) (out s) = h /\ length h <= length (out s).
  Proof.
    destruct anf_prefix as [ext Ho]. rewrite Ho. split.
    - rewrite firstn_app, Nat.sub_diag, firstn_all. cbn [firstn]. apply app_nil_r.
    - rewrite app_length. lia.
  Qed.

  Lemma anf_once : NoDup (log s).
  Proof. destruct anf_vspec as ((_ & Hnd & _) & _). exact Hnd. Qed.

  Lemma anf_exactly_creach : forall i, In i (log s) <-> creach e h r i.
  Proof.
    intros i. destruct anf_vspec as (_ & _ & (l & Hl & Hr) & Hsucc).
    destruct anf_total as [r' Hres]. rewrite Hres in Hsucc. split.
    - cbn [log app] in Hl. rewrite Hl. apply Hr.
    - apply Hsucc.
  Qed.

  Lemma anf_root_image r' : res = inl r' -> map_ref (memo s) r = Some r'.
  Proof.
    intros Hres. destruct anf_vspec as (_ & _ & _ & Hsucc). rewrite Hres in Hsucc. apply Hsucc.
  Qed.
End AppendNoFail.

Lemma alloc_app o n : exists ext, fst (alloc o n) = o ++ ext.
Proof. unfold alloc. cbn [fst]. eexists. reflexivity. Qed.

(* ---- simplify_partials *)

Lemma simplify_node_cases e i n rs o :
  simplify_node e i n rs o = (o, inl (RP i)) \/
  (exists fn, simplify_node e i n rs o = (o, inl (RA (ASym fn)))) \/
  simplify_node e i n rs o = (o ++ [with_children e n rs], inl (RP (length o))).
Proof.
  unfold simplify_node, alloc. destruct n; cbn [traversable]; auto.
  destruct k; auto. destruct (nondefault_args e fn args); [right; left; eauto | auto].
Qed.

Lemma simplify_node_app e i n rs o o' x :
  simplify_node e i n rs o = (o', x) -> exists ext, o' = o ++ ext.
Proof.
  intros H. destruct (simplify_node_cases e i n rs o) as [E|[[fn E]|E]]; rewrite E in H;
    inversion H; subst; [exists [] | exists [] | eexists; reflexivity]; symmetry; apply app_nil_r.
Qed.

Lemma simplify_node_nofail e i n rs o o' fl : simplify_node e i n rs o <> (o', inr fl).
Proof.
  intros H. destruct (simplify_node_cases e i n rs o) as [E|[[fn E]|E]]; rewrite E in H; discriminate.
Qed.

(* ---- materialize_tags *)

Lemma mattags_node_cases e i n rs o :
  mattags_node e i n rs o = (o, inl (RP i)) \/
  (exists v, In v rs /\ mattags_node e i n rs o = (o, inl v)) \/
  mattags_node e i n rs o = (o ++ [with_children e n rs], inl (RP (length o))).
Proof.
  unfold mattags_node, alloc. destruct n; cbn [traversable]; auto.
  destruct k; auto.
  destruct (sget (combine (map fst (flat_args e fn args)) rs) (KName 0%N)) as [v|] eqn:G; auto.
  destruct (ref_eqb v NoValue); auto. right; left. exists v. split; [|reflexivity].
  apply Store_proofs.sget_In in G. apply in_combine_r in G. exact G.
Qed.

Lemma mattags_node_app e i n rs o o' x :
  mattags_node e i n rs o = (o', x) -> exists ext, o' = o ++ ext.
Proof.
  intros H. destruct (mattags_node_cases e i n rs o) as [E|[(v & _ & E)|E]]; rewrite E in H;
    inversion H; subst; [exists [] | exists [] | eexists; reflexivity]; symmetry; apply app_nil_r.
Qed.

Lemma mattags_node_nofail e i n rs o o' fl : mattags_node e i n rs o <> (o', inr fl).
Proof.
  intros H. destruct (mattags_node_cases e i n rs o) as [E|[(v & _ & E)|E]]; rewrite E in H; discriminate.
Qed.

Section SimplifyMatTags.
  Variable e : sigenv.
  Variables (h : heap) (r : ref) (s : mstate) (res : ref + fail).
  Hypothesis Hwf : wf_b e h = true.
  Hypothesis Hroot : root_ok h r.

  Section Simplify.
    Hypothesis Hrun : simplify_partials e h r = (s, res).
    Let A := simplify_node_app e.
    Let F := simplify_node_nofail e.

    Theorem simplify_total : exists r', res = inl r'.
    Proof. exact (anf_total e h _ Hwf A F r s res Hroot Hrun). Qed.
    Theorem simplify_pure : firstn (length h) (out s) = h /\ length h <= length (out s).
    Proof. exact (anf_pure e h _ Hwf A r s res Hroot Hrun). Qed.
    Theorem simplify_once : NoDup (log s).
    Proof. exact (anf_once e h _ Hwf A r s res Hroot Hrun). Qed.
    Theorem simplify_exactly_creach : forall i, In i (log s) <-> creach e h r i.
    Proof. exact (anf_exactly_creach e h _ Hwf A F r s res Hroot Hrun). Qed.
    Theorem simplify_root_image : forall r', res = inl r' -> map_ref (memo s) r = Some r'.
    Proof. exact (anf_root_image e h _ Hwf A r s res Hroot Hrun). Qed.
  End Simplify.

  Section MatTags.
    Hypothesis Hrun : materialize_tags e h r = (s, res).
    Let A := mattags_node_app e.
    Let F := mattags_node_nofail e.

    Theorem mattags_total : exists r', res = inl r'.
    Proof. exact (anf_total e h _ Hwf A F r s res Hroot Hrun). Qed.
    Theorem mattags_pure : firstn (length h) (out s) = h /\ length h <= length (out s).
    Proof. exact (anf_pure e h _ Hwf A r s res Hroot Hrun). Qed.
    Theorem mattags_once : NoDup (log s).
    Proof. exact (anf_once e h _ Hwf A r s res Hroot Hrun). Qed.
    Theorem mattags_exactly_creach : forall i, In i (log s) <-> creach e h r i.
    Proof. exact (anf_exactly_creach e h _ Hwf A F r s res Hroot Hrun). Qed.
    Theorem mattags_root_image : forall r', res = inl r' -> map_ref (memo s) r = Some r'.
    Proof. exact (anf_root_image e h _ Hwf A r s res Hroot Hrun). Qed.
  End MatTags.
End SimplifyMatTags.

(* ---- the identity rebuild (clear_argument_history) and with_defaults_trimmed *)

Lemma trim_node_rebuild e : trim_node e = rebuild_node e.
Proof. reflexivity. Qed.

Lemma trim_node_koa e i n rs o :
  trim_node e i n rs o = (o, inl (RP i)) \/
  exists nd, trim_node e i n rs o = (o ++ [nd], inl (RP (length o))).
Proof. exact (rebuild_koa e i n rs o). Qed.

Section ClearHistory.
  Variable e : sigenv.
  Variables (h : heap) (r : ref) (s : mstate) (res : ref + fail).
  Hypothesis Hwf : wf_b e h = true.
  Hypothesis Hroot : root_ok h r.
  Hypothesis Hrun : mrun e h (trim_node e) r = (s, res).

  Theorem clear_history_total : exists r', res = inl r'.
  Proof. exact (rebuild_total e h r s res Hwf Hroot Hrun). Qed.
  Theorem clear_history_pure : firstn (length h) (out s) = h /\ length h <= length (out s).
  Proof. exact (rebuild_pure e h r s res Hwf Hroot Hrun). Qed.
  Theorem clear_history_once : NoDup (log s).
  Proof. exact (rebuild_once e h r s res Hwf Hroot Hrun). Qed.
  Theorem clear_history_exactly_creach : forall i, In i (log s) <-> creach e h r i.
  Proof. exact (rebuild_exactly_creach e h r s res Hwf Hroot Hrun). Qed.

  (* on canonical nodes the rebuilt graph is a one-to-one image of the original ... *)
  Theorem clear_history_faithful :
    (forall i n, creach e h r i -> nth_error h i = Some n -> node_canonical e n) ->
    forall r', res = inl r' ->
    bij_wf (memo_bij (memo s)) /\ simulates h (out s) (memo_bij (memo s)) /\
    rel_ref (memo_bij (memo s)) r r'.
  Proof. exact (rebuild_faithful e h r s res Hwf Hroot Hrun). Qed.

  (* ... and shares only sets and opaque leaves with it *)
  Theorem clear_history_independent :
    (forall i n, creach e h r i -> nth_error h i = Some n -> node_canonical e n) ->
    forall r', res = inl r' ->
    forall k, rreach (out s) r' k ->
    length h <= k \/
    (k < length h /\ memo_get (memo s) k = Some (RP k) /\
     exists n, nth_error h k = Some n /\
               ((exists fz xs, n = NSet fz xs) \/ exists x, n = NOpaque x)).
  Proof. exact (rebuild_independent e h r s res Hwf Hroot Hrun). Qed.
End ClearHistory.

(* trimming arguments keeps a heap well formed *)
Lemma trim_args_node_refs e (f : N -> store -> store)
  (Hsub : forall fn args kv, In kv (f fn args) -> In kv args) n c :
  In c (node_refs e (on_buildable f n)) -> In c (node_refs e n).
Proof.
  destruct n; cbn [on_buildable]; try exact (fun H => H).
  cbn [node_refs]. intros H. apply in_map_iff in H. destruct H as (kv & <- & Hin).
  apply in_map, (Hsub _ _ _ Hin).
Qed.

Lemma wf_from_on_buildable e (f : N -> store -> store)
  (Hsub : forall fn args kv, In kv (f fn args) -> In kv args) h :
  forall i, wf_from e h i = true -> wf_from e (map (on_buildable f) h) i = true.
Proof.
  induction h as [|n h IH]; intros i H; [reflexivity |].
  cbn [map wf_from] in *. apply andb_true_iff in H. destruct H as [H1 H2].
  rewrite (IH _ H2), andb_true_r. rewrite forallb_forall in *.
  intros c Hc. apply H1. eapply trim_args_node_refs; eauto.
Qed.

Lemma wf_pre_trim e h : wf_b e h = true -> wf_b e (pre_trim e h) = true.
Proof.
  unfold wf_b, pre_trim. apply wf_from_on_buildable. intros fn args kv. apply trim_subset.
Qed.

Lemma root_ok_map (f : node -> node) h r : root_ok h r -> root_ok (map f h) r.
Proof. destruct r; cbn [root_ok]; [exact (fun H => H) |]. rewrite map_length. exact (fun H => H). Qed.

Section WithDefaultsTrimmed.
  Variable e : sigenv.
  Variables (h : heap) (r : ref) (s : mstate) (res : ref + fail).
  Hypothesis Hwf : wf_b e h = true.
  Hypothesis Hroot : root_ok h r.
  Hypothesis Hrun : with_defaults_trimmed e h r = (s, res).

  Lemma wdt_run : exists s0,
    mrun e (pre_trim e h) (trim_node e) r = (s0, res) /\
    s = mk_ms (memo s0) (h ++ skipn (length h) (out s0)) (log s0).
  Proof.
    unfold with_defaults_trimmed in Hrun.
    destruct (mrun e (pre_trim e h) (trim_node e) r) as [s0 res0]. inversion Hrun; subst.
    exists s0. split; reflexivity.
  Qed.

  Lemma wdt_root : root_ok (pre_trim e h) r.
  Proof. apply root_ok_map, Hroot. Qed.

  (* the Buildables the rebuild reads are the trimmed ones, node for node *)
  Theorem wdt_pre_trim_node i :
    nth_error (pre_trim e h) i =
    option_map (on_buildable (fun fn args => trim (sig_of e fn) (leaf_eq) args)) (nth_error h i).
  Proof. unfold pre_trim. apply nth_error_map. Qed.

  Theorem wdt_total : exists r', res = inl r'.
  Proof.
    destruct wdt_run as (s0 & H0 & _).
    exact (clear_history_total e _ r s0 res (wf_pre_trim e h Hwf) wdt_root H0).
  Qed.

  (* the input graph is not modified: new objects are appended *)
  Theorem wdt_pure : firstn (length h) (out s) = h /\ length h <= length (out s).
  Proof.
    destruct wdt_run as (s0 & _ & ->). cbn [out]. split.
    - rewrite firstn_app, Nat.sub_diag, firstn_all. cbn [firstn]. apply app_nil_r.
    - rewrite app_length. lia.
  Qed.

  Theorem wdt_once : NoDup (log s).
  Proof.
    destruct wdt_run as (s0 & H0 & ->). cbn [log].
    exact (clear_history_once e _ r s0 res (wf_pre_trim e h Hwf) wdt_root H0).
  Qed.

  Theorem wdt_exactly_creach : forall i, In i (log s) <-> creach e (pre_trim e h) r i.
  Proof.
    destruct wdt_run as (s0 & H0 & ->). cbn [log].
    exact (clear_history_exactly_creach e _ r s0 res (wf_pre_trim e h Hwf) wdt_root H0).
  Qed.

  (* the new part of the result is exactly what the rebuild over the trimmed heap allocated *)
  Theorem wdt_new_nodes k :
    length h <= k ->
    exists s0, mrun e (pre_trim e h) (trim_node e) r = (s0, res) /\
               nth_error (out s) k = nth_error (out s0) k.
  Proof.
    intros Hk. destruct wdt_run as (s0 & H0 & ->). exists s0. split; [exact H0 |]. cbn [out].
    destruct (clear_history_pure e _ r s0 res (wf_pre_trim e h Hwf) wdt_root H0) as [_ Hlen].
    unfold pre_trim in Hlen. rewrite map_length in Hlen.
    rewrite nth_error_app2 by exact Hk.
    rewrite <- (firstn_skipn (length h) (out s0)) at 2.
    rewrite nth_error_app2; rewrite firstn_length_le by exact Hlen; [reflexivity | exact Hk].
  Qed.
End WithDefaultsTrimmed.

(* ---- with_defaults_trimmed: the returned graph mirrors the trimmed graph, inside the ORIGINAL heap *)

Lemma on_buildable_nontraversable f n :
  traversable (on_buildable f n) = false -> on_buildable f n = n.
Proof. destruct n; cbn [on_buildable traversable]; try reflexivity. discriminate. Qed.

Section WithDefaultsTrimmedFaithful.
  Variable e : sigenv.
  Variables (h : heap) (r : ref) (s : mstate) (res : ref + fail).
  Hypothesis Hwf : wf_b e h = true.
  Hypothesis Hroot : root_ok h r.
  Hypothesis Hrun : with_defaults_trimmed e h r = (s, res).

  Let ht := pre_trim e h.
  Let Hwft : wf_b e ht = true := wf_pre_trim e h Hwf.
  Let Hroott : root_ok ht r := wdt_root e h r Hroot.

  (* an image of a processed object holds the same node in the returned heap as in the heap of
     the rebuild over the trimmed copies *)
  Lemma wdt_image_agree s0 i j :
    mrun e ht (trim_node e) r = (s0, res) ->
    s = mk_ms (memo s0) (h ++ skipn (length h) (out s0)) (log s0) ->
    memo_get (memo s0) i = Some (RP j) ->
    nth_error (out s) j = nth_error (out s0) j.
  Proof.
    intros H0 Hs Hg. subst s. cbn [out].
    destruct (rebuild_pure e ht r s0 res Hwft Hroott H0) as [Hfirst Hlen].
    assert (Hlt : length ht = length h) by (unfold ht, pre_trim; apply map_length).
    rewrite Hlt in Hlen, Hfirst.
    destruct (le_lt_dec (length h) j) as [Hj|Hj].
    - rewrite nth_error_app2 by exact Hj.
      rewrite <- (firstn_skipn (length h) (out s0)) at 2.
      rewrite nth_error_app2; rewrite firstn_length_le by exact Hlen; [reflexivity | exact Hj].
    - destruct (rebuild_fresh_distinct e ht r s0 res Hwft Hroott H0 i i _ _ Hg Hg)
        as [[[Hri _]|(k & Hri & Hk)] _]; [| inversion Hri; subst k; lia].
      inversion Hri; subst j.
      destruct (nth_error ht i) as [n|] eqn:Hn; [| apply nth_error_None in Hn; lia].
      assert (Hin : In i (log s0)).
      { apply (rebuild_memo_function e ht r s0 res Hwft Hroott H0). eapply memo_get_some_in; eauto. }
      destruct (rebuild_mirrors e ht r s0 res Hwft Hroott H0 i n _ Hin Hn Hg) as (rs & _ & Hmir).
      destruct (traversable n) eqn:Ht.
      { destruct Hmir as (k & Hk1 & Hk2 & _). inversion Hk1; subst k. lia. }
      rewrite nth_error_app1 by exact Hj.
      rewrite (koa_old_nth e ht (trim_node e) Hwft (trim_node_koa e) r s0 res Hroott H0 i n Hn).
      unfold ht, pre_trim in Hn. rewrite nth_error_map in Hn.
      destruct (nth_error h i) as [n0|]; [| discriminate]. cbn [option_map] in Hn.
      inversion Hn as [Hn']. rewrite <- Hn' in Ht. rewrite (on_buildable_nontraversable _ _ Ht). reflexivity.
  Qed.

  Theorem wdt_faithful :
    (forall i n, creach e ht r i -> nth_error ht i = Some n -> node_canonical e n) ->
    forall r', res = inl r' ->
    bij_wf (memo_bij (memo s)) /\ simulates ht (out s) (memo_bij (memo s)) /\
    rel_ref (memo_bij (memo s)) r r'.
  Proof.
    intros Hcanon r' Hres. destruct (wdt_run e h r s res Hrun) as (s0 & H0 & Hs).
    destruct (rebuild_faithful e ht r s0 res Hwft Hroott H0 Hcanon r' Hres) as (Hb & Hsim & Hrel).
    assert (Hm : memo s = memo s0) by (rewrite Hs; reflexivity). rewrite Hm.
    split; [exact Hb |]. split; [| exact Hrel].
    intros i j Hin. destruct (Hsim i j Hin) as (n1 & n2 & H1 & H2 & H3 & H4).
    exists n1, n2. split; [exact H1 |]. split; [| split; assumption].
    rewrite <- H2. apply (wdt_image_agree s0 i j H0 Hs).
    apply memo_get_of_in; [apply (rebuild_memo_function e ht r s0 res Hwft Hroott H0) |].
    apply memo_bij_in. exact Hin.
  Qed.
End WithDefaultsTrimmedFaithful.

(* ---- the comparison used by with_defaults_trimmed is reflexive, but it is not identity *)

Lemma atom_py_eq_refl a : Eq.atom_py_eq a a = true.
Proof.
  assert (R : atom_eqb a a = true) by (unfold atom_eqb; destruct (atom_eq_dec a a); congruence).
  destruct a; exact R.
Qed.

Lemma leaf_eq_refl a : leaf_eq a a = true.
Proof. destruct a as [x|i]; cbn [leaf_eq]; [apply atom_py_eq_refl | apply Nat.eqb_refl]. Qed.

(* every Buildable read by with_defaults_trimmed is called with ==-equal arguments *)
Theorem wdt_preserves_calls e h i k fn args tags :
  nth_error h i = Some (NBuildable k fn args tags) ->
  valid_sig (sig_of e fn) = true -> keys_distinct args = true ->
  exists args', nth_error (pre_trim e h) i = Some (NBuildable k fn args' tags) /\
    view_rel leaf_eq (reference_view (sig_of e fn) args') (reference_view (sig_of e fn) args).
Proof.
  intros Hn HV HD. exists (trim (sig_of e fn) leaf_eq args). split.
  - unfold pre_trim. rewrite nth_error_map, Hn. reflexivity.
  - apply trim_view_rel; try assumption. apply leaf_eq_refl.
Qed.

(* FINDING (known): def g(x=1); Config(g, x=True): True == 1, so x is trimmed and g receives 1 *)
Definition cx_sg3 : sig := [ mkparam 1 PosOrKw (Some (cx_int 1)) false ].
Definition cx_st3 : store := [ (KName 1, RA (ABool true)) ].

Example trim_py_eq_changes_value :
  valid_sig cx_sg3 = true /\ inv01_b cx_sg3 cx_st3 = true /\
  build1 cx_sg3 cx_st3 = Some [ (1%N, PV (RA (ABool true))) ] /\
  build1 cx_sg3 (trim cx_sg3 leaf_eq cx_st3) = Some [ (1%N, PV (cx_int 1)) ].
Proof. vm_compute. repeat split. Qed.

(* ---- non-vacuity at the graph level: [cfg, partial(f), TaggedValue(7), cfg] with cfg shared *)
Definition ex20_env : sigenv :=
  [ (10%N, ex20_sg); (11%N, [ mkparam 0 PosOrKw (Some NoValue) false ]) ].
Definition ex20_heap : heap :=
  [ NBuildable BConfig 10 ex20_st [];
    NBuildable BPartial 10 [] [];
    NBuildable BTagged 11 [ (KName 0%N, cx_int 7) ] [];
    NList [ RP 0; RP 1; RP 2; RP 0 ] ].

Definition node_at (sr : mstate * (ref + fail)) : option node :=
  match snd sr with
  | inl (RP k) => nth_error (out (fst sr)) k
  | _ => None
  end.

Example ex20_graph :
  wf_b ex20_env ex20_heap = true /\
  (* materialize_defaults, in place *)
  nth_error (materialize_defaults ex20_env ex20_heap (RP 3)) 0 =
    Some (NBuildable BConfig 10
            [ (KPos 1, cx_int 20); (KName 4, cx_int 4); (KPos 0, cx_int 1); (KName 3, cx_int 3) ] []) /\
  nth_error (materialize_defaults ex20_env ex20_heap (RP 3)) 1 =
    Some (NBuildable BPartial 10
            [ (KPos 0, cx_int 1); (KPos 1, cx_int 2); (KName 3, cx_int 3); (KName 4, cx_int 4) ] []) /\
  (* with_defaults_trimmed of the materialized graph: the shared cfg stays shared *)
  (let sr := with_defaults_trimmed ex20_env (materialize_defaults ex20_env ex20_heap (RP 3)) (RP 3) in
   node_at sr = Some (NList [ RP 4; RP 5; RP 6; RP 4 ]) /\
   nth_error (out (fst sr)) 4 =
     Some (NBuildable BConfig 10 [ (KPos 0, cx_int 1); (KPos 1, cx_int 20) ] []) /\
   firstn 4 (out (fst sr)) = materialize_defaults ex20_env ex20_heap (RP 3)) /\
  (* an unconfigured partial becomes the callable *)
  node_at (simplify_partials ex20_env ex20_heap (RP 3)) =
    Some (NList [ RP 4; RA (ASym 10); RP 5; RP 4 ]) /\
  (* a TaggedValue with a value becomes the value *)
  node_at (materialize_tags ex20_env ex20_heap (RP 3)) =
    Some (NList [ RP 4; RP 5; cx_int 7; RP 4 ]).
Proof. vm_compute. repeat split. Qed.

(* ------------------------------------------------------------------------------------------ *)
(* what simplify_partials / materialize_tags did at each processed object                        *)

Section AppendLookup.
  Variable e : sigenv.
  Variable h : heap.
  Variable on_node : nat -> node -> list ref -> heap -> heap * (ref + fail).
  Hypothesis Hwf : wf_b e h = true.
  Hypothesis Happ : forall i n rs o o' x, on_node i n rs o = (o', x) -> exists ext, o' = o ++ ext.
  Variables (r : ref) (s : mstate) (res : ref + fail).
  Hypothesis Hroot : root_ok h r.
  Hypothesis Hrun : mrun e h on_node r = (s, res).

  Lemma anf_lookup i n ri : nth_error h i = Some n -> memo_get (memo s) i = Some ri ->
    exists rs o0 o1,
      map (map_ref (memo s)) (children e n) = map Some rs /\
      on_node i n rs o0 = (o1, inl ri) /\
      (exists ext0, o0 = h ++ ext0) /\ (exists ext, out s = o1 ++ ext).
  Proof.
    intros Hn Hg. destruct (anf_vspec e h on_node Hwf Happ r s res Hroot Hrun) as (Hinv & _).
    pose proof Hinv as (Hk & Hnd & Hord & Hrec).
    destruct (recorded_lookup e h on_node Happ (memo s) (out s) Hrec
                (inv_memo_nodup e h on_node s Hinv) i ri Hg)
      as (n' & rs & o0 & o1 & Hn' & Hm & Hon & Hpre & Hext).
    rewrite Hn in Hn'. inversion Hn'; subst n'. exists rs, o0, o1. auto.
  Qed.
End AppendLookup.

Lemma simplify_node_spec e i n rs o :
  (traversable n = false /\ simplify_node e i n rs o = (o, inl (RP i))) \/
  (exists fn args tags, n = NBuildable BPartial fn args tags /\ nondefault_args e fn args = [] /\
                        simplify_node e i n rs o = (o, inl (RA (ASym fn)))) \/
  (traversable n = true /\
   simplify_node e i n rs o = (o ++ [with_children e n rs], inl (RP (length o)))).
Proof.
  unfold simplify_node, alloc. destruct n; cbn [traversable]; auto.
  destruct k; auto. destruct (nondefault_args e fn args) eqn:E; [| auto].
  right; left. exists fn, args, tags. auto.
Qed.

Lemma mattags_node_spec e i n rs o :
  (traversable n = false /\ mattags_node e i n rs o = (o, inl (RP i))) \/
  (exists fn args tags v, n = NBuildable BTagged fn args tags /\
      sget (combine (map fst (flat_args e fn args)) rs) (KName 0%N) = Some v /\ v <> NoValue /\
      mattags_node e i n rs o = (o, inl v)) \/
  (traversable n = true /\
   mattags_node e i n rs o = (o ++ [with_children e n rs], inl (RP (length o)))).
Proof.
  unfold mattags_node, alloc. destruct n; cbn [traversable]; auto.
  destruct k; auto.
  destruct (sget (combine (map fst (flat_args e fn args)) rs) (KName 0%N)) as [v|] eqn:G; auto.
  destruct (ref_eqb v NoValue) eqn:E; auto. right; left. exists fn, args, tags, v.
  repeat split; auto. intros X. apply ref_eqb_eq in X. congruence.
Qed.

Section Mirrors.
  Variable e : sigenv.
  Variables (h : heap) (r : ref) (s : mstate) (res : ref + fail).
  Hypothesis Hwf : wf_b e h = true.
  Hypothesis Hroot : root_ok h r.

  Lemma alloc_position (o0 : heap) nd :
    (exists ext0, o0 = h ++ ext0) -> (exists ext, out s = (o0 ++ [nd]) ++ ext) ->
    length h <= length o0 /\ nth_error (out s) (length o0) = Some nd.
  Proof.
    intros [ext0 H0] [ext H1]. split.
    - rewrite H0, app_length. lia.
    - rewrite H1. apply nth_error_mid'.
  Qed.

  (* simplify_partials: an unconfigured Partial becomes its callable, every other container is
     rebuilt over the images of its children, everything else is kept *)
  Theorem simplify_mirrors :
    simplify_partials e h r = (s, res) ->
    forall i n ri, nth_error h i = Some n -> memo_get (memo s) i = Some ri ->
    exists rs, map (map_ref (memo s)) (children e n) = map Some rs /\
      ((traversable n = false /\ ri = RP i) \/
       (exists fn args tags, n = NBuildable BPartial fn args tags /\
                             nondefault_args e fn args = [] /\ ri = RA (ASym fn)) \/
       (traversable n = true /\
        exists k, ri = RP k /\ length h <= k /\ nth_error (out s) k = Some (with_children e n rs))).
  Proof.
    intros Hrun i n ri Hn Hg.
    destruct (anf_lookup e h _ Hwf (simplify_node_app e) r s res Hroot Hrun i n ri Hn Hg)
      as (rs & o0 & o1 & Hm & Hon & Hpre & Hext).
    exists rs. split; [exact Hm |].
    destruct (simplify_node_spec e i n rs o0) as [[Ht E]|[(fn & args & tags & Hn' & Hnd & E)|[Ht E]]];
      rewrite E in Hon; inversion Hon; subst.
    - left. auto.
    - right; left. exists fn, args, tags. auto.
    - right; right. split; [exact Ht |]. exists (length o0).
      destruct (alloc_position o0 _ Hpre Hext). auto.
  Qed.

  (* materialize_tags: a TaggedValue holding a value becomes (the image of) that value *)
  Theorem mattags_mirrors :
    materialize_tags e h r = (s, res) ->
    forall i n ri, nth_error h i = Some n -> memo_get (memo s) i = Some ri ->
    exists rs, map (map_ref (memo s)) (children e n) = map Some rs /\
      ((traversable n = false /\ ri = RP i) \/
       (exists fn args tags, n = NBuildable BTagged fn args tags /\
          sget (combine (map fst (flat_args e fn args)) rs) (KName 0%N) = Some ri /\ ri <> NoValue) \/
       (traversable n = true /\
        exists k, ri = RP k /\ length h <= k /\ nth_error (out s) k = Some (with_children e n rs))).
  Proof.
    intros Hrun i n ri Hn Hg.
    destruct (anf_lookup e h _ Hwf (mattags_node_app e) r s res Hroot Hrun i n ri Hn Hg)
      as (rs & o0 & o1 & Hm & Hon & Hpre & Hext).
    exists rs. split; [exact Hm |].
    destruct (mattags_node_spec e i n rs o0)
      as [[Ht E]|[(fn & args & tags & v & Hn' & Hv & Hnv & E)|[Ht E]]];
      rewrite E in Hon; inversion Hon; subst.
    - left. auto.
    - right; left. exists fn, args, tags. auto.
    - right; right. split; [exact Ht |]. exists (length o0).
      destruct (alloc_position o0 _ Hpre Hext). auto.
  Qed.
End Mirrors.
