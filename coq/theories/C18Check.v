(* C18Check: path text, repr, and flag-directive correspondence. *)
From Fiddle Require Import PyBase PyText PathText.

Definition otpath_eq_dec : forall a b : option tpath, {a = b} + {a <> b}.
Proof. decide equality; auto using tpath_eq_dec. Defined.

(* a path as Fiddle reports it, the text the printers emitted for it, and what the
   command-line parser made of that text *)
Record case := mkcase { c_path : tpath; c_text : list N; c_strip : bool; c_parsed : option tpath }.

Definition check_case (c : case) : bool :=
  let printed := if c_strip c then strip_leading_dot (print_tpath (c_path c)) else print_tpath (c_path c) in
  (if listN_eq_dec printed (c_text c) then true else false)
  && (if otpath_eq_dec (parse_path_text 0 (c_text c)) (c_parsed c) then true else false)
  (* the theorem C18_parse_print on this case *)
  && (negb (forallb telt_ok (c_path c))
      || (if otpath_eq_dec (parse_path_text 0 (c_text c)) (Some (map erase (c_path c))) then true else false)).

Definition explain_case (c : case) :=
  (print_tpath (c_path c), parse_path_text 0 (c_text c), forallb telt_ok (c_path c)).

(* repr(s) for ASCII s, and literal_eval(repr(s)) = s *)
Record repr_case := mkrepr { r_str : list N; r_repr : list N }.
Definition body (s : list N) : list N := removelast (tl s).
Definition check_repr (c : repr_case) : bool :=
  (if listN_eq_dec (repr_str (r_str c)) (r_repr c) then true else false)
  && match unescape (S (length (r_repr c))) (body (r_repr c)) with
     | Some s => if listN_eq_dec s (r_str c) then true else false
     | None => false
     end.

(* directive sequences *)
Definition directive_eq_dec : forall a b : directive, {a = b} + {a <> b}.
Proof. decide equality; auto using N.eq_dec. Defined.
Definition flag_result_eq_dec : forall a b : flag_result, {a = b} + {a <> b}.
Proof. decide equality; auto using (list_eq_dec directive_eq_dec). Defined.
Record dir_case := mkdir { d_dirs : list directive; d_obs : flag_result }.
Definition check_dir (c : dir_case) : bool :=
  if flag_result_eq_dec (run_directives (d_dirs c) false []) (d_obs c) then true else false.
