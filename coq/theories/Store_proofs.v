(* Store_proofs: get/set/del laws of the insertion-ordered store, keys_distinct. *)
From Fiddle Require Import PyBase PySlice Sig ArgStore ArgSpec.

Lemma skey_eqb_sym a b : skey_eqb a b = skey_eqb b a.
Proof.
  destruct (skey_eq_dec a b) as [E|E].
  - subst. reflexivity.
  - rewrite (skey_eqb_neq _ _ E). symmetry. apply skey_eqb_neq. congruence.
Qed.

Lemma skey_eqb_false a b : skey_eqb a b = false -> a <> b.
Proof. intros H E. subst. rewrite skey_eqb_refl in H. discriminate. Qed.

Lemma kpos_inj i j : kpos i = kpos j -> i = j.
Proof. unfold kpos. intros H. inversion H. lia. Qed.

Lemma kpos_neq i j : i <> j -> kpos i <> kpos j.
Proof. intros H E. apply H, kpos_inj, E. Qed.

Lemma kpos_KPos (i : Z) : 0 <= i -> KPos i = kpos (Z.to_nat i).
Proof. intros H. unfold kpos. rewrite Z2Nat.id by exact H. reflexivity. Qed.

(* ------------------------------------------------------------------ sget / sset / sdel *)

Lemma sget_sset st k v k' :
  sget (sset st k v) k' = if skey_eqb k' k then Some v else sget st k'.
Proof.
  unfold sget, sset.
  induction st as [|[k0 v0] st IH]; cbn [dset dget].
  - reflexivity.
  - destruct (skey_eqb k k0) eqn:E.
    + apply skey_eqb_eq in E. subst k0. cbn [dget].
      destruct (skey_eqb k' k); reflexivity.
    + cbn [dget]. rewrite IH.
      destruct (skey_eqb k' k0) eqn:E0; destruct (skey_eqb k' k) eqn:E1; try reflexivity.
      apply skey_eqb_eq in E0. apply skey_eqb_eq in E1. subst.
      rewrite skey_eqb_refl in E. discriminate.
Qed.

Lemma sget_sset_eq st k v : sget (sset st k v) k = Some v.
Proof. rewrite sget_sset, skey_eqb_refl. reflexivity. Qed.

Lemma sget_sset_neq st k v k' : k' <> k -> sget (sset st k v) k' = sget st k'.
Proof. intros H. rewrite sget_sset, (skey_eqb_neq _ _ H). reflexivity. Qed.

Lemma sget_sdel_neq st k k' : k' <> k -> sget (sdel st k) k' = sget st k'.
Proof.
  intros H. unfold sget, sdel.
  induction st as [|[k0 v0] st IH]; cbn [ddel dget].
  - reflexivity.
  - destruct (skey_eqb k k0) eqn:E.
    + apply skey_eqb_eq in E. subst k0. rewrite (skey_eqb_neq _ _ H). reflexivity.
    + cbn [dget]. rewrite IH. reflexivity.
Qed.

Lemma smem_sget st k : smem st k = match sget st k with Some _ => true | None => false end.
Proof. reflexivity. Qed.

Lemma smem_true st k : smem st k = true <-> exists v, sget st k = Some v.
Proof.
  rewrite smem_sget. destruct (sget st k) as [v|].
  - split; [intros _; exists v; reflexivity | reflexivity].
  - split; [discriminate | intros [v H]; discriminate].
Qed.

Lemma smem_false st k : smem st k = false <-> sget st k = None.
Proof.
  rewrite smem_sget. destruct (sget st k) as [v|]; split; congruence.
Qed.

Lemma sget_sdel_eq st k : keys_distinct st = true -> sget (sdel st k) k = None.
Proof.
  unfold sget, sdel.
  induction st as [|[k0 v0] st IH]; cbn [ddel dget keys_distinct]; intros H.
  - reflexivity.
  - apply andb_prop in H. destruct H as [H1 H2].
    destruct (skey_eqb k k0) eqn:E.
    + apply skey_eqb_eq in E. subst k0.
      apply negb_true_iff in H1. apply smem_false in H1. exact H1.
    + cbn [dget]. rewrite E. apply IH. exact H2.
Qed.

Lemma sget_sdel st k k' :
  keys_distinct st = true ->
  sget (sdel st k) k' = if skey_eqb k' k then None else sget st k'.
Proof.
  intros H. destruct (skey_eq_dec k' k) as [E|E].
  - subst. rewrite skey_eqb_refl. apply sget_sdel_eq. exact H.
  - rewrite (skey_eqb_neq _ _ E). apply sget_sdel_neq. exact E.
Qed.

Lemma smem_sset st k v k' : smem (sset st k v) k' = skey_eqb k' k || smem st k'.
Proof.
  rewrite !smem_sget, sget_sset. destruct (skey_eqb k' k); reflexivity.
Qed.

Lemma smem_sdel st k k' :
  keys_distinct st = true -> smem (sdel st k) k' = negb (skey_eqb k' k) && smem st k'.
Proof.
  intros H. rewrite !smem_sget, (sget_sdel _ _ _ H). destruct (skey_eqb k' k); reflexivity.
Qed.

Lemma keys_distinct_sset st k v : keys_distinct st = true -> keys_distinct (sset st k v) = true.
Proof.
  induction st as [|[k0 v0] st IH]; intros H.
  - reflexivity.
  - cbn [keys_distinct] in H. apply andb_prop in H. destruct H as [H1 H2].
    unfold sset in *. cbn [dset].
    destruct (skey_eqb k k0) eqn:E.
    + cbn [keys_distinct]. rewrite H1, H2. reflexivity.
    + cbn [keys_distinct]. rewrite (IH H2), andb_true_r.
      change (dset skey_eqb st k v) with (sset st k v).
      rewrite smem_sset. rewrite skey_eqb_sym, E. exact H1.
Qed.

Lemma smem_sdel_weak st k k' : smem (sdel st k) k' = true -> smem st k' = true.
Proof.
  unfold smem, dmem, sdel.
  induction st as [|[k0 v0] st IH]; cbn [ddel dget].
  - auto.
  - destruct (skey_eqb k k0) eqn:E.
    + destruct (skey_eqb k' k0); auto.
    + cbn [dget]. destruct (skey_eqb k' k0); auto.
Qed.

Lemma keys_distinct_sdel st k : keys_distinct st = true -> keys_distinct (sdel st k) = true.
Proof.
  induction st as [|[k0 v0] st IH]; intros H.
  - reflexivity.
  - cbn [keys_distinct] in H. apply andb_prop in H. destruct H as [H1 H2].
    unfold sdel in *. cbn [ddel].
    destruct (skey_eqb k k0) eqn:E.
    + exact H2.
    + cbn [keys_distinct]. rewrite (IH H2), andb_true_r.
      apply negb_true_iff. apply negb_true_iff in H1.
      destruct (smem (ddel skey_eqb st k) k0) eqn:M; [|reflexivity].
      apply smem_sdel_weak in M. congruence.
Qed.

Lemma sget_In st k v : sget st k = Some v -> In (k, v) st.
Proof.
  unfold sget. induction st as [|[k0 v0] st IH]; cbn [dget]; intros H.
  - discriminate.
  - destruct (skey_eqb k k0) eqn:E.
    + apply skey_eqb_eq in E. inversion H. subst. left. reflexivity.
    + right. apply IH. exact H.
Qed.

Lemma In_sget st k v : keys_distinct st = true -> In (k, v) st -> sget st k = Some v.
Proof.
  induction st as [|[k0 v0] st IH]; intros D H.
  - destruct H.
  - cbn [keys_distinct] in D. apply andb_prop in D. destruct D as [D1 D2].
    unfold sget. cbn [dget]. destruct H as [H|H].
    + inversion H. subst. rewrite skey_eqb_refl. reflexivity.
    + pose proof (IH D2 H) as G.
      destruct (skey_eqb k k0) eqn:E.
      * apply skey_eqb_eq in E. subst k0. apply negb_true_iff in D1.
        apply smem_false in D1. congruence.
      * exact G.
Qed.

Lemma sget_In_keys st k v : sget st k = Some v -> In k (map fst st).
Proof. intros H. apply sget_In in H. apply (in_map fst) in H. exact H. Qed.

Lemma keys_distinct_NoDup st : keys_distinct st = true -> NoDup (map fst st).
Proof.
  induction st as [|[k0 v0] st IH]; intros D.
  - constructor.
  - cbn [keys_distinct] in D. apply andb_prop in D. destruct D as [D1 D2].
    cbn [map fst]. constructor.
    + intros HI. apply in_map_iff in HI. destruct HI as [[k v] [E HI]]. cbn in E. subst k.
      apply (In_sget _ _ _ D2) in HI. apply negb_true_iff in D1. apply smem_false in D1. congruence.
    + apply IH. exact D2.
Qed.

Lemma NoDup_map_inj {A B} (f : A -> B) l :
  (forall a b, f a = f b -> a = b) -> NoDup l -> NoDup (map f l).
Proof.
  intros Hf H. induction H as [|x l Hx H IH]; cbn [map]; constructor.
  - intros HI. apply in_map_iff in HI. destruct HI as [y [E HI]]. apply Hf in E. subst. auto.
  - exact IH.
Qed.

(* pigeonhole: a run of m present consecutive integer keys has m <= length st *)
Lemma run_length_bound st i m :
  (forall j, (j < m)%nat -> smem st (kpos (i + j)) = true) -> (m <= length st)%nat.
Proof.
  intros H.
  assert (L : length (map (fun j => kpos (i + j)) (seq 0 m)) = m)
    by (rewrite map_length, seq_length; reflexivity).
  rewrite <- L, <- (map_length fst st).
  apply NoDup_incl_length.
  - apply NoDup_map_inj.
    + intros a b E. apply kpos_inj in E. lia.
    + apply seq_NoDup.
  - intros k HI. apply in_map_iff in HI. destruct HI as [j [E HI]]. subst k.
    apply in_seq in HI. destruct HI as [_ HI]. cbn in HI.
    specialize (H j HI). apply smem_true in H. destruct H as [v H].
    eapply sget_In_keys. exact H.
Qed.

(* ------------------------------------------------------------------ nat_seq *)
Lemma nat_seq_seq a n : nat_seq a n = seq a n.
Proof. revert a. induction n as [|n IH]; intros a; cbn; [reflexivity | rewrite IH; reflexivity]. Qed.

Lemma In_nat_seq j a n : In j (nat_seq a n) <-> (a <= j < a + n)%nat.
Proof. rewrite nat_seq_seq. apply in_seq. Qed.
