(* Proofs about the serializer's bytes codec and the policy gate. *)
From Fiddle Require Import PyBase PyText Serial.
Open Scope N_scope.

Lemma bytes_roundtrip (b : list N) :
  forallb (fun c => c <? 256) b = true -> bytes_of_str (latin1_decode b) = b.
Proof.
  intros Hb. unfold bytes_of_str, latin1_decode, latin1_encode. rewrite Hb. reflexivity.
Qed.

Lemma latin1_encode_decode (b : list N) :
  forallb (fun c => c <? 256) b = true -> latin1_encode (latin1_decode b) = Some b.
Proof. intros Hb. unfold latin1_decode, latin1_encode. rewrite Hb. reflexivity. Qed.

(* the codec used before the repair: the six bytes  \ u 0 0 4 1  decode to "A", which encodes to
   the single byte 0x41 *)
Definition lossy_witness : list N := [92; 117; 48; 48; 52; 49].
Lemma old_codec_lossy :
  forallb (fun c => c <? 256) lossy_witness = true /\
  rue_decode (S (length lossy_witness)) lossy_witness = Some [65] /\
  rue_encode [65] = [65] /\ rue_encode [65] <> lossy_witness.
Proof. repeat split; try reflexivity. discriminate. Qed.

(* without a backslash the old codec was the identity as well *)
Lemma rue_decode_no_backslash (b : list N) :
  forallb (fun c => negb (c =? ch_bslash)) b = true ->
  forall fuel, (length b < fuel)%nat -> rue_decode fuel b = Some b.
Proof.
  induction b as [|c b IH]; intros Hb fuel Hf.
  - destruct fuel; [inversion Hf | reflexivity].
  - destruct fuel as [|f]; [inversion Hf|].
    cbn [forallb] in Hb. apply andb_true_iff in Hb. destruct Hb as [Hc Hb].
    cbn [rue_decode]. rewrite Hc. rewrite (IH Hb f). reflexivity.
    cbn [length] in Hf. apply Nat.succ_lt_mono. exact Hf.
Qed.

Section Policy.
  Variable allows_import : N -> bool.
  Variable importer : N -> option N.
  Variable allows_value : N -> bool.

  Lemma import_symbol_value sym v imp :
    import_symbol allows_import importer allows_value sym = (PValue v, imp) ->
    allows_import sym = true /\ importer sym = Some v /\ allows_value v = true /\ imp = [sym].
  Proof.
    unfold import_symbol. destruct (allows_import sym) eqn:Ha; [|discriminate].
    destruct (importer sym) as [w|] eqn:Hi; [|discriminate].
    destruct (allows_value w) eqn:Hv; [|discriminate].
    intros H. inversion H; subst. repeat split; assumption.
  Qed.

  Lemma import_symbol_imports_only_approved sym r imp s :
    import_symbol allows_import importer allows_value sym = (r, imp) -> In s imp ->
    s = sym /\ allows_import sym = true.
  Proof.
    unfold import_symbol. destruct (allows_import sym) eqn:Ha.
    - destruct (importer sym) as [w|]; [destruct (allows_value w)|];
        intros H Hin; inversion H; subst; destruct Hin as [<-|[]]; split; reflexivity.
    - intros H Hin. inversion H; subst. destruct Hin.
  Qed.

  Lemma resolve_all_gate syms :
    forall vals imp, resolve_all allows_import importer allows_value syms = (vals, imp) ->
      (forall s, In s imp -> allows_import s = true /\ In s syms) /\
      (forall vs, vals = Some vs ->
         length vs = length syms /\
         Forall2 (fun s v => allows_import s = true /\ importer s = Some v /\ allows_value v = true) syms vs).
  Proof.
    induction syms as [|s rest IH]; intros vals imp H; cbn [resolve_all] in H.
    - inversion H; subst. split; [intros ? []|]. intros vs Hv. inversion Hv; subst. split; [reflexivity|constructor].
    - destruct (import_symbol allows_import importer allows_value s) as [r i1] eqn:Hs.
      destruct r as [v| |].
      + destruct (resolve_all allows_import importer allows_value rest) as [r2 i2] eqn:Hr.
        inversion H; subst. destruct (IH _ _ eq_refl) as [IHa IHb].
        apply import_symbol_value in Hs. destruct Hs as (Ha & Hi & Hv & ->).
        split.
        * intros x Hx. apply in_app_or in Hx. destruct Hx as [[<-|[]]|Hx].
          -- split; [exact Ha | left; reflexivity].
          -- destruct (IHa x Hx) as [A B]. split; [exact A | right; exact B].
        * intros vs Hvs. destruct r2 as [vs2|]; cbn [option_map] in Hvs; [|discriminate].
          inversion Hvs; subst. destruct (IHb vs2 eq_refl) as [L F]. split.
          -- cbn [length]. rewrite L. reflexivity.
          -- constructor; [repeat split; assumption | exact F].
      + inversion H; subst. split.
        * intros x Hx. destruct (import_symbol_imports_only_approved _ _ _ _ Hs Hx) as [-> A].
          split; [exact A | left; reflexivity].
        * intros vs Hvs. discriminate.
      + inversion H; subst. split.
        * intros x Hx. destruct (import_symbol_imports_only_approved _ _ _ _ Hs Hx) as [-> A].
          split; [exact A | left; reflexivity].
        * intros vs Hvs. discriminate.
  Qed.
End Policy.
