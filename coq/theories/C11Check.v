(* C11Check: a generated program is evaluated under both semantics of Lang and compared with what
   the real auto_config produced: the configuration returned by as_buildable( *args ), and the object
   graph returned by calling the function.  It also tests the statement of C11 on the case:
   building the model's configuration gives a graph isomorphic to the model's direct evaluation. *)
From Fiddle Require Import PyBase PySlice Sig ArgStore PyCall Heap Traverse Build Lang C02Check.

Record case := mkcase {
  c_env : sigenv; c_arg_heap : heap; c_args : list ref; c_prog : program;
  c_cfg_heap : heap; c_cfg_root : option ref;       (* as_buildable( *args ) *)
  c_py_heap : heap; c_py_root : option ref          (* fn( *args ) *)
}.

Definition iso_roots (h1 : heap) (r1 : option ref) (h2 : heap) (r2 : option ref) : bool :=
  match r1, r2 with
  | Some a, Some b => iso_b h1 h2 a b
  | None, None => true
  | _, _ => false
  end.

Definition fuel_of (p : program) : nat := 64.

Definition check_case (c : case) : bool :=
  let e := c_env c in
  let '(hc, rc) := run_program e true (fuel_of (c_prog c)) (c_args c) (c_arg_heap c) (c_prog c) in
  let '(hp, rp) := run_program e false (fuel_of (c_prog c)) (c_args c) (c_arg_heap c) (c_prog c) in
  iso_roots hc rc (c_cfg_heap c) (c_cfg_root c)
  && iso_roots hp rp (c_py_heap c) (c_py_root c)
  (* C11 on this case: build (eval_cfg p) ~ eval_py p, partial objects up to argument binding *)
  && match rc, rp with
     | Some rcfg, Some rpy =>
         match mrun e hc (build_node e no_fail) rcfg with
         | (s, inl rb) => iso_b (norm_heap e (out s)) (norm_heap e hp) rb rpy
         | _ => false
         end
     | None, None => true
     | _, _ => true
     end.

Definition explain_case (c : case) :=
  (run_program (c_env c) true 64 (c_args c) (c_arg_heap c) (c_prog c),
   run_program (c_env c) false 64 (c_args c) (c_arg_heap c) (c_prog c)).
