(* Build: fdl.build as an instance of the memoized traversal, with uninterpreted callables.
   Calling the callable of a Config allocates a fresh NObj recording what the callee observed
   (PyCall.build1); that is exactly what the harness's recording callables do. *)
From Fiddle Require Import PyBase PySlice Sig ArgStore PyCall Heap Traverse.

Section Build.
  Variable e : sigenv.
  (* failure oracle: which Buildable's callable raises, and which exception class *)
  Variable fails : nat -> option N.

  Definition build_node (i : nat) (n : node) (rs : list ref) (o : heap) : heap * (ref + fail) :=
    match n with
    | NBuildable k fn args tags =>
        let args' := combine (map fst (flat_args e fn args)) rs in
        match transform_build (sig_of e fn) args' with
        | None => (o, inr (FType i))
        | Some (pos, kws) =>
            match k with
            | BConfig =>
                match py_call (sig_of e fn) pos kws with
                | None => (o, inr (FType i))
                | Some vw =>
                    match fails i with
                    | Some ex => (o, inr (FRaise i ex))
                    | None => let '(o', r) := alloc o (NObj fn vw) in (o', inl r)
                    end
                end
            | BTagged =>
                (* tagged_value_fn(value, tags): identity, or TaggedValueNotFilledError *)
                match sget args' (KName 0%N) with
                | Some v => if ref_eqb v NoValue then (o, inr (FRaise i 0%N)) else (o, inl v)
                | None => (o, inr (FRaise i 0%N))
                end
            | BPartial | BArgFactory =>
                let kw := flat_map (fun kv => match fst kv with
                                              | KName nm => [(nm, snd kv)]
                                              | KPos _ => [] end) kws in
                let '(o', r) := alloc o (NPartialObj fn pos kw) in (o', inl r)
            end
        end
    | NList _ | NTuple _ | NDict _ | NDefaultDict _ _ | NNamedTuple _ _ =>
        let '(o', r) := alloc o (with_children e n rs) in (o', inl r)
    | _ => (o, inl (RP i))
    end.

  (* build with the in-build flag: (flag, heap, root) -> flag', result *)
  Definition build (in_build : bool) (h : heap) (r : ref) : bool * (mstate * (ref + fail)) :=
    if in_build then (true, (mk_ms [] h [], inr FNested))
    else (false, mrun e h build_node r).

  (* the invocation log: Buildables in the order their callables were invoked *)
  Definition call_log (h : heap) (s : mstate) : list nat := filter (is_buildable h) (log s).
End Build.
