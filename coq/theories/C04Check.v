(* C04Check: build a Partial, call the result several times with overriding arguments, and compare
   everything the recording callable received -- including which objects are shared between calls
   and with build time -- with the model, up to one bijection threaded through all calls. *)
From Fiddle Require Import PyBase PySlice Sig ArgStore PyCall Heap Traverse Partial.

Record case := mkcase {
  c_env : sigenv; c_heap : heap; c_root : ref;
  c_calls : list (list ref * list (N * ref));
  c_obs_heap : heap;
  c_obs_results : list (option ref)         (* None: the call raised TypeError *)
}.

Fixpoint run_calls (e : sigenv) (o : heap) (p : ref) (calls : list (list ref * list (N * ref)))
  : heap * list (option ref) :=
  match calls with
  | [] => (o, [])
  | (cpos, ckw) :: rest =>
      let '(o1, r) := call e o p cpos ckw in
      let '(o2, rs) := run_calls e o1 p rest in
      (o2, r :: rs)
  end.

Fixpoint iso_all (h1 h2 : heap) (m : bij) (l1 l2 : list (option ref)) : option bij :=
  match l1, l2 with
  | [], [] => Some m
  | Some r1 :: l1', Some r2 :: l2' =>
      match iso h1 h2 (S (length h1 + length h2)) m r1 r2 with
      | Some m' => iso_all h1 h2 m' l1' l2'
      | None => None
      end
  | None :: l1', None :: l2' => iso_all h1 h2 m l1' l2'
  | _, _ => None
  end.

Definition bij_old_fixed (n : nat) (m : bij) : bool :=
  forallb (fun ij => let '(i, j) := ij in
                     if Nat.ltb i n then Nat.eqb i j else negb (Nat.ltb j n)) m.

Definition check_case (c : case) : bool :=
  let e := c_env c in let h := c_heap c in
  match pbuild e h (c_root c) with
  | (s, inl p) =>
      let '(o, results) := run_calls e (out s) p (c_calls c) in
      match iso_all o (c_obs_heap c) [] results (c_obs_results c) with
      | Some m => bij_old_fixed (length h) m
      | None => false
      end
  | _ => false
  end.

Definition explain_case (c : case) :=
  let e := c_env c in let h := c_heap c in
  match pbuild e h (c_root c) with
  | (s, inl p) => let '(o, results) := run_calls e (out s) p (c_calls c) in
                  (Some p, results, skipn (length h) o)
  | (s, inr f) => (None, [], [])
  end.
