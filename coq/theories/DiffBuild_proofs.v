(* DiffBuild_proofs: C10, the whole round trip.  Applying build_diff(old, new) -- as modelled by
   DiffBuild.patch: build_diff_from_alignment, resolve_diff_references, apply_diff, on one heap that
   holds both structures -- to old yields a configuration isomorphic to new (callables, arguments,
   tags, sharing), up to the normalisation C10Check.canon_node_tags; objects of old keep their
   identity, everything else in the heap is untouched.

   Contents
     1. insertion sorts by key (the three canonical orders), canonical forms
     2. insertion-ordered dictionaries: the net effect of Delete / Modify / Set folds
     3. per aligned pair: the recorded operations, applied in the five phases, turn the old node
        into the new node with its references mapped by tau (node_patch_ok)
     4. the traversal of `new` with db_node (memo = tau; aligned -> old id, otherwise one fresh copy)
     5. apply_changes, parent by parent
     6. the round trip (patch_yields_new, patch_frame, patch_independent)
     7. unchanged_gives_no_changes, necessity witnesses, examples *)
From Fiddle Require Import PyBase PySlice Sig ArgStore PyCall Heap Traverse Build Build_stmt Tags History Diff
  Lang Codegen C02Check DiffBuild C10Check Traverse_proofs Iterate_proofs Tags_proofs Iso_proofs Copy_proofs.
From Coq Require Import List Arith Lia Bool Permutation Sorted.
Import ListNotations.
Local Open Scope nat_scope.

(* PART 1: insertion sorts by key; canonical forms *)
(* ------------------------------------------------------------------------------------------ *)
(* generic insertion sort of keyed lists *)

Section GSort.
  Context {K V : Type} (leb : K -> K -> bool).
  Hypothesis leb_total : forall a b, leb a b = true \/ leb b a = true.
  Hypothesis leb_trans : forall a b c, leb a b = true -> leb b c = true -> leb a c = true.
  Hypothesis leb_antisym : forall a b, leb a b = true -> leb b a = true -> a = b.

  Fixpoint gins (x : K * V) (l : list (K * V)) : list (K * V) :=
    match l with
    | [] => [x]
    | y :: l' => if leb (fst x) (fst y) then x :: l else y :: gins x l'
    end.
  Definition gsort (l : list (K * V)) : list (K * V) := fold_right gins [] l.

  Definition kle (x y : K * V) : Prop := leb (fst x) (fst y) = true.

  Lemma gins_perm x l : Permutation (x :: l) (gins x l).
  Proof.
    induction l as [|y l IH]; cbn [gins]; [reflexivity |].
    destruct (leb (fst x) (fst y)); [reflexivity |].
    rewrite perm_swap. constructor. exact IH.
  Qed.

  Lemma gsort_perm l : Permutation l (gsort l).
  Proof.
    induction l as [|x l IH]; cbn [gsort fold_right]; [reflexivity |].
    fold (gsort l). rewrite <- gins_perm. constructor. exact IH.
  Qed.

  Lemma gins_sorted x l : StronglySorted kle l -> StronglySorted kle (gins x l).
  Proof.
    induction l as [|y l IH]; intros Hs; cbn [gins].
    - constructor; constructor.
    - inversion Hs as [|? ? Hs' Hall]; subst.
      destruct (leb (fst x) (fst y)) eqn:Hxy.
      + constructor; [exact Hs |]. constructor; [exact Hxy |].
        rewrite Forall_forall in Hall |- *. intros z Hz. unfold kle in *.
        eapply leb_trans; [exact Hxy | apply Hall; exact Hz].
      + constructor; [apply IH; exact Hs' |].
        rewrite Forall_forall in Hall |- *. intros z Hz.
        apply (Permutation_in _ (Permutation_sym (gins_perm x l))) in Hz.
        destruct Hz as [Hz|Hz]; [| apply Hall; exact Hz]. subst z. unfold kle.
        destruct (leb_total (fst y) (fst x)) as [H|H]; [exact H | congruence].
  Qed.

  Lemma gsort_sorted l : StronglySorted kle (gsort l).
  Proof.
    induction l as [|x l IH]; cbn [gsort fold_right]; [constructor |].
    apply gins_sorted. exact IH.
  Qed.

  Lemma nodup_keys_inj (l : list (K * V)) x y :
    NoDup (map fst l) -> In x l -> In y l -> fst x = fst y -> x = y.
  Proof.
    induction l as [|z l IH]; cbn [map In]; intros Hnd Hx Hy Hk; [destruct Hx |].
    inversion Hnd as [|? ? Hnotin Hnd']; subst.
    destruct Hx as [Hx|Hx]; destruct Hy as [Hy|Hy].
    - congruence.
    - subst z. exfalso. apply Hnotin. rewrite Hk. apply in_map. exact Hy.
    - subst z. exfalso. apply Hnotin. rewrite <- Hk. apply in_map. exact Hx.
    - apply IH; assumption.
  Qed.

  Lemma sorted_perm_eq l1 : forall l2,
    StronglySorted kle l1 -> StronglySorted kle l2 -> NoDup (map fst l1) ->
    Permutation l1 l2 -> l1 = l2.
  Proof.
    induction l1 as [|x l1 IH]; intros l2 Hs1 Hs2 Hnd Hp.
    - apply Permutation_nil in Hp. subst. reflexivity.
    - destruct l2 as [|y l2]; [apply Permutation_sym, Permutation_nil in Hp; discriminate |].
      inversion Hs1 as [|? ? Hs1' Hall1]; subst. inversion Hs2 as [|? ? Hs2' Hall2]; subst.
      rewrite Forall_forall in Hall1, Hall2.
      assert (Hxy : x = y).
      { assert (Hx : In x (y :: l2)) by (eapply Permutation_in; [exact Hp | left; reflexivity]).
        assert (Hy : In y (x :: l1))
          by (eapply Permutation_in; [apply Permutation_sym; exact Hp | left; reflexivity]).
        destruct Hx as [Hx|Hx]; [congruence |]. destruct Hy as [Hy|Hy]; [congruence |].
        apply (nodup_keys_inj (x :: l1)); [exact Hnd | left; reflexivity | right; exact Hy |].
        apply leb_antisym; [apply Hall1; exact Hy | apply Hall2; exact Hx]. }
      subst y. f_equal. apply IH; auto.
      + cbn [map] in Hnd. inversion Hnd; assumption.
      + eapply Permutation_cons_inv; exact Hp.
  Qed.

  Lemma gsort_perm_eq l1 l2 :
    NoDup (map fst l1) -> Permutation l1 l2 -> gsort l1 = gsort l2.
  Proof.
    intros Hnd Hp. apply sorted_perm_eq; try apply gsort_sorted.
    - eapply Permutation_NoDup; [| exact Hnd]. apply Permutation_map. apply gsort_perm.
    - rewrite <- (gsort_perm l1), <- (gsort_perm l2). exact Hp.
  Qed.

  Lemma gsort_in x l : In x (gsort l) <-> In x l.
  Proof.
    split; intros H; [eapply Permutation_in; [apply Permutation_sym, gsort_perm | exact H]
                     | eapply Permutation_in; [apply gsort_perm | exact H]].
  Qed.
End GSort.

Definition map_snd {K A B} (f : A -> B) (l : list (K * A)) : list (K * B) :=
  map (fun kv => (fst kv, f (snd kv))) l.

Lemma map_snd_keys {K A B} (f : A -> B) (l : list (K * A)) : map fst (map_snd f l) = map fst l.
Proof. unfold map_snd. rewrite map_map. reflexivity. Qed.

Lemma map_snd_vals {K A B} (f : A -> B) (l : list (K * A)) : map snd (map_snd f l) = map f (map snd l).
Proof. unfold map_snd. rewrite !map_map. reflexivity. Qed.

Lemma gins_map_snd {K A B} (leb : K -> K -> bool) (f : A -> B) x (l : list (K * A)) :
  gins leb (fst x, f (snd x)) (map_snd f l) = map_snd f (gins leb x l).
Proof.
  induction l as [|y l IH]; cbn [gins map_snd map fst snd]; [reflexivity |].
  destruct (leb (fst x) (fst y)); cbn [map fst snd]; [reflexivity |].
  f_equal. exact IH.
Qed.

Lemma gsort_map_snd {K A B} (leb : K -> K -> bool) (f : A -> B) (l : list (K * A)) :
  gsort leb (map_snd f l) = map_snd f (gsort leb l).
Proof.
  induction l as [|x l IH]; [reflexivity |].
  cbn [map_snd map gsort fold_right]. fold (map_snd f l). fold (gsort leb (map_snd f l)).
  fold (gsort leb l). rewrite IH. apply gins_map_snd.
Qed.

(* permutations from equal contents *)
Lemma nodup_of_keys {K V} (l : list (K * V)) : NoDup (map fst l) -> NoDup l.
Proof. apply NoDup_map_inv. Qed.

Lemma same_elems_perm {K V} (a b : list (K * V)) :
  NoDup (map fst a) -> NoDup (map fst b) -> (forall x, In x a <-> In x b) -> Permutation a b.
Proof.
  intros Ha Hb Hab. apply NoDup_Permutation; auto using nodup_of_keys.
Qed.

(* ------------------------------------------------------------------------------------------ *)
(* the three orders *)

Lemma skey_leb_total a b : skey_leb a b = true \/ skey_leb b a = true.
Proof.
  destruct a as [x|x], b as [y|y]; cbn [skey_leb]; auto.
  - destruct (Z.leb_spec x y); [left; reflexivity | right; apply Z.leb_le; lia].
  - destruct (N.leb_spec x y); [left; reflexivity | right; apply N.leb_le; lia].
Qed.

Lemma skey_leb_trans a b c : skey_leb a b = true -> skey_leb b c = true -> skey_leb a c = true.
Proof.
  destruct a as [x|x], b as [y|y], c as [z|z]; cbn [skey_leb]; auto; try discriminate.
  - rewrite !Z.leb_le. lia.
  - rewrite !N.leb_le. lia.
Qed.

Lemma skey_leb_antisym a b : skey_leb a b = true -> skey_leb b a = true -> a = b.
Proof.
  destruct a as [x|x], b as [y|y]; cbn [skey_leb]; try discriminate.
  - rewrite !Z.leb_le. intros. f_equal. lia.
  - rewrite !N.leb_le. intros. f_equal. lia.
Qed.

Lemma listN_leb_total a : forall b, listN_leb a b = true \/ listN_leb b a = true.
Proof.
  induction a as [|x a IH]; intros [|y b]; cbn [listN_leb]; auto.
  destruct (N.ltb_spec x y) as [Hxy|Hxy]; [left; reflexivity |].
  destruct (N.ltb_spec y x) as [Hyx|Hyx]; [right; reflexivity |].
  assert (x = y) by lia. subst y. rewrite N.eqb_refl. apply IH.
Qed.

Lemma listN_leb_trans a : forall b c,
  listN_leb a b = true -> listN_leb b c = true -> listN_leb a c = true.
Proof.
  induction a as [|x a IH]; intros [|y b] [|z c]; cbn [listN_leb]; auto; try discriminate.
  destruct (N.ltb_spec x y) as [Hxy|Hxy].
  - intros _. destruct (N.ltb_spec y z) as [Hyz|Hyz].
    + intros _. destruct (N.ltb_spec x z); [reflexivity | lia].
    + destruct (N.eqb_spec y z) as [Heq|Hne]; [| discriminate]. subst z.
      intros _. destruct (N.ltb_spec x y); [reflexivity | lia].
  - destruct (N.eqb_spec x y) as [Heq|Hne]; [| discriminate]. subst y.
    intros Hab. destruct (N.ltb_spec x z) as [Hxz|Hxz]; [reflexivity |].
    destruct (N.eqb_spec x z) as [Heq|Hne]; [| discriminate]. eapply IH; eauto.
Qed.

Lemma listN_leb_antisym a : forall b, listN_leb a b = true -> listN_leb b a = true -> a = b.
Proof.
  induction a as [|x a IH]; intros [|y b]; cbn [listN_leb]; auto; try discriminate.
  destruct (N.ltb_spec x y) as [Hxy|Hxy].
  - intros _. destruct (N.ltb_spec y x); [lia |].
    destruct (N.eqb_spec y x); [lia | discriminate].
  - destruct (N.eqb_spec x y) as [Heq|Hne]; [| discriminate]. subst y.
    intros Hab. destruct (N.ltb_spec x x); [lia |]. rewrite N.eqb_refl.
    intros Hba. f_equal. apply IH; assumption.
Qed.

Definition triple_leb (t1 t2 : N * Z * list N) : bool :=
  let '(ra, za, la) := t1 in
  let '(rb, zb, lb) := t2 in
  if N.ltb ra rb then true else if negb (N.eqb ra rb) then false
  else if Z.ltb za zb then true else if negb (Z.eqb za zb) then false else listN_leb la lb.

Lemma atom_leb_triple a b : atom_leb a b = triple_leb (atom_rank a) (atom_rank b).
Proof.
  unfold atom_leb, triple_leb.
  destruct (atom_rank a) as [[ra za] la], (atom_rank b) as [[rb zb] lb]. reflexivity.
Qed.

Lemma triple_leb_total t1 t2 : triple_leb t1 t2 = true \/ triple_leb t2 t1 = true.
Proof.
  destruct t1 as [[ra za] la], t2 as [[rb zb] lb]. cbn [triple_leb].
  destruct (N.ltb_spec ra rb); [left; reflexivity |].
  destruct (N.ltb_spec rb ra); [right; reflexivity |].
  assert (ra = rb) by lia. subst rb. rewrite N.eqb_refl. cbn [negb].
  destruct (Z.ltb_spec za zb); [left; reflexivity |].
  destruct (Z.ltb_spec zb za); [right; reflexivity |].
  assert (za = zb) by lia. subst zb. rewrite Z.eqb_refl. cbn [negb].
  apply listN_leb_total.
Qed.

Lemma triple_leb_trans t1 t2 t3 :
  triple_leb t1 t2 = true -> triple_leb t2 t3 = true -> triple_leb t1 t3 = true.
Proof.
  destruct t1 as [[ra za] la], t2 as [[rb zb] lb], t3 as [[rc zc] lc]. cbn [triple_leb].
  destruct (N.ltb_spec ra rb) as [Hab|Hab].
  - intros _. destruct (N.ltb_spec rb rc) as [Hbc|Hbc].
    + intros _. destruct (N.ltb_spec ra rc); [reflexivity | lia].
    + destruct (N.eqb_spec rb rc); [| discriminate]. subst rc. intros _.
      destruct (N.ltb_spec ra rb); [reflexivity | lia].
  - destruct (N.eqb_spec ra rb); [| discriminate]. subst rb. cbn [negb].
    destruct (N.ltb_spec ra rc) as [Hac|Hac]; [reflexivity |].
    destruct (N.eqb_spec ra rc); [| discriminate]. subst rc. cbn [negb].
    destruct (Z.ltb_spec za zb) as [Hzab|Hzab].
    + intros _. destruct (Z.ltb_spec zb zc) as [Hzbc|Hzbc].
      * intros _. destruct (Z.ltb_spec za zc); [reflexivity | lia].
      * destruct (Z.eqb_spec zb zc); [| discriminate]. subst zc. intros _.
        destruct (Z.ltb_spec za zb); [reflexivity | lia].
    + destruct (Z.eqb_spec za zb); [| discriminate]. subst zb. cbn [negb].
      destruct (Z.ltb_spec za zc); [reflexivity |].
      destruct (Z.eqb_spec za zc); [| discriminate]. cbn [negb]. apply listN_leb_trans.
Qed.

Lemma triple_leb_antisym t1 t2 : triple_leb t1 t2 = true -> triple_leb t2 t1 = true -> t1 = t2.
Proof.
  destruct t1 as [[ra za] la], t2 as [[rb zb] lb]. cbn [triple_leb].
  destruct (N.ltb_spec ra rb) as [Hab|Hab].
  - intros _. destruct (N.ltb_spec rb ra); [lia |].
    destruct (N.eqb_spec rb ra); [lia | discriminate].
  - destruct (N.eqb_spec ra rb); [| discriminate]. subst rb. cbn [negb].
    destruct (N.ltb_spec ra ra); [lia |]. rewrite N.eqb_refl. cbn [negb].
    destruct (Z.ltb_spec za zb) as [Hzab|Hzab].
    + intros _. destruct (Z.ltb_spec zb za); [lia |].
      destruct (Z.eqb_spec zb za); [lia | discriminate].
    + destruct (Z.eqb_spec za zb); [| discriminate]. subst zb. cbn [negb].
      destruct (Z.ltb_spec za za); [lia |]. rewrite Z.eqb_refl. cbn [negb].
      intros H1 H2. f_equal. apply listN_leb_antisym; assumption.
Qed.

Lemma atom_rank_inj a b : atom_rank a = atom_rank b -> a = b.
Proof.
  destruct a, b; cbn [atom_rank]; intros H; inversion H; try reflexivity; try congruence.
  destruct b0, b; try reflexivity; discriminate.
Qed.

Lemma atom_leb_total a b : atom_leb a b = true \/ atom_leb b a = true.
Proof. rewrite !atom_leb_triple. apply triple_leb_total. Qed.
Lemma atom_leb_trans a b c : atom_leb a b = true -> atom_leb b c = true -> atom_leb a c = true.
Proof. rewrite !atom_leb_triple. apply triple_leb_trans. Qed.
Lemma atom_leb_antisym a b : atom_leb a b = true -> atom_leb b a = true -> a = b.
Proof. rewrite !atom_leb_triple. intros H1 H2. apply atom_rank_inj. apply triple_leb_antisym; assumption. Qed.

(* the model's sorts are instances of the generic one *)
Lemma sort_store_gsort l : sort_store l = gsort skey_leb l.
Proof. reflexivity. Qed.
Lemma sort_kvs_gsort l : sort_kvs l = gsort atom_leb l.
Proof. reflexivity. Qed.
Lemma canon_tags_gsort t :
  canon_tags t = gsort skey_leb (filter (fun kt : skey * list N => match snd kt with [] => false | _ => true end) t).
Proof. reflexivity. Qed.

Lemma sort_store_perm_eq l1 l2 : NoDup (map fst l1) -> Permutation l1 l2 -> sort_store l1 = sort_store l2.
Proof.
  rewrite !sort_store_gsort.
  apply gsort_perm_eq; [exact skey_leb_total | exact skey_leb_trans | exact skey_leb_antisym].
Qed.
Lemma sort_kvs_perm_eq l1 l2 : NoDup (map fst l1) -> Permutation l1 l2 -> sort_kvs l1 = sort_kvs l2.
Proof.
  rewrite !sort_kvs_gsort.
  apply gsort_perm_eq; [exact atom_leb_total | exact atom_leb_trans | exact atom_leb_antisym].
Qed.
Lemma sort_store_map_snd f l : sort_store (map_snd f l) = map_snd f (sort_store l).
Proof. rewrite !sort_store_gsort. apply gsort_map_snd. Qed.
Lemma sort_kvs_map_snd f l : sort_kvs (map_snd f l) = map_snd f (sort_kvs l).
Proof. rewrite !sort_kvs_gsort. apply gsort_map_snd. Qed.
Lemma sort_store_In x l : In x (sort_store l) <-> In x l.
Proof. rewrite sort_store_gsort. apply gsort_in. Qed.
Lemma sort_kvs_In x l : In x (sort_kvs l) <-> In x l.
Proof. rewrite sort_kvs_gsort. apply gsort_in. Qed.

(* PART 2: insertion-ordered dictionaries: delete / modify / set folds *)
Section GDict.
  Context {K V : Type} (keqb : K -> K -> bool).
  Hypothesis keqb_spec : forall a b, keqb a b = true <-> a = b.

  Lemma keqb_refl a : keqb a a = true.
  Proof. apply keqb_spec. reflexivity. Qed.
  Lemma keqb_neq a b : a <> b -> keqb a b = false.
  Proof. intros H. destruct (keqb a b) eqn:E; [apply keqb_spec in E; contradiction | reflexivity]. Qed.

  Notation dg := (@dget K V keqb).
  Notation ds := (@dset K V keqb).
  Notation dd := (@ddel K V keqb).

  Lemma gd_get_set d k v k' : dg (ds d k v) k' = if keqb k' k then Some v else dg d k'.
  Proof.
    induction d as [|[k0 v0] d IH]; cbn [dset dget]; [reflexivity |].
    destruct (keqb k k0) eqn:E.
    - apply keqb_spec in E. subst k0. cbn [dget]. destruct (keqb k' k); reflexivity.
    - cbn [dget]. rewrite IH.
      destruct (keqb k' k0) eqn:E0; destruct (keqb k' k) eqn:E1; try reflexivity.
      apply keqb_spec in E0. apply keqb_spec in E1. subst. rewrite keqb_refl in E. discriminate.
  Qed.

  Lemma gd_get_none d k : dg d k = None <-> ~ In k (map fst d).
  Proof.
    induction d as [|[k0 v0] d IH]; cbn [dget map fst In]; [tauto |].
    destruct (keqb k k0) eqn:E.
    - apply keqb_spec in E. subst. split; [discriminate | intros H; exfalso; apply H; left; reflexivity].
    - rewrite IH. split; [intros H [H1|H1]; [subst; rewrite keqb_refl in E; discriminate | auto]
                          | intros H H1; apply H; right; exact H1].
  Qed.

  Lemma gd_get_in d k v : dg d k = Some v -> In (k, v) d.
  Proof.
    induction d as [|[k0 v0] d IH]; cbn [dget In]; [discriminate |].
    destruct (keqb k k0) eqn:E.
    - apply keqb_spec in E. subst. intros H; inversion H; left; reflexivity.
    - intros H. right. auto.
  Qed.

  Lemma gd_in_get d k v : NoDup (map fst d) -> In (k, v) d -> dg d k = Some v.
  Proof.
    induction d as [|[k0 v0] d IH]; cbn [dget In map fst]; intros Hnd Hin; [destruct Hin |].
    inversion Hnd as [|? ? Hnotin Hnd']; subst.
    destruct Hin as [Heq|Hin].
    - inversion Heq; subst. rewrite keqb_refl. reflexivity.
    - destruct (keqb k k0) eqn:E; [| auto].
      apply keqb_spec in E. subst. exfalso. apply Hnotin.
      change k0 with (fst (k0, v)). apply in_map. exact Hin.
  Qed.

  Lemma gd_set_keys d k v x : In x (map fst (ds d k v)) <-> x = k \/ In x (map fst d).
  Proof.
    induction d as [|[k0 v0] d IH]; cbn [dset map fst In].
    - split; [intros [H|[]]; left; auto | intros [H|[]]; left; auto].
    - destruct (keqb k k0) eqn:E; cbn [map fst In].
      + apply keqb_spec in E. subst k0. split; [intros [H|H]; auto | intros [H|[H|H]]; auto].
      + rewrite IH. split; [intros [H|[H|H]]; auto | intros [H|[H|H]]; auto].
  Qed.

  Lemma gd_set_nodup d k v : NoDup (map fst d) -> NoDup (map fst (ds d k v)).
  Proof.
    induction d as [|[k0 v0] d IH]; cbn [dset map fst]; intros Hnd.
    - constructor; [intros [] | constructor].
    - destruct (keqb k k0) eqn:E; cbn [map fst]; [exact Hnd |].
      inversion Hnd as [|? ? Hnotin Hnd']; subst. constructor; [| auto].
      intros Hin. apply gd_set_keys in Hin. destruct Hin as [Heq|Hin]; [| auto].
      subst. rewrite keqb_refl in E. discriminate.
  Qed.

  Lemma gd_del_keys d k x : In x (map fst (dd d k)) -> In x (map fst d).
  Proof.
    induction d as [|[k0 v0] d IH]; cbn [ddel map fst In]; [auto |].
    destruct (keqb k k0); cbn [map fst In]; [auto |]. intros [H|H]; auto.
  Qed.

  Lemma gd_del_nodup d k : NoDup (map fst d) -> NoDup (map fst (dd d k)).
  Proof.
    induction d as [|[k0 v0] d IH]; cbn [ddel map fst]; intros Hnd; [constructor |].
    inversion Hnd as [|? ? Hnotin Hnd']; subst.
    destruct (keqb k k0); cbn [map fst]; [exact Hnd' |].
    constructor; [| auto]. intros Hin. apply Hnotin. eapply gd_del_keys; eauto.
  Qed.

  Lemma gd_get_del d k k' : NoDup (map fst d) ->
    dg (dd d k) k' = if keqb k' k then None else dg d k'.
  Proof.
    induction d as [|[k0 v0] d IH]; cbn [ddel dget map fst]; intros Hnd.
    - destruct (keqb k' k); reflexivity.
    - inversion Hnd as [|? ? Hnotin Hnd']; subst.
      destruct (keqb k k0) eqn:E.
      + apply keqb_spec in E. subst k0. destruct (keqb k' k) eqn:E1; [| reflexivity].
        apply keqb_spec in E1. subst k'. apply gd_get_none. exact Hnotin.
      + cbn [dget]. rewrite (IH Hnd'). destruct (keqb k' k0) eqn:E0; [| reflexivity].
        destruct (keqb k' k) eqn:E1; [| reflexivity].
        apply keqb_spec in E0. apply keqb_spec in E1. subst. rewrite keqb_refl in E. discriminate.
  Qed.

  Definition dset_all (d : list (K * V)) (kvs : list (K * V)) : list (K * V) :=
    fold_left (fun d kv => ds d (fst kv) (snd kv)) kvs d.
  Definition ddel_all (d : list (K * V)) (ks : list K) : list (K * V) :=
    fold_left (fun d k => dd d k) ks d.

  Lemma dset_all_nodup kvs : forall d, NoDup (map fst d) -> NoDup (map fst (dset_all d kvs)).
  Proof.
    induction kvs as [|kv kvs IH]; intros d Hnd; cbn [dset_all fold_left]; [exact Hnd |].
    apply IH. apply gd_set_nodup. exact Hnd.
  Qed.
  Lemma ddel_all_nodup ks : forall d, NoDup (map fst d) -> NoDup (map fst (ddel_all d ks)).
  Proof.
    induction ks as [|k ks IH]; intros d Hnd; cbn [ddel_all fold_left]; [exact Hnd |].
    apply IH. apply gd_del_nodup. exact Hnd.
  Qed.

  Lemma dset_all_get kvs : forall d k, NoDup (map fst kvs) ->
    dg (dset_all d kvs) k = match dg kvs k with Some v => Some v | None => dg d k end.
  Proof.
    unfold dset_all.
    induction kvs as [|[k0 v0] kvs IH]; intros d k Hnd; cbn [fold_left dget]; [reflexivity |].
    inversion Hnd as [|? ? Hnotin Hnd']; subst.
    rewrite (IH _ _ Hnd'). cbn [fst snd]. rewrite gd_get_set.
    destruct (keqb k k0) eqn:E; [| reflexivity].
    apply keqb_spec in E. subst k0. apply gd_get_none in Hnotin. rewrite Hnotin. reflexivity.
  Qed.

  Lemma ddel_all_get ks : forall d k, NoDup (map fst d) ->
    dg (ddel_all d ks) k = if existsb (keqb k) ks then None else dg d k.
  Proof.
    unfold ddel_all.
    induction ks as [|k0 ks IH]; intros d k Hnd; cbn [fold_left existsb]; [reflexivity |].
    rewrite (IH _ _ (gd_del_nodup d k0 Hnd)).
    rewrite (gd_get_del d k0 k Hnd).
    destruct (keqb k k0); cbn [orb]; [destruct (existsb (keqb k) ks); reflexivity | reflexivity].
  Qed.

  (* flat_maps that emit at most one entry, keyed like the source entry *)
  Lemma flat_one_get {A} (F : K * A -> list (K * V)) (G : K -> A -> option V) (l : list (K * A)) :
    (forall kv, F kv = match G (fst kv) (snd kv) with Some v => [(fst kv, v)] | None => [] end) ->
    NoDup (map fst l) ->
    forall k, dg (flat_map F l) k =
              match @dget K A keqb l k with Some a => G k a | None => None end.
  Proof.
    intros HF. induction l as [|[k0 a0] l IH]; intros Hnd k; cbn [flat_map dget]; [reflexivity |].
    inversion Hnd as [|? ? Hnotin Hnd']; subst. rewrite HF. cbn [fst snd].
    destruct (keqb k k0) eqn:E.
    - apply keqb_spec in E. subst k0. destruct (G k a0) as [v|]; cbn [app dget].
      + rewrite keqb_refl. reflexivity.
      + rewrite (IH Hnd').
        assert (Hn : @dget K A keqb l k = None).
        { clear - Hnotin keqb_spec. induction l as [|[k1 a1] l IH]; cbn [dget]; [reflexivity |].
          cbn [map fst In] in Hnotin. destruct (keqb k k1) eqn:E.
          - apply keqb_spec in E. subst. exfalso. apply Hnotin. left; reflexivity.
          - apply IH. intros H. apply Hnotin. right; exact H. }
        rewrite Hn. reflexivity.
    - destruct (G k0 a0) as [v|]; cbn [app dget]; [rewrite E |]; apply IH; exact Hnd'.
  Qed.

  Lemma flat_one_keys {A} (F : K * A -> list (K * V)) (G : K -> A -> option V) (l : list (K * A)) :
    (forall kv, F kv = match G (fst kv) (snd kv) with Some v => [(fst kv, v)] | None => [] end) ->
    (forall k, In k (map fst (flat_map F l)) -> In k (map fst l)) /\
    (NoDup (map fst l) -> NoDup (map fst (flat_map F l))).
  Proof.
    intros HF. induction l as [|[k0 a0] l [IH1 IH2]]; cbn [flat_map map fst].
    - split; [auto | intros _; constructor].
    - rewrite HF. cbn [fst snd]. split.
      + intros k Hin. rewrite map_app in Hin. apply in_app_or in Hin. destruct Hin as [Hin|Hin].
        * destruct (G k0 a0); cbn [map fst In] in Hin; [destruct Hin as [H|[]]; left; exact H | destruct Hin].
        * right. apply IH1. exact Hin.
      + intros Hnd. inversion Hnd as [|? ? Hnotin Hnd']; subst.
        destruct (G k0 a0); cbn [app map fst]; [| auto].
        constructor; [| auto]. intros Hin. apply Hnotin. apply IH1. exact Hin.
  Qed.
End GDict.

(* ------------------------------------------------------------------------------------------ *)
(* the net effect of the recorded operations on one dictionary *)
Section GFinal.
  Context {K : Type} (keqb : K -> K -> bool).
  Hypothesis keqb_spec : forall a b, keqb a b = true <-> a = b.
  Variable aoe : ref -> ref -> bool.
  Variable tau : ref -> ref.
  Notation dg := (@dget K ref keqb).

  Definition g_dels (so sn : list (K * ref)) : list K :=
    flat_map (fun kv => match dg sn (fst kv) with None => [fst kv] | Some _ => [] end) so.
  Definition g_mods (so sn : list (K * ref)) : list (K * ref) :=
    flat_map (fun kv => match dg sn (fst kv) with
                        | Some vn => if aoe (snd kv) vn then [] else [(fst kv, tau vn)]
                        | None => []
                        end) so.
  Definition g_sets (so sn : list (K * ref)) : list (K * ref) :=
    flat_map (fun kv => match dg so (fst kv) with
                        | Some _ => []
                        | None => [(fst kv, tau (snd kv))]
                        end) sn.
  Definition g_final (so sn : list (K * ref)) : list (K * ref) :=
    dset_all keqb (dset_all keqb (ddel_all keqb so (g_dels so sn)) (g_mods so sn)) (g_sets so sn).

  Lemma g_dels_in so sn k :
    existsb (keqb k) (g_dels so sn) = true <-> (In k (map fst so) /\ dg sn k = None).
  Proof.
    unfold g_dels. rewrite existsb_exists. split.
    - intros (x & Hin & Hx). apply keqb_spec in Hx. subst x.
      apply in_flat_map in Hin. destruct Hin as ([k0 v0] & Hin & Hk). cbn [fst] in Hk.
      destruct (dg sn k0) eqn:E; [destruct Hk |]. destruct Hk as [Hk|[]]. subst k0.
      split; [change k with (fst (k, v0)); apply in_map; exact Hin | exact E].
    - intros [Hin Hn]. exists k. split; [| apply keqb_spec; reflexivity].
      apply in_map_iff in Hin. destruct Hin as ([k0 v0] & Hk & Hin). cbn [fst] in Hk. subst k0.
      apply in_flat_map. exists (k, v0). split; [exact Hin |]. cbn [fst]. rewrite Hn. left; reflexivity.
  Qed.

  Lemma g_final_nodup so sn : NoDup (map fst so) -> NoDup (map fst (g_final so sn)).
  Proof.
    intros Hnd. unfold g_final. apply dset_all_nodup; [exact keqb_spec |].
    apply dset_all_nodup; [exact keqb_spec |]. apply ddel_all_nodup; exact Hnd.
  Qed.

  Lemma g_final_get so sn :
    NoDup (map fst so) -> NoDup (map fst sn) ->
    (forall k vo vn, dg so k = Some vo -> dg sn k = Some vn -> aoe vo vn = true -> vo = tau vn) ->
    forall k, dg (g_final so sn) k = option_map tau (dg sn k).
  Proof.
    intros Hso Hsn Haoe k. unfold g_final.
    set (Gm := fun (k : K) (vo : ref) =>
                 match dg sn k with
                 | Some vn => if aoe vo vn then None else Some (tau vn)
                 | None => None
                 end).
    set (Gs := fun (k : K) (vn : ref) => match dg so k with Some _ => None | None => Some (tau vn) end).
    assert (HFm : forall kv : K * ref,
               (match dg sn (fst kv) with
                | Some vn => if aoe (snd kv) vn then [] else [(fst kv, tau vn)]
                | None => []
                end) = match Gm (fst kv) (snd kv) with Some v => [(fst kv, v)] | None => [] end).
    { intros kv. unfold Gm. destruct (dg sn (fst kv)); [destruct (aoe (snd kv) r) |]; reflexivity. }
    assert (HFs : forall kv : K * ref,
               (match dg so (fst kv) with
                | Some _ => []
                | None => [(fst kv, tau (snd kv))]
                end) = match Gs (fst kv) (snd kv) with Some v => [(fst kv, v)] | None => [] end).
    { intros kv. unfold Gs. destruct (dg so (fst kv)); reflexivity. }
    rewrite dset_all_get; [| exact keqb_spec |
      apply (proj2 (flat_one_keys _ _ sn HFs)); exact Hsn].
    rewrite dset_all_get; [| exact keqb_spec |
      apply (proj2 (flat_one_keys _ _ so HFm)); exact Hso].
    rewrite ddel_all_get; [| exact keqb_spec | exact Hso].
    unfold g_sets, g_mods.
    rewrite (flat_one_get keqb keqb_spec _ Gs sn HFs Hsn k).
    rewrite (flat_one_get keqb keqb_spec _ Gm so HFm Hso k).
    unfold Gs, Gm.
    destruct (dg sn k) as [vn|] eqn:En; cbn [option_map].
    - destruct (dg so k) as [vo|] eqn:Eo; [| reflexivity].
      destruct (aoe vo vn) eqn:Ea; [| reflexivity].
      destruct (existsb (keqb k) (g_dels so sn)) eqn:Ed.
      + apply g_dels_in in Ed. destruct Ed as [_ Ed]. congruence.
      + f_equal. eapply Haoe; eauto.
    - destruct (dg so k) as [vo|] eqn:Eo.
      + assert (Hd : existsb (keqb k) (g_dels so sn) = true).
        { apply g_dels_in. split; [| exact En].
          apply (gd_get_in keqb keqb_spec) in Eo. change k with (fst (k, vo)). apply in_map. exact Eo. }
        rewrite Hd. reflexivity.
      + destruct (existsb (keqb k) (g_dels so sn)); reflexivity.
  Qed.

  Lemma map_snd_get (f : ref -> ref) (d : list (K * ref)) k : dg (map_snd f d) k = option_map f (dg d k).
  Proof.
    induction d as [|[k0 v0] d IH]; cbn [map_snd map dget fst snd]; [reflexivity |].
    destruct (keqb k k0); [reflexivity | exact IH].
  Qed.

  Lemma same_get_perm (a b : list (K * ref)) :
    NoDup (map fst a) -> NoDup (map fst b) -> (forall k, dg a k = dg b k) -> Permutation a b.
  Proof.
    intros Ha Hb Hab. apply same_elems_perm; auto. intros [k v]. split; intros Hin.
    - apply (gd_in_get keqb keqb_spec _ _ _ Ha) in Hin. rewrite Hab in Hin.
      apply (gd_get_in keqb keqb_spec) in Hin. exact Hin.
    - apply (gd_in_get keqb keqb_spec _ _ _ Hb) in Hin. rewrite <- Hab in Hin.
      apply (gd_get_in keqb keqb_spec) in Hin. exact Hin.
  Qed.

  Theorem g_final_perm so sn :
    NoDup (map fst so) -> NoDup (map fst sn) ->
    (forall k vo vn, dg so k = Some vo -> dg sn k = Some vn -> aoe vo vn = true -> vo = tau vn) ->
    Permutation (g_final so sn) (map_snd tau sn).
  Proof.
    intros Hso Hsn Haoe. apply same_get_perm.
    - apply g_final_nodup; exact Hso.
    - rewrite map_snd_keys. exact Hsn.
    - intros k. rewrite g_final_get, map_snd_get; auto.
  Qed.
End GFinal.

Lemma atom_eqb_spec a b : atom_eqb a b = true <-> a = b.
Proof. unfold atom_eqb. destruct (atom_eq_dec a b); split; congruence. Qed.

(* PART 3: the operations recorded for one aligned pair turn the old node into the new one *)
(* ------------------------------------------------------------------------------------------ *)
(* side conditions on nodes, as booleans *)

Fixpoint nodup_b {A} (eqb : A -> A -> bool) (l : list A) : bool :=
  match l with
  | [] => true
  | x :: l' => negb (existsb (eqb x) l') && nodup_b eqb l'
  end.

Lemma nodup_b_spec {A} (eqb : A -> A -> bool) (Hspec : forall a b, eqb a b = true <-> a = b) l :
  nodup_b eqb l = true -> NoDup l.
Proof.
  induction l as [|x l IH]; cbn [nodup_b]; intros H; [constructor |].
  apply andb_true_iff in H. destruct H as [Hx Hl]. constructor; [| auto].
  intros Hin. apply negb_true_iff in Hx.
  assert (Ht : existsb (eqb x) l = true).
  { apply existsb_exists. exists x. split; [exact Hin | apply Hspec; reflexivity]. }
  congruence.
Qed.

(* a node of a configuration: dictionary-like parts have distinct keys; no built objects *)
Definition node_ok_b (n : node) : bool :=
  match n with
  | NBuildable _ _ args _ => nodup_b skey_eqb (map fst args)
  | NDict kvs | NDefaultDict _ kvs => nodup_b atom_eqb (map fst kvs)
  | NNamedTuple _ fs => nodup_b N.eqb (map fst fs)
  | NObj _ _ | NPartialObj _ _ _ => false
  | _ => true
  end.

Fixpoint sorted_b (l : list N) : bool :=
  match l with
  | x :: ((y :: _) as l') => N.ltb x y && sorted_b l'
  | _ => true
  end.

(* argument tags of a Buildable the differ can handle: one entry per argument name, named
   arguments only, tag sets in the harness's (sorted) encoding *)
Definition tags_ok_b (n : node) : bool :=
  match n with
  | NBuildable _ _ _ tags =>
      nodup_b skey_eqb (map fst tags)
      && forallb (fun kt : skey * list N =>
                    match fst kt with KName _ => true | KPos _ => false end && sorted_b (snd kt)) tags
  | _ => true
  end.

Lemma sorted_b_spec l : sorted_b l = true -> StronglySorted N.lt l.
Proof.
  intros H. apply Sorted_StronglySorted; [intros a b c; apply N.lt_trans |].
  induction l as [|x l IH]; [constructor |].
  destruct l as [|y l]; [constructor; constructor |].
  cbn [sorted_b] in H. apply andb_true_iff in H. destruct H as [Hxy Hl].
  constructor; [apply IH; exact Hl |]. constructor. apply N.ltb_lt. exact Hxy.
Qed.

(* ------------------------------------------------------------------------------------------ *)
(* applying the operations of one parent, phase by phase *)

Definition of_type (ty : optype) (c : change) : bool :=
  if optype_eq_dec (type_of c) ty then true else false.

Definition phases {A} (op : change -> A -> A) (cs : list change) (a : A) : A :=
  fold_left (fun a ty => fold_left (fun a c => op c a) (filter (of_type ty) cs) a) phase_order a.

Definition apply_phases (cs : list change) (n : node) : node := phases apply_op cs n.

Definition noop {A} (op : change -> A -> A) (cs : list change) : Prop :=
  forall c, In c cs -> forall a, op c a = a.

Lemma fold_noop {A} (op : change -> A -> A) cs : noop op cs ->
  forall a, fold_left (fun a c => op c a) cs a = a.
Proof.
  induction cs as [|c cs IH]; intros Hn a; cbn [fold_left]; [reflexivity |].
  rewrite (Hn c (or_introl eq_refl)). apply IH. intros c' Hc'. apply Hn. right; exact Hc'.
Qed.

Lemma noop_filter {A} (op : change -> A -> A) P cs : noop op cs -> noop op (filter P cs).
Proof. intros Hn c Hc. apply filter_In in Hc. apply Hn. apply Hc. Qed.

Lemma phases_noop_l {A} (op : change -> A -> A) cs1 cs2 a :
  noop op cs1 -> phases op (cs1 ++ cs2) a = phases op cs2 a.
Proof.
  intros Hn. unfold phases, phase_order. cbn [fold_left].
  rewrite !filter_app, !fold_left_app.
  rewrite !(fold_noop op _ (noop_filter op _ cs1 Hn)). reflexivity.
Qed.

Lemma phases_noop_r {A} (op : change -> A -> A) cs1 cs2 a :
  noop op cs2 -> phases op (cs1 ++ cs2) a = phases op cs1 a.
Proof.
  intros Hn. unfold phases, phase_order. cbn [fold_left].
  rewrite !filter_app, !fold_left_app.
  rewrite !(fold_noop op _ (noop_filter op _ cs2 Hn)). reflexivity.
Qed.

Lemma phases_noop {A} (op : change -> A -> A) cs a : noop op cs -> phases op cs a = a.
Proof.
  intros Hn. unfold phases, phase_order. cbn [fold_left].
  rewrite !(fold_noop op _ (noop_filter op _ cs Hn)). reflexivity.
Qed.

Lemma filter_flat_map {A B} (P : B -> bool) (F : A -> list B) l :
  filter P (flat_map F l) = flat_map (fun x => filter P (F x)) l.
Proof.
  induction l as [|x l IH]; cbn [flat_map]; [reflexivity |].
  rewrite filter_app, IH. reflexivity.
Qed.

Lemma filter_none {A} (P : A -> bool) l : (forall x, In x l -> P x = false) -> filter P l = [].
Proof.
  induction l as [|x l IH]; intros H; cbn [filter]; [reflexivity |].
  rewrite (H x (or_introl eq_refl)). apply IH. intros y Hy. apply H. right; exact Hy.
Qed.

Lemma filter_all_true {A} (P : A -> bool) l : (forall x, In x l -> P x = true) -> filter P l = l.
Proof.
  induction l as [|x l IH]; intros H; cbn [filter]; [reflexivity |].
  rewrite (H x (or_introl eq_refl)). f_equal. apply IH. intros y Hy. apply H. right; exact Hy.
Qed.

Lemma fold_flat_map_ext {A C C' X} (op : A -> C -> A) (op' : A -> C' -> A)
      (G : X -> list C) (G' : X -> list C') (l : list X) :
  (forall x, In x l -> forall a, fold_left op (G x) a = fold_left op' (G' x) a) ->
  forall a, fold_left op (flat_map G l) a = fold_left op' (flat_map G' l) a.
Proof.
  induction l as [|x l IH]; intros H a; cbn [flat_map]; [reflexivity |].
  rewrite !fold_left_app. rewrite (H x (or_introl eq_refl)). apply IH.
  intros y Hy. apply H. right; exact Hy.
Qed.

Lemma fold_flat_map_id {A C X} (op : A -> C -> A) (G : X -> list C) (l : list X) :
  (forall x, In x l -> forall a, fold_left op (G x) a = a) ->
  forall a, fold_left op (flat_map G l) a = a.
Proof.
  induction l as [|x l IH]; intros H a; cbn [flat_map]; [reflexivity |].
  rewrite fold_left_app. rewrite (H x (or_introl eq_refl)). apply IH.
  intros y Hy. apply H. right; exact Hy.
Qed.

(* ------------------------------------------------------------------------------------------ *)
(* apply_op, component by component *)

Definition fn_op (c : change) (f : N) : N :=
  match c with CModify _ LFn (RA (ASym f')) => f' | _ => f end.
Definition st_op (c : change) (s : store) : store :=
  match c with
  | CSet _ (LAttr a) v | CModify _ (LAttr a) v => sset s (KName a) v
  | CDelete _ (LAttr a) => sdel s (KName a)
  | _ => s
  end.
Definition tg_op (c : change) (t : tagmap) : tagmap :=
  match c with
  | CAddTag _ a x => tags_add t (KName a) x
  | CRemoveTag _ a x => tags_remove t (KName a) x
  | _ => t
  end.
Definition dk_op (c : change) (d : list (atom * ref)) : list (atom * ref) :=
  match c with
  | CSet _ (LKey k) v | CModify _ (LKey k) v => akv_set d k v
  | CDelete _ (LKey k) => akv_del d k
  | _ => d
  end.
Definition ls_op (c : change) (xs : list ref) : list ref :=
  match c with
  | CModify _ (LIndex i) v => list_set_nat xs (Z.to_nat i) v
  | _ => xs
  end.

Lemma apply_op_buildable c k f s t :
  apply_op c (NBuildable k f s t) = NBuildable k (fn_op c f) (st_op c s) (tg_op c t).
Proof.
  destruct c as [p l v|p l v|p l|p a x|p a x]; try reflexivity.
  - destruct l; reflexivity.
  - destruct l; try reflexivity. destruct v as [a|q]; [destruct a |]; reflexivity.
  - destruct l; reflexivity.
Qed.
Lemma apply_op_dict c d : apply_op c (NDict d) = NDict (dk_op c d).
Proof.
  destruct c as [p l v|p l v|p l|p a x|p a x]; try reflexivity.
  - destruct l; reflexivity.
  - destruct l; try reflexivity. destruct v as [a|q]; [destruct a |]; reflexivity.
  - destruct l; reflexivity.
Qed.
Lemma apply_op_ddict c f d : apply_op c (NDefaultDict f d) = NDefaultDict f (dk_op c d).
Proof.
  destruct c as [p l v|p l v|p l|p a x|p a x]; try reflexivity.
  - destruct l; reflexivity.
  - destruct l; try reflexivity. destruct v as [a|q]; [destruct a |]; reflexivity.
  - destruct l; reflexivity.
Qed.
Lemma apply_op_list c xs : apply_op c (NList xs) = NList (ls_op c xs).
Proof.
  destruct c as [p l v|p l v|p l|p a x|p a x]; try reflexivity.
  - destruct l; reflexivity.
  - destruct l; try reflexivity. destruct v as [a|q]; [destruct a |]; reflexivity.
  - destruct l; reflexivity.
Qed.

Lemma fold_buildable cs : forall k f s t,
  fold_left (fun n c => apply_op c n) cs (NBuildable k f s t) =
  NBuildable k (fold_left (fun a c => fn_op c a) cs f) (fold_left (fun a c => st_op c a) cs s)
    (fold_left (fun a c => tg_op c a) cs t).
Proof.
  induction cs as [|c cs IH]; intros k f s t; cbn [fold_left]; [reflexivity |].
  rewrite apply_op_buildable. apply IH.
Qed.
Lemma fold_dict cs : forall d,
  fold_left (fun n c => apply_op c n) cs (NDict d) = NDict (fold_left (fun a c => dk_op c a) cs d).
Proof.
  induction cs as [|c cs IH]; intros d; cbn [fold_left]; [reflexivity |].
  rewrite apply_op_dict. apply IH.
Qed.
Lemma fold_ddict cs : forall f d,
  fold_left (fun n c => apply_op c n) cs (NDefaultDict f d) =
  NDefaultDict f (fold_left (fun a c => dk_op c a) cs d).
Proof.
  induction cs as [|c cs IH]; intros f d; cbn [fold_left]; [reflexivity |].
  rewrite apply_op_ddict. apply IH.
Qed.
Lemma fold_list cs : forall xs,
  fold_left (fun n c => apply_op c n) cs (NList xs) = NList (fold_left (fun a c => ls_op c a) cs xs).
Proof.
  induction cs as [|c cs IH]; intros xs; cbn [fold_left]; [reflexivity |].
  rewrite apply_op_list. apply IH.
Qed.

Lemma phases_buildable cs k f s t :
  apply_phases cs (NBuildable k f s t) =
  NBuildable k (phases fn_op cs f) (phases st_op cs s) (phases tg_op cs t).
Proof.
  unfold apply_phases, phases, phase_order. cbn [fold_left]. rewrite !fold_buildable. reflexivity.
Qed.
Lemma phases_dict cs d : apply_phases cs (NDict d) = NDict (phases dk_op cs d).
Proof.
  unfold apply_phases, phases, phase_order. cbn [fold_left]. rewrite !fold_dict. reflexivity.
Qed.
Lemma phases_ddict cs f d : apply_phases cs (NDefaultDict f d) = NDefaultDict f (phases dk_op cs d).
Proof.
  unfold apply_phases, phases, phase_order. cbn [fold_left]. rewrite !fold_ddict. reflexivity.
Qed.
Lemma phases_list cs xs : apply_phases cs (NList xs) = NList (phases ls_op cs xs).
Proof.
  unfold apply_phases, phases, phase_order. cbn [fold_left]. rewrite !fold_list. reflexivity.
Qed.

(* the node with its references mapped *)
Definition map_node_refs (f : ref -> ref) (n : node) : node :=
  match n with
  | NList xs => NList (map f xs)
  | NTuple xs => NTuple (map f xs)
  | NDict kvs => NDict (map_snd f kvs)
  | NDefaultDict d kvs => NDefaultDict d (map_snd f kvs)
  | NNamedTuple ty fs => NNamedTuple ty (map_snd f fs)
  | NBuildable k fn args tags => NBuildable k fn (map_snd f args) tags
  | other => other
  end.

(* ------------------------------------------------------------------------------------------ *)
Section PerNode.
  Variable al : list (nat * nat).
  Variable memo : list (nat * ref).
  Variable p : path.

  Notation aoe := (aligned_or_equal al).
  Notation tau_ := (tau memo).

  (* ---- arguments of a Buildable ---- *)
  Definition named_keys (s : store) : bool :=
    forallb (fun kv : skey * ref => match fst kv with KName _ => true | KPos _ => false end) s.

  Lemma store_del so sn : named_keys so = true -> forall s,
    fold_left (fun a c => st_op c a) (filter (of_type OpDelete) (store_changes al memo p so sn)) s =
    ddel_all skey_eqb s (g_dels skey_eqb so sn).
  Proof.
    intros Hk s. unfold store_changes, ddel_all, g_dels.
    rewrite filter_app, fold_left_app, !filter_flat_map.
    rewrite (fold_flat_map_id (fun a c => st_op c a) _ sn).
    2:{ intros [k v] _ a. cbn [fst snd]. destruct k as [z|n]; [reflexivity |].
        destruct (smem so (KName n)); reflexivity. }
    apply fold_flat_map_ext. intros [k v] Hin a. cbn [fst snd].
    unfold named_keys in Hk. rewrite forallb_forall in Hk. specialize (Hk _ Hin). cbn [fst] in Hk.
    destruct k as [z|n]; [discriminate |]. unfold sget.
    destruct (dget skey_eqb sn (KName n)) as [vn|]; [destruct (aoe v vn) |]; reflexivity.
  Qed.

  Lemma store_mod so sn : named_keys so = true -> forall s,
    fold_left (fun a c => st_op c a) (filter (of_type OpModify) (store_changes al memo p so sn)) s =
    dset_all skey_eqb s (g_mods skey_eqb aoe tau_ so sn).
  Proof.
    intros Hk s. unfold store_changes, dset_all, g_mods.
    rewrite filter_app, fold_left_app, !filter_flat_map.
    rewrite (fold_flat_map_id (fun a c => st_op c a) _ sn).
    2:{ intros [k v] _ a. cbn [fst snd]. destruct k as [z|n]; [reflexivity |].
        destruct (smem so (KName n)); reflexivity. }
    apply fold_flat_map_ext. intros [k v] Hin a. cbn [fst snd].
    unfold named_keys in Hk. rewrite forallb_forall in Hk. specialize (Hk _ Hin). cbn [fst] in Hk.
    destruct k as [z|n]; [discriminate |]. unfold sget.
    destruct (dget skey_eqb sn (KName n)) as [vn|]; [destruct (aoe v vn) |]; reflexivity.
  Qed.

  Lemma store_set so sn : named_keys sn = true -> forall s,
    fold_left (fun a c => st_op c a) (filter (of_type OpSet) (store_changes al memo p so sn)) s =
    dset_all skey_eqb s (g_sets skey_eqb tau_ so sn).
  Proof.
    intros Hk s. unfold store_changes, dset_all, g_sets.
    rewrite filter_app, fold_left_app, !filter_flat_map.
    rewrite (fold_flat_map_id (fun a c => st_op c a) _ so).
    2:{ intros [k v] _ a. cbn [fst snd]. destruct k as [z|n]; [reflexivity |].
        destruct (sget sn (KName n)) as [vn|]; [destruct (aoe v vn) |]; reflexivity. }
    apply fold_flat_map_ext. intros [k v] Hin a. cbn [fst snd].
    unfold named_keys in Hk. rewrite forallb_forall in Hk. specialize (Hk _ Hin). cbn [fst] in Hk.
    destruct k as [z|n]; [discriminate |]. unfold smem, dmem.
    destruct (dget skey_eqb so (KName n)) as [vo|]; reflexivity.
  Qed.

  Lemma store_changes_types so sn c : In c (store_changes al memo p so sn) ->
    type_of c = OpDelete \/ type_of c = OpModify \/ type_of c = OpSet.
  Proof.
    unfold store_changes. intros Hin. apply in_app_or in Hin. destruct Hin as [Hin|Hin];
      apply in_flat_map in Hin; destruct Hin as ([k v] & _ & Hc); cbn [fst snd] in Hc;
      destruct k as [z|n]; try (destruct Hc; fail).
    - destruct (sget sn (KName n)) as [vn|]; [destruct (aoe v vn) |];
        try (destruct Hc; fail); destruct Hc as [Hc|[]]; subst c; cbn [type_of]; auto.
    - destruct (smem so (KName n)); try (destruct Hc; fail).
      destruct Hc as [Hc|[]]; subst c; cbn [type_of]; auto.
  Qed.

  Lemma store_phases so sn : named_keys so = true -> named_keys sn = true ->
    phases st_op (store_changes al memo p so sn) so = g_final skey_eqb aoe tau_ so sn.
  Proof.
    intros Hko Hkn. unfold phases, phase_order, g_final. cbn [fold_left].
    rewrite (store_del so sn Hko).
    rewrite (filter_none (of_type OpRemoveTag) (store_changes al memo p so sn)).
    2:{ intros c Hc. apply store_changes_types in Hc. unfold of_type.
        destruct (optype_eq_dec (type_of c) OpRemoveTag) as [E|E]; [| reflexivity].
        destruct Hc as [H|[H|H]]; congruence. }
    cbn [fold_left]. rewrite (store_mod so sn Hko). rewrite (store_set so sn Hkn).
    rewrite (filter_none (of_type OpAddTag) (store_changes al memo p so sn)).
    2:{ intros c Hc. apply store_changes_types in Hc. unfold of_type.
        destruct (optype_eq_dec (type_of c) OpAddTag) as [E|E]; [| reflexivity].
        destruct Hc as [H|[H|H]]; congruence. }
    reflexivity.
  Qed.

  (* ---- dictionaries ---- *)
  Lemma akv_get_dget d k : akv_get d k = dget atom_eqb d k.
  Proof. induction d as [|[k0 v0] d IH]; cbn [akv_get dget]; [reflexivity |]. rewrite IH. reflexivity. Qed.
  Lemma akv_set_dset d k v : akv_set d k v = dset atom_eqb d k v.
  Proof. induction d as [|[k0 v0] d IH]; cbn [akv_set dset]; [reflexivity |]. rewrite IH. reflexivity. Qed.
  Lemma akv_del_ddel d k : akv_del d k = ddel atom_eqb d k.
  Proof. induction d as [|[k0 v0] d IH]; cbn [akv_del ddel]; [reflexivity |]. rewrite IH. reflexivity. Qed.

  Lemma dict_del so sn : forall s,
    fold_left (fun a c => dk_op c a) (filter (of_type OpDelete) (dict_changes al memo p so sn)) s =
    ddel_all atom_eqb s (g_dels atom_eqb so sn).
  Proof.
    intros s. unfold dict_changes, ddel_all, g_dels.
    rewrite filter_app, fold_left_app, !filter_flat_map.
    rewrite (fold_flat_map_id (fun a c => dk_op c a) _ sn).
    2:{ intros [k v] _ a. cbn [fst snd]. destruct (akv_get so k); reflexivity. }
    apply fold_flat_map_ext. intros [k v] Hin a. cbn [fst snd]. rewrite akv_get_dget.
    destruct (dget atom_eqb sn k) as [vn|]; [destruct (aoe v vn) |]; try reflexivity.
  Qed.

  Lemma dict_mod so sn : forall s,
    fold_left (fun a c => dk_op c a) (filter (of_type OpModify) (dict_changes al memo p so sn)) s =
    dset_all atom_eqb s (g_mods atom_eqb aoe tau_ so sn).
  Proof.
    intros s. unfold dict_changes, dset_all, g_mods.
    rewrite filter_app, fold_left_app, !filter_flat_map.
    rewrite (fold_flat_map_id (fun a c => dk_op c a) _ sn).
    2:{ intros [k v] _ a. cbn [fst snd]. destruct (akv_get so k); reflexivity. }
    apply fold_flat_map_ext. intros [k v] Hin a. cbn [fst snd]. rewrite akv_get_dget.
    destruct (dget atom_eqb sn k) as [vn|]; [destruct (aoe v vn) |]; try reflexivity.
  Qed.

  Lemma dict_set so sn : forall s,
    fold_left (fun a c => dk_op c a) (filter (of_type OpSet) (dict_changes al memo p so sn)) s =
    dset_all atom_eqb s (g_sets atom_eqb tau_ so sn).
  Proof.
    intros s. unfold dict_changes, dset_all, g_sets.
    rewrite filter_app, fold_left_app, !filter_flat_map.
    rewrite (fold_flat_map_id (fun a c => dk_op c a) _ so).
    2:{ intros [k v] _ a. cbn [fst snd].
        destruct (akv_get sn k) as [vn|]; [destruct (aoe v vn) |]; reflexivity. }
    apply fold_flat_map_ext. intros [k v] Hin a. cbn [fst snd]. rewrite akv_get_dget.
    destruct (dget atom_eqb so k) as [vo|]; try reflexivity.
  Qed.

  Lemma dict_changes_types so sn c : In c (dict_changes al memo p so sn) ->
    type_of c = OpDelete \/ type_of c = OpModify \/ type_of c = OpSet.
  Proof.
    unfold dict_changes. intros Hin. apply in_app_or in Hin. destruct Hin as [Hin|Hin];
      apply in_flat_map in Hin; destruct Hin as ([k v] & _ & Hc); cbn [fst snd] in Hc.
    - destruct (akv_get sn k) as [vn|]; [destruct (aoe v vn) |];
        try (destruct Hc; fail); destruct Hc as [Hc|[]]; subst c; cbn [type_of]; auto.
    - destruct (akv_get so k); try (destruct Hc; fail).
      destruct Hc as [Hc|[]]; subst c; cbn [type_of]; auto.
  Qed.

  Lemma dict_phases so sn :
    phases dk_op (dict_changes al memo p so sn) so = g_final atom_eqb aoe tau_ so sn.
  Proof.
    unfold phases, phase_order, g_final. cbn [fold_left].
    rewrite (dict_del so sn).
    rewrite (filter_none (of_type OpRemoveTag) (dict_changes al memo p so sn)).
    2:{ intros c Hc. apply dict_changes_types in Hc. unfold of_type.
        destruct (optype_eq_dec (type_of c) OpRemoveTag) as [E|E]; [| reflexivity].
        destruct Hc as [H|[H|H]]; congruence. }
    cbn [fold_left]. rewrite (dict_mod so sn). rewrite (dict_set so sn).
    rewrite (filter_none (of_type OpAddTag) (dict_changes al memo p so sn)).
    2:{ intros c Hc. apply dict_changes_types in Hc. unfold of_type.
        destruct (optype_eq_dec (type_of c) OpAddTag) as [E|E]; [| reflexivity].
        destruct Hc as [H|[H|H]]; congruence. }
    reflexivity.
  Qed.

  (* ---- lists ---- *)
  Definition merged (xo xn : list ref) : list ref :=
    map (fun ab => if aoe (fst ab) (snd ab) then fst ab else tau_ (snd ab)) (combine xo xn).

  Lemma list_set_nat_mid {A} (pre : list A) x post v :
    list_set_nat (pre ++ x :: post) (length pre) v = pre ++ v :: post.
  Proof. induction pre as [|y pre IH]; cbn [app length list_set_nat]; [reflexivity |]. rewrite IH. reflexivity. Qed.

  Lemma seq_fold xo : forall xn pre, length xo = length xn ->
    fold_left (fun a c => ls_op c a) (seq_changes al memo p (length pre) xo xn) (pre ++ xo) =
    pre ++ merged xo xn.
  Proof.
    induction xo as [|vo xo IH]; intros [|vn xn] pre Hlen; cbn [length] in Hlen; try discriminate;
      cbn [seq_changes fold_left]; [reflexivity |].
    rewrite fold_left_app. unfold merged. cbn [combine map fst snd]. fold (merged xo xn).
    destruct (aoe vo vn); cbn [fold_left ls_op].
    - replace (pre ++ vo :: xo) with ((pre ++ [vo]) ++ xo) by (rewrite <- app_assoc; reflexivity).
      replace (S (length pre)) with (length (pre ++ [vo])) by (rewrite app_length; cbn; lia).
      rewrite IH by lia. rewrite <- app_assoc. reflexivity.
    - rewrite Nat2Z.id, list_set_nat_mid.
      replace (pre ++ tau_ vn :: xo) with ((pre ++ [tau_ vn]) ++ xo) by (rewrite <- app_assoc; reflexivity).
      replace (S (length pre)) with (length (pre ++ [tau_ vn])) by (rewrite app_length; cbn; lia).
      rewrite IH by lia. rewrite <- app_assoc. reflexivity.
  Qed.

  Lemma seq_changes_types idx xo : forall xn c, In c (seq_changes al memo p idx xo xn) -> type_of c = OpModify.
  Proof.
    revert idx. induction xo as [|vo xo IH]; intros idx [|vn xn] c Hin; cbn [seq_changes] in Hin;
      try (destruct Hin; fail).
    apply in_app_or in Hin. destruct Hin as [Hin|Hin]; [| eapply IH; eauto].
    destruct (aoe vo vn); [destruct Hin |]. destruct Hin as [Hin|[]]. subst c. reflexivity.
  Qed.

  Lemma list_phases xo xn : length xo = length xn ->
    phases ls_op (seq_changes al memo p 0 xo xn) xo = merged xo xn.
  Proof.
    intros Hlen. unfold phases, phase_order. cbn [fold_left].
    assert (Hty : forall ty, ty <> OpModify -> filter (of_type ty) (seq_changes al memo p 0 xo xn) = []).
    { intros ty Hne. apply filter_none. intros c Hc. apply seq_changes_types in Hc. unfold of_type.
      destruct (optype_eq_dec (type_of c) ty); [congruence | reflexivity]. }
    rewrite (Hty OpDelete), (Hty OpRemoveTag), (Hty OpSet), (Hty OpAddTag) by discriminate.
    cbn [fold_left].
    rewrite filter_all_true.
    2:{ intros c Hc. apply seq_changes_types in Hc. unfold of_type.
        destruct (optype_eq_dec (type_of c) OpModify); [reflexivity | congruence]. }
    exact (seq_fold xo xn [] Hlen).
  Qed.

  Lemma merged_tau xo : forall xn, length xo = length xn ->
    (forall vo vn, In vn xn -> aoe vo vn = true -> vo = tau_ vn) ->
    merged xo xn = map tau_ xn.
  Proof.
    induction xo as [|vo xo IH]; intros [|vn xn] Hlen Ha; cbn [length] in Hlen; try discriminate;
      [reflexivity |].
    unfold merged. cbn [combine map fst snd]. fold (merged xo xn). f_equal.
    - destruct (aoe vo vn) eqn:E; [| reflexivity]. apply Ha; [left; reflexivity | exact E].
    - apply IH; [lia |]. intros vo' vn' Hin. apply Ha. right; exact Hin.
  Qed.

  Lemma all_aoe_tau xo : forall xn, length xo = length xn ->
    forallb (fun ab => aoe (fst ab) (snd ab)) (combine xo xn) = true ->
    (forall vo vn, In vn xn -> aoe vo vn = true -> vo = tau_ vn) ->
    xo = map tau_ xn.
  Proof.
    induction xo as [|vo xo IH]; intros [|vn xn] Hlen Hall Ha; cbn [length] in Hlen; try discriminate;
      [reflexivity |].
    cbn [combine forallb fst snd] in Hall. apply andb_true_iff in Hall. destruct Hall as [H1 H2].
    cbn [map]. f_equal.
    - apply Ha; [left; reflexivity | exact H1].
    - apply IH; [lia | exact H2 |]. intros vo' vn' Hin. apply Ha. right; exact Hin.
  Qed.

  (* ---- tags ---- *)
  Definition tg_list_op (k' : skey) (c : change) (l : list N) : list N :=
    match c with
    | CAddTag _ a t => if skey_eqb k' (KName a) then tset_add t l else l
    | CRemoveTag _ a t => if skey_eqb k' (KName a) then tset_remove t l else l
    | _ => l
    end.

  Lemma tg_op_get c tags k' : tags_get (tg_op c tags) k' = tg_list_op k' c (tags_get tags k').
  Proof.
    destruct c as [q l v|q l v|q l|q a x|q a x]; try reflexivity; cbn [tg_op tg_list_op].
    - unfold tags_add. rewrite tags_get_set. destruct (skey_eqb k' (KName a)) eqn:E; [| reflexivity].
      apply skey_eqb_eq in E. subst k'. reflexivity.
    - unfold tags_remove. rewrite tags_get_set. destruct (skey_eqb k' (KName a)) eqn:E; [| reflexivity].
      apply skey_eqb_eq in E. subst k'. reflexivity.
  Qed.

  Lemma tg_fold_get cs : forall tags k',
    tags_get (fold_left (fun a c => tg_op c a) cs tags) k' =
    fold_left (fun l c => tg_list_op k' c l) cs (tags_get tags k').
  Proof.
    induction cs as [|c cs IH]; intros tags k'; cbn [fold_left]; [reflexivity |].
    rewrite IH, tg_op_get. reflexivity.
  Qed.

  Lemma tg_op_nodup c tags : NoDup (map fst tags) -> NoDup (map fst (tg_op c tags)).
  Proof.
    intros Hnd. destruct c as [q l v|q l v|q l|q a x|q a x]; try exact Hnd; cbn [tg_op];
      unfold tags_add, tags_remove, tags_set; apply (gd_set_nodup skey_eqb skey_eqb_eq); exact Hnd.
  Qed.

  Lemma tg_fold_nodup cs : forall tags, NoDup (map fst tags) ->
    NoDup (map fst (fold_left (fun a c => tg_op c a) cs tags)).
  Proof.
    induction cs as [|c cs IH]; intros tags Hnd; cbn [fold_left]; [exact Hnd |].
    apply IH. apply tg_op_nodup. exact Hnd.
  Qed.

  Variables to tn : tagmap.

  Definition tag_keys : list skey :=
    map fst to ++ map fst (filter (fun kt => negb (existsb (fun k => if skey_eq_dec k (fst kt) then true else false) (map fst to))) tn).

  Definition tag_ops (k : skey) : list change :=
    match k with
    | KName a =>
        let o := tags_get to k in
        let n := tags_get tn k in
        map (fun t => CRemoveTag p a t) (filter (fun t => negb (existsb (N.eqb t) n)) o)
        ++ map (fun t => CAddTag p a t) (filter (fun t => negb (existsb (N.eqb t) o)) n)
    | KPos _ => []
    end.

  Lemma tag_changes_eq : tag_changes p to tn = flat_map tag_ops tag_keys.
  Proof. reflexivity. Qed.

  Lemma tag_ops_other k k' l P : k <> k' ->
    fold_left (fun l c => tg_list_op k' c l) (filter P (tag_ops k)) l = l.
  Proof.
    intros Hne. apply (fold_noop (tg_list_op k')). intros c Hc a.
    apply filter_In in Hc. destruct Hc as [Hc _].
    destruct k as [z|n]; [destruct Hc |]. cbn [tag_ops] in Hc.
    apply in_app_or in Hc. destruct Hc as [Hc|Hc]; apply in_map_iff in Hc;
      destruct Hc as (t & Hc & _); subst c; cbn [tg_list_op];
      rewrite (skey_eqb_neq k' (KName n)) by congruence; reflexivity.
  Qed.

  Lemma tag_keys_fold P k' (keys : list skey) : forall l,
    (~ In k' keys ->
     fold_left (fun l c => tg_list_op k' c l) (filter P (flat_map tag_ops keys)) l = l) /\
    (In k' keys -> NoDup keys ->
     fold_left (fun l c => tg_list_op k' c l) (filter P (flat_map tag_ops keys)) l =
     fold_left (fun l c => tg_list_op k' c l) (filter P (tag_ops k')) l).
  Proof.
    induction keys as [|k keys IH]; intros l; cbn [flat_map In].
    - split; [reflexivity | intros []].
    - rewrite filter_app, fold_left_app. split.
      + intros Hnotin. rewrite tag_ops_other by (intros E; apply Hnotin; left; exact E).
        apply IH. intros Hin. apply Hnotin. right; exact Hin.
      + intros Hin Hnd. inversion Hnd as [|? ? Hnk Hnd']; subst.
        destruct (skey_eq_dec k k') as [E|E].
        * subst k'. apply IH. exact Hnk.
        * rewrite tag_ops_other by exact E. apply IH; [| exact Hnd'].
          destruct Hin as [Hin|Hin]; [contradiction | exact Hin].
  Qed.

  Lemma fold_remove_in R : forall l x,
    In x (fold_left (fun l t => tset_remove t l) R l) <-> In x l /\ ~ In x R.
  Proof.
    induction R as [|t R IH]; intros l x; cbn [fold_left In]; [tauto |].
    rewrite IH, tset_remove_in. split.
    - intros [[Hne Hin] Hn]. split; [exact Hin |]. intros [H|H]; [congruence | auto].
    - intros [Hin Hn]. split; [split; [intros E; apply Hn; left; congruence | exact Hin] |].
      intros H. apply Hn. right; exact H.
  Qed.

  Lemma fold_add_in A : forall l x,
    In x (fold_left (fun l t => tset_add t l) A l) <-> In x l \/ In x A.
  Proof.
    induction A as [|t A IH]; intros l x; cbn [fold_left In]; [tauto |].
    rewrite IH, tset_add_in. split; [intros [[H|H]|H]; auto | intros [H|[H|H]]; auto].
  Qed.

  Lemma tset_remove_sorted t l : StronglySorted N.lt l -> StronglySorted N.lt (tset_remove t l).
  Proof.
    unfold tset_remove. induction 1 as [|x l Hs IH Hall]; cbn [filter]; [constructor |].
    destruct (negb (N.eqb t x)); [| exact IH]. constructor; [exact IH |].
    rewrite Forall_forall in Hall |- *. intros y Hy. apply filter_In in Hy. apply Hall. apply Hy.
  Qed.

  Lemma tset_add_sorted t l : StronglySorted N.lt l -> StronglySorted N.lt (tset_add t l).
  Proof.
    induction 1 as [|x l Hs IH Hall]; cbn [tset_add].
    - constructor; constructor.
    - destruct (N.eqb_spec t x) as [E|E]; [constructor; assumption |].
      destruct (N.ltb_spec t x) as [Hlt|Hge].
      + constructor; [constructor; assumption |]. constructor; [exact Hlt |].
        rewrite Forall_forall in Hall |- *. intros y Hy. specialize (Hall y Hy). lia.
      + constructor; [exact IH |]. rewrite Forall_forall in Hall |- *. intros y Hy.
        apply tset_add_in in Hy. destruct Hy as [Hy|Hy]; [subst y; lia | auto].
  Qed.

  Lemma fold_remove_sorted R : forall l, StronglySorted N.lt l ->
    StronglySorted N.lt (fold_left (fun l t => tset_remove t l) R l).
  Proof. induction R as [|t R IH]; intros l Hs; cbn [fold_left]; [exact Hs |]. apply IH, tset_remove_sorted, Hs. Qed.
  Lemma fold_add_sorted A : forall l, StronglySorted N.lt l ->
    StronglySorted N.lt (fold_left (fun l t => tset_add t l) A l).
  Proof. induction A as [|t A IH]; intros l Hs; cbn [fold_left]; [exact Hs |]. apply IH, tset_add_sorted, Hs. Qed.

  Lemma sorted_ext l1 : forall l2, StronglySorted N.lt l1 -> StronglySorted N.lt l2 ->
    (forall x, In x l1 <-> In x l2) -> l1 = l2.
  Proof.
    induction l1 as [|x l1 IH]; intros l2 H1 H2 Hext.
    - destruct l2 as [|y l2]; [reflexivity |]. exfalso. apply (Hext y). left; reflexivity.
    - destruct l2 as [|y l2]; [exfalso; apply (Hext x); left; reflexivity |].
      inversion H1 as [|? ? H1' Hall1]; subst. inversion H2 as [|? ? H2' Hall2]; subst.
      rewrite Forall_forall in Hall1, Hall2.
      assert (Hxy : x = y).
      { destruct (proj1 (Hext x) (or_introl eq_refl)) as [E|Hx]; [congruence |].
        destruct (proj2 (Hext y) (or_introl eq_refl)) as [E|Hy]; [congruence |].
        specialize (Hall1 y Hy). specialize (Hall2 x Hx). lia. }
      subst y. f_equal. apply IH; auto. intros z. split; intros Hz.
      + destruct (proj1 (Hext z) (or_intror Hz)) as [E|H]; [| exact H].
        subst z. specialize (Hall1 x Hz). lia.
      + destruct (proj2 (Hext z) (or_intror Hz)) as [E|H]; [| exact H].
        subst z. specialize (Hall2 x Hz). lia.
  Qed.

  Lemma tag_ops_remove a l :
    fold_left (fun l c => tg_list_op (KName a) c l) (filter (of_type OpRemoveTag) (tag_ops (KName a))) l =
    fold_left (fun l t => tset_remove t l)
      (filter (fun t => negb (existsb (N.eqb t) (tags_get tn (KName a)))) (tags_get to (KName a))) l.
  Proof.
    cbn [tag_ops]. rewrite filter_app.
    rewrite (filter_none (of_type OpRemoveTag) (map (fun t => CAddTag p a t) _)).
    2:{ intros c Hc. apply in_map_iff in Hc. destruct Hc as (t & Hc & _). subst c. reflexivity. }
    rewrite app_nil_r. rewrite filter_all_true.
    2:{ intros c Hc. apply in_map_iff in Hc. destruct Hc as (t & Hc & _). subst c. reflexivity. }
    generalize (filter (fun t => negb (existsb (N.eqb t) (tags_get tn (KName a)))) (tags_get to (KName a))).
    intros R. revert l. induction R as [|t R IH]; intros l; cbn [map fold_left]; [reflexivity |].
    cbn [tg_list_op]. rewrite skey_eqb_refl. apply IH.
  Qed.

  Lemma tag_ops_add a l :
    fold_left (fun l c => tg_list_op (KName a) c l) (filter (of_type OpAddTag) (tag_ops (KName a))) l =
    fold_left (fun l t => tset_add t l)
      (filter (fun t => negb (existsb (N.eqb t) (tags_get to (KName a)))) (tags_get tn (KName a))) l.
  Proof.
    cbn [tag_ops]. rewrite filter_app.
    rewrite (filter_none (of_type OpAddTag) (map (fun t => CRemoveTag p a t) _)).
    2:{ intros c Hc. apply in_map_iff in Hc. destruct Hc as (t & Hc & _). subst c. reflexivity. }
    cbn [app]. rewrite filter_all_true.
    2:{ intros c Hc. apply in_map_iff in Hc. destruct Hc as (t & Hc & _). subst c. reflexivity. }
    generalize (filter (fun t => negb (existsb (N.eqb t) (tags_get to (KName a)))) (tags_get tn (KName a))).
    intros R. revert l. induction R as [|t R IH]; intros l; cbn [map fold_left]; [reflexivity |].
    cbn [tg_list_op]. rewrite skey_eqb_refl. apply IH.
  Qed.

  Lemma tag_changes_types c : In c (tag_changes p to tn) -> type_of c = OpRemoveTag \/ type_of c = OpAddTag.
  Proof.
    rewrite tag_changes_eq. intros Hin. apply in_flat_map in Hin. destruct Hin as (k & _ & Hc).
    destruct k as [z|a]; [destruct Hc |]. cbn [tag_ops] in Hc. apply in_app_or in Hc.
    destruct Hc as [Hc|Hc]; apply in_map_iff in Hc; destruct Hc as (t & Hc & _); subst c; cbn; auto.
  Qed.

  Definition tagmap_ok (t : tagmap) : Prop :=
    NoDup (map fst t) /\
    forall k l, In (k, l) t -> (exists a, k = KName a) /\ StronglySorted N.lt l.

  Lemma tags_get_sorted t k : tagmap_ok t -> StronglySorted N.lt (tags_get t k).
  Proof.
    intros [_ Hok]. unfold tags_get. destruct (dget skey_eqb t k) as [l|] eqn:E; [| constructor].
    apply (gd_get_in skey_eqb skey_eqb_eq) in E. apply (Hok _ _ E).
  Qed.

  Lemma tags_get_nokey t k : ~ In k (map fst t) -> tags_get t k = [].
  Proof.
    intros H. unfold tags_get. apply (gd_get_none skey_eqb skey_eqb_eq) in H. rewrite H. reflexivity.
  Qed.

  Lemma tag_keys_in k : In k tag_keys <-> In k (map fst to) \/ In k (map fst tn).
  Proof.
    unfold tag_keys. rewrite in_app_iff. split.
    - intros [H|H]; [left; exact H |]. right. apply in_map_iff in H.
      destruct H as (kt & Hk & Hin). apply filter_In in Hin. subst k. apply in_map. apply Hin.
    - intros [H|H]; [left; exact H |].
      destruct (in_dec skey_eq_dec k (map fst to)) as [Hin|Hnotin]; [left; exact Hin |].
      right. apply in_map_iff in H. destruct H as (kt & Hk & Hin). subst k.
      apply in_map. apply filter_In. split; [exact Hin |]. apply negb_true_iff.
      destruct (existsb _ (map fst to)) eqn:E; [| reflexivity].
      apply existsb_exists in E. destruct E as (k & Hk & Hd).
      destruct (skey_eq_dec k (fst kt)); [subst; contradiction | discriminate].
  Qed.

  Lemma tag_keys_nodup : NoDup (map fst to) -> NoDup (map fst tn) -> NoDup tag_keys.
  Proof.
    intros Ho Hn. unfold tag_keys.
    apply nodup_app_intro; [exact Ho | apply nodup_map_filter; exact Hn |].
    intros k Hk1 Hk2. apply in_map_iff in Hk2. destruct Hk2 as (kt & Hk & Hin).
    apply filter_In in Hin. destruct Hin as [_ Hf]. apply negb_true_iff in Hf. subst k.
    assert (Ht : existsb (fun k => if skey_eq_dec k (fst kt) then true else false) (map fst to) = true).
    { apply existsb_exists. exists (fst kt). split; [exact Hk1 |].
      destruct (skey_eq_dec (fst kt) (fst kt)); [reflexivity | contradiction]. }
    congruence.
  Qed.

  Definition final_tags : tagmap := phases tg_op (tag_changes p to tn) to.

  Lemma final_tags_eq :
    final_tags =
    fold_left (fun a c => tg_op c a) (filter (of_type OpAddTag) (tag_changes p to tn))
      (fold_left (fun a c => tg_op c a) (filter (of_type OpRemoveTag) (tag_changes p to tn)) to).
  Proof.
    unfold final_tags, phases, phase_order. cbn [fold_left].
    assert (Hty : forall ty, ty <> OpRemoveTag -> ty <> OpAddTag ->
                             filter (of_type ty) (tag_changes p to tn) = []).
    { intros ty H1 H2. apply filter_none. intros c Hc. apply tag_changes_types in Hc. unfold of_type.
      destruct (optype_eq_dec (type_of c) ty); [destruct Hc; congruence | reflexivity]. }
    rewrite (Hty OpDelete), (Hty OpModify), (Hty OpSet) by discriminate. reflexivity.
  Qed.

  Lemma final_tags_nodup : NoDup (map fst to) -> NoDup (map fst final_tags).
  Proof. intros H. rewrite final_tags_eq. apply tg_fold_nodup, tg_fold_nodup, H. Qed.

  Lemma final_tags_get : tagmap_ok to -> tagmap_ok tn ->
    forall k, tags_get final_tags k = tags_get tn k.
  Proof.
    intros Hto Htn k. rewrite final_tags_eq, !tg_fold_get, tag_changes_eq.
    destruct (in_dec skey_eq_dec k tag_keys) as [Hin|Hnotin].
    - assert (Hnd : NoDup tag_keys) by (apply tag_keys_nodup; [apply Hto | apply Htn]).
      rewrite (proj2 (tag_keys_fold (of_type OpAddTag) k tag_keys _) Hin Hnd).
      rewrite (proj2 (tag_keys_fold (of_type OpRemoveTag) k tag_keys _) Hin Hnd).
      assert (Hname : exists a, k = KName a).
      { apply tag_keys_in in Hin. destruct Hin as [H|H]; apply in_map_iff in H;
          destruct H as ([k0 l0] & Hk & H); cbn [fst] in Hk; subst k0.
        - apply (proj2 Hto _ _ H).
        - apply (proj2 Htn _ _ H). }
      destruct Hname as [a Hk]. subst k.
      rewrite tag_ops_remove, tag_ops_add.
      set (o := tags_get to (KName a)). set (n := tags_get tn (KName a)).
      assert (Hso : StronglySorted N.lt o) by (apply tags_get_sorted; exact Hto).
      assert (Hsn : StronglySorted N.lt n) by (apply tags_get_sorted; exact Htn).
      apply sorted_ext; [apply fold_add_sorted, fold_remove_sorted, Hso | exact Hsn |].
      intros x. rewrite fold_add_in, fold_remove_in, !filter_In.
      assert (Hmem : forall l, negb (existsb (N.eqb x) l) = true <-> ~ In x l).
      { intros l. rewrite negb_true_iff. split.
        - intros Hf Hx. assert (existsb (N.eqb x) l = true)
            by (apply existsb_exists; exists x; split; [exact Hx | apply N.eqb_refl]). congruence.
        - intros Hx. destruct (existsb (N.eqb x) l) eqn:E; [| reflexivity].
          apply existsb_exists in E. destruct E as (y & Hy & E). apply N.eqb_eq in E. subst y. contradiction. }
      rewrite !Hmem.
      destruct (in_dec N.eq_dec x o) as [Hxo|Hxo]; destruct (in_dec N.eq_dec x n) as [Hxn|Hxn]; tauto.
    - rewrite (proj1 (tag_keys_fold (of_type OpRemoveTag) k tag_keys _) Hnotin).
      rewrite (proj1 (tag_keys_fold (of_type OpAddTag) k tag_keys _) Hnotin).
      rewrite tag_keys_in in Hnotin.
      rewrite !tags_get_nokey; [reflexivity | |]; intros H; apply Hnotin; auto.
  Qed.
End PerNode.

Lemma canon_tags_ext a b :
  NoDup (map fst a) -> NoDup (map fst b) -> (forall k, tags_get a k = tags_get b k) ->
  canon_tags a = canon_tags b.
Proof.
  intros Ha Hb Hab. rewrite !canon_tags_gsort.
  set (ne := fun kt : skey * list N => match snd kt with [] => false | _ => true end).
  assert (Hin : forall (t : tagmap) k l, NoDup (map fst t) ->
                  (In (k, l) (filter ne t) <-> (tags_get t k = l /\ l <> []))).
  { intros t k l Hnd. rewrite filter_In. unfold tags_get. split.
    - intros [Hi Hne]. apply (gd_in_get skey_eqb skey_eqb_eq _ _ _ Hnd) in Hi. rewrite Hi.
      split; [reflexivity |]. unfold ne in Hne. cbn [snd] in Hne. destruct l; [discriminate | discriminate].
    - intros [Hg Hne]. destruct (dget skey_eqb t k) as [l'|] eqn:E; [| congruence]. subst l'.
      split; [eapply (gd_get_in skey_eqb skey_eqb_eq); exact E |].
      unfold ne. cbn [snd]. destruct l; [congruence | reflexivity]. }
  apply gsort_perm_eq; [exact skey_leb_total | exact skey_leb_trans | exact skey_leb_antisym | |].
  - apply nodup_map_filter. exact Ha.
  - apply same_elems_perm; [apply nodup_map_filter; exact Ha | apply nodup_map_filter; exact Hb |].
    intros [k l]. rewrite (Hin a k l Ha), (Hin b k l Hb), Hab. reflexivity.
Qed.

Lemma canon_tags_filter t :
  canon_tags (filter (fun kt : skey * list N => match snd kt with [] => false | _ => true end) t) = canon_tags t.
Proof.
  unfold canon_tags. f_equal. induction t as [|x t IH]; cbn [filter]; [reflexivity |].
  destruct (match snd x with [] => false | _ => true end) eqn:E; cbn [filter]; [rewrite E, IH |]; auto.
Qed.

(* ------------------------------------------------------------------------------------------ *)
(* the per-node theorem *)

Lemma tags_ok_b_spec k f s t : tags_ok_b (NBuildable k f s t) = true -> tagmap_ok t.
Proof.
  cbn [tags_ok_b]. intros H. apply andb_true_iff in H. destruct H as [Hnd Hall]. split.
  - apply (nodup_b_spec skey_eqb skey_eqb_eq). exact Hnd.
  - intros k0 l Hin. rewrite forallb_forall in Hall. specialize (Hall _ Hin). cbn [fst snd] in Hall.
    apply andb_true_iff in Hall. destruct Hall as [Hk Hs]. split; [| apply sorted_b_spec; exact Hs].
    destruct k0 as [z|a]; [discriminate | eauto].
Qed.

Lemma N_eqb_spec' a b : N.eqb a b = true <-> a = b.
Proof. apply N.eqb_eq. Qed.

Theorem node_patch_ok al memo p no nn :
  same_kind al no nn = true ->
  node_ok_b no = true -> node_ok_b nn = true -> tags_ok_b no = true -> tags_ok_b nn = true ->
  (forall vo vn, In vn (refs_of nn) -> aligned_or_equal al vo vn = true -> vo = tau memo vn) ->
  canon_node_tags (apply_phases (node_changes al memo p no nn) no) =
  canon_node_tags (map_node_refs (tau memo) nn).
Proof.
  intros Hsk Hoko Hokn Hto Htn Haoe.
  destruct no as [xo|xo|kvo|fo kvo|tyo fo|ko fo so to|o1 o2|o3 o4 o5|o6 o7|o8];
    destruct nn as [xn|xn|kvn|fn kvn|tyn fn|kn fn sn tn|n1 n2|n3 n4 n5|n6 n7|n8];
    cbn [same_kind] in Hsk; try discriminate.
  - (* lists *)
    apply Nat.eqb_eq in Hsk. cbn [node_changes]. rewrite phases_list, (list_phases al memo p xo xn Hsk).
    cbn [map_node_refs]. rewrite (merged_tau al memo xo xn Hsk); [reflexivity |].
    intros vo vn Hin. apply Haoe. exact Hin.
  - (* tuples *)
    apply andb_true_iff in Hsk. destruct Hsk as [Hlen Hall]. apply Nat.eqb_eq in Hlen.
    cbn [node_changes]. unfold apply_phases. rewrite phases_noop by (intros c []).
    cbn [map_node_refs canon_node_tags]. f_equal.
    apply (all_aoe_tau al memo xo xn Hlen Hall). intros vo vn Hin. apply Haoe. exact Hin.
  - (* dicts *)
    cbn [node_changes]. rewrite phases_dict, dict_phases. cbn [map_node_refs canon_node_tags]. f_equal.
    cbn [node_ok_b] in Hoko, Hokn.
    apply (nodup_b_spec atom_eqb atom_eqb_spec) in Hoko, Hokn.
    apply sort_kvs_perm_eq; [apply (g_final_nodup atom_eqb atom_eqb_spec); exact Hoko |].
    apply (g_final_perm atom_eqb atom_eqb_spec); [exact Hoko | exact Hokn |].
    intros k vo vn _ Hn. apply Haoe. cbn [refs_of].
    apply (gd_get_in atom_eqb atom_eqb_spec) in Hn. change vn with (snd (k, vn)). apply in_map. exact Hn.
  - (* default dicts *)
    destruct (atom_eq_dec fo fn) as [Hf|]; [subst fn | discriminate].
    cbn [node_changes]. rewrite phases_ddict, dict_phases. cbn [map_node_refs canon_node_tags]. f_equal.
    cbn [node_ok_b] in Hoko, Hokn.
    apply (nodup_b_spec atom_eqb atom_eqb_spec) in Hoko, Hokn.
    apply sort_kvs_perm_eq; [apply (g_final_nodup atom_eqb atom_eqb_spec); exact Hoko |].
    apply (g_final_perm atom_eqb atom_eqb_spec); [exact Hoko | exact Hokn |].
    intros k vo vn _ Hn. apply Haoe. cbn [refs_of].
    apply (gd_get_in atom_eqb atom_eqb_spec) in Hn. change vn with (snd (k, vn)). apply in_map. exact Hn.
  - (* named tuples *)
    apply andb_true_iff in Hsk. destruct Hsk as [Hsk Hall]. apply andb_true_iff in Hsk.
    destruct Hsk as [Hty Hkeys]. apply N.eqb_eq in Hty. subst tyn.
    destruct (list_eq_dec N.eq_dec (map fst fo) (map fst fn)) as [Hk|]; [| discriminate].
    cbn [node_changes]. unfold apply_phases. rewrite phases_noop by (intros c []).
    cbn [map_node_refs canon_node_tags]. f_equal.
    assert (Hlen : length (map snd fo) = length (map snd fn)).
    { rewrite !map_length. apply (f_equal (@length N)) in Hk. rewrite !map_length in Hk. exact Hk. }
    assert (Hv : map snd fo = map (tau memo) (map snd fn)).
    { apply (all_aoe_tau al memo _ _ Hlen Hall). intros vo vn Hin. apply Haoe. exact Hin. }
    clear - Hk Hv. revert fn Hk Hv. induction fo as [|[k v] fo IH]; intros [|[k' v'] fn] Hk Hv;
      cbn [map fst snd map_snd] in *; try discriminate; [reflexivity |].
    inversion Hk; inversion Hv; subst. f_equal. apply IH; assumption.
  - (* Buildables *)
    apply andb_true_iff in Hsk. destruct Hsk as [Hkind Hnamed].
    destruct (bkind_eq_dec ko kn) as [Hk|]; [subst kn | discriminate].
    rewrite forallb_app in Hnamed. apply andb_true_iff in Hnamed. destruct Hnamed as [Hno Hnn].
    cbn [node_ok_b] in Hoko, Hokn.
    apply (nodup_b_spec skey_eqb skey_eqb_eq) in Hoko, Hokn.
    apply tags_ok_b_spec in Hto, Htn.
    cbn [node_changes]. rewrite phases_buildable. cbn [map_node_refs canon_node_tags].
    set (fnc := if N.eqb fo fn then [] else [CModify p LFn (RA (ASym fn))]).
    assert (Hn1 : noop st_op fnc).
    { unfold fnc. intros c Hc a. destruct (N.eqb fo fn); [destruct Hc |]. destruct Hc as [Hc|[]]. subst c. reflexivity. }
    assert (Hn2 : noop tg_op fnc).
    { unfold fnc. intros c Hc a. destruct (N.eqb fo fn); [destruct Hc |]. destruct Hc as [Hc|[]]. subst c. reflexivity. }
    assert (Hn3 : noop st_op (tag_changes p to tn)).
    { intros c Hc a. apply tag_changes_types in Hc. destruct c; cbn in Hc; destruct Hc; try discriminate; reflexivity. }
    assert (Hn4 : noop fn_op (tag_changes p to tn)).
    { intros c Hc a. apply tag_changes_types in Hc. destruct c; cbn in Hc; destruct Hc; try discriminate; reflexivity. }
    assert (Hn5 : noop tg_op (store_changes al memo p so sn)).
    { intros c Hc a. apply store_changes_types in Hc.
      destruct c; cbn in Hc; destruct Hc as [H|[H|H]]; try discriminate; reflexivity. }
    assert (Hn6 : noop fn_op (store_changes al memo p so sn)).
    { intros c Hc a. unfold store_changes in Hc. apply in_app_or in Hc. destruct Hc as [Hin|Hin];
        apply in_flat_map in Hin; destruct Hin as ([k v] & _ & Hc); cbn [fst snd] in Hc;
        destruct k as [z|n]; try (destruct Hc; fail).
      - destruct (sget sn (KName n)) as [vn|]; [destruct (aligned_or_equal al v vn) |];
          try (destruct Hc; fail); destruct Hc as [Hc|[]]; subst c; reflexivity.
      - destruct (smem so (KName n)); try (destruct Hc; fail).
        destruct Hc as [Hc|[]]; subst c; reflexivity. }
    f_equal.
    + (* callable *)
      rewrite app_assoc. rewrite phases_noop_r.
      2:{ exact Hn6. }
      rewrite phases_noop_r by exact Hn4.
      unfold fnc. destruct (N.eqb fo fn) eqn:E.
      * apply N.eqb_eq in E. subst fn. apply phases_noop. intros c [].
      * reflexivity.
    + (* arguments *)
      rewrite phases_noop_l by exact Hn1. rewrite phases_noop_l by exact Hn3.
      rewrite (store_phases al memo p so sn Hno Hnn).
      apply sort_store_perm_eq; [apply (g_final_nodup skey_eqb skey_eqb_eq); exact Hoko |].
      apply (g_final_perm skey_eqb skey_eqb_eq); [exact Hoko | exact Hokn |].
      intros k vo vn _ Hn. apply Haoe. cbn [refs_of].
      apply (gd_get_in skey_eqb skey_eqb_eq) in Hn. change vn with (snd (k, vn)). apply in_map. exact Hn.
    + (* tags *)
      rewrite phases_noop_l by exact Hn2. rewrite phases_noop_r by exact Hn5.
      apply canon_tags_ext.
      * apply final_tags_nodup. apply Hto.
      * apply Htn.
      * apply final_tags_get; assumption.
Qed.

(* PART 4: the traversal of `new` with db_node; PART 5: apply_changes, parent by parent *)
Lemma old_of_in_some l j i : old_of_in l j = Some i -> In (i, j) l.
Proof.
  induction l as [|[a b] l IH]; cbn [old_of_in]; [discriminate |].
  destruct (Nat.eqb j b) eqn:E.
  - apply Nat.eqb_eq in E. subst b. intros H; inversion H; subst. left; reflexivity.
  - intros H. right. auto.
Qed.

Lemma old_of_in_none l j : old_of_in l j = None -> forall i, ~ In (i, j) l.
Proof.
  induction l as [|[a b] l IH]; cbn [old_of_in]; intros H i Hin; [exact Hin |].
  destruct (Nat.eqb j b) eqn:E; [discriminate |]. apply Nat.eqb_neq in E.
  destruct Hin as [Hin|Hin]; [inversion Hin; congruence | eapply IH; eauto].
Qed.

Lemma nodup_nat_spec l : nodup_nat l = true -> NoDup l.
Proof.
  induction l as [|x l IH]; cbn [nodup_nat]; intros H; [constructor |].
  apply andb_true_iff in H. destruct H as [Hx Hl]. constructor; [| auto].
  intros Hin. apply negb_true_iff in Hx.
  assert (existsb (Nat.eqb x) l = true)
    by (apply existsb_exists; exists x; split; [exact Hin | apply Nat.eqb_refl]).
  congruence.
Qed.

Lemma nodup_fst_fun {A B} (l : list (A * B)) a b b' :
  NoDup (map fst l) -> In (a, b) l -> In (a, b') l -> b = b'.
Proof.
  intros Hnd H1 H2.
  assert (H : (a, b) = (a, b')).
  { apply (nodup_keys_inj l); auto. }
  inversion H; reflexivity.
Qed.

Lemma nodup_snd_fun {A B} (l : list (A * B)) a a' b :
  NoDup (map snd l) -> In (a, b) l -> In (a', b) l -> a = a'.
Proof.
  induction l as [|[x y] l IH]; cbn [map snd In]; intros Hnd H1 H2; [destruct H1 |].
  inversion Hnd as [|? ? Hnotin Hnd']; subst.
  destruct H1 as [H1|H1]; destruct H2 as [H2|H2].
  - congruence.
  - inversion H1; subst. exfalso. apply Hnotin. change b with (snd (a', b)). apply in_map. exact H2.
  - inversion H2; subst. exfalso. apply Hnotin. change b with (snd (a, b)). apply in_map. exact H1.
  - eapply IH; eauto.
Qed.

Lemma old_of_in_of l i j : NoDup (map snd l) -> In (i, j) l -> old_of_in l j = Some i.
Proof.
  intros Hnd Hin. destruct (old_of_in l j) as [i'|] eqn:E.
  - apply old_of_in_some in E. f_equal. eapply nodup_snd_fun; eauto.
  - exfalso. eapply old_of_in_none; eauto.
Qed.

Lemma map_ref_tau m l : forall rs, map (map_ref m) l = map Some rs -> rs = map (tau m) l.
Proof.
  induction l as [|x l IH]; intros [|r rs] H; cbn [map] in H; try discriminate; [reflexivity |].
  inversion H as [[Hx Hl]]. cbn [map]. f_equal; [| apply IH; exact Hl].
  destruct x as [a|j]; cbn [map_ref tau] in *; [congruence |]. rewrite Hx. reflexivity.
Qed.

(* ------------------------------------------------------------------------------------------ *)
Section DbRun.
  Variable e : sigenv.
  Variable al : list (nat * nat).
  Variable h : heap.
  Hypothesis Hwf : wf_b e h = true.

  Notation dbn := (db_node e al).

  Lemma db_result j n rs o o' x : dbn j n rs o = (o', x) ->
    (exists i, old_of al j = Some i /\ o' = o /\ x = inl (RP i)) \/
    (old_of al j = None /\ o' = o ++ [with_children e n rs] /\ x = inl (RP (length o))).
  Proof.
    unfold db_node, alloc. destruct (old_of al j) as [i|]; intros H; inversion H; subst.
    - left. eauto.
    - right. auto.
  Qed.

  Lemma db_app j n rs o o' x : dbn j n rs o = (o', x) -> exists ext, o' = o ++ ext.
  Proof.
    intros H. destruct (db_result _ _ _ _ _ _ H) as [(i & _ & Ho & _)|(_ & Ho & _)]; subst o'.
    - exists []. rewrite app_nil_r. reflexivity.
    - eexists; reflexivity.
  Qed.

  Lemma db_nofail j n rs o o' fl : dbn j n rs o <> (o', inr fl).
  Proof.
    intros H. destruct (db_result _ _ _ _ _ _ H) as [(i & _ & _ & Hx)|(_ & _ & Hx)]; discriminate.
  Qed.

  Let rec_ := recorded e h dbn.

  Lemma db_range m : forall o, rec_ m o ->
    forall j rj, memo_get m j = Some rj ->
    (exists i, old_of al j = Some i /\ rj = RP i) \/
    (old_of al j = None /\ exists k, rj = RP k /\ length h <= k < length o).
  Proof.
    induction m as [|[a ra] m IH]; intros o Hrec j rj Hg; [discriminate |].
    cbn [rec_ recorded] in Hrec.
    destruct Hrec as (n & rs & o0 & o1 & Hn & Hm & Hon & [ext Ho] & Hrec').
    destruct (db_app _ _ _ _ _ _ Hon) as [ext1 Ho1].
    cbn [memo_get] in Hg. destruct (Nat.eqb j a) eqn:Hja.
    - apply Nat.eqb_eq in Hja. subst a. inversion Hg; subst ra.
      destruct (db_result _ _ _ _ _ _ Hon) as [(i & Hi & _ & Hx)|(Hnone & Hnd & Hx)].
      + left. exists i. split; [exact Hi | congruence].
      + right. split; [exact Hnone |].
        destruct (recorded_prefix e h dbn db_app m o0 Hrec') as [ext0 Ho0].
        exists (length o0). split; [congruence |].
        rewrite Ho, Hnd, Ho0, !app_length. cbn [length]. lia.
    - destruct (IH o0 Hrec' j rj Hg) as [Hl|(Hnone & k & Hk & Hlt)]; [left; exact Hl |].
      right. split; [exact Hnone |]. exists k. split; [exact Hk |].
      rewrite Ho, Ho1, !app_length. lia.
  Qed.

  Lemma db_fresh_inj m : forall o, rec_ m o ->
    forall j1 j2 k, memo_get m j1 = Some (RP k) -> memo_get m j2 = Some (RP k) ->
    old_of al j1 = None -> old_of al j2 = None -> j1 = j2.
  Proof.
    induction m as [|[a ra] m IH]; intros o Hrec j1 j2 k H1 H2 Hn1 Hn2; [discriminate |].
    cbn [rec_ recorded] in Hrec.
    destruct Hrec as (n & rs & o0 & o1 & Hn & Hm & Hon & [ext Ho] & Hrec').
    cbn [memo_get] in H1, H2.
    destruct (Nat.eqb j1 a) eqn:E1; destruct (Nat.eqb j2 a) eqn:E2.
    - apply Nat.eqb_eq in E1, E2. congruence.
    - apply Nat.eqb_eq in E1. subst a. inversion H1; subst ra.
      destruct (db_result _ _ _ _ _ _ Hon) as [(i & Hi & _)|(_ & _ & Hx)]; [congruence |].
      inversion Hx; subst k.
      destruct (db_range m o0 Hrec' j2 _ H2) as [(i & Hi & _)|(_ & k' & Hk' & Hlt)]; [congruence |].
      inversion Hk'; subst k'. lia.
    - apply Nat.eqb_eq in E2. subst a. inversion H2; subst ra.
      destruct (db_result _ _ _ _ _ _ Hon) as [(i & Hi & _)|(_ & _ & Hx)]; [congruence |].
      inversion Hx; subst k.
      destruct (db_range m o0 Hrec' j1 _ H1) as [(i & Hi & _)|(_ & k' & Hk' & Hlt)]; [congruence |].
      inversion Hk'; subst k'. lia.
    - eapply IH; eauto.
  Qed.

  Section Run.
    Variables (rnew : ref) (s : mstate) (res : ref + fail).
    Hypothesis Hroot : root_ok h rnew.
    Hypothesis Hrun : mrun e h dbn rnew = (s, res).

    Lemma db_vspec : vspec e h dbn (mk_ms [] h []) rnew s res.
    Proof. apply mrun_spec; auto. exact db_app. Qed.

    Lemma db_inv : inv e h dbn s.
    Proof. destruct db_vspec as (Hinv & _). exact Hinv. Qed.

    Lemma db_total : exists r', res = inl r'.
    Proof.
      destruct db_vspec as (_ & _ & _ & Hres). destruct res as [r'|fl]; [eauto |].
      destruct Hres as (i & n & rs & o & o' & Hon & _). exfalso. eapply db_nofail; eauto.
    Qed.

    Lemma db_prefix : exists ext, out s = h ++ ext.
    Proof.
      destruct db_inv as (_ & _ & _ & Hrec). eapply recorded_prefix; eauto. exact db_app.
    Qed.

    Lemma db_memo_nodup : NoDup (map fst (memo s)).
    Proof. apply (inv_memo_nodup e h dbn). exact db_inv. Qed.

    Lemma db_processed j : In j (map fst (memo s)) <-> creach e h rnew j.
    Proof.
      rewrite <- (inv_log_memo e h dbn s j db_inv).
      destruct db_vspec as (_ & _ & (l & Hl & Hr) & Hsucc).
      destruct db_total as [r' Hres]. rewrite Hres in Hsucc. split.
      - cbn [log app] in Hl. rewrite Hl. apply Hr.
      - apply Hsucc.
    Qed.

    Lemma db_creach_memo j : creach e h rnew j -> exists rj, memo_get (memo s) j = Some rj.
    Proof. intros Hc. apply memo_get_in_some. apply db_processed. exact Hc. Qed.

    Lemma db_root_image r' : res = inl r' -> map_ref (memo s) rnew = Some r'.
    Proof.
      intros Hres. destruct db_vspec as (_ & _ & _ & Hsucc). rewrite Hres in Hsucc. apply Hsucc.
    Qed.

    Lemma db_lookup j rj : memo_get (memo s) j = Some rj ->
      exists n, nth_error h j = Some n /\
        (forall c, In c (children e n) -> map_ref (memo s) c = Some (tau (memo s) c)) /\
        ((exists i, old_of al j = Some i /\ rj = RP i) \/
         (old_of al j = None /\ exists k, rj = RP k /\ length h <= k < length (out s) /\
            nth_error (out s) k = Some (with_children e n (map (tau (memo s)) (children e n))))).
    Proof.
      intros Hg. pose proof db_inv as Hinv. destruct Hinv as (Hk & Hnd & Hord & Hrec).
      destruct (recorded_lookup e h dbn db_app (memo s) (out s) Hrec db_memo_nodup j rj Hg)
        as (n & rs & o0 & o1 & Hn & Hm & Hon & [ext0 Ho0] & [ext Ho]).
      exists n. split; [exact Hn |].
      pose proof (map_ref_tau _ _ _ Hm) as Hrs. split.
      { intros c Hc. rewrite Hrs in Hm. clear - Hm Hc.
        induction (children e n) as [|x l IH]; [destruct Hc |]. cbn [map] in Hm. inversion Hm.
        destruct Hc as [Hc|Hc]; [subst; assumption | auto]. }
      destruct (db_result _ _ _ _ _ _ Hon) as [(i & Hi & _ & Hx)|(Hnone & Ho1 & Hx)].
      - left. exists i. split; [exact Hi | congruence].
      - right. split; [exact Hnone |]. exists (length o0). split; [congruence |].
        assert (Hnth : nth_error (out s) (length o0) = Some (with_children e n rs)).
        { rewrite Ho, Ho1. apply nth_error_mid'. }
        split; [| rewrite <- Hrs; exact Hnth]. split.
        + rewrite Ho0, app_length. lia.
        + apply nth_error_Some. rewrite Hnth. discriminate.
    Qed.

    Lemma db_tau_ptr j rj : memo_get (memo s) j = Some rj -> exists k, rj = RP k.
    Proof.
      intros Hg. destruct (db_lookup j rj Hg) as (n & _ & _ & [(i & _ & Hr)|(_ & k & Hr & _)]); eauto.
    Qed.

    Lemma db_child_memo j rj n c : memo_get (memo s) j = Some rj -> nth_error h j = Some n ->
      In (RP c) (children e n) -> exists k, memo_get (memo s) c = Some (RP k).
    Proof.
      intros Hg Hn Hc. destruct (db_lookup j rj Hg) as (n' & Hn' & Hch & _).
      rewrite Hn in Hn'. inversion Hn'; subst n'. specialize (Hch _ Hc). cbn [map_ref] in Hch.
      destruct (db_tau_ptr c _ Hch) as [k Hk]. exists k. rewrite Hch, Hk. reflexivity.
    Qed.

    Lemma db_inj j1 j2 k :
      NoDup (map fst al) -> (forall i j, In (i, j) al -> i < length h) ->
      memo_get (memo s) j1 = Some (RP k) -> memo_get (memo s) j2 = Some (RP k) -> j1 = j2.
    Proof.
      intros Hnd Hlt H1 H2.
      destruct (db_lookup _ _ H1) as (n1 & _ & _ & [(i1 & Hi1 & Hr1)|(Hn1 & k1 & Hr1 & Hk1 & _)]);
        destruct (db_lookup _ _ H2) as (n2 & _ & _ & [(i2 & Hi2 & Hr2)|(Hn2 & k2 & Hr2 & Hk2 & _)]).
      - inversion Hr1; inversion Hr2; subst i1 i2.
        apply old_of_in_some in Hi1, Hi2. eapply nodup_fst_fun; eauto.
      - inversion Hr1; inversion Hr2; subst i1 k2.
        apply old_of_in_some in Hi1. specialize (Hlt _ _ Hi1). lia.
      - inversion Hr1; inversion Hr2; subst i2 k1.
        apply old_of_in_some in Hi2. specialize (Hlt _ _ Hi2). lia.
      - destruct db_inv as (_ & _ & _ & Hrec). eapply db_fresh_inj; eauto.
    Qed.
  End Run.
End DbRun.

(* ------------------------------------------------------------------------------------------ *)
(* PART 5: apply_changes at one node *)

Section Localize.
  Variable e : sigenv.

  Definition lstep (ty : optype) (i : nat) (n : node) (cp : change * option nat) : node :=
    if optype_eq_dec (type_of (fst cp)) ty then
      match snd cp with
      | Some i' => if Nat.eqb i' i then apply_op (fst cp) n else n
      | None => n
      end
    else n.

  Lemma apply_one_length H cp : length (apply_one H cp) = length H.
  Proof.
    unfold apply_one. destruct (snd cp) as [i|]; [| reflexivity].
    destruct (nth_error H i); [apply heap_set_length | reflexivity].
  Qed.

  Lemma apply_phase_length ty cps : forall H, length (apply_phase ty H cps) = length H.
  Proof.
    unfold apply_phase. induction cps as [|cp cps IH]; intros H; cbn [fold_left]; [reflexivity |].
    rewrite IH. destruct (optype_eq_dec (type_of (fst cp)) ty); [apply apply_one_length | reflexivity].
  Qed.

  Lemma apply_step_nth ty i H cp :
    nth_error (if optype_eq_dec (type_of (fst cp)) ty then apply_one H cp else H) i =
    option_map (fun n => lstep ty i n cp) (nth_error H i).
  Proof.
    unfold lstep. destruct (optype_eq_dec (type_of (fst cp)) ty) as [Ety|Ety].
    - unfold apply_one. destruct (snd cp) as [i'|]; [| destruct (nth_error H i); reflexivity].
      destruct (nth_error H i') as [n'|] eqn:Hn'.
      + destruct (Nat.eqb i' i) eqn:E.
        * apply Nat.eqb_eq in E. subst i'. rewrite Hn'.
          rewrite heap_set_nth_eq by (apply nth_error_Some; congruence). reflexivity.
        * apply Nat.eqb_neq in E. rewrite heap_set_nth_neq by congruence.
          destruct (nth_error H i); reflexivity.
      + destruct (Nat.eqb i' i) eqn:E.
        * apply Nat.eqb_eq in E. subst i'. rewrite Hn'. reflexivity.
        * destruct (nth_error H i); reflexivity.
    - destruct (nth_error H i); reflexivity.
  Qed.

  Lemma apply_phase_nth ty i cps : forall H,
    nth_error (apply_phase ty H cps) i = option_map (fun n => fold_left (lstep ty i) cps n) (nth_error H i).
  Proof.
    unfold apply_phase. induction cps as [|cp cps IH]; intros H; cbn [fold_left].
    - destruct (nth_error H i); reflexivity.
    - rewrite IH, apply_step_nth. destruct (nth_error H i); reflexivity.
  Qed.

  Definition lphases (cps : list (change * option nat)) (i : nat) (n : node) : node :=
    fold_left (fun n ty => fold_left (lstep ty i) cps n) phase_order n.

  Lemma apply_changes_nth H root cs i :
    nth_error (apply_changes e H root cs) i =
    option_map (lphases (resolve_parents e H root cs) i) (nth_error H i).
  Proof.
    unfold apply_changes, lphases, phase_order. cbn [fold_left].
    rewrite !apply_phase_nth. destruct (nth_error H i); reflexivity.
  Qed.

  Lemma apply_changes_length H root cs : length (apply_changes e H root cs) = length H.
  Proof.
    unfold apply_changes, phase_order. cbn [fold_left]. rewrite !apply_phase_length. reflexivity.
  Qed.

  (* changes grouped by parent *)
  Definition tagged {X} (key : X -> nat) (G : X -> list change) (x : X) : list (change * option nat) :=
    map (fun c => (c, Some (key x))) (G x).

  Lemma lstep_other {X} (key : X -> nat) G ty i (x : X) n : key x <> i ->
    fold_left (lstep ty i) (tagged key G x) n = n.
  Proof.
    intros Hne. unfold tagged. induction (G x) as [|c cs IH]; cbn [map fold_left]; [reflexivity |].
    unfold lstep at 2. cbn [fst snd]. apply Nat.eqb_neq in Hne. rewrite Hne.
    destruct (optype_eq_dec (type_of c) ty); exact IH.
  Qed.

  Lemma lstep_same {X} (key : X -> nat) G ty (x : X) : forall n,
    fold_left (lstep ty (key x)) (tagged key G x) n =
    fold_left (fun n c => apply_op c n) (filter (of_type ty) (G x)) n.
  Proof.
    unfold tagged. induction (G x) as [|c cs IH]; intros n; cbn [map fold_left filter]; [reflexivity |].
    unfold lstep at 2, of_type. cbn [fst snd]. rewrite Nat.eqb_refl.
    destruct (optype_eq_dec (type_of c) ty); cbn [fold_left]; apply IH.
  Qed.

  Lemma lstep_flat {X} (key : X -> nat) G ty i (l : list X) : forall n,
    (~ In i (map key l) -> fold_left (lstep ty i) (flat_map (tagged key G) l) n = n) /\
    (forall x, In x l -> key x = i -> NoDup (map key l) ->
       fold_left (lstep ty i) (flat_map (tagged key G) l) n =
       fold_left (fun n c => apply_op c n) (filter (of_type ty) (G x)) n).
  Proof.
    induction l as [|y l IH]; intros n; cbn [flat_map map In].
    - split; [reflexivity | intros x []].
    - rewrite fold_left_app. split.
      + intros Hnotin. rewrite lstep_other by (intros E; apply Hnotin; left; exact E).
        apply IH. intros Hin. apply Hnotin. right; exact Hin.
      + intros x Hin Hk Hnd. inversion Hnd as [|? ? Hny Hnd']; subst.
        destruct Hin as [Hin|Hin].
        * subst y. rewrite lstep_same. apply IH. exact Hny.
        * assert (Hne : key y <> key x).
          { intros E. apply Hny. rewrite E. apply in_map. exact Hin. }
          rewrite lstep_other by exact Hne. apply (proj2 (IH n) x Hin eq_refl Hnd').
  Qed.

  Lemma lphases_flat_in {X} (key : X -> nat) G (l : list X) x n :
    In x l -> NoDup (map key l) ->
    lphases (flat_map (tagged key G) l) (key x) n = apply_phases (G x) n.
  Proof.
    intros Hin Hnd. unfold lphases, apply_phases, phases, phase_order. cbn [fold_left].
    rewrite !(proj2 (lstep_flat key G _ (key x) l _) x Hin eq_refl Hnd). reflexivity.
  Qed.

  Lemma lphases_flat_notin {X} (key : X -> nat) G (l : list X) i n :
    ~ In i (map key l) -> lphases (flat_map (tagged key G) l) i n = n.
  Proof.
    intros Hnotin. unfold lphases, phase_order. cbn [fold_left].
    rewrite !(proj1 (lstep_flat key G _ i l _) Hnotin). reflexivity.
  Qed.

  Lemma resolve_flat {X} (key : X -> nat) (G : X -> list change) H root (l : list X) :
    (forall x c, In x l -> In c (G x) -> follow e H root (parent_of c) = Some (RP (key x))) ->
    resolve_parents e H root (flat_map G l) = flat_map (tagged key G) l.
  Proof.
    intros Hres. unfold resolve_parents. induction l as [|x l IH]; cbn [flat_map map]; [reflexivity |].
    rewrite map_app. f_equal.
    - unfold tagged. apply map_ext_in. intros c Hc. rewrite (Hres x c (or_introl eq_refl) Hc). reflexivity.
    - apply IH. intros y c Hy. apply Hres. right; exact Hy.
  Qed.
End Localize.

Lemma follow_app e h ext p : forall r v, follow e h r p = Some v -> follow e (h ++ ext) r p = Some v.
Proof.
  induction p as [|pe p IH]; intros r v H; cbn [follow] in *; [exact H |].
  destruct r as [a|i]; [discriminate |].
  destruct (nth_error h i) as [n|] eqn:Hn; [| discriminate].
  rewrite nth_error_app1 by (apply nth_error_Some; congruence). rewrite Hn.
  destruct (follow_node e n pe); [apply IH; exact H | discriminate].
Qed.

Lemma node_changes_parent al memo p no nn c : In c (node_changes al memo p no nn) -> parent_of c = p.
Proof.
  intros Hin.
  destruct no as [xo|xo|kvo|fo kvo|tyo fo|ko fo so to|o1 o2|o3 o4 o5|o6 o7|o8];
    destruct nn as [xn|xn|kvn|fn kvn|tyn fn|kn fn sn tn|n1 n2|n3 n4 n5|n6 n7|n8];
    cbn [node_changes] in Hin; try (destruct Hin; fail).
  - (* lists *)
    revert Hin. generalize 0. revert xn. induction xo as [|vo xo IH]; intros [|vn xn] idx Hin;
      cbn [seq_changes] in Hin; try (destruct Hin; fail).
    apply in_app_or in Hin. destruct Hin as [Hin|Hin]; [| eapply IH; eauto].
    destruct (aligned_or_equal al vo vn); [destruct Hin |]. destruct Hin as [Hin|[]]. subst c. reflexivity.
  - unfold dict_changes in Hin. apply in_app_or in Hin. destruct Hin as [Hin|Hin];
      apply in_flat_map in Hin; destruct Hin as ([k v] & _ & Hc); cbn [fst snd] in Hc.
    + destruct (akv_get kvn k) as [vn|]; [destruct (aligned_or_equal al v vn) |];
        try (destruct Hc; fail); destruct Hc as [Hc|[]]; subst c; reflexivity.
    + destruct (akv_get kvo k); try (destruct Hc; fail). destruct Hc as [Hc|[]]; subst c; reflexivity.
  - unfold dict_changes in Hin. apply in_app_or in Hin. destruct Hin as [Hin|Hin];
      apply in_flat_map in Hin; destruct Hin as ([k v] & _ & Hc); cbn [fst snd] in Hc.
    + destruct (akv_get kvn k) as [vn|]; [destruct (aligned_or_equal al v vn) |];
        try (destruct Hc; fail); destruct Hc as [Hc|[]]; subst c; reflexivity.
    + destruct (akv_get kvo k); try (destruct Hc; fail). destruct Hc as [Hc|[]]; subst c; reflexivity.
  - apply in_app_or in Hin. destruct Hin as [Hin|Hin].
    { destruct (N.eqb fo fn); [destruct Hin |]. destruct Hin as [Hin|[]]. subst c. reflexivity. }
    apply in_app_or in Hin. destruct Hin as [Hin|Hin].
    { rewrite tag_changes_eq in Hin. apply in_flat_map in Hin. destruct Hin as (k0 & _ & Hc).
      destruct k0 as [z|a]; [destruct Hc |]. cbn [tag_ops] in Hc. apply in_app_or in Hc.
      destruct Hc as [Hc|Hc]; apply in_map_iff in Hc; destruct Hc as (t & Hc & _); subst c; reflexivity. }
    unfold store_changes in Hin. apply in_app_or in Hin. destruct Hin as [Hin|Hin];
      apply in_flat_map in Hin; destruct Hin as ([k0 v] & _ & Hc); cbn [fst snd] in Hc;
      destruct k0 as [z|n]; try (destruct Hc; fail).
    + destruct (sget sn (KName n)) as [vn|]; [destruct (aligned_or_equal al v vn) |];
        try (destruct Hc; fail); destruct Hc as [Hc|[]]; subst c; reflexivity.
    + destruct (smem so (KName n)); try (destruct Hc; fail).
      destruct Hc as [Hc|[]]; subst c; reflexivity.
Qed.

(* PART 6: the round trip *)
(* ------------------------------------------------------------------------------------------ *)
(* side conditions on the heap and the alignment, as booleans *)

Definition heap_ok_b (h : heap) : bool := forallb node_ok_b h.

Definition align_tags_ok_b (al : list (nat * nat)) (h : heap) : bool :=
  forallb (fun ij => match nth_error h (fst ij), nth_error h (snd ij) with
                     | Some no, Some nn => tags_ok_b no && tags_ok_b nn
                     | _, _ => false
                     end) al.

(* every aligned old object is reachable from the old root *)
Definition old_reach_b (e : sigenv) (al : list (nat * nat)) (h : heap) (rold : ref) : bool :=
  forallb (fun ij => match paths_to e h (S (length h)) rold (fst ij) with
                     | [] => false
                     | _ :: _ => true
                     end) al.

(* every aligned new object is reachable from the new root *)
Definition new_reach_b (e : sigenv) (al : list (nat * nat)) (h : heap) (rnew : ref) : bool :=
  forallb (fun ij => match paths_to e h (S (length h)) rnew (snd ij) with
                     | [] => false
                     | _ :: _ => true
                     end) al.

Definition reach_ids (e : sigenv) (h : heap) (r : ref) : list nat :=
  flat_map (fun vp : ref * path => match fst vp with RP i => [i] | RA _ => [] end)
    (iter_basic e h (S (length h)) r []).

(* no object belongs to both structures *)
Definition disjoint_b (e : sigenv) (h : heap) (r1 r2 : ref) : bool :=
  forallb (fun i => negb (existsb (Nat.eqb i) (reach_ids e h r2))) (reach_ids e h r1).

(* ------------------------------------------------------------------------------------------ *)

Lemma heap_ok_nth h i n : heap_ok_b h = true -> nth_error h i = Some n -> node_ok_b n = true.
Proof.
  unfold heap_ok_b. rewrite forallb_forall. intros H Hn. apply H. eapply nth_error_In; eauto.
Qed.

Lemma heap_ok_keys h : heap_ok_b h = true -> keys_ok h.
Proof.
  intros H i n Hn. pose proof (heap_ok_nth h i n H Hn) as Hok.
  destruct n; cbn [node_ok_b node_keys_ok] in *; try exact I.
  - apply (nodup_b_spec atom_eqb atom_eqb_spec); exact Hok.
  - apply (nodup_b_spec atom_eqb atom_eqb_spec); exact Hok.
  - apply (nodup_b_spec N.eqb N.eqb_eq); exact Hok.
Qed.

Lemma flat_args_perm e fn args : NoDup (map fst args) -> Permutation (flat_args e fn args) args.
Proof.
  intros Hnd. apply same_elems_perm; [apply flat_args_ok | exact Hnd |].
  intros [k v]. split; intros Hin.
  - apply (flat_args_kv e fn args k v Hnd) in Hin.
    apply (gd_get_in skey_eqb skey_eqb_eq). exact Hin.
  - assert (Hg : sget args k = Some v) by (apply nodup_in_sget; assumption).
    pose proof (flat_args_has_key e fn args k v Hg) as Hk.
    apply in_map_iff in Hk. destruct Hk as ([k' v'] & Hk & Hin'). cbn [fst] in Hk. subst k'.
    pose proof (flat_args_kv e fn args k v' Hnd Hin') as Hg'. rewrite Hg in Hg'.
    inversion Hg'; subst. exact Hin'.
Qed.

Lemma refs_children e n x : node_ok_b n = true -> In x (refs_of n) -> In x (children e n).
Proof.
  destruct n; cbn [node_ok_b refs_of children]; intros Hok Hin; try exact Hin; try discriminate.
  apply (nodup_b_spec skey_eqb skey_eqb_eq) in Hok.
  eapply Permutation_in; [| exact Hin]. apply Permutation_map. apply Permutation_sym.
  apply flat_args_perm. exact Hok.
Qed.

Lemma combine_map_snd {K} (f : ref -> ref) (l : list (K * ref)) :
  combine (map fst l) (map f (map snd l)) = map_snd f l.
Proof. induction l as [|[k v] l IH]; cbn [map combine map_snd fst snd]; [reflexivity |]. f_equal. exact IH. Qed.

Lemma wc_canon e f n : node_ok_b n = true ->
  canon_node_tags (with_children e n (map f (children e n))) = canon_node_tags (map_node_refs f n).
Proof.
  destruct n; cbn [node_ok_b with_children children map_node_refs]; intros Hok; try reflexivity;
    try discriminate; try (rewrite combine_map_snd; reflexivity).
  apply (nodup_b_spec skey_eqb skey_eqb_eq) in Hok.
  rewrite combine_map_snd. cbn [canon_node_tags]. f_equal.
  - apply sort_store_perm_eq.
    + rewrite map_snd_keys. apply flat_args_ok.
    + unfold map_snd. apply Permutation_map. apply flat_args_perm. exact Hok.
  - apply canon_tags_filter.
Qed.

Lemma keyed_holes_map_snd {K} (f : ref -> ref) (l : list (K * ref)) :
  map (fun kv : K * ref => (fst kv, hole)) (map_snd f l) = map (fun kv : K * ref => (fst kv, hole)) l.
Proof. unfold map_snd. rewrite map_map. reflexivity. Qed.

Lemma canon_map_refs f n : node_ok_b n = true ->
  shape (canon_node_tags (map_node_refs f n)) = shape (canon_node_tags n) /\
  refs_of (canon_node_tags (map_node_refs f n)) = map f (refs_of (canon_node_tags n)).
Proof.
  intros Hok.
  destruct n; cbn [node_ok_b] in Hok; try discriminate;
    cbn [map_node_refs canon_node_tags shape refs_of];
    try (split; reflexivity);
    try (rewrite ?sort_kvs_map_snd, ?sort_store_map_snd, ?keyed_holes_map_snd, ?map_snd_vals;
         split; reflexivity).
  - split; [f_equal; rewrite map_map; reflexivity | reflexivity].
  - split; [f_equal; rewrite map_map; reflexivity | reflexivity].
Qed.

Lemma refs_of_canon_in x n : In x (refs_of (canon_node_tags n)) -> In x (refs_of n).
Proof.
  destruct n; cbn [canon_node_tags refs_of]; intros H; try exact H.
  - apply in_map_iff in H. destruct H as ([k0 v] & Hv & Hin). cbn [snd] in Hv. subst v.
    apply (proj1 (sort_kvs_In _ _)) in Hin. change x with (snd (k0, x)). apply in_map. exact Hin.
  - apply in_map_iff in H. destruct H as ([k0 v] & Hv & Hin). cbn [snd] in Hv. subst v.
    apply (proj1 (sort_kvs_In _ _)) in Hin. change x with (snd (k0, x)). apply in_map. exact Hin.
  - apply in_map_iff in H. destruct H as ([k0 v] & Hv & Hin). cbn [snd] in Hv. subst v.
    apply (proj1 (sort_store_In _ _)) in Hin. change x with (snd (k0, x)). apply in_map. exact Hin.
Qed.

Lemma refs_of_in_canon x n : In x (refs_of n) -> In x (refs_of (canon_node_tags n)).
Proof.
  destruct n; cbn [canon_node_tags refs_of]; intros H; try exact H.
  - apply in_map_iff in H. destruct H as ([k0 v] & Hv & Hin). cbn [snd] in Hv. subst v.
    apply (proj2 (sort_kvs_In _ _)) in Hin. change x with (snd (k0, x)). apply in_map. exact Hin.
  - apply in_map_iff in H. destruct H as ([k0 v] & Hv & Hin). cbn [snd] in Hv. subst v.
    apply (proj2 (sort_kvs_In _ _)) in Hin. change x with (snd (k0, x)). apply in_map. exact Hin.
  - apply in_map_iff in H. destruct H as ([k0 v] & Hv & Hin). cbn [snd] in Hv. subst v.
    apply (proj2 (sort_store_In _ _)) in Hin. change x with (snd (k0, x)). apply in_map. exact Hin.
Qed.

Lemma Forall2_map_l {A} (R : A -> A -> Prop) (f : A -> A) l :
  (forall x, In x l -> R (f x) x) -> Forall2 R (map f l) l.
Proof.
  induction l as [|x l IH]; intros H; cbn [map]; constructor.
  - apply H. left; reflexivity.
  - apply IH. intros y Hy. apply H. right; exact Hy.
Qed.

Lemma memo_get_of_in' (m : list (nat * ref)) i x :
  NoDup (map fst m) -> In (i, x) m -> memo_get m i = Some x.
Proof.
  induction m as [|[a ra] m IH]; cbn [map fst memo_get In]; intros Hnd Hin; [destruct Hin |].
  inversion Hnd as [|? ? Hnotin Hnd']; subst.
  destruct Hin as [Heq|Hin].
  - inversion Heq; subst. rewrite Nat.eqb_refl. reflexivity.
  - destruct (Nat.eqb i a) eqn:Hia; [| auto].
    apply Nat.eqb_eq in Hia. subst a. exfalso. apply Hnotin.
    apply in_map_iff. exists (i, x). split; [reflexivity | exact Hin].
Qed.

Lemma reach_ids_spec e h r i : wf_b e h = true -> keys_ok h ->
  (In i (reach_ids e h r) <-> Build_stmt.reach e h r i).
Proof.
  intros Hwf Hk. unfold reach_ids, Build_stmt.reach. rewrite in_flat_map. split.
  - intros ([v p] & Hin & Hv). cbn [fst] in Hv. destruct v as [a|i']; [destruct Hv |].
    destruct Hv as [Hv|[]]. subst i'. exists p. eapply iter_basic_sound; eauto.
  - intros [p Hp]. exists (RP i, p). split; [apply iter_basic_complete; assumption | left; reflexivity].
Qed.

Lemma paths_nonempty_reach e h r i : wf_b e h = true -> keys_ok h ->
  (match paths_to e h (S (length h)) r i with [] => false | _ :: _ => true end) = true ->
  follow e h r (first_path e h r i) = Some (RP i).
Proof.
  intros Hwf Hk H. unfold first_path.
  destruct (paths_to e h (S (length h)) r i) as [|p ps] eqn:E; [discriminate |].
  apply (proj1 (paths_to_exact e h Hwf Hk r i)). rewrite E. left; reflexivity.
Qed.

Lemma existsb_nat_false i l : existsb (Nat.eqb i) l = false -> ~ In i l.
Proof.
  intros H Hin. assert (existsb (Nat.eqb i) l = true)
    by (apply existsb_exists; exists i; split; [exact Hin | apply Nat.eqb_refl]). congruence.
Qed.


(* the values an operation stores *)
Definition change_value (c : change) : option ref :=
  match c with CSet _ _ v | CModify _ _ v => Some v | _ => None end.

Lemma node_changes_values al memo p no nn c v :
  In c (node_changes al memo p no nn) -> change_value c = Some v ->
  (exists vn, In vn (refs_of nn) /\ v = tau memo vn) \/ (exists f, v = RA (ASym f)).
Proof.
  intros Hin Hv.
  destruct no as [xo|xo|kvo|fo kvo|tyo fo|ko fo so to|o1 o2|o3 o4 o5|o6 o7|o8];
    destruct nn as [xn|xn|kvn|fn kvn|tyn fn|kn fn sn tn|n1 n2|n3 n4 n5|n6 n7|n8];
    cbn [node_changes] in Hin; try (destruct Hin; fail); cbn [refs_of].
  - left. revert Hin. generalize 0. revert xn. induction xo as [|vo xo IH]; intros [|vn xn] idx Hin;
      cbn [seq_changes] in Hin; try (destruct Hin; fail).
    apply in_app_or in Hin. destruct Hin as [Hin|Hin].
    + destruct (aligned_or_equal al vo vn); [destruct Hin |]. destruct Hin as [Hin|[]]. subst c.
      cbn [change_value] in Hv. inversion Hv. exists vn. split; [left; reflexivity | reflexivity].
    + destruct (IH xn (S idx) Hin) as (vn' & Hin' & Hv'). exists vn'. split; [right; exact Hin' | exact Hv'].
  - left. unfold dict_changes in Hin. apply in_app_or in Hin. destruct Hin as [Hin|Hin];
      apply in_flat_map in Hin; destruct Hin as ([k0 v0] & Hkv & Hc); cbn [fst snd] in Hc.
    + destruct (akv_get kvn k0) as [vn|] eqn:E; [destruct (aligned_or_equal al v0 vn) |];
        try (destruct Hc; fail); destruct Hc as [Hc|[]]; subst c; cbn [change_value] in Hv; [| discriminate].
      inversion Hv. exists vn. split; [| reflexivity].
      rewrite akv_get_dget in E. apply (gd_get_in atom_eqb atom_eqb_spec) in E.
      change vn with (snd (k0, vn)). apply in_map. exact E.
    + destruct (akv_get kvo k0); try (destruct Hc; fail). destruct Hc as [Hc|[]]; subst c.
      cbn [change_value] in Hv. inversion Hv. exists v0. split; [| reflexivity].
      change v0 with (snd (k0, v0)). apply in_map. exact Hkv.
  - left. unfold dict_changes in Hin. apply in_app_or in Hin. destruct Hin as [Hin|Hin];
      apply in_flat_map in Hin; destruct Hin as ([k0 v0] & Hkv & Hc); cbn [fst snd] in Hc.
    + destruct (akv_get kvn k0) as [vn|] eqn:E; [destruct (aligned_or_equal al v0 vn) |];
        try (destruct Hc; fail); destruct Hc as [Hc|[]]; subst c; cbn [change_value] in Hv; [| discriminate].
      inversion Hv. exists vn. split; [| reflexivity].
      rewrite akv_get_dget in E. apply (gd_get_in atom_eqb atom_eqb_spec) in E.
      change vn with (snd (k0, vn)). apply in_map. exact E.
    + destruct (akv_get kvo k0); try (destruct Hc; fail). destruct Hc as [Hc|[]]; subst c.
      cbn [change_value] in Hv. inversion Hv. exists v0. split; [| reflexivity].
      change v0 with (snd (k0, v0)). apply in_map. exact Hkv.
  - apply in_app_or in Hin. destruct Hin as [Hin|Hin].
    { right. destruct (N.eqb fo fn); [destruct Hin |]. destruct Hin as [Hin|[]]. subst c.
      cbn [change_value] in Hv. inversion Hv. eauto. }
    apply in_app_or in Hin. destruct Hin as [Hin|Hin].
    { exfalso. apply tag_changes_types in Hin. destruct c; cbn in Hin, Hv; destruct Hin; discriminate. }
    left. unfold store_changes in Hin. apply in_app_or in Hin. destruct Hin as [Hin|Hin];
      apply in_flat_map in Hin; destruct Hin as ([k0 v0] & Hkv & Hc); cbn [fst snd] in Hc;
      destruct k0 as [z|n]; try (destruct Hc; fail).
    + destruct (sget sn (KName n)) as [vn|] eqn:E; [destruct (aligned_or_equal al v0 vn) |];
        try (destruct Hc; fail); destruct Hc as [Hc|[]]; subst c; cbn [change_value] in Hv; [| discriminate].
      inversion Hv. exists vn. split; [| reflexivity].
      apply (gd_get_in skey_eqb skey_eqb_eq) in E. change vn with (snd (KName n, vn)). apply in_map. exact E.
    + destruct (smem so (KName n)); try (destruct Hc; fail).
      destruct Hc as [Hc|[]]; subst c. cbn [change_value] in Hv. inversion Hv.
      exists v0. split; [| reflexivity]. change v0 with (snd (KName n, v0)). apply in_map. exact Hkv.
Qed.

(* ------------------------------------------------------------------------------------------ *)

Section RoundTrip.
  Variable e : sigenv.
  Variable al : list (nat * nat).
  Variable h : heap.
  Variables i0 j0 : nat.
  Hypothesis Hwf : wf_b e h = true.
  Hypothesis Hok : heap_ok_b h = true.
  Hypothesis Hal : alignment_ok al h (RP i0) (RP j0) = true.
  Hypothesis Htags : align_tags_ok_b al h = true.
  Hypothesis Hreach : old_reach_b e al h (RP i0) = true.

  Let Hkeys : keys_ok h := heap_ok_keys h Hok.

  Lemma al_nodup_fst : NoDup (map fst al).
  Proof.
    unfold alignment_ok in Hal. apply andb_true_iff in Hal. destruct Hal as [Hal1 _].
    apply andb_true_iff in Hal1. destruct Hal1 as [Hal1 _].
    apply andb_true_iff in Hal1. destruct Hal1 as [Hal1 _].
    apply nodup_nat_spec. assumption.
  Qed.
  Lemma al_nodup_snd : NoDup (map snd al).
  Proof.
    unfold alignment_ok in Hal. apply andb_true_iff in Hal. destruct Hal as [Hal1 _].
    apply andb_true_iff in Hal1. destruct Hal1 as [Hal1 _].
    apply andb_true_iff in Hal1. destruct Hal1 as [_ Hal1].
    apply nodup_nat_spec. assumption.
  Qed.
  Lemma al_roots : In (i0, j0) al.
  Proof.
    unfold alignment_ok in Hal. apply andb_true_iff in Hal. destruct Hal as [Hal1 _].
    apply andb_true_iff in Hal1. destruct Hal1 as [_ Hal1].
    apply existsb_exists in Hal1. destruct Hal1 as ([i j] & Hin & Hij). cbn [fst snd] in Hij.
    apply andb_true_iff in Hij. destruct Hij as [Hi Hj]. apply Nat.eqb_eq in Hi, Hj. subst. exact Hin.
  Qed.
  Lemma al_pair i j : In (i, j) al ->
    exists no nn, nth_error h i = Some no /\ nth_error h j = Some nn /\ same_kind al no nn = true /\
                  tags_ok_b no = true /\ tags_ok_b nn = true /\
                  follow e h (RP i0) (first_path e h (RP i0) i) = Some (RP i).
  Proof.
    intros Hin. unfold alignment_ok in Hal. apply andb_true_iff in Hal. destruct Hal as [_ Hk].
    rewrite forallb_forall in Hk. specialize (Hk _ Hin). cbn [fst snd] in Hk.
    unfold align_tags_ok_b in Htags. rewrite forallb_forall in Htags. specialize (Htags _ Hin).
    cbn [fst snd] in Htags.
    unfold old_reach_b in Hreach. rewrite forallb_forall in Hreach. specialize (Hreach _ Hin).
    cbn [fst] in Hreach.
    destruct (nth_error h i) as [no|]; [| discriminate].
    destruct (nth_error h j) as [nn|]; [| discriminate].
    apply andb_true_iff in Htags. destruct Htags as [H1 H2].
    exists no, nn. repeat split; auto. apply paths_nonempty_reach; assumption.
  Qed.
  Lemma al_lt i j : In (i, j) al -> i < length h.
  Proof.
    intros Hin. destruct (al_pair i j Hin) as (no & _ & Hn & _). apply nth_error_Some. congruence.
  Qed.
  Lemma root_new_ok : root_ok h (RP j0).
  Proof.
    destruct (al_pair i0 j0 al_roots) as (_ & nn & _ & Hn & _). cbn [root_ok].
    apply nth_error_Some. congruence.
  Qed.

  Variables (s : mstate) (res : ref + fail).
  Hypothesis Hrun : mrun e h (db_node e al) (RP j0) = (s, res).

  Notation T := (tau (memo s)).

  Definition pair_changes (ij : nat * nat) : list change :=
    match nth_error h (fst ij), nth_error h (snd ij) with
    | Some no, Some nn => node_changes al (memo s) (first_path e h (RP i0) (fst ij)) no nn
    | _, _ => []
    end.
  Definition all_changes : list change := flat_map pair_changes al.
  Definition patched : heap := apply_changes e (out s) (RP i0) all_changes.

  Lemma patch_eq : patch e al h (RP i0) (RP j0) = Some patched.
  Proof.
    unfold patch, build_changes. rewrite Hrun.
    destruct (db_total e al h Hwf (RP j0) s res root_new_ok Hrun) as [r' Hres]. rewrite Hres.
    reflexivity.
  Qed.

  Lemma out_prefix : exists ext, out s = h ++ ext.
  Proof. exact (db_prefix e al h Hwf (RP j0) s res root_new_ok Hrun). Qed.

  Lemma out_old i n : nth_error h i = Some n -> nth_error (out s) i = Some n.
  Proof.
    intros Hn. destruct out_prefix as [ext Ho]. rewrite Ho.
    rewrite nth_error_app1 by (apply nth_error_Some; congruence). exact Hn.
  Qed.

  Lemma resolved :
    resolve_parents e (out s) (RP i0) all_changes = flat_map (tagged fst pair_changes) al.
  Proof.
    apply resolve_flat. intros [i j] c Hin Hc. cbn [fst].
    destruct (al_pair i j Hin) as (no & nn & Hno & Hnn & _ & _ & _ & Hf).
    unfold pair_changes in Hc. cbn [fst snd] in Hc. rewrite Hno, Hnn in Hc.
    apply node_changes_parent in Hc. rewrite Hc.
    destruct out_prefix as [ext Ho]. rewrite Ho. apply follow_app. exact Hf.
  Qed.

  Lemma patched_aligned i j no nn : In (i, j) al -> nth_error h i = Some no -> nth_error h j = Some nn ->
    nth_error patched i =
    Some (apply_phases (node_changes al (memo s) (first_path e h (RP i0) i) no nn) no).
  Proof.
    intros Hin Hno Hnn. unfold patched. rewrite apply_changes_nth, resolved.
    rewrite (out_old i no Hno). cbn [option_map]. f_equal.
    change i with (fst (i, j)) at 1.
    rewrite (lphases_flat_in fst pair_changes al (i, j) no Hin al_nodup_fst).
    unfold pair_changes. cbn [fst snd]. rewrite Hno, Hnn. reflexivity.
  Qed.

  Lemma patched_other i : ~ In i (map fst al) -> nth_error patched i = nth_error (out s) i.
  Proof.
    intros Hnotin. unfold patched. rewrite apply_changes_nth, resolved.
    destruct (nth_error (out s) i) as [n|]; [| reflexivity]. cbn [option_map]. f_equal.
    apply lphases_flat_notin. exact Hnotin.
  Qed.

  Lemma patched_length : length patched = length (out s).
  Proof. apply apply_changes_length. Qed.

  Definition bij_of : bij := map (fun jk : nat * nat => (snd jk, fst jk)) (memo_bij (memo s)).

  Lemma bij_of_in k j : In (k, j) bij_of <-> memo_get (memo s) j = Some (RP k).
  Proof.
    unfold bij_of. rewrite in_map_iff. split.
    - intros ([j' k'] & Heq & Hin). cbn [fst snd] in Heq. inversion Heq; subst.
      apply memo_bij_in in Hin. apply memo_get_of_in'; [| exact Hin].
      exact (db_memo_nodup e al h Hwf (RP j0) s res root_new_ok Hrun).
    - intros Hg. exists (j, k). split; [reflexivity |]. apply memo_bij_in. apply memo_get_in. exact Hg.
  Qed.

  Lemma aligned_tau j rj n : memo_get (memo s) j = Some rj -> nth_error h j = Some n ->
    forall vo vn, In vn (children e n) -> aligned_or_equal al vo vn = true -> vo = T vn.
  Proof.
    intros Hg Hn vo vn Hin Ha.
    destruct vo as [a|i'], vn as [b|j']; cbn [aligned_or_equal] in Ha; try discriminate.
    - destruct (atom_eq_dec a b); [subst; reflexivity | discriminate].
    - destruct (old_of al j') as [i''|] eqn:Ho; [| discriminate]. apply Nat.eqb_eq in Ha. subst i''.
      destruct (db_child_memo e al h Hwf (RP j0) s res root_new_ok Hrun j rj n j' Hg Hn Hin) as [k Hk].
      cbn [tau]. rewrite Hk.
      destruct (db_lookup e al h Hwf (RP j0) s res root_new_ok Hrun j' _ Hk)
        as (n' & _ & _ & [(i2 & Hi2 & Hr)|(Hnone & _)]); congruence.
  Qed.

  Lemma node_at k j : memo_get (memo s) j = Some (RP k) ->
    exists nn x, nth_error h j = Some nn /\ nth_error patched k = Some x /\
                 canon_node_tags x = canon_node_tags (map_node_refs T nn) /\
                 (forall c, In c (children e nn) -> map_ref (memo s) c = Some (T c)).
  Proof.
    intros Hg.
    destruct (db_lookup e al h Hwf (RP j0) s res root_new_ok Hrun j _ Hg)
      as (nn & Hnn & Hch & [(i & Hi & Hr)|(Hnone & k' & Hr & Hk' & Hnth)]).
    - inversion Hr; subst i. apply old_of_in_some in Hi.
      destruct (al_pair k j Hi) as (no & nn' & Hno & Hnn' & Hsk & Hto & Htn & _).
      rewrite Hnn in Hnn'. inversion Hnn'; subst nn'.
      exists nn, (apply_phases (node_changes al (memo s) (first_path e h (RP i0) k) no nn) no).
      split; [exact Hnn |]. split; [apply (patched_aligned k j no nn Hi Hno Hnn) |]. split; [| exact Hch].
      apply node_patch_ok; auto.
      + eapply heap_ok_nth; eauto.
      + eapply heap_ok_nth; eauto.
      + intros vo vn Hin. apply (aligned_tau j _ nn Hg Hnn).
        apply refs_children; [eapply heap_ok_nth; eauto | exact Hin].
    - inversion Hr; subst k'.
      exists nn, (with_children e nn (map T (children e nn))).
      split; [exact Hnn |]. split; [| split; [| exact Hch]].
      + rewrite patched_other; [exact Hnth |].
        intros Hin. apply in_map_iff in Hin. destruct Hin as ([i j'] & Hi & Hin). cbn [fst] in Hi. subst i.
        pose proof (al_lt k j' Hin). lia.
      + apply wc_canon. eapply heap_ok_nth; eauto.
  Qed.

  Theorem round_trip :
    bij_wf bij_of /\
    simulates (map canon_node_tags patched) (map canon_node_tags h) bij_of /\
    rel_ref bij_of (RP i0) (RP j0).
  Proof.
    split; [| split].
    - intros k j k' j' H1 H2. apply bij_of_in in H1, H2. split; intros Heq.
      + subst k'. eapply (db_inj e al h Hwf (RP j0) s res root_new_ok Hrun); eauto.
        * exact al_nodup_fst.
        * exact al_lt.
      + subst j'. rewrite H1 in H2. inversion H2; reflexivity.
    - intros k j Hin. apply bij_of_in in Hin.
      destruct (node_at k j Hin) as (nn & x & Hnn & Hx & Hcanon & Hch).
      exists (canon_node_tags x), (canon_node_tags nn).
      split; [rewrite nth_error_map, Hx; reflexivity |].
      split; [rewrite nth_error_map, Hnn; reflexivity |].
      rewrite Hcanon. destruct (canon_map_refs T nn (heap_ok_nth h j nn Hok Hnn)) as [Hsh Hrf]. split; [exact Hsh |].
      rewrite Hrf. apply Forall2_map_l. intros r Hr.
      apply refs_of_canon_in in Hr.
      apply (refs_children e) in Hr; [| eapply heap_ok_nth; eauto].
      specialize (Hch _ Hr). destruct r as [a|j']; [reflexivity |].
      cbn [map_ref] in Hch.
      destruct (db_tau_ptr e al h Hwf (RP j0) s res root_new_ok Hrun j' _ Hch) as [k' Hk'].
      rewrite Hk'. cbn [rel_ref]. apply bij_of_in. rewrite Hch. f_equal. exact Hk'.
    - cbn [rel_ref]. apply bij_of_in.
      destruct (db_total e al h Hwf (RP j0) s res root_new_ok Hrun) as [r' Hres].
      pose proof (db_root_image e al h Hwf (RP j0) s res root_new_ok Hrun r' Hres) as Hri.
      cbn [map_ref] in Hri. rewrite Hri. f_equal.
      destruct (db_lookup e al h Hwf (RP j0) s res root_new_ok Hrun j0 _ Hri)
        as (n' & _ & _ & [(i2 & Hi2 & Hr)|(Hnone & _)]).
      + rewrite Hr. f_equal. unfold old_of in Hi2.
        rewrite (old_of_in_of al i0 j0 al_nodup_snd al_roots) in Hi2. congruence.
      + unfold old_of in Hnone. rewrite (old_of_in_of al i0 j0 al_nodup_snd al_roots) in Hnone.
        discriminate.
  Qed.

  Theorem frame_old i : ~ In i (map fst al) -> i < length h -> nth_error patched i = nth_error h i.
  Proof.
    intros Hnotin Hlt. rewrite patched_other by exact Hnotin.
    destruct out_prefix as [ext Ho]. rewrite Ho. apply nth_error_app1. exact Hlt.
  Qed.

  Theorem frame_new : disjoint_b e h (RP i0) (RP j0) = true ->
    forall j, Build_stmt.reach e h (RP j0) j -> nth_error patched j = nth_error h j.
  Proof.
    intros Hdis j Hr.
    assert (Hlt : j < length h).
    { apply reach_creach in Hr. destruct root_new_ok.
      - pose proof (creach_le e h Hwf _ _ Hr j0 eq_refl). lia.
      - pose proof (creach_le e h Hwf _ _ Hr j0 eq_refl). unfold lt in *. lia. }
    apply frame_old; [| exact Hlt].
    intros Hin. apply in_map_iff in Hin. destruct Hin as ([i j'] & Hi & Hin). cbn [fst] in Hi. subst i.
    destruct (al_pair j j' Hin) as (_ & _ & _ & _ & _ & _ & _ & Hf).
    unfold disjoint_b in Hdis. rewrite forallb_forall in Hdis.
    assert (H1 : In j (reach_ids e h (RP i0))).
    { apply reach_ids_spec; auto. exists (first_path e h (RP i0) j). exact Hf. }
    specialize (Hdis j H1). apply negb_true_iff in Hdis. apply existsb_nat_false in Hdis.
    apply Hdis. apply reach_ids_spec; auto.
  Qed.

  Theorem patched_grows : length h <= length patched.
  Proof.
    rewrite patched_length. destruct out_prefix as [ext Ho]. rewrite Ho, app_length. lia.
  Qed.

  (* every pointer a change stores is an aligned old object or a copy made by the traversal *)
  Theorem change_targets : new_reach_b e al h (RP j0) = true ->
    forall c k, In c all_changes -> change_value c = Some (RP k) ->
    In k (map fst al) \/ length h <= k < length (out s).
  Proof.
    intros Hnew c k Hc Hv. unfold all_changes in Hc. apply in_flat_map in Hc.
    destruct Hc as ([i j] & Hin & Hc).
    destruct (al_pair i j Hin) as (no & nn & Hno & Hnn & _).
    unfold pair_changes in Hc. cbn [fst snd] in Hc. rewrite Hno, Hnn in Hc.
    destruct (node_changes_values _ _ _ _ _ _ _ Hc Hv) as [(vn & Hvn & Hk)|(f & Hf)]; [| discriminate].
    destruct vn as [a|j']; [discriminate |].
    unfold new_reach_b in Hnew. rewrite forallb_forall in Hnew. specialize (Hnew _ Hin). cbn [snd] in Hnew.
    assert (Hreachj : creach e h (RP j0) j).
    { apply reach_creach. exists (first_path e h (RP j0) j). apply paths_nonempty_reach; assumption. }
    destruct (db_creach_memo e al h Hwf (RP j0) s res root_new_ok Hrun j Hreachj) as [rj Hrj].
    assert (Hchild : In (RP j') (children e nn)).
    { apply refs_children; [eapply heap_ok_nth; eauto | exact Hvn]. }
    destruct (db_child_memo e al h Hwf (RP j0) s res root_new_ok Hrun j rj nn j' Hrj Hnn Hchild) as [k' Hk'].
    cbn [tau] in Hk. rewrite Hk' in Hk. inversion Hk; subst k'.
    destruct (db_lookup e al h Hwf (RP j0) s res root_new_ok Hrun j' _ Hk')
      as (n' & _ & _ & [(i2 & Hi2 & Hr)|(_ & k2 & Hr & Hlt & _)]).
    - left. inversion Hr; subst i2. apply old_of_in_some in Hi2.
      change k with (fst (k, j')). apply in_map. exact Hi2.
    - right. inversion Hr; subst k2. exact Hlt.
  Qed.

  (* whatever the patched old structure reaches is an aligned old object or a copy made by the
     traversal: it shares no object with the new structure *)
  Lemma patched_image_gen r k : rreach patched r k ->
    (forall k0, r = RP k0 -> exists j, memo_get (memo s) j = Some (RP k0)) ->
    exists j, memo_get (memo s) j = Some (RP k).
  Proof.
    induction 1 as [i|i n c k Hn Hc Hck IH]; intros Hroot.
    - apply Hroot. reflexivity.
    - apply IH. intros k0 E. subst c.
      destruct (Hroot i eq_refl) as [j Hj].
      destruct (node_at i j Hj) as (nn & x & Hnn & Hx & Hcanon & Hch).
      rewrite Hn in Hx. inversion Hx; subst x.
      apply refs_of_in_canon in Hc. rewrite Hcanon in Hc.
      rewrite (proj2 (canon_map_refs T nn (heap_ok_nth h j nn Hok Hnn))) in Hc.
      apply in_map_iff in Hc. destruct Hc as (r0 & Hr0 & Hin).
      apply refs_of_canon_in in Hin.
      apply (refs_children e) in Hin; [| eapply heap_ok_nth; eauto].
      specialize (Hch _ Hin). destruct r0 as [a|j']; [discriminate |].
      cbn [map_ref] in Hch. exists j'. rewrite Hch, Hr0. reflexivity.
  Qed.

  Theorem patched_image k : rreach patched (RP i0) k -> exists j, memo_get (memo s) j = Some (RP k).
  Proof.
    intros Hr. apply (patched_image_gen _ _ Hr).
    intros k0 E. inversion E; subst k0. exists j0. apply bij_of_in.
    exact (proj2 (proj2 round_trip)).
  Qed.

  Theorem patched_independent k : rreach patched (RP i0) k ->
    In k (map fst al) \/ length h <= k < length patched.
  Proof.
    intros Hr. destruct (patched_image k Hr) as [j Hj].
    destruct (db_lookup e al h Hwf (RP j0) s res root_new_ok Hrun j _ Hj)
      as (n' & _ & _ & [(i2 & Hi2 & Hr2)|(_ & k2 & Hr2 & Hlt & _)]).
    - left. inversion Hr2; subst i2. apply old_of_in_some in Hi2.
      change k with (fst (k, j)). apply in_map. exact Hi2.
    - right. inversion Hr2; subst k2. rewrite patched_length. exact Hlt.
  Qed.
End RoundTrip.

(* PART 7: the statements of C10 (round trip), necessity witnesses, examples *)
(* graphs compared up to the storage order of arguments, dict insertion order and empty tag
   entries (C10Check.canon_node_tags): a one-to-one correspondence between the pointers of the two
   graphs under which corresponding nodes have the same data and corresponding references *)
Definition graph_iso (h1 : heap) (r1 : ref) (h2 : heap) (r2 : ref) : Prop :=
  exists m, bij_wf m /\
            simulates (map canon_node_tags h1) (map canon_node_tags h2) m /\
            rel_ref m r1 r2.

Lemma same_graph_iso h1 r1 h2 r2 : same_graph h1 r1 h2 r2 = true -> graph_iso h1 r1 h2 r2.
Proof. unfold same_graph, graph_iso. apply iso_b_sound. Qed.

Theorem patch_yields_new : forall e al h rold rnew,
  wf_b e h = true ->
  heap_ok_b h = true ->
  alignment_ok al h rold rnew = true ->
  align_tags_ok_b al h = true ->
  old_reach_b e al h rold = true ->
  exists h',
    patch e al h rold rnew = Some h' /\
    graph_iso h' rold h rnew /\
    length h <= length h' /\
    (forall i, i < length h -> ~ In i (map fst al) -> nth_error h' i = nth_error h i) /\
    (disjoint_b e h rold rnew = true ->
     forall j, Build_stmt.reach e h rnew j -> nth_error h' j = nth_error h j).
Proof.
  intros e al h rold rnew Hwf Hok Hal Htags Hreach.
  assert (Hroots : exists i0 j0, rold = RP i0 /\ rnew = RP j0).
  { unfold alignment_ok in Hal. apply andb_true_iff in Hal. destruct Hal as [Hal _].
    apply andb_true_iff in Hal. destruct Hal as [_ Hal].
    destruct rold as [a|i0]; [discriminate |]. destruct rnew as [b|j0]; [discriminate |]. eauto. }
  destruct Hroots as (i0 & j0 & -> & ->).
  destruct (mrun e h (db_node e al) (RP j0)) as [s res] eqn:Hrun.
  exists (patched e al h i0 s).
  split; [eapply patch_eq; eauto |].
  split.
  { exists (bij_of s). eapply round_trip; eauto. }
  split; [eapply patched_grows; eauto |].
  split.
  { intros i Hlt Hnotin. eapply frame_old; eauto. }
  { intros Hdis j Hr. eapply frame_new; eauto. }
Qed.

Theorem patch_frame : forall e al h rold rnew,
  wf_b e h = true ->
  heap_ok_b h = true ->
  alignment_ok al h rold rnew = true ->
  align_tags_ok_b al h = true ->
  old_reach_b e al h rold = true ->
  exists o cs,
    build_changes e al h rold rnew = Some (o, cs) /\
    patch e al h rold rnew = Some (apply_changes e o rold cs) /\
    (exists ext, o = h ++ ext) /\
    length (apply_changes e o rold cs) = length o /\
    (forall i, ~ In i (map fst al) -> nth_error (apply_changes e o rold cs) i = nth_error o i) /\
    (new_reach_b e al h rnew = true ->
     forall c k, In c cs -> change_value c = Some (RP k) ->
                 In k (map fst al) \/ length h <= k < length o).
Proof.
  intros e al h rold rnew Hwf Hok Hal Htags Hreach.
  assert (Hroots : exists i0 j0, rold = RP i0 /\ rnew = RP j0).
  { unfold alignment_ok in Hal. apply andb_true_iff in Hal. destruct Hal as [Hal _].
    apply andb_true_iff in Hal. destruct Hal as [_ Hal].
    destruct rold as [a|i0]; [discriminate |]. destruct rnew as [b|j0]; [discriminate |]. eauto. }
  destruct Hroots as (i0 & j0 & -> & ->).
  destruct (mrun e h (db_node e al) (RP j0)) as [s res] eqn:Hrun.
  pose proof (patch_eq e al h i0 j0 Hwf Hok Hal Htags Hreach s res Hrun) as Hp.
  exists (out s), (all_changes e al h i0 s).
  split.
  { unfold patch in Hp. unfold build_changes in *. rewrite Hrun in *.
    destruct res as [r'|fl]; [reflexivity | discriminate]. }
  split; [exact Hp |].
  split; [eapply out_prefix; eauto |].
  split; [apply apply_changes_length |].
  split.
  { intros i Hnotin. eapply (patched_other e al h i0 j0); eauto. }
  { intros Hnew c k. eapply change_targets; eauto. }
Qed.

(* the patched old structure is made of aligned old objects and fresh copies only *)
Theorem patch_independent : forall e al h rold rnew h',
  wf_b e h = true ->
  heap_ok_b h = true ->
  alignment_ok al h rold rnew = true ->
  align_tags_ok_b al h = true ->
  old_reach_b e al h rold = true ->
  patch e al h rold rnew = Some h' ->
  forall k, rreach h' rold k -> In k (map fst al) \/ length h <= k < length h'.
Proof.
  intros e al h rold rnew h' Hwf Hok Hal Htags Hreach Hp k Hr.
  assert (Hroots : exists i0 j0, rold = RP i0 /\ rnew = RP j0).
  { unfold alignment_ok in Hal. apply andb_true_iff in Hal. destruct Hal as [Hal _].
    apply andb_true_iff in Hal. destruct Hal as [_ Hal].
    destruct rold as [a|i0]; [discriminate |]. destruct rnew as [b|j0]; [discriminate |]. eauto. }
  destruct Hroots as (i0 & j0 & -> & ->).
  destruct (mrun e h (db_node e al) (RP j0)) as [s res] eqn:Hrun.
  rewrite (patch_eq e al h i0 j0 Hwf Hok Hal Htags Hreach s res Hrun) in Hp.
  inversion Hp; subst h'. eapply patched_independent; eauto.
Qed.

(* ------------------------------------------------------------------------------------------ *)
(* an aligned pair whose contents are aligned_or_equal records nothing *)

Definition node_unchanged_b (al : list (nat * nat)) (no nn : node) : bool :=
  match no, nn with
  | NBuildable _ fo so to, NBuildable _ fn sn tn =>
      N.eqb fo fn
      && forallb (fun kv : skey * ref => match sget sn (fst kv) with
                                         | Some vn => aligned_or_equal al (snd kv) vn
                                         | None => false
                                         end) so
      && forallb (fun kv : skey * ref => smem so (fst kv)) sn
      && forallb (fun k => if list_eq_dec N.eq_dec (tags_get to k) (tags_get tn k) then true else false)
           (map fst to ++ map fst tn)
  | NDict kvo, NDict kvn | NDefaultDict _ kvo, NDefaultDict _ kvn =>
      forallb (fun kv : atom * ref => match akv_get kvn (fst kv) with
                                      | Some vn => aligned_or_equal al (snd kv) vn
                                      | None => false
                                      end) kvo
      && forallb (fun kv : atom * ref => match akv_get kvo (fst kv) with Some _ => true | None => false end) kvn
  | NList xo, NList xn => forallb (fun ab => aligned_or_equal al (fst ab) (snd ab)) (combine xo xn)
  | _, _ => true
  end.

Lemma flat_map_nil {A B} (F : A -> list B) l : (forall x, In x l -> F x = []) -> flat_map F l = [].
Proof.
  induction l as [|x l IH]; intros H; cbn [flat_map]; [reflexivity |].
  rewrite (H x (or_introl eq_refl)). apply IH. intros y Hy. apply H. right; exact Hy.
Qed.

Lemma filter_not_self l : filter (fun t => negb (existsb (N.eqb t) l)) l = [].
Proof.
  apply filter_none. intros t Ht. apply negb_false_iff. apply existsb_exists.
  exists t. split; [exact Ht | apply N.eqb_refl].
Qed.

Theorem unchanged_gives_no_changes : forall al memo p no nn,
  node_unchanged_b al no nn = true -> node_changes al memo p no nn = [].
Proof.
  intros al memo p no nn H.
  destruct no as [xo|xo|kvo|fo kvo|tyo fo|ko fo so to|o1 o2|o3 o4 o5|o6 o7|o8];
    destruct nn as [xn|xn|kvn|fn kvn|tyn fn|kn fn sn tn|n1 n2|n3 n4 n5|n6 n7|n8];
    cbn [node_changes node_unchanged_b] in *; try reflexivity.
  - revert H. generalize 0. revert xn. induction xo as [|vo xo IH]; intros [|vn xn] idx H;
      cbn [seq_changes]; try reflexivity.
    cbn [combine forallb fst snd] in H. apply andb_true_iff in H. destruct H as [H1 H2].
    rewrite H1. cbn [app]. apply IH. exact H2.
  - apply andb_true_iff in H. destruct H as [H1 H2]. rewrite forallb_forall in H1, H2.
    unfold dict_changes. rewrite !flat_map_nil; [reflexivity | |].
    + intros kv Hkv. specialize (H2 _ Hkv). destruct (akv_get kvo (fst kv)); [reflexivity | discriminate].
    + intros kv Hkv. specialize (H1 _ Hkv). destruct (akv_get kvn (fst kv)); [| discriminate].
      rewrite H1. reflexivity.
  - apply andb_true_iff in H. destruct H as [H1 H2]. rewrite forallb_forall in H1, H2.
    unfold dict_changes. rewrite !flat_map_nil; [reflexivity | |].
    + intros kv Hkv. specialize (H2 _ Hkv). destruct (akv_get kvo (fst kv)); [reflexivity | discriminate].
    + intros kv Hkv. specialize (H1 _ Hkv). destruct (akv_get kvn (fst kv)); [| discriminate].
      rewrite H1. reflexivity.
  - apply andb_true_iff in H. destruct H as [H Htg]. apply andb_true_iff in H. destruct H as [H Hsn].
    apply andb_true_iff in H. destruct H as [Hfn Hso].
    rewrite Hfn. cbn [app]. rewrite forallb_forall in Hso, Hsn, Htg.
    assert (Htc : tag_changes p to tn = []).
    { rewrite tag_changes_eq. apply flat_map_nil. intros k Hk. apply tag_keys_in in Hk.
      assert (Hin : In k (map fst to ++ map fst tn)) by (apply in_or_app; exact Hk).
      specialize (Htg _ Hin).
      destruct (list_eq_dec N.eq_dec (tags_get to k) (tags_get tn k)) as [E|]; [| discriminate].
      destruct k as [z|a]; [reflexivity |]. cbn [tag_ops]. rewrite E, !filter_not_self. reflexivity. }
    rewrite Htc. cbn [app]. unfold store_changes. rewrite !flat_map_nil; [reflexivity | |].
    + intros kv Hkv. specialize (Hsn _ Hkv). destruct (fst kv); [reflexivity |]. rewrite Hsn. reflexivity.
    + intros kv Hkv. specialize (Hso _ Hkv). destruct (fst kv) as [z|a]; [reflexivity |].
      destruct (sget sn (KName a)); [| discriminate]. rewrite Hso. reflexivity.
Qed.

(* ------------------------------------------------------------------------------------------ *)
(* EXAMPLE: an old configuration with a shared sub-object; in the new one an argument is deleted,
   one added, one modified, the callable changed, a tag added, and a new shared sub-object is
   referenced twice. *)

Definition pk_ (n : N) : param := mkparam n PosOrKw None false.
Definition rt_env : sigenv :=
  [(10%N, [pk_ 0; pk_ 1; pk_ 2; pk_ 3]); (11%N, [pk_ 0; pk_ 1; pk_ 2; pk_ 4]); (12%N, [pk_ 5])]%N.

Definition rt_heap : heap :=
  [ (* old *)
    NBuildable BConfig 12%N [(KName 5%N, RA (AInt 1))] [];                            (* 0: shared *)
    NBuildable BConfig 10%N
      [(KName 0%N, RP 0); (KName 1%N, RP 0); (KName 2%N, RA (AInt 7)); (KName 3%N, RA (AStr [104%N]))]
      [(KName 0%N, [20%N])];                                                          (* 1: old root *)
    (* new *)
    NBuildable BConfig 12%N [(KName 5%N, RA (AInt 1))] [];                            (* 2: ~ 0 *)
    NList [RA (AInt 5)];                                                              (* 3: new, shared *)
    NBuildable BConfig 11%N
      [(KName 0%N, RP 2); (KName 2%N, RA (AInt 8)); (KName 4%N, RP 3); (KName 1%N, RP 3)]
      [(KName 0%N, [20%N]); (KName 2%N, [21%N])]                                      (* 4: new root *)
  ].
Definition rt_al : list (nat * nat) := [(1, 4); (0, 2)].

Example rt_example_hyps :
  wf_b rt_env rt_heap = true /\
  heap_ok_b rt_heap = true /\
  alignment_ok rt_al rt_heap (RP 1) (RP 4) = true /\
  align_tags_ok_b rt_al rt_heap = true /\
  old_reach_b rt_env rt_al rt_heap (RP 1) = true /\
  new_reach_b rt_env rt_al rt_heap (RP 4) = true /\
  disjoint_b rt_env rt_heap (RP 1) (RP 4) = true.
Proof. vm_compute. repeat split. Qed.

Example rt_example_changes :
  build_changes rt_env rt_al rt_heap (RP 1) (RP 4) =
  Some (rt_heap ++ [NList [RA (AInt 5)]],
        [CModify [] LFn (RA (ASym 11%N));
         CAddTag [] 2%N 21%N;
         CModify [] (LAttr 1%N) (RP 5);
         CModify [] (LAttr 2%N) (RA (AInt 8));
         CDelete [] (LAttr 3%N);
         CSet [] (LAttr 4%N) (RP 5)]).
Proof. vm_compute. reflexivity. Qed.

Example rt_example_patch :
  patch rt_env rt_al rt_heap (RP 1) (RP 4) =
  Some [ NBuildable BConfig 12%N [(KName 5%N, RA (AInt 1))] [];
         NBuildable BConfig 11%N
           [(KName 0%N, RP 0); (KName 1%N, RP 5); (KName 2%N, RA (AInt 8)); (KName 4%N, RP 5)]
           [(KName 0%N, [20%N]); (KName 2%N, [21%N])];
         NBuildable BConfig 12%N [(KName 5%N, RA (AInt 1))] [];
         NList [RA (AInt 5)];
         NBuildable BConfig 11%N
           [(KName 0%N, RP 2); (KName 2%N, RA (AInt 8)); (KName 4%N, RP 3); (KName 1%N, RP 3)]
           [(KName 0%N, [20%N]); (KName 2%N, [21%N])];
         NList [RA (AInt 5)] ].
Proof. vm_compute. reflexivity. Qed.

Example rt_example_same_graph :
  match patch rt_env rt_al rt_heap (RP 1) (RP 4) with
  | Some h' => same_graph h' (RP 1) rt_heap (RP 4)
  | None => false
  end = true.
Proof. vm_compute. reflexivity. Qed.

(* the identity alignment of a configuration with its copy records nothing *)
Definition id_heap : heap :=
  [ NBuildable BConfig 12%N [(KName 5%N, RA (AInt 1))] [(KName 5%N, [20%N])];
    NDict [(AStr [1%N], RP 0); (AInt 2, RA ANone)];
    NBuildable BConfig 10%N [(KName 0%N, RP 0); (KName 1%N, RP 1)] [];
    NBuildable BConfig 12%N [(KName 5%N, RA (AInt 1))] [(KName 5%N, [20%N])];
    NDict [(AStr [1%N], RP 3); (AInt 2, RA ANone)];
    NBuildable BConfig 10%N [(KName 0%N, RP 3); (KName 1%N, RP 4)] [] ].
Definition id_al : list (nat * nat) := [(2, 5); (1, 4); (0, 3)].

Example id_example :
  alignment_ok id_al id_heap (RP 2) (RP 5) = true /\
  forallb (fun ij => match nth_error id_heap (fst ij), nth_error id_heap (snd ij) with
                     | Some no, Some nn => node_unchanged_b id_al no nn
                     | _, _ => false
                     end) id_al = true /\
  build_changes rt_env id_al id_heap (RP 2) (RP 5) = Some (id_heap, []).
Proof. vm_compute. repeat split. Qed.

(* ------------------------------------------------------------------------------------------ *)
(* necessity of two conditions of alignment_ok *)

(* alignment_ok with the element condition on tuples dropped from same_kind *)
Definition same_kind_no_tuple (al : list (nat * nat)) (no nn : node) : bool :=
  match no, nn with
  | NTuple xo, NTuple xn => Nat.eqb (length xo) (length xn)
  | _, _ => same_kind al no nn
  end.
Definition alignment_ok_no_tuple (al : list (nat * nat)) (h : heap) (rold rnew : ref) : bool :=
  nodup_nat (map fst al) && nodup_nat (map snd al)
  && match rold, rnew with
     | RP i, RP j => existsb (fun ij => Nat.eqb (fst ij) i && Nat.eqb (snd ij) j) al
     | _, _ => false
     end
  && forallb (fun ij => match nth_error h (fst ij), nth_error h (snd ij) with
                        | Some no, Some nn => same_kind_no_tuple al no nn
                        | _, _ => false
                        end) al.
(* alignment_ok without the one-to-one condition *)
Definition alignment_ok_not_1to1 (al : list (nat * nat)) (h : heap) (rold rnew : ref) : bool :=
  match rold, rnew with
  | RP i, RP j => existsb (fun ij => Nat.eqb (fst ij) i && Nat.eqb (snd ij) j) al
  | _, _ => false
  end
  && forallb (fun ij => match nth_error h (fst ij), nth_error h (snd ij) with
                        | Some no, Some nn => same_kind al no nn
                        | _, _ => false
                        end) al.

Definition tup_heap : heap :=
  [ NTuple [RA (AInt 1)]; NList [RP 0];          (* old: [ (1,) ] *)
    NTuple [RA (AInt 2)]; NList [RP 2] ].        (* new: [ (2,) ] *)
Definition tup_al : list (nat * nat) := [(1, 3); (0, 2)].

Theorem patch_needs_tuple_condition :
  exists e al h rold rnew h',
    wf_b e h = true /\ heap_ok_b h = true /\
    alignment_ok_no_tuple al h rold rnew = true /\
    align_tags_ok_b al h = true /\ old_reach_b e al h rold = true /\
    new_reach_b e al h rnew = true /\ disjoint_b e h rold rnew = true /\
    patch e al h rold rnew = Some h' /\
    same_graph h' rold h rnew = false /\
    ~ graph_iso h' rold h rnew.
Proof.
  exists [], tup_al, tup_heap, (RP 1), (RP 3), tup_heap.
  repeat (split; [vm_compute; reflexivity |]).
  intros (m & Hw & Hs & Hr). cbn [rel_ref] in Hr.
  destruct (Hs _ _ Hr) as (n1 & n2 & H1 & H2 & _ & Hf).
  vm_compute in H1, H2. inversion H1; inversion H2; subst n1 n2. cbn [refs_of] in Hf.
  inversion Hf as [|? ? ? ? Hr' _]; subst. cbn [rel_ref] in Hr'.
  destruct (Hs _ _ Hr') as (n1 & n2 & H1' & H2' & _ & Hf').
  vm_compute in H1', H2'. inversion H1'; inversion H2'; subst n1 n2. cbn [refs_of] in Hf'.
  inversion Hf' as [|? ? ? ? Hr'' _]; subst. cbn [rel_ref] in Hr''. discriminate.
Qed.

Definition dup_heap : heap :=
  [ NList [RA (AInt 1)]; NList [RP 0; RP 0];                        (* old: x = [1]; [x, x] *)
    NList [RA (AInt 1)]; NList [RA (AInt 2)]; NList [RP 2; RP 3] ]. (* new: [[1], [2]] *)
Definition dup_al : list (nat * nat) := [(1, 4); (0, 2); (0, 3)].
Definition dup_after : heap :=
  [ NList [RA (AInt 2)]; NList [RP 0; RP 0];
    NList [RA (AInt 1)]; NList [RA (AInt 2)]; NList [RP 2; RP 3] ].

Theorem patch_needs_one_to_one :
  exists e al h rold rnew h',
    wf_b e h = true /\ heap_ok_b h = true /\
    alignment_ok_not_1to1 al h rold rnew = true /\
    align_tags_ok_b al h = true /\ old_reach_b e al h rold = true /\
    new_reach_b e al h rnew = true /\ disjoint_b e h rold rnew = true /\
    patch e al h rold rnew = Some h' /\
    same_graph h' rold h rnew = false /\
    ~ graph_iso h' rold h rnew.
Proof.
  exists [], dup_al, dup_heap, (RP 1), (RP 4), dup_after.
  repeat (split; [vm_compute; reflexivity |]).
  intros (m & Hw & Hs & Hr). cbn [rel_ref] in Hr.
  destruct (Hs _ _ Hr) as (n1 & n2 & H1 & H2 & _ & Hf).
  vm_compute in H1, H2. inversion H1; inversion H2; subst n1 n2. cbn [refs_of] in Hf.
  inversion Hf as [|? ? ? ? Ha Hf']; subst. inversion Hf' as [|? ? ? ? Hb _]; subst.
  cbn [rel_ref] in Ha, Hb. pose proof (proj1 (Hw _ _ _ _ Ha Hb) eq_refl). discriminate.
Qed.


(* ------------------------------------------------------------------------------------------ *)
(* No acyclicity condition on the alignment is needed in this model.  The alignment below is one
   the real DiffAlignment refuses ("would create a cycle"): old A contains B, B is aligned with B',
   which contains A', which is aligned with A.  All hypotheses of patch_yields_new hold and the
   patched old structure R -> B -> A is isomorphic to R' -> B' -> A' (it is not cyclic: it is
   isomorphic to the new structure, which is not; the patched heap is no longer in "children
   first" order, which the statement does not require). *)
Definition cyc_heap : heap :=
  [ NList [RA (AInt 7)]; NList [RP 0]; NList [RP 1];       (* old: B = 0, A = 1 = [B], R = 2 = [A] *)
    NList [RA (AInt 9)]; NList [RP 3]; NList [RP 4] ].     (* new: A' = 3, B' = 4 = [A'], R' = 5 = [B'] *)
Definition cyc_al : list (nat * nat) := [(2, 5); (1, 3); (0, 4)].

Example cyc_example :
  wf_b [] cyc_heap = true /\ heap_ok_b cyc_heap = true /\
  alignment_ok cyc_al cyc_heap (RP 2) (RP 5) = true /\
  align_tags_ok_b cyc_al cyc_heap = true /\ old_reach_b [] cyc_al cyc_heap (RP 2) = true /\
  patch [] cyc_al cyc_heap (RP 2) (RP 5) =
    Some [ NList [RP 1]; NList [RA (AInt 9)]; NList [RP 0];
           NList [RA (AInt 9)]; NList [RP 3]; NList [RP 4] ] /\
  match patch [] cyc_al cyc_heap (RP 2) (RP 5) with
  | Some h' => same_graph h' (RP 2) cyc_heap (RP 5) && negb (wf_b [] h')
  | None => false
  end = true.
Proof. vm_compute. repeat split. Qed.

(* tags under integer keys are invisible to the differ (record_tag_diffs is modelled for named
   arguments only): align_tags_ok_b cannot be dropped *)
Definition ptag_heap : heap :=
  [ NBuildable BConfig 12%N [] [(KPos 0, [20%N])];       (* old: a tag on positional argument 0 *)
    NBuildable BConfig 12%N [] [] ].                     (* new: no tag *)
Definition ptag_al : list (nat * nat) := [(0, 1)].

Theorem patch_needs_named_tags :
  exists e al h rold rnew h',
    wf_b e h = true /\ heap_ok_b h = true /\
    alignment_ok al h rold rnew = true /\
    old_reach_b e al h rold = true /\
    new_reach_b e al h rnew = true /\ disjoint_b e h rold rnew = true /\
    align_tags_ok_b al h = false /\
    patch e al h rold rnew = Some h' /\
    same_graph h' rold h rnew = false /\
    ~ graph_iso h' rold h rnew.
Proof.
  exists rt_env, ptag_al, ptag_heap, (RP 0), (RP 1), ptag_heap.
  repeat (split; [vm_compute; reflexivity |]).
  intros (m & Hw & Hs & Hr). cbn [rel_ref] in Hr.
  destruct (Hs _ _ Hr) as (n1 & n2 & H1 & H2 & Hsh & _).
  vm_compute in H1, H2. inversion H1; inversion H2; subst n1 n2. discriminate.
Qed.
