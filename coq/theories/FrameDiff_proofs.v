(* C17 for the differ: build_diff_from_alignment + resolve_diff_references only allocate the copies
   of the new, unaligned objects; old and new are left as they are. *)
From Fiddle Require Import PyBase PySlice Sig ArgStore PyCall Heap Traverse Build Build_stmt
  Traverse_proofs Build_proofs Copy Tags History Diff DiffBuild Frame_proofs.
From Coq Require Import List Arith Lia.

Lemma db_appends e al : appends (db_node e al).
Proof. intros i n rs o o' x H. unfold db_node in H. solve_appends. Qed.

Theorem build_changes_frame e al h rold rnew o cs :
  wf_b e h = true -> root_ok h rnew ->
  build_changes e al h rold rnew = Some (o, cs) ->
  firstn (length h) o = h /\ (length h <= length o)%nat.
Proof.
  intros Hwf Hroot H. unfold build_changes in H.
  destruct (mrun e h (db_node e al) rnew) as [s res] eqn:Hrun.
  destruct res as [r'|fl]; [| discriminate].
  inversion H; subst.
  exact (frame_generic e h (db_node e al) Hwf (db_appends e al) rnew s (inl r') Hroot Hrun).
Qed.
