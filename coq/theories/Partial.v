(* Partial: fdl.Partial / fdl.ArgFactory.  Building gives a functools.partial-like object whose
   bound arguments may be argument factories; every call of it merges call-time arguments,
   invokes the factories (fresh objects), and calls the underlying callable.

   Factories are represented by reserved named tuples:
     NNamedTuple FACTORY [(0, f)]   partial._BuiltArgFactory(f): what building an ArgFactory gives;
                                    f = RA (ASym fn) (the callable itself) or RP p (a built partial)
     NNamedTuple FACTORY [(2, f)]   arg_factory.ArgFactory(f): the wrapper bound into a partial for ONE
                                    argument (a new wrapper per binding)
     NNamedTuple FACTORY [(3, c)]   the wrapper for a promoted container c: each call passes a copy of c
                                    with the factories inside it invoked *)
From Fiddle Require Import PyBase PySlice Sig ArgStore PyCall Heap Traverse.

Definition FACTORY : N := 4000000%N.

Definition mk_factory (tagn : N) (f : ref) : node := NNamedTuple FACTORY [(tagn, f)].
Definition factory_of (n : node) : option (N * ref) :=
  match n with
  | NNamedTuple ty [(t, f)] => if N.eqb ty FACTORY then Some (t, f) else None
  | _ => None
  end.

Section Partial.
  Variable e : sigenv.

  (* _contains_arg_factory *)
  Fixpoint contains_factory (fuel : nat) (h : heap) (r : ref) : bool :=
    match r, fuel with
    | RP i, S f =>
        match nth_error h i with
        | Some n =>
            match factory_of n with
            | Some _ => true
            | None => if traversable n then existsb (contains_factory f h) (children e n) else false
            end
        | None => false
        end
    | _, _ => false
    end.

  (* _promote_arg_factory followed by the wrapping that arg_factory.partial performs: an argument
     that is a built factory, or a container holding one, is bound through a fresh wrapper *)
  Definition bind_arg (o : heap) (r : ref) : heap * ref :=
    match r with
    | RP i =>
        match nth_error o i with
        | Some n =>
            match factory_of n with
            | Some (_, f) => alloc o (mk_factory 2 f)
            | None => if contains_factory (S (length o)) o r then alloc o (mk_factory 3 r) else (o, r)
            end
        | None => (o, r)
        end
    | RA _ => (o, r)
    end.

  Definition is_wrapper (o : heap) (r : ref) : bool :=
    match r with
    | RP i => match nth_error o i with
              | Some n => match factory_of n with Some _ => true | None => false end
              | None => false
              end
    | RA _ => false
    end.

  Fixpoint promote_all (o : heap) (rs : list ref) : heap * list ref :=
    match rs with
    | [] => (o, [])
    | r :: rs' => let '(o1, r1) := bind_arg o r in let '(o2, rs2) := promote_all o1 rs' in (o2, r1 :: rs2)
    end.

  Fixpoint promote_kw (o : heap) (kw : list (N * ref)) : heap * list (N * ref) :=
    match kw with
    | [] => (o, [])
    | (k, r) :: kw' => let '(o1, r1) := bind_arg o r in let '(o2, kw2) := promote_kw o1 kw' in (o2, (k, r1) :: kw2)
    end.

  (* the keyword order of the object _build_partial returns: factory-bound keywords and value-bound
     keywords are attached to different layers; value keywords come first exactly when the
     positional arguments start with a value (itertools.groupby over the positional arguments) *)
  Definition order_kw (o : heap) (pos : list ref) (kw : list (N * ref)) : list (N * ref) :=
    let af := filter (fun kv => is_wrapper o (snd kv)) kw in
    let fk := filter (fun kv => negb (is_wrapper o (snd kv))) kw in
    match pos with
    | p :: _ => if is_wrapper o p then af ++ fk else fk ++ af
    | [] => af ++ fk
    end.

  (* the build traversal for Partial / ArgFactory / Config nodes *)
  Definition pbuild_node (i : nat) (n : node) (rs : list ref) (o : heap) : heap * (ref + fail) :=
    match n with
    | NBuildable k fn args tags =>
        let args' := combine (map fst (flat_args e fn args)) rs in
        match transform_build (sig_of e fn) args' with
        | None => (o, inr (FType i))
        | Some (pos, kws) =>
            let kw := flat_map (fun kv => match fst kv with KName nm => [(nm, snd kv)] | KPos _ => [] end) kws in
            match k with
            | BConfig =>
                match py_call (sig_of e fn) pos kws with
                | None => (o, inr (FType i))
                | Some vw => let '(o', r) := alloc o (NObj fn vw) in (o', inl r)
                end
            | BPartial =>
                let '(o1, pos1) := promote_all o pos in
                let '(o2, kw1) := promote_kw o1 kw in
                let '(o3, r) := alloc o2 (NPartialObj fn pos1 (order_kw o2 pos1 kw1)) in (o3, inl r)
            | BArgFactory =>
                match pos, kw with
                | [], [] => let '(o', r) := alloc o (mk_factory 0 (RA (ASym fn))) in (o', inl r)
                | _, _ =>
                    let '(o1, pos1) := promote_all o pos in
                    let '(o2, kw1) := promote_kw o1 kw in
                    let '(o3, p) := alloc o2 (NPartialObj fn pos1 (order_kw o2 pos1 kw1)) in
                    let '(o4, r) := alloc o3 (mk_factory 0 p) in (o4, inl r)
                end
            | BTagged => (o, inr (FRaise i 0%N))
            end
        end
    | NList _ | NTuple _ | NDict _ | NDefaultDict _ _ | NNamedTuple _ _ =>
        let '(o', r) := alloc o (with_children e n rs) in (o', inl r)
    | _ => (o, inl (RP i))
    end.

  Definition pbuild (h : heap) (r : ref) : mstate * (ref + fail) := mrun e h pbuild_node r.

  (* functools.partial keyword merge: call-time keywords override, new ones are appended *)
  Fixpoint merge_kw (bound call : list (N * ref)) : list (N * ref) :=
    match call with
    | [] => bound
    | (k, v) :: call' => merge_kw (dset N.eqb bound k v) call'
    end.

  (* Calling a built partial.  `memo` implements _invoke_arg_factories' memoization, which is per
     top-level argument.  Returns the extended heap and the result (None: TypeError). *)
  Fixpoint call_partial (fuel : nat) (o : heap) (p : ref) (cpos : list ref) (ckw : list (N * ref))
    : heap * option ref :=
    match fuel with
    | O => (o, None)
    | S f =>
        match p with
        | RP i =>
            match nth_error o i with
            | Some (NPartialObj fn pos kw) =>
                let all_pos := pos ++ cpos in
                let all_kw := merge_kw kw ckw in
                (* _InvokeArgFactoryWrapper: each top-level argument that is a factory is invoked *)
                let fix inv_list (o : heap) (l : list ref) : heap * option (list ref) :=
                  match l with
                  | [] => (o, Some [])
                  | x :: l' =>
                      match invoke_arg f o x with
                      | (o1, Some x') =>
                          match inv_list o1 l' with
                          | (o2, Some l'') => (o2, Some (x' :: l''))
                          | (o2, None) => (o2, None)
                          end
                      | (o1, None) => (o1, None)
                      end
                  end in
                let fix inv_kw (o : heap) (l : list (N * ref)) : heap * option (list (N * ref)) :=
                  match l with
                  | [] => (o, Some [])
                  | (k, x) :: l' =>
                      match invoke_arg f o x with
                      | (o1, Some x') =>
                          match inv_kw o1 l' with
                          | (o2, Some l'') => (o2, Some ((k, x') :: l''))
                          | (o2, None) => (o2, None)
                          end
                      | (o1, None) => (o1, None)
                      end
                  end in
                match inv_list o all_pos with
                | (o1, Some pos') =>
                    match inv_kw o1 all_kw with
                    | (o2, Some kw') =>
                        match py_call (sig_of e fn) pos' (map (fun kv => (KName (fst kv), snd kv)) kw') with
                        | Some vw => let '(o3, r) := alloc o2 (NObj fn vw) in (o3, Some r)
                        | None => (o2, None)
                        end
                    | (o2, None) => (o2, None)
                    end
                | (o1, None) => (o1, None)
                end
            | _ => (o, None)
            end
        | RA _ => (o, None)
        end
    end
  (* a top-level argument: a factory is invoked, anything else is passed as it is *)
  with invoke_arg (fuel : nat) (o : heap) (x : ref) : heap * option ref :=
    match fuel with
    | O => (o, None)
    | S f =>
        match x with
        | RP i =>
            match nth_error o i with
            | Some n =>
                match factory_of n with
                | Some (t, g) =>
                    if N.eqb t 3 then (* promoted container: copy the spine that holds factories *)
                      let '(o', _, r) := invoke_struct f o [] g in (o', r)
                    else invoke_factory f o g
                | None => (o, Some x)
                end
            | None => (o, Some x)
            end
        | RA _ => (o, Some x)
        end
    end
  (* factory() *)
  with invoke_factory (fuel : nat) (o : heap) (g : ref) : heap * option ref :=
    match fuel with
    | O => (o, None)
    | S f =>
        match g with
        | RA (ASym fn) =>
            match py_call (sig_of e fn) [] [] with
            | Some vw => let '(o', r) := alloc o (NObj fn vw) in (o', Some r)
            | None => (o, None)
            end
        | RP _ => call_partial f o g [] []
        | _ => (o, None)
        end
    end
  (* _invoke_arg_factories over one argument: memoized by identity; containers without a changed
     child are returned as they are *)
  with invoke_struct (fuel : nat) (o : heap) (memo : list (nat * ref)) (x : ref)
    : heap * list (nat * ref) * option ref :=
    match fuel with
    | O => (o, memo, None)
    | S f =>
        match x with
        | RA _ => (o, memo, Some x)
        | RP i =>
            match memo_get memo i with
            | Some r => (o, memo, Some r)
            | None =>
                match nth_error o i with
                | Some n =>
                    match factory_of n with
                    | Some (t, g) =>
                        match (if N.eqb t 3 then let '(o', _, r) := invoke_struct f o [] g in (o', r)
                               else invoke_factory f o g) with
                        | (o1, Some r) => (o1, (i, r) :: memo, Some r)
                        | (o1, None) => (o1, memo, None)
                        end
                    | None =>
                        if traversable n then
                          let fix go (o : heap) (memo : list (nat * ref)) (l : list ref)
                            : heap * list (nat * ref) * option (list ref) :=
                            match l with
                            | [] => (o, memo, Some [])
                            | c :: l' =>
                                match invoke_struct f o memo c with
                                | (o1, m1, Some c') =>
                                    match go o1 m1 l' with
                                    | (o2, m2, Some l'') => (o2, m2, Some (c' :: l''))
                                    | (o2, m2, None) => (o2, m2, None)
                                    end
                                | (o1, m1, None) => (o1, m1, None)
                                end
                            end in
                          match go o memo (children e n) with
                          | (o1, m1, Some cs) =>
                              if (if list_eq_dec ref_eq_dec cs (children e n) then true else false)
                              then (o1, (i, x) :: m1, Some x)
                              else let '(o2, r) := alloc o1 (with_children e n cs) in (o2, (i, r) :: m1, Some r)
                          | (o1, m1, None) => (o1, m1, None)
                          end
                        else (o, (i, x) :: memo, Some x)
                    end
                | None => (o, memo, Some x)
                end
            end
        end
    end.

  Definition call (o : heap) (p : ref) (cpos : list ref) (ckw : list (N * ref)) : heap * option ref :=
    call_partial (S (S (length o)) * 4) o p cpos ckw.
End Partial.
