(* Copy: copy.deepcopy / pickle round trip / copy.copy / fdl.cast on object graphs. *)
From Fiddle Require Import PyBase PySlice Sig ArgStore PyCall Heap Traverse.

Definition refs_eqb (a b : list ref) : bool := if list_eq_dec ref_eq_dec a b then true else false.

Section Copy.
  Variable e : sigenv.

  (* copy.deepcopy memoizes by identity and rebuilds every container; a tuple whose elements all
     came back identical is returned as it is (copy._deepcopy_tuple); a pickle round trip always
     creates new objects.  Symbols (functions, classes) and leaves are atoms. *)
  Definition copy_node (pickle : bool) (i : nat) (n : node) (rs : list ref) (o : heap)
    : heap * (ref + fail) :=
    match n with
    | NTuple xs =>
        if negb pickle && refs_eqb rs xs then (o, inl (RP i))
        else let '(o', r) := alloc o (NTuple rs) in (o', inl r)
    | NSet _ _ => let '(o', r) := alloc o n in (o', inl r)
    | _ =>
        if traversable n then let '(o', r) := alloc o (with_children e n rs) in (o', inl r)
        else (o, inl (RP i))
    end.

  Definition deepcopy (pickle : bool) (h : heap) (r : ref) : mstate * (ref + fail) :=
    mrun e h (copy_node pickle) r.

  (* Buildable.__copy__ = __unflatten__( *__flatten__() ); fdl.cast changes the Buildable type *)
  Definition shallow (k' : option bkind) (h : heap) (r : ref) : option (heap * ref) :=
    match r with
    | RP i =>
        match nth_error h i with
        | Some (NBuildable k fn args tags) =>
            let k2 := match k' with Some x => x | None => k end in
            match with_children e (NBuildable k2 fn args tags) (children e (NBuildable k fn args tags)) with
            | n' => Some (alloc h n')
            end
        | _ => None
        end
    | RA _ => None
    end.
End Copy.
