(* Eq: Buildable.__eq__ (_compare_buildable): values with defaults compared with Python ==, then
   the DAG structure compared through the sorted lists of first-visit paths of a memoized,
   defaults-aware traversal that does not memoize internables. *)
From Fiddle Require Import PyBase PySlice Sig ArgStore PyCall Heap Traverse.

(* Python == on leaves: bool is an int; everything else is equal only to itself.  Floats are
   compared by their hex text (the generator avoids integer-valued floats and signed zeros). *)
Definition atom_py_eq (a b : atom) : bool :=
  match a, b with
  | AInt x, ABool y | ABool y, AInt x => x =? (if y then 1 else 0)
  | _, _ => atom_eqb a b
  end.

Definition flags_defaults := mkflags true true false true true.

Section Eq.
  Variable e : sigenv.
  Variable h : heap.

  (* the defaults-aware traverser registered for Buildables *)
  Definition flat_args_d (fn : N) (args : store) : store :=
    match ordered_arguments (sig_of e fn) ref_never_eq flags_defaults args with
    | inl r => r
    | inr _ => []
    end.

  Definition children_d (n : node) : list ref :=
    match n with
    | NBuildable _ fn args _ => map snd (flat_args_d fn args)
    | _ => children e n
    end.
  Definition elts_d (n : node) : list pelt :=
    match n with
    | NBuildable _ fn args _ => map (fun kv => key_elt (fst kv)) (flat_args_d fn args)
    | _ => elts e n
    end.

  (* iterate(memoized=True, memoize_internables=False, registry=defaults-aware): first-visit paths *)
  Fixpoint iter_memo_d (fuel : nat) (seen : list ref) (r : ref) (p : path)
    : list ref * list (ref * path) :=
    match r with
    | RA (ASym _) => if existsb (ref_eqb r) seen then (seen, []) else (r :: seen, [(r, p)])
    | RA _ => (seen, [(r, p)])
    | RP i =>
        let memoized := negb (internable h (S (length h)) r) in
        if memoized && existsb (ref_eqb r) seen then (seen, []) else
        match fuel with
        | O => (seen, [])
        | S f =>
            match nth_error h i with
            | Some n =>
                let '(seen', ys) :=
                  (fix go (seen : list ref) (cs : list ref) (es : list pelt)
                     : list ref * list (ref * path) :=
                     match cs, es with
                     | c :: cs', pe :: es' =>
                         let '(s1, y1) := iter_memo_d f seen c (p ++ [pe]) in
                         let '(s2, y2) := go s1 cs' es' in
                         (s2, y1 ++ y2)
                     | _, _ => (seen, [])
                     end) (if memoized then r :: seen else seen) (children_d n) (elts_d n) in
                (seen', (r, p) :: ys)
            | None => (seen, [])
            end
        end
    end.

  Definition first_paths (r : ref) : list path :=
    map snd (snd (iter_memo_d (S (length h)) [] r [])).

  (* sorted(x_paths) == sorted(y_paths) for a total order: equality as multisets *)
  Fixpoint remove_one (p : path) (l : list path) : option (list path) :=
    match l with
    | [] => None
    | q :: l' => if path_eq_dec p q then Some l'
                 else match remove_one p l' with Some r => Some (q :: r) | None => None end
    end.
  Fixpoint perm_b (a b : list path) : bool :=
    match a with
    | [] => match b with [] => true | _ => false end
    | p :: a' => match remove_one p b with Some b' => perm_b a' b' | None => false end
    end.

  Definition dag_eq (r1 r2 : ref) : bool := perm_b (first_paths r1) (first_paths r2).

  (* get_value_or_default *)
  Definition default_of (sg : sig) (k : skey) : option ref :=
    match k with
    | KName n => match find_param sg n with Some p => pdefault p | None => None end
    | KPos i =>
        if 0 <=? i then
          match nth_error sg (Z.to_nat i) with
          | Some p => if is_prefix_kind (pk p) then pdefault p else None
          | None => None
          end
        else None
    end.
  Definition val_or_default (fn : N) (args : store) (k : skey) : option ref :=
    match sget args k with Some v => Some v | None => default_of (sig_of e fn) k end.

  Definition union_keys (a b : store) : list skey :=
    map fst a ++ filter (fun k => negb (smem a k)) (map fst b).

  Fixpoint all2 {A} (f : A -> A -> bool) (a b : list A) : bool :=
    match a, b with
    | [], [] => true
    | x :: a', y :: b' => f x y && all2 f a' b'
    | _, _ => false
    end.

  Fixpoint akv_get (d : list (atom * ref)) (k : atom) : option ref :=
    match d with
    | [] => None
    | (k', v) :: d' => if atom_py_eq k k' then Some v else akv_get d' k
    end.

  Definition seq_items (n : node) : option (list ref) :=
    match n with
    | NTuple xs => Some xs
    | NNamedTuple _ fs => Some (map snd fs)
    | _ => None
    end.
  Definition map_items (n : node) : option (list (atom * ref)) :=
    match n with
    | NDict kvs | NDefaultDict _ kvs => Some kvs
    | _ => None
    end.

  (* Python == on values; for two Buildables this is Buildable.__eq__ (check_dag = True) *)
  Fixpoint veq (fuel : nat) (r1 r2 : ref) : bool :=
    match fuel with
    | O => false
    | S f =>
        match r1, r2 with
        | RA a, RA b => atom_py_eq a b
        | RP i, RP j =>
            match nth_error h i, nth_error h j with
            | Some n1, Some n2 =>
                match n1, n2 with
                | NBuildable k1 fn1 a1 _, NBuildable k2 fn2 a2 _ =>
                    (if bkind_eq_dec k1 k2 then true else false) && N.eqb fn1 fn2
                    && forallb (fun k => match val_or_default fn1 a1 k, val_or_default fn2 a2 k with
                                         | Some v1, Some v2 => veq f v1 v2
                                         | _, _ => false
                                         end) (union_keys a1 a2)
                    && dag_eq (RP i) (RP j)
                | NList xs, NList ys => all2 (veq f) xs ys
                | NSet _ xs, NSet _ ys =>
                    forallb (fun x => existsb (atom_py_eq x) ys) xs
                    && forallb (fun y => existsb (atom_py_eq y) xs) ys
                | _, _ =>
                    match seq_items n1, seq_items n2 with
                    | Some xs, Some ys => all2 (veq f) xs ys
                    | _, _ =>
                        match map_items n1, map_items n2 with
                        | Some d1, Some d2 =>
                            Nat.eqb (length d1) (length d2)
                            && forallb (fun kv => match akv_get d2 (fst kv) with
                                                  | Some v2 => veq f (snd kv) v2
                                                  | None => false
                                                  end) d1
                        | _, _ => Nat.eqb i j
                        end
                    end
                end
            | _, _ => false
            end
        | _, _ => false
        end
    end.

  Definition cfg_eq (r1 r2 : ref) : bool := veq (S (length h)) r1 r2.
End Eq.
