(* PySlice: CPython's slice.indices, range, and list get/set/del by index and slice.
   [Python semantics: validated against CPython by the "pysem" correspondence stream.] *)
From Fiddle Require Import PyBase.

Definition zlen {A} (l : list A) : Z := Z.of_nat (length l).

Definition znth {A} (l : list A) (i : Z) : option A :=
  if i <? 0 then None else nth_error l (Z.to_nat i).

(* slice(start, stop, step).indices(len); None = ValueError (step zero) *)
Definition slice_indices (start stop step : option Z) (len : Z) : option (Z * Z * Z) :=
  let st := match step with None => 1 | Some s => s end in
  if st =? 0 then None else
  let lower := if st <? 0 then -1 else 0 in
  let upper := if st <? 0 then len - 1 else len in
  let adj (x : option Z) (dflt : Z) :=
    match x with
    | None => dflt
    | Some v => if v <? 0 then Z.max (v + len) lower else Z.min v upper
    end in
  let s := adj start (if st <? 0 then upper else lower) in
  let e := adj stop (if st <? 0 then lower else upper) in
  Some (s, e, st).

(* len(range(start, stop, step)), step <> 0 *)
Definition range_len (start stop step : Z) : Z :=
  if 0 <? step then (if start <? stop then (stop - start + step - 1) / step else 0)
  else (if stop <? start then (start - stop - step - 1) / (- step) else 0).

Fixpoint range_from (start step : Z) (n : nat) : list Z :=
  match n with O => [] | S n' => start :: range_from (start + step) step n' end.

Definition py_range (start stop step : Z) : list Z :=
  range_from start step (Z.to_nat (range_len start stop step)).

(* l[i] for an int i: negative indices count from the end; None = IndexError *)
Definition norm_index (i len : Z) : option Z :=
  let j := if i <? 0 then i + len else i in
  if (j <? 0) || (len <=? j) then None else Some j.

Definition list_get {A} (l : list A) (i : Z) : option A :=
  match norm_index i (zlen l) with Some j => znth l j | None => None end.

Fixpoint list_set_nat {A} (l : list A) (i : nat) (v : A) : list A :=
  match l, i with
  | [], _ => []
  | _ :: l', O => v :: l'
  | x :: l', S i' => x :: list_set_nat l' i' v
  end.

Fixpoint list_del_nat {A} (l : list A) (i : nat) : list A :=
  match l, i with
  | [], _ => []
  | _ :: l', O => l'
  | x :: l', S i' => x :: list_del_nat l' i'
  end.

(* del l[i] for a non-negative in-range i; None = IndexError *)
Definition list_del_at {A} (l : list A) (i : Z) : option (list A) :=
  if (i <? 0) || (zlen l <=? i) then None else Some (list_del_nat l (Z.to_nat i)).

Fixpoint gather {A} (l : list A) (idx : list Z) : list A :=
  match idx with
  | [] => []
  | i :: idx' => match znth l i with Some x => x :: gather l idx' | None => gather l idx' end
  end.

(* l[start:stop:step] *)
Definition list_get_slice {A} (l : list A) (start stop step : option Z) : option (list A) :=
  match slice_indices start stop step (zlen l) with
  | None => None
  | Some (s, e, st) => Some (gather l (py_range s e st))
  end.

Fixpoint assign_each {A} (l : list A) (idx : list Z) (vs : list A) : list A :=
  match idx, vs with
  | i :: idx', v :: vs' => assign_each (list_set_nat l (Z.to_nat i) v) idx' vs'
  | _, _ => l
  end.

(* l[start:stop:step] = vs ; None = ValueError (step zero, or extended slice of the wrong size) *)
Definition list_set_slice {A} (l : list A) (start stop step : option Z) (vs : list A)
  : option (list A) :=
  match slice_indices start stop step (zlen l) with
  | None => None
  | Some (s, e, st) =>
      if st =? 1 then
        let e' := Z.max s e in
        Some (firstn (Z.to_nat s) l ++ vs ++ skipn (Z.to_nat e') l)
      else
        let idx := py_range s e st in
        if Nat.eqb (length idx) (length vs) then Some (assign_each l idx vs) else None
  end.

Definition zmem (i : Z) (l : list Z) : bool := existsb (Z.eqb i) l.

Fixpoint filter_idx {A} (l : list A) (i : Z) (drop : list Z) : list A :=
  match l with
  | [] => []
  | x :: l' => if zmem i drop then filter_idx l' (i + 1) drop else x :: filter_idx l' (i + 1) drop
  end.

(* del l[start:stop:step] *)
Definition list_del_slice {A} (l : list A) (start stop step : option Z) : option (list A) :=
  match slice_indices start stop step (zlen l) with
  | None => None
  | Some (s, e, st) => Some (filter_idx l 0 (py_range s e st))
  end.

(* sorted(indices, reverse=True) for the duplicate-free index lists ranges produce *)
Fixpoint insert_desc (x : Z) (l : list Z) : list Z :=
  match l with
  | [] => [x]
  | y :: l' => if y <=? x then x :: l else y :: insert_desc x l'
  end.
Definition sort_desc (l : list Z) : list Z := fold_right insert_desc [] l.

Fixpoint list_min (d : Z) (l : list Z) : Z :=
  match l with [] => d | x :: l' => Z.min x (list_min x l') end.
