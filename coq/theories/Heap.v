(* Heap: configurations as object graphs.  A heap is a list of nodes; a pointer is an index.
   Immutable leaves that daglish.is_memoizable rejects (ints, strings, None, enum members, the
   empty tuple, ...) are inline atoms: what has no identity for Fiddle has no identity here. *)
From Fiddle Require Import PyBase PySlice Sig ArgStore PyCall.

Inductive bkind := BConfig | BPartial | BArgFactory | BTagged.
Definition bkind_eq_dec : forall a b : bkind, {a = b} + {a <> b}.
Proof. decide equality. Defined.

Inductive node :=
| NList (xs : list ref)
| NTuple (xs : list ref)                                   (* non-empty tuples only *)
| NDict (kvs : list (atom * ref))
| NDefaultDict (factory : atom) (kvs : list (atom * ref))
| NNamedTuple (ty : N) (fs : list (N * ref))
| NBuildable (k : bkind) (fn : N) (args : store) (tags : list (skey * list N))
| NObj (fn : N) (vw : view)                                (* what an uninterpreted callable returned *)
| NPartialObj (fn : N) (pos : list ref) (kw : list (N * ref))
| NSet (frozen : bool) (xs : list atom)
| NOpaque (n : N).

Definition heap := list node.

Definition tags_eq_dec : forall a b : list (skey * list N), {a = b} + {a <> b}.
Proof.
  apply list_eq_dec. decide equality; auto using skey_eq_dec, (list_eq_dec N.eq_dec).
Defined.

Definition akv_eq_dec : forall a b : list (atom * ref), {a = b} + {a <> b}.
Proof. apply list_eq_dec. decide equality; auto using atom_eq_dec, ref_eq_dec. Defined.
Definition nkv_eq_dec : forall a b : list (N * ref), {a = b} + {a <> b}.
Proof. apply list_eq_dec. decide equality; auto using N.eq_dec, ref_eq_dec. Defined.

Definition node_eq_dec : forall a b : node, {a = b} + {a <> b}.
Proof.
  decide equality; auto using (list_eq_dec ref_eq_dec), akv_eq_dec, nkv_eq_dec, atom_eq_dec,
    N.eq_dec, bkind_eq_dec, store_eq_dec, tags_eq_dec, view_eq_dec, Bool.bool_dec,
    (list_eq_dec atom_eq_dec).
Defined.
Definition heap_eq_dec : forall a b : heap, {a = b} + {a <> b} := list_eq_dec node_eq_dec.

(* signatures of the callables that occur in a heap *)
Definition sigenv := list (N * sig).
Fixpoint sig_of (e : sigenv) (fn : N) : sig :=
  match e with
  | [] => []
  | (n, s) :: e' => if N.eqb n fn then s else sig_of e' fn
  end.

Inductive pelt := PIndex (i : Z) | PKey (k : atom) | PAttr (n : N).
Definition path := list pelt.
Definition pelt_eq_dec : forall a b : pelt, {a = b} + {a <> b}.
Proof. decide equality; auto using Z.eq_dec, atom_eq_dec, N.eq_dec. Defined.
Definition path_eq_dec : forall a b : path, {a = b} + {a <> b} := list_eq_dec pelt_eq_dec.

Definition ref_never_eq (a b : ref) : bool := false.

Section WithEnv.
  Variable e : sigenv.

  (* Buildable.__flatten__: ordered_arguments with the default flags (never fails) *)
  Definition flat_args (fn : N) (args : store) : store :=
    match ordered_arguments (sig_of e fn) ref_never_eq default_flags args with
    | inl r => r
    | inr _ => []
    end.

  Definition index_elts (n : nat) : list pelt := map (fun i => PIndex (Z.of_nat i)) (nat_seq 0 n).

  Definition key_elt (k : skey) : pelt :=
    match k with KPos i => PIndex i | KName n => PAttr n end.

  (* the traverser registry: flatten values / path elements / unflatten *)
  Definition children (n : node) : list ref :=
    match n with
    | NList xs | NTuple xs => xs
    | NDict kvs | NDefaultDict _ kvs => map snd kvs
    | NNamedTuple _ fs => map snd fs
    | NBuildable _ fn args _ => map snd (flat_args fn args)
    | _ => []
    end.

  Definition elts (n : node) : list pelt :=
    match n with
    | NList xs | NTuple xs => index_elts (length xs)
    | NDict kvs | NDefaultDict _ kvs => map (fun kv => PKey (fst kv)) kvs
    | NNamedTuple _ fs => map (fun kv => PAttr (fst kv)) fs
    | NBuildable _ fn args _ => map (fun kv => key_elt (fst kv)) (flat_args fn args)
    | _ => []
    end.

  Definition traversable (n : node) : bool :=
    match n with
    | NList _ | NTuple _ | NDict _ | NDefaultDict _ _ | NNamedTuple _ _ | NBuildable _ _ _ _ => true
    | _ => false
    end.

  (* unflatten(values, metadata).  Buildable.__unflatten__ rebuilds __arguments__ as
     dict(zip(argument_names, values)) and drops empty tag sets. *)
  Definition with_children (n : node) (vs : list ref) : node :=
    match n with
    | NList _ => NList vs
    | NTuple _ => NTuple vs
    | NDict kvs => NDict (combine (map fst kvs) vs)
    | NDefaultDict f kvs => NDefaultDict f (combine (map fst kvs) vs)
    | NNamedTuple ty fs => NNamedTuple ty (combine (map fst fs) vs)
    | NBuildable k fn args tags =>
        NBuildable k fn (combine (map fst (flat_args fn args)) vs)
          (filter (fun kt => match snd kt with [] => false | _ => true end) tags)
    | other => other
    end.

  Definition is_buildable (h : heap) (i : nat) : bool :=
    match nth_error h i with Some (NBuildable _ _ _ _) => true | _ => false end.

  (* PathElement.follow on one node *)
  Fixpoint assoc_elt (es : list pelt) (cs : list ref) (pe : pelt) : option ref :=
    match es, cs with
    | x :: es', c :: cs' => if pelt_eq_dec x pe then Some c else assoc_elt es' cs' pe
    | _, _ => None
    end.

  Definition follow_node (n : node) (pe : pelt) : option ref := assoc_elt (elts n) (children n) pe.

  Fixpoint follow (h : heap) (r : ref) (p : path) : option ref :=
    match p with
    | [] => Some r
    | pe :: p' =>
        match r with
        | RA _ => None
        | RP i =>
            match nth_error h i with
            | Some n => match follow_node n pe with Some r' => follow h r' p' | None => None end
            | None => None
            end
        end
    end.

  (* well-formed: children point to strictly smaller ids (acyclic by construction) *)
  Definition ref_below (bound : nat) (r : ref) : bool :=
    match r with RA _ => true | RP j => Nat.ltb j bound end.

  Definition node_refs (n : node) : list ref :=
    match n with
    | NBuildable _ _ args _ => map snd args
    | NObj _ vw =>
        flat_map (fun kv => match snd kv with
                            | PV v => [v]
                            | PTuple l => l
                            | PDict d => map snd d
                            end) vw
    | NPartialObj _ pos kw => pos ++ map snd kw
    | other => children other
    end.

  Fixpoint wf_from (h : heap) (i : nat) : bool :=
    match h with
    | [] => true
    | n :: h' => forallb (ref_below i) (node_refs n) && wf_from h' (S i)
    end.
  Definition wf_b (h : heap) : bool := wf_from h 0.
End WithEnv.
