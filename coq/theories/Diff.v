(* Diff: diffing._apply_changes on a heap.  Parents are looked up by path in the structure as it
   is BEFORE any change (path_to_value is computed up front); the operations are then applied in
   five phases, in the order extracted from the source. *)
From Fiddle Require Import PyBase PySlice Sig ArgStore PyCall Heap Traverse Tags History.

Inductive dlast := LAttr (n : N) | LKey (k : atom) | LIndex (i : Z) | LFn.

Inductive change :=
| CSet (parent : path) (l : dlast) (v : ref)
| CModify (parent : path) (l : dlast) (v : ref)      (* for LFn, v = RA (ASym new_callable) *)
| CDelete (parent : path) (l : dlast)
| CAddTag (parent : path) (arg : N) (tag : N)
| CRemoveTag (parent : path) (arg : N) (tag : N).

Inductive optype := OpDelete | OpRemoveTag | OpModify | OpSet | OpAddTag.
Definition optype_eq_dec : forall a b : optype, {a = b} + {a <> b}.
Proof. decide equality. Defined.

Definition type_of (c : change) : optype :=
  match c with
  | CSet _ _ _ => OpSet | CModify _ _ _ => OpModify | CDelete _ _ => OpDelete
  | CAddTag _ _ _ => OpAddTag | CRemoveTag _ _ _ => OpRemoveTag
  end.
Definition parent_of (c : change) : path :=
  match c with
  | CSet p _ _ | CModify p _ _ | CDelete p _ | CAddTag p _ _ | CRemoveTag p _ _ => p
  end.

Fixpoint akv_set (d : list (atom * ref)) (k : atom) (v : ref) : list (atom * ref) :=
  match d with
  | [] => [(k, v)]
  | (k', v') :: d' => if atom_eqb k k' then (k', v) :: d' else (k', v') :: akv_set d' k v
  end.
Fixpoint akv_del (d : list (atom * ref)) (k : atom) : list (atom * ref) :=
  match d with
  | [] => []
  | (k', v') :: d' => if atom_eqb k k' then d' else (k', v') :: akv_del d' k
  end.

Definition tags_add (tags : tagmap) (k : skey) (t : N) : tagmap :=
  tags_set tags k (tset_add t (tags_get tags k)).
Definition tags_remove (tags : tagmap) (k : skey) (t : N) : tagmap :=
  tags_set tags k (tset_remove t (tags_get tags k)).

(* DiffOperation.apply on the parent node *)
Definition apply_op (c : change) (n : node) : node :=
  match c, n with
  | (CSet _ (LAttr a) v | CModify _ (LAttr a) v), NBuildable k fn args tags =>
      NBuildable k fn (sset args (KName a) v) tags
  | CModify _ LFn (RA (ASym fn')), NBuildable k _ args tags => NBuildable k fn' args tags
  | (CSet _ (LKey key) v | CModify _ (LKey key) v), NDict kvs => NDict (akv_set kvs key v)
  | (CSet _ (LKey key) v | CModify _ (LKey key) v), NDefaultDict f kvs => NDefaultDict f (akv_set kvs key v)
  | CModify _ (LIndex i) v, NList xs => NList (list_set_nat xs (Z.to_nat i) v)
  | CDelete _ (LAttr a), NBuildable k fn args tags => NBuildable k fn (sdel args (KName a)) tags
  | CDelete _ (LKey key), NDict kvs => NDict (akv_del kvs key)
  | CDelete _ (LKey key), NDefaultDict f kvs => NDefaultDict f (akv_del kvs key)
  | CAddTag _ a t, NBuildable k fn args tags => NBuildable k fn args (tags_add tags (KName a) t)
  | CRemoveTag _ a t, NBuildable k fn args tags => NBuildable k fn args (tags_remove tags (KName a) t)
  | _, other => other
  end.

Section Apply.
  Variable e : sigenv.

  (* the phase order of _apply_changes *)
  Definition phase_order : list optype := [OpDelete; OpRemoveTag; OpModify; OpSet; OpAddTag].

  (* (change, parent id) pairs: parents resolved in the original structure *)
  Definition resolve_parents (h : heap) (root : ref) (cs : list change) : list (change * option nat) :=
    map (fun c => (c, match follow e h root (parent_of c) with Some (RP i) => Some i | _ => None end)) cs.

  Definition apply_one (h : heap) (cp : change * option nat) : heap :=
    match snd cp with
    | Some i => match nth_error h i with
                | Some n => heap_set h i (apply_op (fst cp) n)
                | None => h
                end
    | None => h
    end.

  Definition apply_phase (ty : optype) (h : heap) (cps : list (change * option nat)) : heap :=
    fold_left (fun h cp => if optype_eq_dec (type_of (fst cp)) ty then apply_one h cp else h) cps h.

  Definition apply_changes (h : heap) (root : ref) (cs : list change) : heap :=
    let cps := resolve_parents h root cs in
    fold_left (fun h ty => apply_phase ty h cps) phase_order h.
End Apply.
