(* PyText: repr() of ASCII strings, unescaping of Python string literals (what ast.literal_eval
   does to the literals repr produces), decimal integers.  [Python semantics, validated by the
   correspondence stream against repr / ast.literal_eval.] *)
From Fiddle Require Import PyBase.
Open Scope N_scope.

Definition ch_bslash : N := 92.
Definition ch_squote : N := 39.
Definition ch_dquote : N := 34.
Definition is_printable_ascii (c : N) : bool := (32 <=? c) && (c <? 127).
Definition is_ascii (c : N) : bool := c <? 128.

Definition hex_digit (d : N) : N := if d <? 10 then 48 + d else 87 + d.   (* 0-9 a-f *)

(* repr() escapes of one character inside a string quoted with `q` *)
Definition repr_char (q c : N) : list N :=
  if c =? ch_bslash then [ch_bslash; ch_bslash]
  else if c =? q then [ch_bslash; q]
  else if c =? 10 then [ch_bslash; 110]
  else if c =? 13 then [ch_bslash; 114]
  else if c =? 9 then [ch_bslash; 116]
  else if is_printable_ascii c then [c]
  else [ch_bslash; 120; hex_digit (c / 16); hex_digit (c mod 16)].       (* \xNN *)

Definition mem_ch (c : N) (s : list N) : bool := existsb (N.eqb c) s.

(* repr picks double quotes when the string has a single quote and no double quote *)
Definition repr_quote (s : list N) : N :=
  if mem_ch ch_squote s && negb (mem_ch ch_dquote s) then ch_dquote else ch_squote.

Definition repr_str (s : list N) : list N :=
  let q := repr_quote s in
  q :: flat_map (repr_char q) s ++ [q].

Definition unhex (c : N) : option N :=
  if (48 <=? c) && (c <=? 57) then Some (c - 48)
  else if (97 <=? c) && (c <=? 102) then Some (c - 87)
  else if (65 <=? c) && (c <=? 70) then Some (c - 55)
  else None.

(* the body of a string literal (between the quotes): process the escapes repr can emit *)
Fixpoint unescape (fuel : nat) (s : list N) : option (list N) :=
  match fuel with
  | O => None
  | S f =>
      match s with
      | [] => Some []
      | c :: rest =>
          if c =? ch_bslash then
            match rest with
            | e :: rest' =>
                let simple (x : N) := match unescape f rest' with Some t => Some (x :: t) | None => None end in
                if e =? ch_bslash then simple ch_bslash
                else if e =? ch_squote then simple ch_squote
                else if e =? ch_dquote then simple ch_dquote
                else if e =? 110 then simple 10
                else if e =? 114 then simple 13
                else if e =? 116 then simple 9
                else if e =? 120 then
                  match rest' with
                  | h1 :: h2 :: rest'' =>
                      match unhex h1, unhex h2, unescape f rest'' with
                      | Some a, Some b, Some t => Some (a * 16 + b :: t)
                      | _, _, _ => None
                      end
                  | _ => None
                  end
                else None
            | [] => None
            end
          else match unescape f rest with Some t => Some (c :: t) | None => None end
      end
  end.

(* decimal digits of a non-negative integer *)
Fixpoint digits_of (fuel : nat) (n : N) (acc : list N) : list N :=
  match fuel with
  | O => acc
  | S f => if n <? 10 then (48 + n) :: acc else digits_of f (n / 10) ((48 + n mod 10) :: acc)
  end.
Definition print_nat (n : N) : list N := digits_of (S (N.to_nat (N.log2 n))) n [].

Definition is_digit (c : N) : bool := (48 <=? c) && (c <=? 57).
Fixpoint parse_digits (s : list N) (acc : N) : N :=
  match s with
  | [] => acc
  | c :: s' => parse_digits s' (acc * 10 + (c - 48))
  end.
