(* The path named by the exception that escapes a failed build leads to the failing Buildable. *)
From Fiddle Require Import PyBase PySlice Sig ArgStore PyCall Heap Traverse Build Build_stmt
  Traverse_proofs Build_proofs Iterate_proofs C05Check.

Lemma failing_path_in e h r k :
  reach e h r k -> wf_b e h = true -> keys_ok h ->
  In (failing_path e h r k) (paths_to e h (S (length h)) r k)
  /\ hd_error (paths_to e h (S (length h)) r k) = Some (failing_path e h r k).
Proof.
  intros [p Hp] Hwf Hk. destruct (paths_to_exact e h Hwf Hk r k) as [Hex _].
  apply Hex in Hp. unfold failing_path.
  destruct (paths_to e h (S (length h)) r k) as [|q l]; [destruct Hp |].
  split; [left; reflexivity | reflexivity].
Qed.

Theorem failing_path_leads e fails h r s res :
  wf_b e h = true -> root_ok h r -> mrun e h (build_node e fails) r = (s, res) ->
  keys_ok h -> (forall k x, res = inr (FRaise k x) -> ~ is_tagged h k) ->
  forall k x, res = inr (FRaise k x) ->
    follow e h r (failing_path e h r k) = Some (RP k)
    /\ hd_error (paths_to e h (S (length h)) r k) = Some (failing_path e h r k).
Proof.
  intros Hwf Hroot Hrun Hk Hnt k x Hres.
  pose proof (failure_prefix_partial_untagged e fails h r s res Hwf Hroot Hrun Hk Hnt k x Hres) as Hfp.
  destruct Hfp as (Hreach & _).
  destruct (failing_path_in e h r k Hreach Hwf Hk) as [Hin Hhd].
  split; [| exact Hhd].
  destruct (paths_to_exact e h Hwf Hk r k) as [Hex _]. apply Hex. exact Hin.
Qed.

(* it is also the path under which the memoized iteration (daglish.iterate, memoized=True) yields the
   Buildable: the traversal's current path at its only visit *)
Theorem failing_path_is_visit_path e h r :
  wf_b e h = true -> keys_ok h -> root_ok h r ->
  forall k p, In (RP k, p) (snd (iter_memo e h true (S (length h)) [] r [])) ->
    failing_path e h r k = p.
Proof.
  intros Hwf Hk Hroot k p Hin.
  pose proof (iter_memo_first_all e h r Hwf Hk Hroot k p Hin) as Hhd.
  unfold failing_path. destruct (paths_to e h (S (length h)) r k); cbn in Hhd; congruence.
Qed.
