(* C10Hyps: the side conditions of theorem C10_patch_yields_new, evaluated on the real cases (how many
   of the (old, new) pairs of a run the theorem speaks about). *)
From Fiddle Require Import PyBase PySlice Sig ArgStore PyCall Heap Traverse Tags History Diff DiffBuild
  C10Check DiffBuild_proofs.

Definition hyps_rt (c : rt_case) : bool :=
  let e := r_env c in
  wf_b e (r_heap c) && heap_ok_b (r_heap c)
  && alignment_ok (r_align c) (r_heap c) (r_old c) (r_new c)
  && align_tags_ok_b (r_align c) (r_heap c)
  && old_reach_b e (r_align c) (r_heap c) (r_old c).
