(* Eq_proofs: Buildable.__eq__ (Eq.veq / Eq.cfg_eq) is an equivalence relation on well-formed
   heaps whose dictionaries have keys that are distinct up to Python ==, it distinguishes kinds,
   callables and leaf arguments, and it is NOT congruent with the sharing structure / with dict
   insertion order (the two known findings at _compare_buildable, exhibited by computation). *)
From Fiddle Require Import PyBase PySlice Sig ArgStore PyCall Heap Traverse Build Build_stmt
  Traverse_proofs Eq.
From Coq Require Import List Arith Lia Bool Permutation.
Import ListNotations.
Local Open Scope nat_scope.

(* ------------------------------------------------------------------------------------------ *)
(* 1. Python == on leaves is an equivalence: it is equality after reading a bool as an int *)

Definition atom_norm (a : atom) : atom :=
  match a with ABool y => AInt (if y then 1 else 0)%Z | _ => a end.

Lemma atom_eqb_eq a b : atom_eqb a b = true <-> a = b.
Proof. unfold atom_eqb; destruct (atom_eq_dec a b); split; congruence. Qed.

Lemma atom_py_eq_norm a b : atom_py_eq a b = true <-> atom_norm a = atom_norm b.
Proof.
  destruct a, b; cbn [atom_py_eq atom_norm];
    try (rewrite atom_eqb_eq; split; intros Heq; congruence).
  - rewrite Z.eqb_eq. split; intros Heq; congruence.
  - rewrite Z.eqb_eq. split; intros Heq; congruence.
  - rewrite atom_eqb_eq. destruct b, b0; split; intros Heq; try reflexivity; discriminate.
Qed.

Theorem atom_py_eq_refl a : atom_py_eq a a = true.
Proof. apply atom_py_eq_norm; reflexivity. Qed.

Theorem atom_py_eq_sym a b : atom_py_eq a b = atom_py_eq b a.
Proof.
  apply eq_true_iff_eq. rewrite !atom_py_eq_norm. split; intros Heq; symmetry; exact Heq.
Qed.

Theorem atom_py_eq_trans a b c :
  atom_py_eq a b = true -> atom_py_eq b c = true -> atom_py_eq a c = true.
Proof. rewrite !atom_py_eq_norm. intros H1 H2; congruence. Qed.

(* ------------------------------------------------------------------------------------------ *)
(* 2. perm_b decides Permutation; dag_eq is an equivalence *)

Lemma remove_one_perm p : forall l r, remove_one p l = Some r -> Permutation l (p :: r).
Proof.
  induction l as [|q l IH]; intros r Hr; cbn [remove_one] in Hr; [discriminate |].
  destruct (path_eq_dec p q) as [->|Hne].
  - inversion Hr; subst. apply Permutation_refl.
  - destruct (remove_one p l) as [r'|] eqn:Hrem; [| discriminate].
    inversion Hr; subst. eapply perm_trans; [apply perm_skip; apply IH; reflexivity |].
    apply perm_swap.
Qed.

Lemma remove_one_in p : forall l, In p l -> exists r, remove_one p l = Some r.
Proof.
  induction l as [|q l IH]; intros Hin; [destruct Hin |].
  cbn [remove_one]. destruct (path_eq_dec p q) as [->|Hne]; [eexists; reflexivity |].
  destruct Hin as [->|Hin]; [congruence |].
  destruct (IH Hin) as [r Hr]. rewrite Hr. eexists; reflexivity.
Qed.

Theorem perm_b_Permutation : forall a b, perm_b a b = true <-> Permutation a b.
Proof.
  induction a as [|p a IH]; intros b; cbn [perm_b].
  - destruct b as [|q b]; split; intros Hx; try reflexivity; try discriminate.
    apply Permutation_nil in Hx. discriminate.
  - destruct (remove_one p b) as [b'|] eqn:Hrem.
    + rewrite IH. apply remove_one_perm in Hrem. split; intros Hx.
      * eapply perm_trans; [apply perm_skip; exact Hx | apply Permutation_sym; exact Hrem].
      * eapply Permutation_cons_inv. eapply perm_trans; [exact Hx | exact Hrem].
    + split; intros Hx; [discriminate |].
      assert (Hin : In p b) by (eapply Permutation_in; [exact Hx | left; reflexivity]).
      destruct (remove_one_in p b Hin) as [r Hr]. congruence.
Qed.

Theorem perm_b_refl a : perm_b a a = true.
Proof. apply perm_b_Permutation. apply Permutation_refl. Qed.

Theorem perm_b_sym a b : perm_b a b = perm_b b a.
Proof.
  apply eq_true_iff_eq. rewrite !perm_b_Permutation. split; apply Permutation_sym.
Qed.

Theorem perm_b_trans a b c : perm_b a b = true -> perm_b b c = true -> perm_b a c = true.
Proof. rewrite !perm_b_Permutation. apply perm_trans. Qed.

Theorem dag_eq_refl e h r : dag_eq e h r r = true.
Proof. apply perm_b_refl. Qed.

Theorem dag_eq_sym e h a b : dag_eq e h a b = dag_eq e h b a.
Proof. apply perm_b_sym. Qed.

Theorem dag_eq_trans e h a b c :
  dag_eq e h a b = true -> dag_eq e h b c = true -> dag_eq e h a c = true.
Proof. apply perm_b_trans. Qed.

(* ------------------------------------------------------------------------------------------ *)
(* generic list facts *)

Lemma forallb_same_elems {A} (f g : A -> bool) l1 l2 :
  (forall x, In x l1 <-> In x l2) -> (forall x, f x = g x) -> forallb f l1 = forallb g l2.
Proof.
  intros Hel Hfg. apply eq_true_iff_eq. rewrite !forallb_forall. split; intros Hall x Hin.
  - rewrite <- Hfg. apply Hall. apply Hel. exact Hin.
  - rewrite Hfg. apply Hall. apply Hel. exact Hin.
Qed.

Lemma all2_refl {A} (f : A -> A -> bool) : forall xs,
  (forall x, In x xs -> f x x = true) -> all2 f xs xs = true.
Proof.
  induction xs as [|x xs IH]; intros Hf; cbn [all2]; [reflexivity |].
  rewrite (Hf x (or_introl eq_refl)). cbn [andb]. apply IH. intros y Hy. apply Hf. right; exact Hy.
Qed.

Lemma all2_sym {A} (f : A -> A -> bool) (Hf : forall x y, f x y = f y x) : forall xs ys,
  all2 f xs ys = all2 f ys xs.
Proof.
  induction xs as [|x xs IH]; intros [|y ys]; cbn [all2]; try reflexivity.
  rewrite (Hf x y), IH. reflexivity.
Qed.

Lemma all2_trans {A} (f : A -> A -> bool)
  (Hf : forall x y z, f x y = true -> f y z = true -> f x z = true) : forall xs ys zs,
  all2 f xs ys = true -> all2 f ys zs = true -> all2 f xs zs = true.
Proof.
  induction xs as [|x xs IH]; intros [|y ys] [|z zs] H1 H2; cbn [all2] in *;
    try reflexivity; try discriminate.
  apply andb_true_iff in H1. apply andb_true_iff in H2. destruct H1 as [Hxy H1], H2 as [Hyz H2].
  rewrite (Hf x y z Hxy Hyz). cbn [andb]. eapply IH; eassumption.
Qed.

Lemma all2_ext_in {A} (f g : A -> A -> bool) : forall xs ys,
  (forall x y, In x xs -> In y ys -> f x y = g x y) -> all2 f xs ys = all2 g xs ys.
Proof.
  induction xs as [|x xs IH]; intros [|y ys] Hfg; cbn [all2]; try reflexivity.
  rewrite (Hfg x y (or_introl eq_refl) (or_introl eq_refl)). f_equal.
  apply IH. intros x' y' Hx Hy. apply Hfg; right; assumption.
Qed.

Lemma all2_mono {A} (f g : A -> A -> bool) (Hfg : forall x y, f x y = true -> g x y = true) :
  forall xs ys, all2 f xs ys = true -> all2 g xs ys = true.
Proof.
  induction xs as [|x xs IH]; intros [|y ys] H1; cbn [all2] in *; try reflexivity; try discriminate.
  apply andb_true_iff in H1. destruct H1 as [Hxy H1].
  rewrite (Hfg x y Hxy). cbn [andb]. apply IH. exact H1.
Qed.

(* ------------------------------------------------------------------------------------------ *)
(* stores *)

Lemma sget_spec (a : store) k :
  match sget a k with
  | Some v => In k (map fst a) /\ In v (map snd a)
  | None => ~ In k (map fst a)
  end.
Proof.
  unfold sget. induction a as [|[k' v'] a IH]; cbn [dget map fst snd].
  - intros [].
  - unfold skey_eqb. destruct (skey_eq_dec k k') as [->|Hne].
    + split; left; reflexivity.
    + fold skey_eqb. destruct (dget skey_eqb a k).
      * destruct IH; split; right; assumption.
      * intros [Heq|Hin]; [congruence | exact (IH Hin)].
Qed.

Lemma sget_in_keys (a : store) k :
  In k (map fst a) -> exists v, sget a k = Some v /\ In v (map snd a).
Proof.
  intros Hin. pose proof (sget_spec a k) as Hs. destruct (sget a k) as [v|].
  - exists v. split; [reflexivity | apply Hs].
  - contradiction.
Qed.

Lemma sget_not_in (a : store) k : ~ In k (map fst a) -> sget a k = None.
Proof.
  intros Hn. pose proof (sget_spec a k) as Hs. destruct (sget a k) as [v|]; [| reflexivity].
  destruct Hs; contradiction.
Qed.

Lemma smem_in (a : store) k : smem a k = true <-> In k (map fst a).
Proof.
  unfold smem, dmem. fold (sget a k). pose proof (sget_spec a k) as Hs.
  destruct (sget a k) as [v|]; split; intros Hx; try reflexivity; try discriminate.
  - apply Hs.
  - contradiction.
Qed.

Lemma union_keys_in (a b : store) k :
  In k (union_keys a b) <-> In k (map fst a) \/ In k (map fst b).
Proof.
  unfold union_keys. rewrite in_app_iff, filter_In. split.
  - intros [Ha|[Hb _]]; [left | right]; assumption.
  - intros [Ha|Hb]; [left; exact Ha |].
    destruct (smem a k) eqn:Hm.
    + left. apply smem_in. exact Hm.
    + right. split; [exact Hb | reflexivity].
Qed.

(* ------------------------------------------------------------------------------------------ *)
(* dictionaries with keys compared by Python == *)

Fixpoint py_distinct (ks : list atom) : bool :=
  match ks with
  | [] => true
  | k :: ks' => negb (existsb (atom_py_eq k) ks') && py_distinct ks'
  end.

Lemma py_distinct_NoDup ks : py_distinct ks = true <-> NoDup (map atom_norm ks).
Proof.
  induction ks as [|k ks IH]; cbn [py_distinct map].
  - split; [constructor | reflexivity].
  - rewrite andb_true_iff, negb_true_iff, IH. split.
    + intros [Hex Hnd]. constructor; [| exact Hnd].
      intros Hin. apply in_map_iff in Hin. destruct Hin as [k' [Hk' Hin]].
      assert (Ht : existsb (atom_py_eq k) ks = true).
      { apply existsb_exists. exists k'. split; [exact Hin |].
        apply atom_py_eq_norm. symmetry; exact Hk'. }
      congruence.
    + intros Hnd. inversion Hnd as [|x l Hnin Hnd']; subst. split; [| exact Hnd'].
      destruct (existsb (atom_py_eq k) ks) eqn:Hex; [| reflexivity].
      apply existsb_exists in Hex. destruct Hex as [k' [Hin Hk']].
      exfalso. apply Hnin. apply atom_py_eq_norm in Hk'. rewrite Hk'. apply in_map. exact Hin.
Qed.

Lemma akv_get_some d k v :
  akv_get d k = Some v -> exists k', In (k', v) d /\ atom_py_eq k k' = true.
Proof.
  induction d as [|[k0 v0] d IH]; cbn [akv_get]; [discriminate |].
  destruct (atom_py_eq k k0) eqn:Hk; intros Hg.
  - inversion Hg; subst. exists k0. split; [left; reflexivity | exact Hk].
  - destruct (IH Hg) as [k' [Hin Hk']]. exists k'. split; [right; exact Hin | exact Hk'].
Qed.

Lemma akv_get_none d k :
  akv_get d k = None -> forall k' v, In (k', v) d -> atom_py_eq k k' = false.
Proof.
  induction d as [|[k0 v0] d IH]; cbn [akv_get]; intros Hg k' v Hin; [destruct Hin |].
  destruct (atom_py_eq k k0) eqn:Hk; [discriminate |].
  destruct Hin as [Heq|Hin]; [inversion Heq; subst; exact Hk | eapply IH; eassumption].
Qed.

Lemma akv_get_congr d k k' : atom_py_eq k k' = true -> akv_get d k = akv_get d k'.
Proof.
  intros Hk. induction d as [|[k0 v0] d IH]; cbn [akv_get]; [reflexivity |].
  assert (Heq : atom_py_eq k k0 = atom_py_eq k' k0).
  { apply eq_true_iff_eq. apply atom_py_eq_norm in Hk. rewrite !atom_py_eq_norm, Hk. tauto. }
  rewrite Heq, IH. reflexivity.
Qed.

Lemma akv_get_distinct d : py_distinct (map fst d) = true ->
  forall k k' v, In (k', v) d -> atom_py_eq k k' = true -> akv_get d k = Some v.
Proof.
  induction d as [|[k0 v0] d IH]; intros Hd k k' v Hin Hk; [destruct Hin |].
  cbn [map fst py_distinct] in Hd. apply andb_true_iff in Hd. destruct Hd as [Hex Hd].
  apply negb_true_iff in Hex. cbn [akv_get].
  destruct Hin as [Heq|Hin].
  - inversion Heq; subst. rewrite Hk. reflexivity.
  - destruct (atom_py_eq k k0) eqn:Hk0.
    + exfalso. assert (Ht : existsb (atom_py_eq k0) (map fst d) = true); [| congruence].
      apply existsb_exists. exists k'. split; [apply (in_map fst) in Hin; exact Hin |].
      eapply atom_py_eq_trans; [rewrite atom_py_eq_sym; exact Hk0 | exact Hk].
    + eapply IH; eassumption.
Qed.

(* ------------------------------------------------------------------------------------------ *)
(* one unfolding of veq, by the way == looks at a node *)

Inductive ncls :=
| CB (k : bkind) (fn : N) (args : store)
| CL (xs : list ref)
| CS (xs : list atom)
| CSeq (xs : list ref)
| CMap (d : list (atom * ref))
| CO.

Definition classify (n : node) : ncls :=
  match n with
  | NBuildable k fn args _ => CB k fn args
  | NList xs => CL xs
  | NSet _ xs => CS xs
  | NTuple xs => CSeq xs
  | NNamedTuple _ fs => CSeq (map snd fs)
  | NDict kvs | NDefaultDict _ kvs => CMap kvs
  | _ => CO
  end.

(* the references == may recurse into *)
Definition cls_refs (c : ncls) : list ref :=
  match c with
  | CB _ _ args => map snd args
  | CL xs | CSeq xs => xs
  | CMap d => map snd d
  | _ => []
  end.

Definition cls_keys_distinct (c : ncls) : bool :=
  match c with CMap d => py_distinct (map fst d) | _ => true end.

(* hypothesis on heaps: the keys of every dict are pairwise different for Python == (which real
   dicts guarantee: {1: x, True: y} has one key) *)
Definition keys_py_distinct (h : heap) : Prop :=
  forallb (fun n => cls_keys_distinct (classify n)) h = true.

Lemma keys_py_distinct_nth h i n :
  keys_py_distinct h -> nth_error h i = Some n -> cls_keys_distinct (classify n) = true.
Proof.
  unfold keys_py_distinct. rewrite forallb_forall. intros Hall Hn. apply Hall.
  eapply nth_error_In; exact Hn.
Qed.

Lemma cls_refs_sub e n c : In c (cls_refs (classify n)) -> In c (node_refs e n).
Proof. destruct n; cbn [classify cls_refs node_refs children]; auto; intros []. Qed.

Section EqP.
  Variable e : sigenv.
  Variable h : heap.

  Definition arg_ok (rec : ref -> ref -> bool) (fn1 : N) (a1 : store) (fn2 : N) (a2 : store)
    (k : skey) : bool :=
    match val_or_default e fn1 a1 k, val_or_default e fn2 a2 k with
    | Some v1, Some v2 => rec v1 v2
    | _, _ => false
    end.

  Definition kv_ok (rec : ref -> ref -> bool) (d2 : list (atom * ref)) (kv : atom * ref) : bool :=
    match akv_get d2 (fst kv) with Some v2 => rec (snd kv) v2 | None => false end.

  Definition cls_eq (rec : ref -> ref -> bool) (i j : nat) (c1 c2 : ncls) : bool :=
    match c1, c2 with
    | CB k1 fn1 a1, CB k2 fn2 a2 =>
        (if bkind_eq_dec k1 k2 then true else false) && N.eqb fn1 fn2
        && forallb (arg_ok rec fn1 a1 fn2 a2) (union_keys a1 a2)
        && dag_eq e h (RP i) (RP j)
    | CL xs, CL ys => all2 rec xs ys
    | CS xs, CS ys =>
        forallb (fun x => existsb (atom_py_eq x) ys) xs
        && forallb (fun y => existsb (atom_py_eq y) xs) ys
    | CSeq xs, CSeq ys => all2 rec xs ys
    | CMap d1, CMap d2 => Nat.eqb (length d1) (length d2) && forallb (kv_ok rec d2) d1
    | _, _ => Nat.eqb i j
    end.

  Lemma veq_S f i j :
    veq e h (S f) (RP i) (RP j) =
    match nth_error h i, nth_error h j with
    | Some n1, Some n2 => cls_eq (veq e h f) i j (classify n1) (classify n2)
    | _, _ => false
    end.
  Proof.
    cbn [veq]. destruct (nth_error h i) as [n1|]; [| reflexivity].
    destruct (nth_error h j) as [n2|]; [| reflexivity].
    destruct n1, n2; reflexivity.
  Qed.

  Lemma veq_S_atoms f a b : veq e h (S f) (RA a) (RA b) = atom_py_eq a b.
  Proof. reflexivity. Qed.
  Lemma veq_S_mixed_l f a j : veq e h (S f) (RA a) (RP j) = false.
  Proof. reflexivity. Qed.
  Lemma veq_S_mixed_r f i b : veq e h (S f) (RP i) (RA b) = false.
  Proof. reflexivity. Qed.
  Lemma veq_O a b : veq e h 0 a b = false.
  Proof. reflexivity. Qed.

  (* ---------------------------------------------------------------------------------------- *)
  (* reflexivity of one step *)

  Lemma cls_eq_refl rec i c :
    (forall x, In x (cls_refs c) -> rec x x = true) -> cls_keys_distinct c = true ->
    cls_eq rec i i c c = true.
  Proof.
    intros Hrec Hd. destruct c as [k fn args|xs|xs|xs|d|]; cbn [cls_eq cls_refs] in *.
    - destruct (bkind_eq_dec k k) as [_|Hne]; [| congruence]. rewrite N.eqb_refl, dag_eq_refl.
      cbn [andb]. rewrite andb_true_r. apply forallb_forall. intros key Hin.
      apply union_keys_in in Hin. assert (Hk : In key (map fst args)) by tauto.
      destruct (sget_in_keys args key Hk) as [v [Hg Hv]].
      unfold arg_ok, val_or_default. rewrite Hg. apply Hrec. exact Hv.
    - apply all2_refl. exact Hrec.
    - assert (Hall : forallb (fun x => existsb (atom_py_eq x) xs) xs = true).
      { apply forallb_forall. intros x Hx. apply existsb_exists. exists x.
        split; [exact Hx | apply atom_py_eq_refl]. }
      rewrite Hall. reflexivity.
    - apply all2_refl. exact Hrec.
    - rewrite Nat.eqb_refl. cbn [andb]. apply forallb_forall. intros [k v] Hin.
      unfold kv_ok. cbn [fst snd]. cbn [cls_keys_distinct] in Hd.
      rewrite (akv_get_distinct d Hd k k v Hin (atom_py_eq_refl k)).
      apply Hrec. apply (in_map snd) in Hin. exact Hin.
    - apply Nat.eqb_refl.
  Qed.

  (* ---------------------------------------------------------------------------------------- *)
  (* symmetry of one step *)

  Lemma dict_sym rec rec' d1 d2 :
    (forall x y, rec' y x = rec x y) ->
    py_distinct (map fst d1) = true -> py_distinct (map fst d2) = true ->
    length d1 = length d2 ->
    forallb (kv_ok rec d2) d1 = true -> forallb (kv_ok rec' d1) d2 = true.
  Proof.
    intros Hrec Hd1 Hd2 Hlen Hall. rewrite forallb_forall in Hall.
    pose proof (proj1 (py_distinct_NoDup _) Hd1) as Hn1.
    assert (Hincl : incl (map atom_norm (map fst d1)) (map atom_norm (map fst d2))).
    { intros x Hx. apply in_map_iff in Hx. destruct Hx as [k [Hk Hx]].
      apply in_map_iff in Hx. destruct Hx as [[k0 v] [Hk0 Hin]]. cbn [fst] in Hk0. subst k0.
      specialize (Hall (k, v) Hin). unfold kv_ok in Hall. cbn [fst snd] in Hall.
      destruct (akv_get d2 k) as [v2|] eqn:Hg; [| discriminate].
      apply akv_get_some in Hg. destruct Hg as [k' [Hin' Hk']].
      apply atom_py_eq_norm in Hk'. subst x. rewrite Hk'.
      apply in_map. apply (in_map fst) in Hin'. exact Hin'. }
    assert (Hback : incl (map atom_norm (map fst d2)) (map atom_norm (map fst d1))).
    { apply NoDup_length_incl; [exact Hn1 | | exact Hincl]. rewrite !map_length. lia. }
    apply forallb_forall. intros [k2 v2] Hin2. unfold kv_ok. cbn [fst snd].
    assert (Hx : In (atom_norm k2) (map atom_norm (map fst d1))).
    { apply Hback. apply in_map. apply (in_map fst) in Hin2. exact Hin2. }
    apply in_map_iff in Hx. destruct Hx as [k1 [Hk1 Hx]].
    apply in_map_iff in Hx. destruct Hx as [[k0 v1] [Hk0 Hin1]]. cbn [fst] in Hk0. subst k0.
    assert (Hpy : atom_py_eq k1 k2 = true) by (apply atom_py_eq_norm; exact Hk1).
    specialize (Hall (k1, v1) Hin1). unfold kv_ok in Hall. cbn [fst snd] in Hall.
    rewrite (akv_get_distinct d2 Hd2 k1 k2 v2 Hin2 Hpy) in Hall.
    rewrite atom_py_eq_sym in Hpy.
    rewrite (akv_get_distinct d1 Hd1 k2 k1 v1 Hin1 Hpy). rewrite Hrec. exact Hall.
  Qed.

  Lemma cls_eq_sym rec i j c1 c2 :
    (forall x y, rec x y = rec y x) ->
    cls_keys_distinct c1 = true -> cls_keys_distinct c2 = true ->
    cls_eq rec i j c1 c2 = cls_eq rec j i c2 c1.
  Proof.
    intros Hrec Hd1 Hd2.
    destruct c1 as [k1 fn1 a1|xs|xs|xs|d1|], c2 as [k2 fn2 a2|ys|ys|ys|d2|];
      cbn [cls_eq]; try apply Nat.eqb_sym.
    - rewrite (N.eqb_sym fn1 fn2), (dag_eq_sym e h (RP i) (RP j)).
      replace (if bkind_eq_dec k1 k2 then true else false)
        with (if bkind_eq_dec k2 k1 then true else false)
        by (destruct (bkind_eq_dec k1 k2), (bkind_eq_dec k2 k1); congruence).
      f_equal. f_equal. apply forallb_same_elems.
      + intros key. rewrite !union_keys_in. tauto.
      + intros key. unfold arg_ok.
        destruct (val_or_default e fn1 a1 key), (val_or_default e fn2 a2 key);
          try reflexivity. apply Hrec.
    - apply all2_sym. exact Hrec.
    - apply andb_comm.
    - apply all2_sym. exact Hrec.
    - cbn [cls_keys_distinct] in Hd1, Hd2. rewrite (Nat.eqb_sym (length d2)).
      destruct (Nat.eqb (length d1) (length d2)) eqn:Hlen; [| reflexivity]. cbn [andb].
      apply Nat.eqb_eq in Hlen. apply eq_true_iff_eq. split; intros Hall.
      + eapply dict_sym; try eassumption. intros x y. apply Hrec.
      + eapply dict_sym; try eassumption; [intros x y; apply Hrec | symmetry; exact Hlen].
  Qed.

  (* ---------------------------------------------------------------------------------------- *)
  (* transitivity of one step *)

  Lemma val_or_default_not_in fn (a : store) key :
    ~ In key (map fst a) -> val_or_default e fn a key = default_of (sig_of e fn) key.
  Proof. intros Hn. unfold val_or_default. rewrite (sget_not_in a key Hn). reflexivity. Qed.

  Lemma args_trans rec fn a1 a2 a3
    (Hrec : forall x y z, rec x y = true -> rec y z = true -> rec x z = true) :
    forallb (arg_ok rec fn a1 fn a2) (union_keys a1 a2) = true ->
    forallb (arg_ok rec fn a2 fn a3) (union_keys a2 a3) = true ->
    forallb (arg_ok rec fn a1 fn a3) (union_keys a1 a3) = true.
  Proof.
    rewrite !forallb_forall. intros H12 H23 key Hin. apply union_keys_in in Hin.
    assert (U12 : In key (map fst a1) \/ In key (map fst a2) ->
                  arg_ok rec fn a1 fn a2 key = true).
    { intros Hx. apply H12. apply union_keys_in. exact Hx. }
    assert (U23 : In key (map fst a2) \/ In key (map fst a3) ->
                  arg_ok rec fn a2 fn a3 key = true).
    { intros Hx. apply H23. apply union_keys_in. exact Hx. }
    clear H12 H23. unfold arg_ok in *.
    destruct (in_dec skey_eq_dec key (map fst a1)) as [I1|N1];
      destruct (in_dec skey_eq_dec key (map fst a2)) as [I2|N2];
      destruct (in_dec skey_eq_dec key (map fst a3)) as [I3|N3];
      try (exfalso; tauto);
      try rewrite (val_or_default_not_in fn a1 key N1) in *;
      try rewrite (val_or_default_not_in fn a2 key N2) in *;
      try rewrite (val_or_default_not_in fn a3 key N3) in *.
    all: try (specialize (U12 (or_introl I1))); try (specialize (U12 (or_intror I2)));
      try (specialize (U23 (or_introl I2))); try (specialize (U23 (or_intror I3))).
    all: repeat match goal with
         | H : context [match ?x with Some _ => _ | None => _ end] |- _ =>
             destruct x eqn:?; try discriminate
         end; eauto.
  Qed.

  Lemma dict_trans rec d1 d2 d3
    (Hrec : forall x y z, rec x y = true -> rec y z = true -> rec x z = true) :
    forallb (kv_ok rec d2) d1 = true -> forallb (kv_ok rec d3) d2 = true ->
    forallb (kv_ok rec d3) d1 = true.
  Proof.
    rewrite !forallb_forall. intros H12 H23 [k v] Hin. specialize (H12 (k, v) Hin).
    unfold kv_ok in *. cbn [fst snd] in *.
    destruct (akv_get d2 k) as [v2|] eqn:Hg2; [| discriminate].
    apply akv_get_some in Hg2. destruct Hg2 as [k2 [Hin2 Hk2]].
    specialize (H23 (k2, v2) Hin2). cbn [fst snd] in H23.
    rewrite (akv_get_congr d3 k k2 Hk2).
    destruct (akv_get d3 k2) as [v3|]; [| discriminate]. eapply Hrec; eassumption.
  Qed.

  Lemma set_incl_trans (xs ys zs : list atom) :
    forallb (fun x => existsb (atom_py_eq x) ys) xs = true ->
    forallb (fun y => existsb (atom_py_eq y) zs) ys = true ->
    forallb (fun x => existsb (atom_py_eq x) zs) xs = true.
  Proof.
    rewrite !forallb_forall. intros H12 H23 x Hx. specialize (H12 x Hx).
    apply existsb_exists in H12. destruct H12 as [y [Hy Hxy]]. specialize (H23 y Hy).
    apply existsb_exists in H23. destruct H23 as [z [Hz Hyz]].
    apply existsb_exists. exists z. split; [exact Hz | eapply atom_py_eq_trans; eassumption].
  Qed.

  Lemma cls_eq_trans rec i j k c1 c2 c3
    (Hrec : forall x y z, rec x y = true -> rec y z = true -> rec x z = true) :
    i <> j -> j <> k ->
    cls_eq rec i j c1 c2 = true -> cls_eq rec j k c2 c3 = true -> cls_eq rec i k c1 c3 = true.
  Proof.
    intros Hij Hjk H12 H23.
    apply Nat.eqb_neq in Hij. apply Nat.eqb_neq in Hjk.
    destruct c1 as [k1 fn1 a1|xs|xs|xs|d1|], c2 as [k2 fn2 a2|ys|ys|ys|d2|];
      cbn [cls_eq] in H12; try congruence;
      destruct c3 as [k3 fn3 a3|zs|zs|zs|d3|]; cbn [cls_eq] in H23; try congruence;
      cbn [cls_eq].
    - repeat match goal with H : _ && _ = true |- _ =>
               apply andb_true_iff in H; destruct H end.
      destruct (bkind_eq_dec k1 k2) as [->|]; [| discriminate].
      destruct (bkind_eq_dec k2 k3) as [->|]; [| discriminate].
      destruct (bkind_eq_dec k3 k3) as [_|]; [| congruence].
      repeat match goal with H : N.eqb _ _ = true |- _ => apply N.eqb_eq in H; subst end.
      rewrite N.eqb_refl. cbn [andb].
      apply andb_true_iff. split.
      + eapply args_trans; eassumption.
      + eapply dag_eq_trans; eassumption.
    - eapply all2_trans; eassumption.
    - apply andb_true_iff in H12. apply andb_true_iff in H23.
      destruct H12 as [Hxy Hyx], H23 as [Hyz Hzy]. apply andb_true_iff. split.
      + eapply set_incl_trans; eassumption.
      + eapply set_incl_trans; eassumption.
    - eapply all2_trans; eassumption.
    - apply andb_true_iff in H12. apply andb_true_iff in H23.
      destruct H12 as [L12 F12], H23 as [L23 F23].
      apply Nat.eqb_eq in L12. apply Nat.eqb_eq in L23. apply andb_true_iff. split.
      + apply Nat.eqb_eq. congruence.
      + eapply dict_trans; eassumption.
  Qed.
End EqP.

(* ------------------------------------------------------------------------------------------ *)
(* 3/4. == is an equivalence *)

Definition ref_rank (r : ref) : nat := match r with RA _ => 0 | RP i => S i end.

Lemma wf_refs_below e h i n c :
  wf_b e h = true -> nth_error h i = Some n -> In c (node_refs e n) -> ref_rank c <= i.
Proof.
  intros Hwf Hn Hin. unfold wf_b in Hwf.
  pose proof (wf_from_nth e h 0 i n Hwf Hn) as Hall. cbn [Nat.add] in Hall.
  rewrite forallb_forall in Hall. specialize (Hall c Hin).
  destruct c as [a|j]; cbn [ref_below ref_rank] in *; [lia |].
  apply Nat.ltb_lt in Hall. lia.
Qed.

Section EqThms.
  Variable e : sigenv.
  Variable h : heap.

  (* reflexivity at any sufficient fuel: no hypothesis on defaults is needed, because comparing
     a value with itself never consults a default (every key of the union is stored) *)
  Lemma veq_refl (Hwf : wf_b e h = true) (Hk : keys_py_distinct h) : forall f r,
    ref_rank r < f -> root_ok h r -> veq e h f r r = true.
  Proof.
    induction f as [|f IH]; intros r Hr Hroot; [lia |].
    destruct r as [a|i]; [apply atom_py_eq_refl |].
    rewrite veq_S. cbn [root_ok] in Hroot. cbn [ref_rank] in Hr.
    destruct (nth_error h i) as [n|] eqn:Hn; [| apply nth_error_None in Hn; lia].
    apply cls_eq_refl; [| eapply keys_py_distinct_nth; eassumption].
    intros x Hx. apply (cls_refs_sub e) in Hx.
    pose proof (wf_refs_below e h i n x Hwf Hn Hx) as Hlt.
    apply IH; [lia |]. destruct x as [a|j]; cbn [root_ok ref_rank] in *; [exact I | lia].
  Qed.

  Theorem cfg_eq_refl : wf_b e h = true -> keys_py_distinct h -> forall r,
    root_ok h r -> cfg_eq e h r r = true.
  Proof.
    intros Hwf Hk r Hroot. unfold cfg_eq. apply veq_refl; try assumption.
    destruct r as [a|i]; cbn [root_ok ref_rank] in *; lia.
  Qed.

  (* symmetry, at every fuel; well-formedness is not needed *)
  Lemma veq_sym (Hk : keys_py_distinct h) : forall f a b, veq e h f a b = veq e h f b a.
  Proof.
    induction f as [|f IH]; intros a b; [reflexivity |].
    destruct a as [a|i], b as [b|j]; try reflexivity.
    - rewrite !veq_S_atoms. apply atom_py_eq_sym.
    - rewrite !veq_S.
      destruct (nth_error h i) as [n1|] eqn:H1, (nth_error h j) as [n2|] eqn:H2; try reflexivity.
      apply cls_eq_sym; [exact IH | |]; eapply keys_py_distinct_nth; eassumption.
  Qed.

  Theorem cfg_eq_sym : keys_py_distinct h -> forall a b, cfg_eq e h a b = cfg_eq e h b a.
  Proof. intros Hk a b. apply veq_sym. exact Hk. Qed.

  (* transitivity, at every fuel; no hypothesis at all *)
  Lemma veq_trans : forall f a b c,
    veq e h f a b = true -> veq e h f b c = true -> veq e h f a c = true.
  Proof.
    induction f as [|f IH]; intros a b c Hab Hbc; [discriminate |].
    destruct a as [a|i], b as [b|j]; try discriminate; destruct c as [c|k]; try discriminate.
    - rewrite veq_S_atoms in *. eapply atom_py_eq_trans; eassumption.
    - destruct (Nat.eq_dec i j) as [->|Hij]; [exact Hbc |].
      destruct (Nat.eq_dec j k) as [->|Hjk]; [exact Hab |].
      rewrite veq_S in *.
      destruct (nth_error h i) as [n1|]; [| discriminate].
      destruct (nth_error h j) as [n2|]; [| discriminate].
      destruct (nth_error h k) as [n3|]; [| discriminate].
      eapply cls_eq_trans; eassumption.
  Qed.

  Theorem cfg_eq_trans : forall a b c,
    cfg_eq e h a b = true -> cfg_eq e h b c = true -> cfg_eq e h a c = true.
  Proof. intros a b c. apply veq_trans. Qed.
End EqThms.

(* the three laws together, on the references that are valid in the heap *)
Theorem cfg_eq_equivalence e h : wf_b e h = true -> keys_py_distinct h ->
  (forall r, root_ok h r -> cfg_eq e h r r = true) /\
  (forall a b, cfg_eq e h a b = cfg_eq e h b a) /\
  (forall a b c, cfg_eq e h a b = true -> cfg_eq e h b c = true -> cfg_eq e h a c = true).
Proof.
  intros Hwf Hk. split; [| split].
  - apply cfg_eq_refl; assumption.
  - apply cfg_eq_sym; assumption.
  - apply cfg_eq_trans.
Qed.

(* ------------------------------------------------------------------------------------------ *)
(* fuel: more fuel never turns True into False, and on a well-formed heap whose signature
   defaults are leaves S (length h) is enough fuel: the answer no longer depends on it *)

Definition default_is_atom (p : param) : bool :=
  match pdefault p with Some (RP _) => false | _ => true end.
Definition defaults_atomic_b (e : sigenv) : bool :=
  forallb (fun ns => forallb default_is_atom (snd ns)) e.
Definition defaults_atomic (e : sigenv) : Prop :=
  forall fn k r, default_of (sig_of e fn) k = Some r -> exists a, r = RA a.

Lemma find_param_in sg n p : find_param sg n = Some p -> In p sg.
Proof.
  induction sg as [|q sg IH]; cbn [find_param]; [discriminate |].
  destruct (N.eqb (pname q) n); intros Hf.
  - inversion Hf; subst. left; reflexivity.
  - right. apply IH. exact Hf.
Qed.

Lemma sig_of_params e fn p : In p (sig_of e fn) -> exists n, In (n, sig_of e fn) e.
Proof.
  induction e as [|[n s] e IH]; cbn [sig_of]; [intros [] |].
  destruct (N.eqb n fn); intros Hin.
  - exists n. left; reflexivity.
  - destruct (IH Hin) as [n' Hn']. exists n'. right; exact Hn'.
Qed.

Lemma defaults_atomic_b_ok e : defaults_atomic_b e = true -> defaults_atomic e.
Proof.
  intros Hb fn k r Hd.
  assert (Hp : exists p, In p (sig_of e fn) /\ pdefault p = Some r).
  { destruct k as [i|n]; cbn [default_of] in Hd.
    - destruct (0 <=? i)%Z; [| discriminate].
      destruct (nth_error (sig_of e fn) (Z.to_nat i)) as [p|] eqn:Hn; [| discriminate].
      destruct (is_prefix_kind (pk p)); [| discriminate].
      exists p. split; [eapply nth_error_In; exact Hn | exact Hd].
    - destruct (find_param (sig_of e fn) n) as [p|] eqn:Hf; [| discriminate].
      exists p. split; [eapply find_param_in; exact Hf | exact Hd]. }
  destruct Hp as [p [Hin Hpd]]. destruct (sig_of_params e fn p Hin) as [n Hn].
  unfold defaults_atomic_b in Hb. rewrite forallb_forall in Hb. specialize (Hb _ Hn).
  cbn [snd] in Hb. rewrite forallb_forall in Hb. specialize (Hb p Hin).
  unfold default_is_atom in Hb. rewrite Hpd in Hb. destruct r as [a|j]; [| discriminate].
  exists a; reflexivity.
Qed.

Section Fuel.
  Variable e : sigenv.
  Variable h : heap.

  Lemma cls_eq_mono rec rec' i j c1 c2 :
    (forall x y, rec x y = true -> rec' x y = true) ->
    cls_eq e h rec i j c1 c2 = true -> cls_eq e h rec' i j c1 c2 = true.
  Proof.
    intros Hrec.
    destruct c1 as [k1 fn1 a1|xs|xs|xs|d1|], c2 as [k2 fn2 a2|ys|ys|ys|d2|];
      cbn [cls_eq]; try (intros Hx; exact Hx); try (apply all2_mono; exact Hrec).
    - intros Hx. repeat match goal with H : _ && _ = true |- _ =>
                          apply andb_true_iff in H; destruct H end.
      repeat (apply andb_true_iff; split); try assumption.
      match goal with H : forallb _ _ = true |- _ => rewrite forallb_forall in H; rename H into Hall end.
      apply forallb_forall. intros key Hin. specialize (Hall key Hin). unfold arg_ok in *.
      destruct (val_or_default e fn1 a1 key), (val_or_default e fn2 a2 key);
        try discriminate. apply Hrec. exact Hall.
    - intros Hx. apply andb_true_iff in Hx. destruct Hx as [Hlen Hall].
      apply andb_true_iff. split; [exact Hlen |]. rewrite forallb_forall in Hall.
      apply forallb_forall. intros kv Hin. specialize (Hall kv Hin). unfold kv_ok in *.
      destruct (akv_get d2 (fst kv)); [| discriminate]. apply Hrec. exact Hall.
  Qed.

  Theorem veq_fuel_mono : forall f f' a b,
    veq e h f a b = true -> f <= f' -> veq e h f' a b = true.
  Proof.
    induction f as [|f IH]; intros f' a b Hab Hle; [discriminate |].
    destruct f' as [|f']; [lia |].
    destruct a as [a|i], b as [b|j]; try discriminate; [exact Hab |].
    rewrite veq_S in *.
    destruct (nth_error h i) as [n1|]; [| discriminate].
    destruct (nth_error h j) as [n2|]; [| discriminate].
    eapply cls_eq_mono; [| exact Hab]. intros x y Hxy. apply (IH f'); [exact Hxy | lia].
  Qed.

  Definition is_atom (r : ref) : Prop := exists a, r = RA a.

  Lemma val_or_default_cases (Hda : defaults_atomic e) fn (a : store) key v :
    val_or_default e fn a key = Some v -> In v (map snd a) \/ is_atom v.
  Proof.
    unfold val_or_default. pose proof (sget_spec a key) as Hs.
    destruct (sget a key) as [v'|].
    - intros Hx. inversion Hx; subst. left. apply Hs.
    - intros Hx. right. eapply Hda. exact Hx.
  Qed.

  Lemma cls_eq_ext (Hda : defaults_atomic e) rec rec' i j c1 c2 :
    (forall x y, In x (cls_refs c1) \/ is_atom x -> In y (cls_refs c2) \/ is_atom y ->
                 rec x y = rec' x y) ->
    cls_eq e h rec i j c1 c2 = cls_eq e h rec' i j c1 c2.
  Proof.
    intros Hrec.
    destruct c1 as [k1 fn1 a1|xs|xs|xs|d1|], c2 as [k2 fn2 a2|ys|ys|ys|d2|];
      cbn [cls_eq cls_refs] in *; try reflexivity.
    - f_equal. f_equal. apply forallb_same_elems; [tauto |]. intros key. unfold arg_ok.
      destruct (val_or_default e fn1 a1 key) as [v1|] eqn:H1; [| reflexivity].
      destruct (val_or_default e fn2 a2 key) as [v2|] eqn:H2; [| reflexivity].
      apply Hrec; eapply val_or_default_cases; eassumption.
    - apply all2_ext_in. intros x y Hx Hy. apply Hrec; left; assumption.
    - apply all2_ext_in. intros x y Hx Hy. apply Hrec; left; assumption.
    - f_equal. apply eq_true_iff_eq. rewrite !forallb_forall.
      assert (Hkv : forall kv, In kv d1 -> kv_ok rec d2 kv = kv_ok rec' d2 kv).
      { intros [k v] Hin. unfold kv_ok. cbn [fst snd].
        destruct (akv_get d2 k) as [v2|] eqn:Hg; [| reflexivity].
        apply akv_get_some in Hg. destruct Hg as [k' [Hin' _]].
        apply Hrec; left.
        - apply (in_map snd) in Hin. exact Hin.
        - apply (in_map snd) in Hin'. exact Hin'. }
      split; intros Hall kv Hin.
      + rewrite <- Hkv by exact Hin. apply Hall. exact Hin.
      + rewrite Hkv by exact Hin. apply Hall. exact Hin.
  Qed.

  Lemma veq_fuel_stable (Hwf : wf_b e h = true) (Hda : defaults_atomic e) : forall f1 f2 a b,
    ref_rank a < f1 -> ref_rank b < f1 -> ref_rank a < f2 -> ref_rank b < f2 ->
    veq e h f1 a b = veq e h f2 a b.
  Proof.
    induction f1 as [|f1 IH]; intros f2 a b Ha1 Hb1 Ha2 Hb2; [lia |].
    destruct f2 as [|f2]; [lia |].
    destruct a as [a|i], b as [b|j]; try reflexivity.
    rewrite !veq_S. cbn [ref_rank] in *.
    destruct (nth_error h i) as [n1|] eqn:H1; [| reflexivity].
    destruct (nth_error h j) as [n2|] eqn:H2; [| reflexivity].
    apply cls_eq_ext; [exact Hda |]. intros x y Hx Hy.
    assert (Rx : ref_rank x <= i).
    { destruct Hx as [Hx|[a ->]]; [| cbn [ref_rank]; lia].
      eapply wf_refs_below; [exact Hwf | exact H1 | apply cls_refs_sub; exact Hx]. }
    assert (Ry : ref_rank y <= j).
    { destruct Hy as [Hy|[a ->]]; [| cbn [ref_rank]; lia].
      eapply wf_refs_below; [exact Hwf | exact H2 | apply cls_refs_sub; exact Hy]. }
    apply IH; lia.
  Qed.

  (* the fuel of cfg_eq is adequate: any larger fuel gives the same answer, so a False is a
     genuine inequality and never an exhausted budget *)
  Theorem cfg_eq_fuel_adequate : wf_b e h = true -> defaults_atomic e -> forall f a b,
    S (length h) <= f -> veq e h f a b = cfg_eq e h a b.
  Proof.
    intros Hwf Hda f a b Hf. unfold cfg_eq.
    destruct f as [|f]; [lia |].
    destruct a as [a|i], b as [b|j]; try reflexivity.
    destruct (Nat.lt_ge_cases i (length h)) as [Hi|Hi];
      [destruct (Nat.lt_ge_cases j (length h)) as [Hj|Hj] |].
    - apply veq_fuel_stable; cbn [ref_rank]; try assumption; lia.
    - rewrite !veq_S. apply nth_error_None in Hj. rewrite Hj.
      destruct (nth_error h i); reflexivity.
    - rewrite !veq_S. apply nth_error_None in Hi. rewrite Hi. reflexivity.
  Qed.
End Fuel.

(* ------------------------------------------------------------------------------------------ *)
(* 5. == distinguishes kinds, callables and leaf arguments *)

Section Distinguish.
  Variable e : sigenv.
  Variable h : heap.
  Variables (i j : nat) (k1 k2 : bkind) (fn1 fn2 : N) (a1 a2 : store) (t1 t2 : list (skey * list N)).
  Hypothesis H1 : nth_error h i = Some (NBuildable k1 fn1 a1 t1).
  Hypothesis H2 : nth_error h j = Some (NBuildable k2 fn2 a2 t2).

  Lemma cfg_eq_buildables :
    cfg_eq e h (RP i) (RP j) =
    (if bkind_eq_dec k1 k2 then true else false) && N.eqb fn1 fn2
    && forallb (arg_ok e (veq e h (length h)) fn1 a1 fn2 a2) (union_keys a1 a2)
    && dag_eq e h (RP i) (RP j).
  Proof. unfold cfg_eq. rewrite veq_S, H1, H2. reflexivity. Qed.

  Theorem cfg_eq_diff_kind : k1 <> k2 -> cfg_eq e h (RP i) (RP j) = false.
  Proof.
    intros Hne. rewrite cfg_eq_buildables. destruct (bkind_eq_dec k1 k2); [contradiction |].
    reflexivity.
  Qed.

  Theorem cfg_eq_diff_callable : fn1 <> fn2 -> cfg_eq e h (RP i) (RP j) = false.
  Proof.
    intros Hne. rewrite cfg_eq_buildables. apply N.eqb_neq in Hne. rewrite Hne.
    rewrite andb_false_r. reflexivity.
  Qed.

  Lemma veq_atoms_false f x y : atom_py_eq x y = false -> veq e h f (RA x) (RA y) = false.
  Proof. intros Hxy. destruct f as [|f]; [reflexivity | exact Hxy]. Qed.

  (* some key (stored on either side) whose value-or-default is a leaf on both sides, with leaves
     that Python == tells apart *)
  Theorem cfg_eq_diff_leaf_or_default key x y :
    In key (map fst a1) \/ In key (map fst a2) ->
    val_or_default e fn1 a1 key = Some (RA x) -> val_or_default e fn2 a2 key = Some (RA y) ->
    atom_py_eq x y = false -> cfg_eq e h (RP i) (RP j) = false.
  Proof.
    intros Hin Hx Hy Hxy. rewrite cfg_eq_buildables.
    assert (Hf : forallb (arg_ok e (veq e h (length h)) fn1 a1 fn2 a2) (union_keys a1 a2) = false).
    { destruct (forallb _ (union_keys a1 a2)) eqn:Hall; [| reflexivity].
      rewrite forallb_forall in Hall. specialize (Hall key (proj2 (union_keys_in a1 a2 key) Hin)).
      unfold arg_ok in Hall. rewrite Hx, Hy, (veq_atoms_false _ x y Hxy) in Hall. discriminate. }
    rewrite Hf, andb_false_r. reflexivity.
  Qed.

  (* the two argument stores hold different leaves under one key *)
  Theorem cfg_eq_diff_leaf key x y :
    sget a1 key = Some (RA x) -> sget a2 key = Some (RA y) -> atom_py_eq x y = false ->
    cfg_eq e h (RP i) (RP j) = false.
  Proof.
    intros Hx Hy Hxy. apply (cfg_eq_diff_leaf_or_default key x y); try assumption.
    - left. pose proof (sget_spec a1 key) as Hs. rewrite Hx in Hs. apply Hs.
    - unfold val_or_default. rewrite Hx. reflexivity.
    - unfold val_or_default. rewrite Hy. reflexivity.
  Qed.

  (* an argument stored on one side only, and the callable has no default for it *)
  Theorem cfg_eq_missing_no_default key :
    In key (map fst a1) -> sget a2 key = None -> default_of (sig_of e fn2) key = None ->
    cfg_eq e h (RP i) (RP j) = false.
  Proof.
    intros Hin Hn Hd. rewrite cfg_eq_buildables.
    assert (Hf : forallb (arg_ok e (veq e h (length h)) fn1 a1 fn2 a2) (union_keys a1 a2) = false).
    { destruct (forallb _ (union_keys a1 a2)) eqn:Hall; [| reflexivity].
      rewrite forallb_forall in Hall.
      specialize (Hall key (proj2 (union_keys_in a1 a2 key) (or_introl Hin))).
      unfold arg_ok, val_or_default in Hall. rewrite Hn, Hd in Hall.
      destruct (match sget a1 key with Some v => Some v | None => default_of (sig_of e fn1) key end);
        discriminate. }
    rewrite Hf, andb_false_r. reflexivity.
  Qed.
End Distinguish.

(* ------------------------------------------------------------------------------------------ *)
(* 6. the two known findings at _compare_buildable, by computation *)

Definition cx_param (n : N) : param := mkparam n PosOrKw None false.

(* finding 1: k(x=A, y=B, z=A) == k(x=A2, y=B2, z=B2) for four distinct equal lists *)
Definition cx1_env : sigenv := [(1%N, [cx_param 10%N; cx_param 11%N; cx_param 12%N])].
Definition cx1_list : node := NList [RA (AInt 1); RA (AInt 2)].
Definition cx1_args_a : store := [(KName 10%N, RP 0); (KName 11%N, RP 1); (KName 12%N, RP 0)].
Definition cx1_args_b : store := [(KName 10%N, RP 2); (KName 11%N, RP 3); (KName 12%N, RP 3)].
Definition cx1_heap : heap :=
  [cx1_list; cx1_list; cx1_list; cx1_list;
   NBuildable BConfig 1%N cx1_args_a []; NBuildable BConfig 1%N cx1_args_b []].

Theorem eq_not_congruent_sharing :
  wf_b cx1_env cx1_heap = true /\ keys_py_distinct cx1_heap /\ defaults_atomic_b cx1_env = true /\
  nth_error cx1_heap 4 = Some (NBuildable BConfig 1%N cx1_args_a []) /\
  nth_error cx1_heap 5 = Some (NBuildable BConfig 1%N cx1_args_b []) /\
  (* A, B, A2, B2 are four objects, pairwise == *)
  forallb (fun p => cfg_eq cx1_env cx1_heap (RP (fst p)) (RP (snd p)))
    [(0, 1); (0, 2); (0, 3); (1, 2); (1, 3); (2, 3)] = true /\
  (* the configurations are == ... *)
  cfg_eq cx1_env cx1_heap (RP 4) (RP 5) = true /\
  (* ... although x and z are one object in a and two objects in b *)
  sget cx1_args_a (KName 10%N) = sget cx1_args_a (KName 12%N) /\
  sget cx1_args_b (KName 10%N) <> sget cx1_args_b (KName 12%N) /\
  (* so the object graphs are not isomorphic *)
  iso_b cx1_heap cx1_heap (RP 4) (RP 5) = false.
Proof. repeat split; try (vm_compute; reflexivity). vm_compute. discriminate. Qed.

(* hence == does not imply isomorphism of the object graphs (what build preserves) *)
Theorem eq_not_congruent :
  ~ (forall e h a b, wf_b e h = true -> keys_py_distinct h -> defaults_atomic e ->
                     cfg_eq e h a b = true -> iso_b h h a b = true).
Proof.
  intros Hall.
  destruct eq_not_congruent_sharing as [Hwf [Hk [Hd [_ [_ [_ [Heq [_ [_ Hiso]]]]]]]]].
  specialize (Hall cx1_env cx1_heap (RP 4) (RP 5) Hwf Hk (defaults_atomic_b_ok _ Hd) Heq).
  congruence.
Qed.

(* finding 2: f({'a': f(L), 'b': L}) != f({'b': L2, 'a': f(L2)}) *)
Definition cx2_env : sigenv := [(2%N, [cx_param 20%N])].
Definition cx2_ka : atom := AStr [97%N].
Definition cx2_kb : atom := AStr [98%N].
Definition cx2_d1 : list (atom * ref) := [(cx2_ka, RP 1); (cx2_kb, RP 0)].
Definition cx2_d2 : list (atom * ref) := [(cx2_kb, RP 4); (cx2_ka, RP 5)].
Definition cx2_heap : heap :=
  [ NList [RA (AInt 1)];                                   (* 0: L *)
    NBuildable BConfig 2%N [(KName 20%N, RP 0)] [];        (* 1: f(L) *)
    NDict cx2_d1;                                          (* 2 *)
    NBuildable BConfig 2%N [(KName 20%N, RP 2)] [];        (* 3: a *)
    NList [RA (AInt 1)];                                   (* 4: L2 *)
    NBuildable BConfig 2%N [(KName 20%N, RP 4)] [];        (* 5: f(L2) *)
    NDict cx2_d2;                                          (* 6 *)
    NBuildable BConfig 2%N [(KName 20%N, RP 6)] [] ].      (* 7: b *)

Theorem eq_depends_on_dict_order :
  wf_b cx2_env cx2_heap = true /\ keys_py_distinct cx2_heap /\ defaults_atomic_b cx2_env = true /\
  nth_error cx2_heap 3 = Some (NBuildable BConfig 2%N [(KName 20%N, RP 2)] []) /\
  nth_error cx2_heap 7 = Some (NBuildable BConfig 2%N [(KName 20%N, RP 6)] []) /\
  nth_error cx2_heap 2 = Some (NDict cx2_d1) /\ nth_error cx2_heap 6 = Some (NDict cx2_d2) /\
  (* the two dicts have the same keys, inserted in the opposite order ... *)
  map fst cx2_d2 = rev (map fst cx2_d1) /\
  (* ... and are equal as maps: every key is bound to == values, in both directions ... *)
  forallb (kv_ok (cfg_eq cx2_env cx2_heap) cx2_d2) cx2_d1 = true /\
  forallb (kv_ok (cfg_eq cx2_env cx2_heap) cx2_d1) cx2_d2 = true /\
  (* ... indeed the dicts themselves are == ... *)
  cfg_eq cx2_env cx2_heap (RP 2) (RP 6) = true /\
  (* ... with the same sharing: in both, the list under 'b' is the argument of the Config
     under 'a' ... *)
  (nth_error cx2_heap 1 = Some (NBuildable BConfig 2%N [(KName 20%N, RP 0)] []) /\
   akv_get cx2_d1 cx2_kb = Some (RP 0)) /\
  (nth_error cx2_heap 5 = Some (NBuildable BConfig 2%N [(KName 20%N, RP 4)] []) /\
   akv_get cx2_d2 cx2_kb = Some (RP 4)) /\
  (* ... but the configurations holding them are not == *)
  cfg_eq cx2_env cx2_heap (RP 3) (RP 7) = false /\
  (* because the first-visit paths of the shared list differ *)
  first_paths cx2_env cx2_heap (RP 3) =
    [[]; [PAttr 20%N]; [PAttr 20%N; PKey cx2_ka]; [PAttr 20%N; PKey cx2_ka; PAttr 20%N];
     [PAttr 20%N; PKey cx2_ka; PAttr 20%N; PIndex 0%Z]] /\
  first_paths cx2_env cx2_heap (RP 7) =
    [[]; [PAttr 20%N]; [PAttr 20%N; PKey cx2_kb]; [PAttr 20%N; PKey cx2_kb; PIndex 0%Z];
     [PAttr 20%N; PKey cx2_ka]].
Proof. repeat split; vm_compute; reflexivity. Qed.

(* ------------------------------------------------------------------------------------------ *)
(* 7. non-vacuity: two distinct equal configurations with a diamond, a third that differs in
   one leaf; the hypotheses of the theorems hold, and each of them is needed *)

Definition eqx_env : sigenv :=
  [(1%N, [cx_param 10%N; cx_param 11%N]);
   (2%N, [cx_param 20%N; mkparam 21%N PosOrKw (Some (RA (AInt 7))) false])].
(* k(x = f(a=L), y = f(a=L, b=7)) with L = [leaf] shared; b defaults to 7 *)
Definition eqx_cfg (base : nat) (leaf : Z) : heap :=
  [ NList [RA (AInt leaf)];
    NBuildable BConfig 2%N [(KName 20%N, RP base)] [];
    NBuildable BConfig 2%N [(KName 20%N, RP base); (KName 21%N, RA (AInt 7))] [];
    NBuildable BConfig 1%N [(KName 10%N, RP (base + 1)); (KName 11%N, RP (base + 2))] [] ].
Definition eqx_heap : heap := eqx_cfg 0 1 ++ eqx_cfg 4 1 ++ eqx_cfg 8 2.

Example eq_example :
  wf_b eqx_env eqx_heap = true /\ keys_py_distinct eqx_heap /\ defaults_atomic_b eqx_env = true /\
  cfg_eq eqx_env eqx_heap (RP 3) (RP 7) = true /\
  cfg_eq eqx_env eqx_heap (RP 7) (RP 3) = true /\
  cfg_eq eqx_env eqx_heap (RP 3) (RP 3) = true /\
  (* defaults-aware: f(a=L) == f(a=L, b=7) *)
  cfg_eq eqx_env eqx_heap (RP 1) (RP 2) = true /\
  iso_b eqx_heap eqx_heap (RP 3) (RP 7) = true /\
  cfg_eq eqx_env eqx_heap (RP 3) (RP 11) = false /\
  cfg_eq eqx_env eqx_heap (RP 11) (RP 7) = false.
Proof. repeat split; vm_compute; reflexivity. Qed.

(* without distinct dict keys == is neither reflexive nor symmetric in the model (Python dicts
   cannot hold both 1 and True) *)
Definition dupkey_heap : heap :=
  [ NList [RA (AInt 0)]; NList [RA (AInt 1)];
    NDict [(AInt 1, RP 0); (ABool true, RP 1)];
    NDict [(AInt 1, RP 0); (AInt 2, RP 0)];
    NDict [(AInt 1, RP 0); (ABool true, RP 0)] ].
Example keys_py_distinct_needed :
  wf_b [] dupkey_heap = true /\
  cfg_eq [] dupkey_heap (RP 2) (RP 2) = false /\
  cfg_eq [] dupkey_heap (RP 4) (RP 3) = true /\ cfg_eq [] dupkey_heap (RP 3) (RP 4) = false.
Proof. repeat split; vm_compute; reflexivity. Qed.

(* on a cyclic heap == runs out of fuel (RecursionError in Python): well-formedness is needed
   for reflexivity *)
Example wf_needed_for_refl :
  wf_b [] [NList [RP 0]] = false /\ keys_py_distinct [NList [RP 0]] /\
  cfg_eq [] [NList [RP 0]] (RP 0) (RP 0) = false.
Proof. repeat split; vm_compute; reflexivity. Qed.
