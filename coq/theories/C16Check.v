(* C16Check: histories of edits, tag edits and suspend blocks; after every step the implementation's
   result, __arguments__, non-empty tag sets and full __argument_history__ (sequence ids relative
   to the configuration's first entry) are compared with the model. *)
From Fiddle Require Import PyBase PySlice Sig ArgStore History.

Definition nonempty_tags (m : tagmap) : tagmap :=
  filter (fun kt => match snd kt with [] => false | _ => true end) m.

(* tag maps are compared as sets of (key, tags) pairs *)
Definition tagmap_same (a b : tagmap) : bool :=
  forallb (fun kt => if list_eq_dec N.eq_dec (snd kt) (tags_get b (fst kt)) then true else false)
          (nonempty_tags a)
  && forallb (fun kt => if list_eq_dec N.eq_dec (snd kt) (tags_get a (fst kt)) then true else false)
             (nonempty_tags b).

Record obs := mk_obs { o_out : out; o_args : store; o_tags : tagmap; o_hist : hist }.
Record case := mkcase { c_sig : sig; c_init : bstate; c_steps : list (hop * obs) }.

Definition is_suspend_op (o : hop) : bool :=
  match o with HSuspendBegin | HSuspendEnd => true | _ => false end.

(* clean: no operation has run under suspend_tracking so far (such edits add no entries by design,
   after which the log may lag behind the state) *)
Fixpoint run_steps (sg : sig) (clean : bool) (s : bstate) (steps : list (hop * obs)) : bool :=
  match steps with
  | [] => true
  | (o, ob) :: rest =>
      let clean' := clean && (b_tracking s || is_suspend_op o) in
      let '(s', r) := hstep sg s o in
      (if out_eq_dec r (o_out ob) then true else false)
      && (if store_eq_dec (b_args s') (o_args ob) then true else false)
      && tagmap_same (b_tags s') (o_tags ob)
      && (if hist_eq_dec (b_hist s') (o_hist ob) then true else false)
      (* the invariants of C16 hold in the model after every step *)
      && (negb clean' || last_is_current_b s') && seqs_ok_b s'
      && run_steps sg clean' s' rest
  end.

Definition check_case (c : case) : bool :=
  valid_sig (c_sig c) && last_is_current_b (c_init c) && seqs_ok_b (c_init c)
  && run_steps (c_sig c) true (c_init c) (c_steps c).

Fixpoint model_trace (sg : sig) (s : bstate) (ops : list hop) : list (out * bstate) :=
  match ops with
  | [] => []
  | o :: rest => let '(s', r) := hstep sg s o in (r, s') :: model_trace sg s' rest
  end.
Definition explain_case (c : case) := model_trace (c_sig c) (c_init c) (map fst (c_steps c)).
