(* C20Check: the heap after (or the graph returned by) each transformation against the model. *)
From Fiddle Require Import PyBase PySlice Sig ArgStore PyCall Heap Traverse Tags Eq Transform.

Inductive tkind := TMaterialize | TTrim | TSimplify | TMatTags | TClearHistory.

Record case := mkcase { c_env : sigenv; c_heap : heap; c_root : ref; c_kind : tkind;
                        c_after : heap; c_root_after : ref }.

Definition bij_new (n : nat) (m : bij) : bool :=
  forallb (fun ij => let '(i, j) := ij in
                     if Nat.ltb i n then Nat.eqb i j else negb (Nat.ltb j n)) m.

Definition iso_new (n : nat) (h1 : heap) (r1 : ref) (h2 : heap) (r2 : ref) : bool :=
  match iso h1 h2 (S (length h1 + length h2)) [] r1 r2 with
  | Some m => bij_new n m
  | None => false
  end.

Definition run_model (c : case) : option (heap * ref) :=
  let e := c_env c in let h := c_heap c in
  match c_kind c with
  | TMaterialize => Some (materialize_defaults e h (c_root c), c_root c)
  | TTrim => match with_defaults_trimmed e h (c_root c) with (s, inl r) => Some (out s, r) | _ => None end
  | TSimplify => match simplify_partials e h (c_root c) with (s, inl r) => Some (out s, r) | _ => None end
  | TMatTags => match materialize_tags e h (c_root c) with (s, inl r) => Some (out s, r) | _ => None end
  | TClearHistory => match mrun e h (trim_node e) (c_root c) with (s, inl r) => Some (out s, r) | _ => None end
  end.

Definition check_case (c : case) : bool :=
  match run_model c with
  | Some (h', r') =>
      match c_kind c with
      | TMaterialize =>
          (* in place: same objects, node for node *)
          if heap_eq_dec h' (c_after c) then true else false
      | _ => iso_new (length (c_heap c)) h' r' (c_after c) (c_root_after c)
      end
  | None => false
  end.

Definition explain_case (c : case) := run_model c.
