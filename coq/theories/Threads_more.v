(* Further consequences for C19: the result seen by a thread does not depend on WHICH interleaving of
   the same per-thread programs ran (trace equivalence), its final per-thread flags are those of the
   solo run, it obtains the same number of sequence ids, and the value it takes from a shared cache
   under the get-or-compute pattern is always the pure function of the key. *)
From Fiddle Require Import Threads Threads_proofs.
From Coq Require Import List Arith Bool Lia Sorted.
Import ListNotations.

Section More.
  Variable f : nat -> nat.

  Lemma agree_refl t g : agree t g g.
  Proof. split; reflexivity. Qed.

  Theorem final_flags_agree t : forall sched g g',
    agree t g g' -> agree t (fst (run f g sched)) (fst (run f g' (only t sched))).
  Proof.
    induction sched as [|[t' a] rest IH]; intros g g' Hag.
    - exact Hag.
    - cbn [run only filter fst].
      destruct (step f g t' a) as [g1 o] eqn:Hs.
      destruct (Nat.eqb_spec t' t) as [->|Hne].
      + cbn [run]. destruct (step f g' t a) as [g1' o'] eqn:Hs'.
        pose proof (step_self f t a g g' Hag) as [Hag1 _]. rewrite Hs, Hs' in Hag1. cbn [fst] in Hag1.
        specialize (IH g1 g1' Hag1). unfold only in IH.
        destruct (run f g1 rest) as [g2 os].
        destruct (run f g1' (filter (fun x => Nat.eqb (fst x) t) rest)) as [g2' os'].
        exact IH.
      + pose proof (step_other f t t' a g Hne) as Hag1. rewrite Hs in Hag1. cbn [fst] in Hag1.
        specialize (IH g1 g' (agree_trans t _ _ _ (agree_sym t _ _ Hag1) Hag)).
        unfold only in IH. destruct (run f g1 rest) as [g2 os]. exact IH.
  Qed.

  (* two interleavings of the same per-thread programs are indistinguishable for every thread *)
  Theorem interleaving_irrelevant t s1 s2 g :
    only t s1 = only t s2 ->
    map erase (proj t (snd (run f g s1))) = map erase (proj t (snd (run f g s2))).
  Proof.
    intros E. rewrite (noninterference f t s1 g g (agree_refl t g)).
    rewrite (noninterference f t s2 g g (agree_refl t g)). rewrite E. reflexivity.
  Qed.

  Lemma only_swap t pre t1 a1 t2 a2 post :
    t1 <> t2 ->
    only t (pre ++ (t1, a1) :: (t2, a2) :: post) = only t (pre ++ (t2, a2) :: (t1, a1) :: post).
  Proof.
    intros Hne. unfold only. rewrite !filter_app. f_equal. cbn [filter fst].
    destruct (Nat.eqb_spec t1 t) as [E1|N1]; destruct (Nat.eqb_spec t2 t) as [E2|N2];
      try reflexivity. congruence.
  Qed.

  (* adjacent actions of different threads commute, as far as any thread can tell *)
  Theorem independent_swap t pre t1 a1 t2 a2 post g :
    t1 <> t2 ->
    map erase (proj t (snd (run f g (pre ++ (t1, a1) :: (t2, a2) :: post)))) =
    map erase (proj t (snd (run f g (pre ++ (t2, a2) :: (t1, a1) :: post)))).
  Proof. intros Hne. apply interleaving_irrelevant. apply only_swap. exact Hne. Qed.

  Lemma seqs_len_erase l : length (seqs_of l) = length (seqs_of (map erase l)).
  Proof.
    induction l as [|o l IH]; [reflexivity|].
    unfold seqs_of in *. cbn [map flat_map]. rewrite !app_length, IH. f_equal.
    destruct o as [| |[n|]|v|]; reflexivity.
  Qed.

  (* a thread obtains exactly as many sequence ids as it would alone *)
  Theorem seq_count_same t sched g g' :
    agree t g g' ->
    length (seqs_of (proj t (snd (run f g sched)))) =
    length (seqs_of (proj t (snd (run f g' (only t sched))))).
  Proof.
    intros Hag. rewrite seqs_len_erase, (seqs_len_erase (proj t (snd (run f g' (only t sched))))).
    rewrite (noninterference f t sched g g' Hag). reflexivity.
  Qed.

  (* get-or-compute: whatever the other threads did before, a hit for key k carries f k, so the value
     a thread ends up using (the hit, or f k computed after a miss) is f k in every interleaving *)
  Definition used (k : nat) (o : obs) : nat :=
    match o with OCache (Some v) => v | _ => f k end.

  Theorem cache_value_exact pre t k g :
    cache_ok f g ->
    used k (snd (step f (fst (run f g pre)) t (ACacheGet k))) = f k.
  Proof.
    intros Hok. destruct (cache_sound f pre g Hok) as [Hok' _].
    cbn [step snd used]. destruct (g_cache (fst (run f g pre)) k) as [v|] eqn:Hc; [|reflexivity].
    apply Hok' in Hc. exact Hc.
  Qed.

  (* the guard answer depends on the thread's own flag only *)
  Theorem enter_accepted_iff g t :
    snd (step f g t AEnterBuild) = OOk <-> g_in_build g t = false.
  Proof.
    cbn [step]. destruct (g_in_build g t); cbn [snd]; split; intros H; congruence.
  Qed.

  Theorem enter_after_interleaving t sched g g' :
    agree t g g' ->
    snd (step f (fst (run f g sched)) t AEnterBuild) =
    snd (step f (fst (run f g' (only t sched))) t AEnterBuild).
  Proof.
    intros Hag. destruct (final_flags_agree t sched g g' Hag) as [Hb _].
    cbn [step]. rewrite Hb. destruct (g_in_build (fst (run f g' (only t sched))) t); reflexivity.
  Qed.
End More.
