(* PySlice_proofs: facts about the Python list primitives of PySlice. *)
From Fiddle Require Import PyBase PySlice.
From Fiddle Require Export PyRange_proofs.

(* ------------------------------------------------------------------ integer sequences *)
Definition seqZ (a len : nat) : list Z := map Z.of_nat (seq a len).

Lemma seqZ_length a len : length (seqZ a len) = len.
Proof. unfold seqZ. rewrite map_length, seq_length. reflexivity. Qed.

Lemma seqZ_app a l1 l2 : seqZ a (l1 + l2) = seqZ a l1 ++ seqZ (a + l1) l2.
Proof. unfold seqZ. rewrite seq_app, map_app. reflexivity. Qed.

Lemma seqZ_cons a len : seqZ a (S len) = Z.of_nat a :: seqZ (S a) len.
Proof. reflexivity. Qed.

Lemma seqZ_split a len k :
  (k < len)%nat ->
  seqZ a len = seqZ a k ++ Z.of_nat (a + k) :: seqZ (S (a + k)) (len - S k).
Proof.
  intros H. replace len with (k + S (len - S k))%nat at 1 by lia.
  rewrite seqZ_app, seqZ_cons. reflexivity.
Qed.

Lemma seqZ_In x a len : In x (seqZ a len) <-> exists k, x = Z.of_nat k /\ (a <= k < a + len)%nat.
Proof.
  unfold seqZ. rewrite in_map_iff. split.
  - intros [k [E H]]. apply in_seq in H. exists k. split; [congruence|exact H].
  - intros [k [E H]]. exists k. split; [congruence|]. apply in_seq. exact H.
Qed.

Lemma seqZ_nth a len k : (k < len)%nat -> nth_error (seqZ a len) k = Some (Z.of_nat (a + k)).
Proof.
  intros H. unfold seqZ. rewrite nth_error_map.
  rewrite (nth_error_nth' _ 0%nat) by (rewrite seq_length; exact H).
  rewrite seq_nth by exact H. reflexivity.
Qed.

Lemma nat_seq_eq a n : nat_seq a n = seq a n.
Proof. revert a. induction n as [|n IH]; intros a; cbn; [reflexivity | rewrite IH; reflexivity]. Qed.

(* ------------------------------------------------------------------ list edits *)
Lemma list_del_nat_app {A} (l1 : list A) y l2 : list_del_nat (l1 ++ y :: l2) (length l1) = l1 ++ l2.
Proof. induction l1 as [|x l1 IH]; cbn [app length list_del_nat]; [reflexivity | rewrite IH; reflexivity]. Qed.

Lemma list_set_nat_same {A} (l : list A) : forall i v, nth_error l i = Some v -> list_set_nat l i v = l.
Proof.
  induction l as [|x l IH]; intros i v H; [reflexivity|].
  destruct i as [|i]; cbn [nth_error list_set_nat] in *.
  - inversion H. reflexivity.
  - rewrite IH by exact H. reflexivity.
Qed.

Lemma filter_true {A} (f : A -> bool) l : (forall x, In x l -> f x = true) -> filter f l = l.
Proof.
  induction l as [|x l IH]; intros H; [reflexivity|].
  cbn [filter]. rewrite (H x (or_introl eq_refl)). f_equal. apply IH. intros y Hy. apply H. right. exact Hy.
Qed.

Lemma filter_false {A} (f : A -> bool) l : (forall x, In x l -> f x = false) -> filter f l = [].
Proof.
  induction l as [|x l IH]; intros H; [reflexivity|].
  cbn [filter]. rewrite (H x (or_introl eq_refl)). apply IH. intros y Hy. apply H. right. exact Hy.
Qed.

Lemma zmem_ext x l l' : (forall y, In y l <-> In y l') -> zmem x l = zmem x l'.
Proof.
  intros H. destruct (zmem x l) eqn:A; destruct (zmem x l') eqn:B; try reflexivity.
  - apply zmem_In in A. apply H in A. apply zmem_In in A. congruence.
  - apply zmem_In in B. apply H in B. apply zmem_In in B. congruence.
Qed.

Lemma zmem_false x l : zmem x l = false <-> ~ In x l.
Proof.
  split.
  - intros H HI. apply zmem_In in HI. congruence.
  - intros H. destruct (zmem x l) eqn:E; [|reflexivity]. apply zmem_In in E. contradiction.
Qed.

(* ------------------------------------------------------------------ strictly descending lists *)
Lemma sdesc_filter f l : sdesc l -> sdesc (filter f l).
Proof.
  intros H. induction H as [|x l Hx H IH]; cbn [filter]; [constructor|].
  destruct (f x); [|exact IH]. constructor; [|exact IH].
  intros y Hy. apply filter_In in Hy. apply Hx, Hy.
Qed.

Lemma sdesc_split b l :
  sdesc l -> l = filter (fun x => b <=? x) l ++ filter (fun x => x <? b) l.
Proof.
  intros H. induction H as [|x l Hx H IH]; [reflexivity|].
  cbn [filter]. destruct (b <=? x) eqn:E.
  - apply Z.leb_le in E. replace (x <? b) with false by (symmetry; apply Z.ltb_ge; lia).
    cbn [app]. f_equal. exact IH.
  - apply Z.leb_gt in E. replace (x <? b) with true by (symmetry; apply Z.ltb_lt; lia).
    rewrite filter_false.
    + cbn [app]. f_equal. symmetry. apply filter_true.
      intros y Hy. apply Z.ltb_lt. specialize (Hx y Hy). lia.
    + intros y Hy. apply Z.leb_gt. specialize (Hx y Hy). lia.
Qed.

Lemma sdesc_NoDup l : sdesc l -> NoDup l.
Proof.
  intros H. induction H as [|x l Hx H IH]; constructor; [|exact IH].
  intros HI. specialize (Hx x HI). lia.
Qed.

(* ------------------------------------------------------------------ unset_slots-like maps, filter_idx *)
Lemma filter_idx_single_lo {A} (l : list A) : forall i j, j < i -> filter_idx l i [j] = l.
Proof.
  induction l as [|x l IH]; intros i j H; [reflexivity|].
  cbn [filter_idx zmem existsb]. replace (i =? j) with false by (symmetry; apply Z.eqb_neq; lia).
  cbn [orb]. rewrite IH by lia. reflexivity.
Qed.

Lemma filter_idx_single {A} (l : list A) : forall i j,
  i <= j -> filter_idx l i [j] = list_del_nat l (Z.to_nat (j - i)).
Proof.
  induction l as [|x l IH]; intros i j H.
  - cbn [filter_idx]. destruct (Z.to_nat (j - i)); reflexivity.
  - cbn [filter_idx zmem existsb]. destruct (i =? j) eqn:E.
    + apply Z.eqb_eq in E. subst j. cbn [orb]. rewrite Z.sub_diag. cbn [Z.to_nat list_del_nat].
      apply filter_idx_single_lo. lia.
    + apply Z.eqb_neq in E. cbn [orb].
      replace (Z.to_nat (j - i)) with (S (Z.to_nat (j - (i + 1)))) by lia.
      cbn [list_del_nat]. rewrite IH by lia. reflexivity.
Qed.

Lemma filter_idx_ext {A} (l : list A) drop drop' : forall i,
  (forall x, i <= x -> zmem x drop = zmem x drop') -> filter_idx l i drop = filter_idx l i drop'.
Proof.
  induction l as [|v l IH]; intros i H; [reflexivity|].
  cbn [filter_idx]. rewrite (H i) by lia. rewrite (IH (i + 1)) by (intros x Hx; apply H; lia).
  reflexivity.
Qed.

(* ------------------------------------------------------------------ firstn / skipn / map *)
Lemma nth_error_firstn' {A} (l : list A) : forall k i,
  nth_error (firstn k l) i = if Nat.ltb i k then nth_error l i else None.
Proof.
  induction l as [|x l IH]; intros k i.
  - rewrite firstn_nil. destruct i; destruct (Nat.ltb _ k); reflexivity.
  - destruct k as [|k]; cbn [firstn].
    + destruct i; reflexivity.
    + destruct i as [|i]; cbn [nth_error]; [reflexivity|]. rewrite IH. reflexivity.
Qed.

Lemma nth_error_skipn' {A} (l : list A) : forall k i, nth_error (skipn k l) i = nth_error l (k + i).
Proof.
  induction l as [|x l IH]; intros k i.
  - rewrite skipn_nil. destruct i; destruct (k + _)%nat; reflexivity.
  - destruct k as [|k]; cbn [skipn Nat.add]; [reflexivity|]. cbn [nth_error]. apply IH.
Qed.

Lemma zlen_map {A B} (f : A -> B) l : zlen (map f l) = zlen l.
Proof. unfold zlen. rewrite map_length. reflexivity. Qed.

Lemma list_set_nat_map {A B} (f : A -> B) l : forall i v,
  list_set_nat (map f l) i (f v) = map f (list_set_nat l i v).
Proof.
  induction l as [|x l IH]; intros i v; [reflexivity|].
  destruct i as [|i]; cbn [map list_set_nat]; [reflexivity|]. rewrite IH. reflexivity.
Qed.

Lemma assign_each_map {A B} (f : A -> B) idx : forall l vs,
  assign_each (map f l) idx (map f vs) = map f (assign_each l idx vs).
Proof.
  induction idx as [|i idx IH]; intros l vs; [reflexivity|].
  destruct vs as [|v vs]; cbn [map assign_each]; [reflexivity|].
  rewrite list_set_nat_map. apply IH.
Qed.

Lemma list_set_slice_map {A B} (f : A -> B) l a b step vs :
  list_set_slice (map f l) a b step (map f vs) = option_map (map f) (list_set_slice l a b step vs).
Proof.
  unfold list_set_slice. rewrite zlen_map.
  destruct (slice_indices a b step (zlen l)) as [[[s e] st]|]; [|reflexivity].
  destruct (st =? 1).
  - cbn [option_map]. rewrite !map_app, firstn_map, skipn_map. reflexivity.
  - rewrite map_length. destruct (Nat.eqb _ _); [|reflexivity].
    cbn [option_map]. rewrite assign_each_map. reflexivity.
Qed.

(* ------------------------------------------------------------------ where the elements of an assigned slice come from *)
Lemma In_firstn' {A} (x : A) k l : In x (firstn k l) -> In x l.
Proof. intros H. rewrite <- (firstn_skipn k l). apply in_or_app. left. exact H. Qed.

Lemma In_skipn' {A} (x : A) k l : In x (skipn k l) -> In x l.
Proof. intros H. rewrite <- (firstn_skipn k l). apply in_or_app. right. exact H. Qed.

Lemma list_set_nat_In {A} (x : A) l : forall i v, In x (list_set_nat l i v) -> x = v \/ In x l.
Proof.
  induction l as [|y l IH]; intros i v H; [destruct H|].
  destruct i as [|i]; cbn [list_set_nat] in H.
  - destruct H as [H|H]; [left; congruence|right; right; exact H].
  - destruct H as [H|H]; [right; left; exact H|].
    apply IH in H. destruct H as [H|H]; [left; exact H|right; right; exact H].
Qed.

Lemma assign_each_In {A} (x : A) idx : forall l vs, In x (assign_each l idx vs) -> In x l \/ In x vs.
Proof.
  induction idx as [|i idx IH]; intros l vs H; [left; exact H|].
  destruct vs as [|v vs]; cbn [assign_each] in H; [left; exact H|].
  apply IH in H. destruct H as [H|H].
  - apply list_set_nat_In in H. destruct H as [H|H]; [right; left; congruence|left; exact H].
  - right. right. exact H.
Qed.

Lemma list_set_slice_In {A} (x : A) l a b step vs new :
  list_set_slice l a b step vs = Some new -> In x new -> In x l \/ In x vs.
Proof.
  unfold list_set_slice. destruct (slice_indices a b step (zlen l)) as [[[s e] st]|]; [|discriminate].
  destruct (st =? 1).
  - intros H HI. inversion H. subst new. apply in_app_or in HI. destruct HI as [HI|HI].
    + left. eapply In_firstn'. exact HI.
    + apply in_app_or in HI. destruct HI as [HI|HI]; [right; exact HI|left; eapply In_skipn'; exact HI].
  - destruct (Nat.eqb _ _); [|discriminate]. intros H HI. inversion H. subst new.
    apply assign_each_In in HI. exact HI.
Qed.
