(* Copy_proofs: copy.deepcopy / pickle round trip (Copy.copy_node), copy.copy / fdl.cast
   (Copy.shallow) and daglish's identity rebuild (C08Check.rebuild_node) on well-formed heaps,
   from the generic traversal invariant of Traverse_proofs.v.

   Both copy_node and rebuild_node are "keep or allocate" node functions: they never fail, and
   they either return the object itself (heap unchanged) or allocate exactly one new node at the
   end of the heap and return it.  Everything except the mirror statement is proved once for that
   class. *)
From Fiddle Require Import PyBase PySlice Sig ArgStore PyCall Heap Traverse Build Build_stmt
  Traverse_proofs C08Check Copy Iso_proofs.
From Coq Require Import List Arith Lia Bool.
Import ListNotations.
Local Open Scope nat_scope.

Lemma nth_error_mid' {A} (o : list A) x ext : nth_error ((o ++ [x]) ++ ext) (length o) = Some x.
Proof.
  rewrite <- app_assoc. rewrite nth_error_app2 by lia. rewrite Nat.sub_diag. reflexivity.
Qed.

Lemma combine_fst_snd {A B} (l : list (A * B)) : combine (map fst l) (map snd l) = l.
Proof. induction l as [|[a b] l IH]; cbn [map fst snd combine]; [| rewrite IH]; reflexivity. Qed.

(* ------------------------------------------------------------------------------------------ *)
(* canonical encodings, the memo as a bijection, reachability through all references *)

(* a node of a configuration in canonical encoding: Buildable arguments stored in signature order
   (what __flatten__ yields) and no empty tag sets; no built objects (NObj / NPartialObj) *)
Definition node_canonical (e : sigenv) (n : node) : Prop :=
  match n with
  | NBuildable _ fn args tags =>
      flat_args e fn args = args /\
      forallb (fun kt : skey * list N => match snd kt with [] => false | _ => true end) tags = true
  | NObj _ _ | NPartialObj _ _ _ => False
  | _ => True
  end.

Definition node_canonical_b (e : sigenv) (n : node) : bool :=
  match n with
  | NBuildable _ fn args tags =>
      (if store_eq_dec (flat_args e fn args) args then true else false) &&
      forallb (fun kt : skey * list N => match snd kt with [] => false | _ => true end) tags
  | NObj _ _ | NPartialObj _ _ _ => false
  | _ => true
  end.

Lemma node_canonical_b_spec e n : node_canonical_b e n = true -> node_canonical e n.
Proof.
  destruct n; cbn [node_canonical_b node_canonical]; auto; try discriminate.
  intros H. apply andb_true_iff in H. destruct H as [Ha Ht].
  destruct (store_eq_dec (flat_args e fn args) args); [auto | discriminate].
Qed.

Fixpoint memo_bij (m : list (nat * ref)) : bij :=
  match m with
  | [] => []
  | (i, RP k) :: m' => (i, k) :: memo_bij m'
  | _ :: m' => memo_bij m'
  end.

Lemma memo_bij_in m i k : In (i, k) (memo_bij m) <-> In (i, RP k) m.
Proof.
  induction m as [|[a [b|p]] m IH]; cbn [memo_bij In].
  - tauto.
  - rewrite IH. split; [auto | intros [Heq|Hin]; [discriminate | exact Hin]].
  - rewrite IH. split; (intros [Heq|Hin]; [left; inversion Heq; reflexivity | right; exact Hin]).
Qed.

Lemma memo_get_in (m : list (nat * ref)) i x : memo_get m i = Some x -> In (i, x) m.
Proof.
  induction m as [|[a ra] m IH]; cbn [memo_get In]; intros H; [discriminate |].
  destruct (Nat.eqb i a) eqn:Hia.
  - apply Nat.eqb_eq in Hia. inversion H; subst. left; reflexivity.
  - right; auto.
Qed.

(* k is reachable from a reference through any references stored in nodes *)
Inductive rreach (o : heap) : ref -> nat -> Prop :=
| rr_refl i : rreach o (RP i) i
| rr_step i n c k : nth_error o i = Some n -> In c (refs_of n) -> rreach o c k -> rreach o (RP i) k.

Lemma filter_all {A} (f : A -> bool) l : forallb f l = true -> filter f l = l.
Proof.
  induction l as [|x l IH]; cbn [forallb filter]; intros H; [reflexivity |].
  apply andb_true_iff in H. destruct H as [Hx Hl]. rewrite Hx, IH; auto.
Qed.

Lemma combine_keys_shape {K} (kvs : list (K * ref)) : forall rs, length rs = length kvs ->
  map (fun kv : K * ref => (fst kv, hole)) (combine (map fst kvs) rs) =
  map (fun kv : K * ref => (fst kv, hole)) kvs.
Proof.
  induction kvs as [|[k v] kvs IH]; intros [|y rs] Hlen; cbn [length map fst combine] in *;
    try discriminate; [reflexivity |].
  f_equal. apply IH. lia.
Qed.

Lemma combine_keys_refs {K} (kvs : list (K * ref)) : forall rs, length rs = length kvs ->
  map (@snd K ref) (combine (map fst kvs) rs) = rs.
Proof.
  induction kvs as [|[k v] kvs IH]; intros [|y rs] Hlen; cbn [length map fst snd combine] in *;
    try discriminate; [reflexivity |].
  f_equal. apply IH. lia.
Qed.

Lemma holes_eq {A B} (a : list A) : forall (b : list B), length a = length b ->
  map (fun _ => hole) a = map (fun _ => hole) b.
Proof.
  induction a as [|x a IH]; intros [|y b] Hlen; cbn [length map] in *; try discriminate;
    [reflexivity |].
  f_equal. apply IH. lia.
Qed.

Lemma canonical_refs e n : node_canonical e n -> refs_of n = children e n.
Proof.
  destruct n; cbn [node_canonical refs_of children]; intros Hc; try reflexivity;
    try (destruct Hc; fail).
  destruct Hc as [Ha _]. rewrite Ha. reflexivity.
Qed.

Lemma canonical_with_children e n rs :
  node_canonical e n -> length rs = length (children e n) ->
  shape (with_children e n rs) = shape n /\ refs_of (with_children e n rs) = rs.
Proof.
  destruct n; cbn [node_canonical children with_children shape refs_of];
    intros Hc Hlen; try (destruct Hc; fail);
    try rewrite map_length in Hlen.
  - split; [f_equal; apply holes_eq; exact Hlen | reflexivity].
  - split; [f_equal; apply holes_eq; exact Hlen | reflexivity].
  - split; [f_equal; apply combine_keys_shape; exact Hlen | apply combine_keys_refs; exact Hlen].
  - split; [f_equal; apply combine_keys_shape; exact Hlen | apply combine_keys_refs; exact Hlen].
  - split; [f_equal; apply combine_keys_shape; exact Hlen | apply combine_keys_refs; exact Hlen].
  - destruct Hc as [Ha Ht]. rewrite Ha in *. rewrite (filter_all _ _ Ht).
    split; [f_equal; apply combine_keys_shape; exact Hlen | apply combine_keys_refs; exact Hlen].
  - destruct rs; [split; reflexivity | discriminate].
  - destruct rs; [split; reflexivity | discriminate].
Qed.

Lemma nontrav_children e n : traversable n = false -> children e n = [].
Proof. destruct n; cbn [traversable children]; intros H; try discriminate; reflexivity. Qed.

Lemma map_some_length {A B} (f : A -> option B) l rs : map f l = map Some rs -> length rs = length l.
Proof. intros H. apply (f_equal (@length _)) in H. rewrite !map_length in H. auto. Qed.

Lemma map_some_in_right {A B} (f : A -> option B) l : forall rs c,
  map f l = map Some rs -> In c rs -> exists x, In x l /\ f x = Some c.
Proof.
  induction l as [|x l IH]; intros [|y rs] c H Hin; cbn [map] in H; try discriminate;
    [destruct Hin |].
  inversion H. destruct Hin as [Heq|Hin].
  - subst. exists x. split; [left; reflexivity | assumption].
  - destruct (IH rs c H2 Hin) as (x0 & Hx0 & Hf). exists x0. split; [right; auto | auto].
Qed.

(* ------------------------------------------------------------------------------------------ *)
(* keep-or-allocate node functions *)

Section KeepOrAlloc.
  Variable e : sigenv.
  Variable h : heap.
  Variable on_node : nat -> node -> list ref -> heap -> heap * (ref + fail).
  Hypothesis Hwf : wf_b e h = true.
  Hypothesis Hkoa : forall i n rs o,
    on_node i n rs o = (o, inl (RP i)) \/
    exists nd, on_node i n rs o = (o ++ [nd], inl (RP (length o))).

  Lemma koa_app i n rs o o' x : on_node i n rs o = (o', x) -> exists ext, o' = o ++ ext.
  Proof.
    intros H. destruct (Hkoa i n rs o) as [Hk|[nd Hk]]; rewrite Hk in H; inversion H; subst.
    - exists []. rewrite app_nil_r. reflexivity.
    - eexists; reflexivity.
  Qed.

  Lemma koa_nofail i n rs o o' fl : on_node i n rs o <> (o', inr fl).
  Proof.
    intros H. destruct (Hkoa i n rs o) as [Hk|[nd Hk]]; rewrite Hk in H; discriminate.
  Qed.

  Lemma koa_result i n rs o o' ri : on_node i n rs o = (o', inl ri) ->
    (o' = o /\ ri = RP i) \/ (exists nd, o' = o ++ [nd] /\ ri = RP (length o)).
  Proof.
    intros H. destruct (Hkoa i n rs o) as [Hk|[nd Hk]]; rewrite Hk in H; inversion H; subst.
    - left; auto.
    - right; eauto.
  Qed.

  Let rec_ := recorded e h on_node.

  (* every result is the object itself or a pointer into the new part of the heap *)
  Lemma recorded_range m : forall o, rec_ m o ->
    forall i ri, memo_get m i = Some ri ->
    (ri = RP i /\ i < length h) \/ (exists k, ri = RP k /\ length h <= k < length o).
  Proof.
    induction m as [|[a ra] m IH]; intros o Hrec i ri Hg; [discriminate |].
    cbn [rec_ recorded] in Hrec.
    destruct Hrec as (n & rs & o0 & o1 & Hn & Hm & Hon & [ext Ho] & Hrec').
    destruct (koa_app _ _ _ _ _ _ Hon) as [ext1 Ho1].
    cbn [memo_get] in Hg. destruct (Nat.eqb i a) eqn:Hia.
    - apply Nat.eqb_eq in Hia. subst a. inversion Hg; subst ra.
      destruct (koa_result _ _ _ _ _ _ Hon) as [[_ Hri]|(nd & Hnd & Hri)].
      + left. split; [exact Hri |]. apply nth_error_Some. rewrite Hn. discriminate.
      + right. destruct (recorded_prefix e h on_node koa_app m o0 Hrec') as [ext0 Ho0].
        exists (length o0). split; [exact Hri |].
        rewrite Ho, Hnd, Ho0, !app_length. cbn [length]. lia.
    - destruct (IH o0 Hrec' i ri Hg) as [Hl|(k & Hk & Hlt)]; [left; exact Hl |].
      right. exists k. split; [exact Hk |]. rewrite Ho, Ho1, !app_length. lia.
  Qed.

  (* the memo is injective: distinct objects have distinct images *)
  Lemma recorded_inj m : forall o, rec_ m o ->
    forall i j ri rj, memo_get m i = Some ri -> memo_get m j = Some rj -> i <> j -> ri <> rj.
  Proof.
    induction m as [|[a ra] m IH]; intros o Hrec i j ri rj Hgi Hgj Hij; [discriminate |].
    cbn [rec_ recorded] in Hrec.
    destruct Hrec as (n & rs & o0 & o1 & Hn & Hm & Hon & [ext Ho] & Hrec').
    destruct (recorded_prefix e h on_node koa_app m o0 Hrec') as [ext0 Ho0].
    assert (Hlen0 : length h <= length o0) by (rewrite Ho0, app_length; lia).
    assert (Ha : a < length h) by (apply nth_error_Some; rewrite Hn; discriminate).
    cbn [memo_get] in Hgi, Hgj.
    destruct (Nat.eqb i a) eqn:Hia; destruct (Nat.eqb j a) eqn:Hja.
    - apply Nat.eqb_eq in Hia, Hja. congruence.
    - apply Nat.eqb_eq in Hia. subst a. inversion Hgi; subst ra.
      destruct (recorded_range m o0 Hrec' j rj Hgj) as [[Hrj Hj]|(k & Hrj & Hk)];
        destruct (koa_result _ _ _ _ _ _ Hon) as [[_ Hri]|(nd & _ & Hri)];
        subst ri rj; intros Heq; inversion Heq; lia.
    - apply Nat.eqb_eq in Hja. subst a. inversion Hgj; subst ra.
      destruct (recorded_range m o0 Hrec' i ri Hgi) as [[Hri Hi]|(k & Hri & Hk)];
        destruct (koa_result _ _ _ _ _ _ Hon) as [[_ Hrj]|(nd & _ & Hrj)];
        subst ri rj; intros Heq; inversion Heq; lia.
    - eapply IH; eauto.
  Qed.

  (* every object allocated so far is the image of some processed object *)
  Definition covered (s : mstate) : Prop :=
    forall k, length h <= k < length (out s) -> exists i, In (i, RP k) (memo s).

  Lemma mgo_covered visit l :
    (forall s x s' res, covered s -> visit s x = (s', res) -> covered s') ->
    forall s s' res, covered s -> mgo visit s l = (s', res) -> covered s'.
  Proof.
    intros Hv. induction l as [|x l IH]; intros s s' res Hc Hgo.
    - cbn [mgo] in Hgo. inversion Hgo; subst; exact Hc.
    - rewrite mgo_cons in Hgo. destruct (visit s x) as [s1 [x'|fl]] eqn:Hx.
      + apply Hv in Hx; [| exact Hc]. destruct (mgo visit s1 l) as [s2 [rs|fl]] eqn:Hg;
          inversion Hgo; subst; eapply IH; eauto.
      + inversion Hgo; subst. eapply Hv; eauto.
  Qed.

  Lemma mvisit_covered : forall fuel stack s r s' res,
    covered s -> mvisit e h on_node fuel stack s r = (s', res) -> covered s'.
  Proof.
    induction fuel as [|f IH]; intros stack s r s' res Hc Hv.
    - destruct r as [a|i]; cbn [mvisit] in Hv.
      + inversion Hv; subst; exact Hc.
      + destruct (memo_get (memo s) i); [inversion Hv; subst; exact Hc |].
        destruct (existsb (Nat.eqb i) stack); inversion Hv; subst; exact Hc.
    - destruct r as [a|i].
      + cbn [mvisit] in Hv. inversion Hv; subst; exact Hc.
      + destruct (memo_get (memo s) i) as [x|] eqn:Hm.
        { cbn [mvisit] in Hv. rewrite Hm in Hv. inversion Hv; subst; exact Hc. }
        destruct (existsb (Nat.eqb i) stack) eqn:He.
        { cbn [mvisit] in Hv. rewrite Hm, He in Hv. inversion Hv; subst; exact Hc. }
        destruct (nth_error h i) as [n|] eqn:Hn.
        2:{ cbn [mvisit] in Hv. rewrite Hm, He, Hn in Hv. inversion Hv; subst; exact Hc. }
        rewrite (mvisit_step e h on_node f stack s i n Hm He Hn) in Hv.
        destruct (mgo (mvisit e h on_node f (i :: stack)) s (children e n)) as [s1 [rs|fl]] eqn:Hg.
        * apply mgo_covered in Hg; [| intros; eapply IH; eauto | exact Hc].
          destruct (Hkoa i n rs (out s1)) as [Hk|[nd Hk]]; rewrite Hk in Hv;
            inversion Hv; subst s' res; intros k Hk'; cbn [out memo] in *.
          -- destruct (Hg k Hk') as [i0 Hi0]. exists i0. right; exact Hi0.
          -- rewrite app_length in Hk'. cbn [length] in Hk'.
             destruct (Nat.eq_dec k (length (out s1))) as [Heq|Hne].
             ++ subst k. exists i. left; reflexivity.
             ++ destruct (Hg k ltac:(lia)) as [i0 Hi0]. exists i0. right; exact Hi0.
        * inversion Hv; subst. eapply mgo_covered; [| exact Hc | exact Hg].
          intros; eapply IH; eauto.
  Qed.

  Lemma memo_get_of_in (m : list (nat * ref)) i x :
    NoDup (map fst m) -> In (i, x) m -> memo_get m i = Some x.
  Proof.
    induction m as [|[a ra] m IH]; cbn [map fst memo_get In]; intros Hnd Hin; [destruct Hin |].
    inversion Hnd as [|? ? Hnotin Hnd']; subst.
    destruct Hin as [Heq|Hin].
    - inversion Heq; subst. rewrite Nat.eqb_refl. reflexivity.
    - destruct (Nat.eqb i a) eqn:Hia; [| auto].
      apply Nat.eqb_eq in Hia. subst a. exfalso. apply Hnotin.
      apply in_map_iff. exists (i, x). split; [reflexivity | exact Hin].
  Qed.

  Section Run.
    Variables (r : ref) (s : mstate) (res : ref + fail).
    Hypothesis Hroot : root_ok h r.
    Hypothesis Hrun : mrun e h on_node r = (s, res).

    Lemma koa_vspec : vspec e h on_node (mk_ms [] h []) r s res.
    Proof. apply mrun_spec; auto. exact koa_app. Qed.

    Lemma koa_inv : inv e h on_node s.
    Proof. destruct koa_vspec as (Hinv & _). exact Hinv. Qed.

    Lemma koa_total : exists r', res = inl r'.
    Proof.
      destruct koa_vspec as (_ & _ & _ & Hres). destruct res as [r'|fl]; [eauto |].
      destruct Hres as (i & n & rs & o & o' & Hon & _). exfalso. eapply koa_nofail; eauto.
    Qed.

    Lemma koa_prefix : exists ext, out s = h ++ ext.
    Proof.
      destruct koa_inv as (_ & _ & _ & Hrec). eapply recorded_prefix; eauto. exact koa_app.
    Qed.

    Lemma koa_pure : firstn (length h) (out s) = h /\ length h <= length (out s).
    Proof.
      destruct koa_prefix as [ext Ho]. rewrite Ho. split.
      - rewrite firstn_app, Nat.sub_diag, firstn_all. cbn [firstn]. apply app_nil_r.
      - rewrite app_length. lia.
    Qed.

    Lemma koa_once : NoDup (log s).
    Proof. destruct koa_inv as (_ & Hnd & _). exact Hnd. Qed.

    Lemma koa_memo_function :
      NoDup (map fst (memo s)) /\ (forall i, In i (log s) <-> In i (map fst (memo s))).
    Proof.
      split; [apply (inv_memo_nodup e h on_node); exact koa_inv |].
      intros i. apply (inv_log_memo e h on_node). exact koa_inv.
    Qed.

    Lemma koa_exactly_creach : forall i, In i (log s) <-> creach e h r i.
    Proof.
      intros i. destruct koa_vspec as (_ & _ & (l & Hl & Hr) & Hsucc).
      destruct koa_total as [r' Hres]. rewrite Hres in Hsucc. split.
      - cbn [log app] in Hl. rewrite Hl. apply Hr.
      - apply Hsucc.
    Qed.

    Lemma koa_root_image r' : res = inl r' -> map_ref (memo s) r = Some r'.
    Proof.
      intros Hres. destruct koa_vspec as (_ & _ & _ & Hsucc). rewrite Hres in Hsucc. apply Hsucc.
    Qed.

    Lemma koa_children_first : children_first_stmt e h s.
    Proof.
      intros i j Hin Hc. destruct koa_inv as (_ & _ & Hord & _).
      apply in_split in Hin. destruct Hin as (l1 & l2 & Hl).
      pose proof (Hord l1 i l2 Hl j Hc) as Hj.
      apply in_split in Hj. destruct Hj as (a & b & Hl1).
      exists a, b, l2. rewrite Hl, Hl1, <- app_assoc. reflexivity.
    Qed.

    Lemma koa_lookup i ri : memo_get (memo s) i = Some ri ->
      exists n rs o0 o1,
        nth_error h i = Some n /\
        map (map_ref (memo s)) (children e n) = map Some rs /\
        on_node i n rs o0 = (o1, inl ri) /\
        (exists ext0, o0 = h ++ ext0) /\ (exists ext, out s = o1 ++ ext).
    Proof.
      intros Hg. pose proof koa_inv as Hinv. destruct Hinv as (Hk & Hnd & Hord & Hrec).
      eapply recorded_lookup; eauto; [exact koa_app |].
      apply (inv_memo_nodup e h on_node). exact koa_inv.
    Qed.

    Lemma koa_fresh_distinct : forall i j ri rj,
      memo_get (memo s) i = Some ri -> memo_get (memo s) j = Some rj ->
      ((ri = RP i /\ i < length h) \/ (exists k, ri = RP k /\ length h <= k < length (out s))) /\
      (i <> j -> ri <> rj).
    Proof.
      intros i j ri rj Hgi Hgj. destruct koa_inv as (_ & _ & _ & Hrec). split.
      - eapply recorded_range; eauto.
      - eapply recorded_inj; eauto.
    Qed.

    (* what on_node did at a processed object, positioned in the final heap *)
    Lemma koa_at i n ri : nth_error h i = Some n -> memo_get (memo s) i = Some ri ->
      exists rs o0,
        map (map_ref (memo s)) (children e n) = map Some rs /\
        ((on_node i n rs o0 = (o0, inl (RP i)) /\ ri = RP i) \/
         (exists nd, on_node i n rs o0 = (o0 ++ [nd], inl (RP (length o0))) /\
                     ri = RP (length o0) /\ length h <= length o0 /\
                     nth_error (out s) (length o0) = Some nd)).
    Proof.
      intros Hn Hg.
      destruct (koa_lookup i ri Hg) as (n' & rs & o0 & o1 & Hn' & Hm & Hon & [ext0 Ho0] & [ext Ho]).
      rewrite Hn in Hn'. inversion Hn'; subst n'. exists rs, o0. split; [exact Hm |].
      destruct (koa_result _ _ _ _ _ _ Hon) as [[Ho1 Hri]|(nd & Ho1 & Hri)]; subst o1 ri.
      - left. split; [exact Hon | reflexivity].
      - right. exists nd. split; [exact Hon |]. split; [reflexivity |]. split.
        + rewrite Ho0, app_length. lia.
        + rewrite Ho. apply nth_error_mid'.
    Qed.
    (* nothing but images of processed objects is allocated *)
    Lemma koa_covered : forall k, length h <= k < length (out s) ->
      exists i, memo_get (memo s) i = Some (RP k).
    Proof.
      intros k Hk. unfold mrun in Hrun.
      assert (Hc0 : covered (mk_ms [] h [])) by (intros k0 Hk0; cbn [out] in Hk0; lia).
      destruct (mvisit_covered _ _ _ _ _ _ Hc0 Hrun k Hk) as [i Hi].
      exists i. apply memo_get_of_in; [apply koa_memo_function | exact Hi].
    Qed.
    Lemma koa_old_nth i n : nth_error h i = Some n -> nth_error (out s) i = Some n.
    Proof.
      intros Hn. rewrite <- (firstn_skipn (length h) (out s)), (proj1 koa_pure).
      rewrite nth_error_app1; [exact Hn |]. apply nth_error_Some. rewrite Hn. discriminate.
    Qed.

    (* Faithfulness and independence from a description of what on_node does: a processed
       canonical node is either kept (then its children are kept too and it satisfies Kept) or
       re-allocated over the images of its children. *)
    Section Mirror.
      Variable Kept : node -> Prop.
      Hypothesis Hat : forall i k, memo_get (memo s) i = Some (RP k) ->
        exists n rs, nth_error h i = Some n /\ node_canonical e n /\
          map (map_ref (memo s)) (children e n) = map Some rs /\
          ((k = i /\ rs = children e n /\ Kept n) \/
           (length h <= k /\ nth_error (out s) k = Some (with_children e n rs))).

      Let m := memo_bij (memo s).

      Lemma fa_in i k : In (i, k) m <-> memo_get (memo s) i = Some (RP k).
      Proof.
        unfold m. rewrite memo_bij_in. split; [| apply memo_get_in].
        apply memo_get_of_in. apply koa_memo_function.
      Qed.

      Lemma fa_ptr i x : memo_get (memo s) i = Some x -> exists k, x = RP k.
      Proof.
        intros Hg. destruct (koa_fresh_distinct i i x x Hg Hg) as [[[Hx _]|(k & Hx & _)] _]; eauto.
      Qed.

      Lemma fa_rel x y : map_ref (memo s) x = Some y -> rel_ref m x y.
      Proof.
        destruct x as [a|i]; cbn [map_ref]; intros H.
        - inversion H; subst. reflexivity.
        - destruct (fa_ptr _ _ H) as [k Hyk]. subst y. cbn [rel_ref]. apply fa_in. exact H.
      Qed.

      Lemma fa_rel_list l : forall rs,
        map (map_ref (memo s)) l = map Some rs -> Forall2 (rel_ref m) l rs.
      Proof.
        induction l as [|x l IH]; intros [|y rs] H; cbn [map] in H; try discriminate; constructor;
          inversion H; auto using fa_rel.
      Qed.

      Lemma koa_faithful : forall r', res = inl r' ->
        bij_wf (memo_bij (memo s)) /\ simulates h (out s) (memo_bij (memo s)) /\
        rel_ref (memo_bij (memo s)) r r'.
      Proof.
        intros r' Hres. fold m. split; [| split].
        - intros i k i' k' H1 H2. apply fa_in in H1, H2.
          destruct (koa_fresh_distinct i i' _ _ H1 H2) as [_ Hd]. split; intros Heq.
          + subst i'. rewrite H1 in H2. inversion H2; reflexivity.
          + subst k'. destruct (Nat.eq_dec i i') as [|Hne]; [assumption |].
            exfalso. apply (Hd Hne). reflexivity.
        - intros i k Hin. apply fa_in in Hin.
          destruct (Hat i k Hin) as (n & rs & Hn & Hc & Hm & [(Hk' & Hrs & _)|(Hl & Hnth)]).
          + subst k. exists n, n. split; [exact Hn |]. split; [apply koa_old_nth; exact Hn |].
            split; [reflexivity |]. rewrite (canonical_refs e n Hc).
            apply fa_rel_list. rewrite Hrs in Hm. exact Hm.
          + exists n, (with_children e n rs). split; [exact Hn |]. split; [exact Hnth |].
            destruct (canonical_with_children e n rs Hc (map_some_length _ _ _ Hm)) as [Hsh Hrf].
            split; [symmetry; exact Hsh |]. rewrite Hrf, (canonical_refs e n Hc).
            apply fa_rel_list. exact Hm.
        - apply fa_rel. apply koa_root_image. exact Hres.
      Qed.

      Definition shared_ok (k : nat) : Prop :=
        k < length h /\ memo_get (memo s) k = Some (RP k) /\
        exists n, nth_error h k = Some n /\ Kept n.

      Definition indep (x : ref) : Prop :=
        match x with RA _ => True | RP k => length h <= k \/ shared_ok k end.

      Lemma image_indep x y : map_ref (memo s) x = Some y -> indep y.
      Proof.
        destruct x as [a|i]; cbn [map_ref]; intros H; [inversion H; exact I |].
        destruct (fa_ptr _ _ H) as [k Hyk]. subst y. cbn [indep].
        destruct (Hat i k H) as (n & rs & Hn & Hc & Hm & [(Hk' & Hrs & Hkind)|(Hl & Hnth)]).
        - right. subst k. split; [apply nth_error_Some; rewrite Hn; discriminate |].
          split; [exact H |]. exists n. auto.
        - left; exact Hl.
      Qed.

      Lemma indep_step k n c :
        indep (RP k) -> nth_error (out s) k = Some n -> In c (refs_of n) -> indep c.
      Proof.
        intros [Hl|(Hlt & Hg & n0 & Hn0 & Hkind)] Hn Hc.
        - assert (Hlt : k < length (out s)) by (apply nth_error_Some; rewrite Hn; discriminate).
          destruct (koa_covered k (conj Hl Hlt)) as [i Hi].
          destruct (Hat i k Hi) as (ni & rs & Hni & Hcan & Hm & [(Hk' & _)|(_ & Hnth)]).
          + exfalso. subst k.
            assert (i < length h) by (apply nth_error_Some; rewrite Hni; discriminate). lia.
          + rewrite Hn in Hnth. inversion Hnth; subst n.
            destruct (canonical_with_children e ni rs Hcan (map_some_length _ _ _ Hm)) as [_ Hrf].
            rewrite Hrf in Hc.
            destruct (map_some_in_right _ _ _ _ Hm Hc) as (x & _ & Hx). eapply image_indep; eauto.
        - destruct (Hat k k Hg) as (nk & rs & Hnk & Hcan & Hm & [(_ & Hrs & _)|(Hl & _)]); [| lia].
          rewrite (koa_old_nth k nk Hnk) in Hn. inversion Hn; subst nk.
          rewrite (canonical_refs e n Hcan) in Hc. rewrite Hrs in Hm.
          destruct (map_some_in_right _ _ _ _ Hm Hc) as (x & _ & Hx). eapply image_indep; eauto.
      Qed.

      Lemma koa_independent : forall r', res = inl r' ->
        forall k, rreach (out s) r' k ->
        length h <= k \/
        (k < length h /\ memo_get (memo s) k = Some (RP k) /\
         exists n, nth_error h k = Some n /\ Kept n).
      Proof.
        intros r' Hres k Hreach.
        assert (Hr' : indep r') by (eapply image_indep; apply koa_root_image; exact Hres).
        clear Hres. change (indep (RP k)). revert Hr'.
        induction Hreach as [i|i n c k Hn Hc Hck IH]; intros Hr'; [exact Hr' |].
        apply IH. eapply indep_step; eauto.
      Qed.
    End Mirror.
  End Run.
End KeepOrAlloc.

(* ------------------------------------------------------------------------------------------ *)
(* deep copy *)

Definition is_set (n : node) : bool := match n with NSet _ _ => true | _ => false end.

(* the objects copy.deepcopy (pickle = false) or a pickle round trip (pickle = true) returns as
   they are, given the images rs of their children *)
Definition copy_kept (pickle : bool) (n : node) (rs : list ref) : Prop :=
  (pickle = false /\ exists xs, n = NTuple xs /\ rs = xs) \/
  (traversable n = false /\ is_set n = false).

Section CopyNode.
  Variable e : sigenv.
  Variable pickle : bool.

  Lemma copy_koa i n rs o :
    copy_node e pickle i n rs o = (o, inl (RP i)) \/
    exists nd, copy_node e pickle i n rs o = (o ++ [nd], inl (RP (length o))).
  Proof.
    unfold copy_node, alloc.
    destruct n; cbn [traversable]; try (left; reflexivity); try (right; eexists; reflexivity).
    destruct (negb pickle && refs_eqb rs xs); [left; reflexivity | right; eexists; reflexivity].
  Qed.

  Lemma refs_eqb_true a b : refs_eqb a b = true -> a = b.
  Proof. unfold refs_eqb. destruct (list_eq_dec ref_eq_dec a b); [auto | discriminate]. Qed.
  Lemma refs_eqb_false a b : refs_eqb a b = false -> a <> b.
  Proof. unfold refs_eqb. destruct (list_eq_dec ref_eq_dec a b); [discriminate | auto]. Qed.

  Lemma copy_keep_iff i n rs o :
    copy_node e pickle i n rs o = (o, inl (RP i)) -> copy_kept pickle n rs.
  Proof.
    unfold copy_node, alloc, copy_kept. intros H.
    assert (Hne : forall nd x, (o ++ [nd], x) <> (o, inl (RP i) : ref + fail)).
    { intros nd x Heq. inversion Heq as [[Ho Hx]].
      apply (f_equal (@length node)) in Ho. rewrite app_length in Ho. cbn [length] in Ho. lia. }
    destruct n; cbn [traversable is_set] in *;
      try (exfalso; eapply Hne; exact H); try (right; split; reflexivity).
    destruct (negb pickle && refs_eqb rs xs) eqn:Hc; [| exfalso; eapply Hne; exact H].
    apply andb_true_iff in Hc. destruct Hc as [Hp Hr]. left. split.
    - destruct pickle; [discriminate | reflexivity].
    - exists xs. split; [reflexivity | apply refs_eqb_true; exact Hr].
  Qed.

  Lemma copy_alloc_iff i n rs o nd :
    copy_node e pickle i n rs o = (o ++ [nd], inl (RP (length o))) ->
    nd = with_children e n rs /\ ~ copy_kept pickle n rs.
  Proof.
    unfold copy_node, alloc, copy_kept. intros H.
    assert (Hne : forall x y, (o, x) <> (o ++ [nd], y : ref + fail)).
    { intros x y Heq. inversion Heq as [[Ho Hx]].
      apply (f_equal (@length node)) in Ho. rewrite app_length in Ho. cbn [length] in Ho. lia. }
    assert (Hnd : forall nd' x, (o ++ [nd'], x) = (o ++ [nd], inl (RP (length o)) : ref + fail) ->
                                nd = nd').
    { intros nd' x Heq. inversion Heq as [[Ho Hx]]. apply app_inv_head in Ho. congruence. }
    destruct n; cbn [traversable is_set with_children] in *;
      try (exfalso; eapply Hne; exact H);
      try (split; [apply Hnd in H; exact H |];
           intros [[_ (xs' & Hx & _)]|[Ht Hs]]; discriminate).
    destruct (negb pickle && refs_eqb rs xs) eqn:Hc; [exfalso; eapply Hne; exact H |].
    split; [apply Hnd in H; exact H |].
    intros [[Hp (xs' & Hx & Hr)]|[Ht _]]; [| discriminate].
    inversion Hx; subst xs' pickle. cbn [negb andb] in Hc.
    apply refs_eqb_false in Hc. auto.
  Qed.
End CopyNode.

Section DeepCopy.
  Variable e : sigenv.
  Variable pickle : bool.
  Variables (h : heap) (r : ref) (s : mstate) (res : ref + fail).
  Hypothesis Hwf : wf_b e h = true.
  Hypothesis Hroot : root_ok h r.
  Hypothesis Hrun : mrun e h (copy_node e pickle) r = (s, res).

  Let cn := copy_node e pickle.
  Let Hk := copy_koa e pickle.

  Theorem deepcopy_total : exists r', res = inl r'.
  Proof. exact (koa_total e h cn Hwf Hk r s res Hroot Hrun). Qed.

  Theorem deepcopy_pure : firstn (length h) (out s) = h /\ length h <= length (out s).
  Proof. exact (koa_pure e h cn Hwf Hk r s res Hroot Hrun). Qed.

  Theorem deepcopy_once : NoDup (log s).
  Proof. exact (koa_once e h cn Hwf Hk r s res Hroot Hrun). Qed.

  Theorem deepcopy_memo_function :
    NoDup (map fst (memo s)) /\ (forall i, In i (log s) <-> In i (map fst (memo s))).
  Proof. exact (koa_memo_function e h cn Hwf Hk r s res Hroot Hrun). Qed.

  (* exactly the objects reachable from the root (by child steps) are processed *)
  Theorem deepcopy_exactly_creach : forall i, In i (log s) <-> creach e h r i.
  Proof. exact (koa_exactly_creach e h cn Hwf Hk r s res Hroot Hrun). Qed.

  Theorem deepcopy_root_image : forall r', res = inl r' -> map_ref (memo s) r = Some r'.
  Proof. exact (koa_root_image e h cn Hwf Hk r s res Hroot Hrun). Qed.

  Theorem deepcopy_fresh_distinct : forall i j ri rj,
    memo_get (memo s) i = Some ri -> memo_get (memo s) j = Some rj ->
    ((ri = RP i /\ i < length h) \/ (exists k, ri = RP k /\ length h <= k < length (out s))) /\
    (i <> j -> ri <> rj).
  Proof. exact (koa_fresh_distinct e h cn Hwf Hk r s res Hroot Hrun). Qed.

  Theorem deepcopy_mirrors : forall i n ri,
    In i (log s) -> nth_error h i = Some n -> memo_get (memo s) i = Some ri ->
    exists rs, map (map_ref (memo s)) (children e n) = map Some rs /\
      ((ri = RP i /\ copy_kept pickle n rs) \/
       (exists k, ri = RP k /\ length h <= k /\
                  nth_error (out s) k = Some (with_children e n rs) /\
                  ~ copy_kept pickle n rs)).
  Proof.
    intros i n ri _ Hn Hg.
    destruct (koa_at e h cn Hwf Hk r s res Hroot Hrun i n ri Hn Hg)
      as (rs & o0 & Hm & [[Hon Hri]|(nd & Hon & Hri & Hlen & Hnth)]).
    - exists rs. split; [exact Hm |]. left. split; [exact Hri |].
      eapply copy_keep_iff; exact Hon.
    - exists rs. split; [exact Hm |]. right. exists (length o0).
      apply copy_alloc_iff in Hon. destruct Hon as [Hnd Hnk]. subst nd. auto.
  Qed.

  (* a set is re-allocated with the same elements *)
  Corollary deepcopy_set : forall i fz xs ri,
    nth_error h i = Some (NSet fz xs) -> memo_get (memo s) i = Some ri ->
    exists k, ri = RP k /\ length h <= k /\ nth_error (out s) k = Some (NSet fz xs).
  Proof.
    intros i fz xs ri Hn Hg.
    assert (Hin : In i (log s)).
    { apply deepcopy_memo_function. eapply memo_get_some_in; eauto. }
    destruct (deepcopy_mirrors i _ ri Hin Hn Hg) as (rs & _ & [[_ Hkept]|(k & Hri & Hl & Hnth & _)]).
    - destruct Hkept as [[_ (xs' & Hx & _)]|[_ Hs]]; discriminate.
    - exists k. auto.
  Qed.
  Theorem deepcopy_covered : forall k, length h <= k < length (out s) ->
    exists i, memo_get (memo s) i = Some (RP k).
  Proof. exact (koa_covered e h cn Hwf Hk r s res Hroot Hrun). Qed.

  Lemma deepcopy_old_nth i n : nth_error h i = Some n -> nth_error (out s) i = Some n.
  Proof.
    intros Hn. rewrite <- (firstn_skipn (length h) (out s)), (proj1 deepcopy_pure).
    rewrite nth_error_app1; [exact Hn |]. apply nth_error_Some. rewrite Hn. discriminate.
  Qed.

  (* Faithfulness and independence, for configurations in canonical encoding (the encoding the
     correspondence harness uses): every object reachable from the root is canonical. *)
  Definition copy_shares (n : node) : Prop :=
    (pickle = false /\ exists xs, n = NTuple xs) \/ exists x, n = NOpaque x.

  Section Canonical.
    Hypothesis Hcanon : forall i n, creach e h r i -> nth_error h i = Some n -> node_canonical e n.

    Lemma deepcopy_at i k : memo_get (memo s) i = Some (RP k) ->
      exists n rs, nth_error h i = Some n /\ node_canonical e n /\
        map (map_ref (memo s)) (children e n) = map Some rs /\
        ((k = i /\ rs = children e n /\ copy_shares n) \/
         (length h <= k /\ nth_error (out s) k = Some (with_children e n rs))).
    Proof.
      intros Hg.
      assert (Hin : In i (log s)).
      { apply deepcopy_memo_function. eapply memo_get_some_in; eauto. }
      destruct (koa_lookup e h cn Hwf Hk r s res Hroot Hrun i _ Hg) as (n & _ & _ & _ & Hn & _).
      assert (Hc : node_canonical e n).
      { eapply Hcanon; [| exact Hn]. apply deepcopy_exactly_creach. exact Hin. }
      destruct (deepcopy_mirrors i n (RP k) Hin Hn Hg)
        as (rs & Hm & [[Hri Hkept]|(k' & Hri & Hl & Hnth & _)]).
      - exists n, rs. split; [exact Hn |]. split; [exact Hc |]. split; [exact Hm |]. left.
        inversion Hri; subst k. split; [reflexivity |].
        destruct Hkept as [[Hp (xs & Hx & Hr)]|[Ht Hs]].
        + subst n rs. split; [reflexivity |]. left. split; [exact Hp | eauto].
        + split.
          { rewrite (nontrav_children e n Ht) in *. destruct rs; [reflexivity | discriminate]. }
          right. destruct n; cbn [traversable is_set node_canonical] in *; try discriminate;
            try (destruct Hc; fail). eauto.
      - exists n, rs. split; [exact Hn |]. split; [exact Hc |]. split; [exact Hm |]. right.
        inversion Hri; subst k'. auto.
    Qed.

    (* faithful: the memo is a one-to-one correspondence between the original objects and their
       copies under which every copy has the same data as its original and corresponding
       references; the result corresponds to the root *)
    Theorem deepcopy_faithful : forall r', res = inl r' ->
      bij_wf (memo_bij (memo s)) /\ simulates h (out s) (memo_bij (memo s)) /\
      rel_ref (memo_bij (memo s)) r r'.
    Proof. exact (koa_faithful e h cn Hwf Hk r s res Hroot Hrun copy_shares deepcopy_at). Qed.

    (* independent: whatever the copy can reach, through any reference, is a new object, or an
       old one that deepcopy legitimately shares: an immutable tuple all of whose (transitive)
       contents are shared too, or an opaque leaf object.  With pickle = true only opaque leaves. *)
    Theorem deepcopy_independent : forall r', res = inl r' ->
      forall k, rreach (out s) r' k ->
      length h <= k \/
      (k < length h /\ memo_get (memo s) k = Some (RP k) /\
       exists n, nth_error h k = Some n /\
                 ((pickle = false /\ exists xs, n = NTuple xs) \/ exists x, n = NOpaque x)).
    Proof. exact (koa_independent e h cn Hwf Hk r s res Hroot Hrun copy_shares deepcopy_at). Qed.
  End Canonical.
End DeepCopy.

(* ------------------------------------------------------------------------------------------ *)
(* shallow copy and cast *)

Theorem shallow_spec : forall e k' h r h' r',
  shallow e k' h r = Some (h', r') ->
  exists i kind fn args tags,
    r = RP i /\ nth_error h i = Some (NBuildable kind fn args tags) /\
    r' = RP (length h) /\ firstn (length h) h' = h /\
    nth_error h' (length h) =
      Some (NBuildable (match k' with Some x => x | None => kind end) fn (flat_args e fn args)
              (filter (fun kt => match snd kt with [] => false | _ => true end) tags)).
Proof.
  intros e k' h r h' r' H. unfold shallow in H.
  destruct r as [a|i]; [discriminate |].
  destruct (nth_error h i) as [n|] eqn:Hn; [| discriminate].
  destruct n; try discriminate.
  unfold alloc in H. inversion H; subst h' r'. clear H.
  exists i, k, fn, args, tags.
  split; [reflexivity |]. split; [exact Hn |]. split; [reflexivity |]. split.
  - rewrite firstn_app, Nat.sub_diag, firstn_all. cbn [firstn]. apply app_nil_r.
  - rewrite nth_error_app2 by lia. rewrite Nat.sub_diag.
    cbn [with_children children nth_error]. rewrite combine_fst_snd. reflexivity.
Qed.

(* nothing but the new top-level node is added *)
Theorem shallow_one_node : forall e k' h r h' r',
  shallow e k' h r = Some (h', r') -> exists nd, h' = h ++ [nd].
Proof.
  intros e k' h r h' r' H. unfold shallow in H.
  destruct r as [a|i]; [discriminate |].
  destruct (nth_error h i) as [n|] eqn:Hn; [| discriminate].
  destruct n; try discriminate.
  unfold alloc in H. inversion H; subst. eexists; reflexivity.
Qed.

(* ------------------------------------------------------------------------------------------ *)
(* identity rebuild (daglish.MemoizedTraversal.run(map_children)) *)

Lemma rebuild_koa e i n rs o :
  rebuild_node e i n rs o = (o, inl (RP i)) \/
  exists nd, rebuild_node e i n rs o = (o ++ [nd], inl (RP (length o))).
Proof.
  unfold rebuild_node, alloc. destruct (traversable n); [right; eexists | left]; reflexivity.
Qed.

Section Rebuild.
  Variable e : sigenv.
  Variables (h : heap) (r : ref) (s : mstate) (res : ref + fail).
  Hypothesis Hwf : wf_b e h = true.
  Hypothesis Hroot : root_ok h r.
  Hypothesis Hrun : mrun e h (rebuild_node e) r = (s, res).

  Let rn := rebuild_node e.
  Let Hk := rebuild_koa e.

  Theorem rebuild_total : exists r', res = inl r'.
  Proof. exact (koa_total e h rn Hwf Hk r s res Hroot Hrun). Qed.

  Theorem rebuild_pure : firstn (length h) (out s) = h /\ length h <= length (out s).
  Proof. exact (koa_pure e h rn Hwf Hk r s res Hroot Hrun). Qed.

  Theorem rebuild_once : NoDup (log s).
  Proof. exact (koa_once e h rn Hwf Hk r s res Hroot Hrun). Qed.

  Theorem rebuild_memo_function :
    NoDup (map fst (memo s)) /\ (forall i, In i (log s) <-> In i (map fst (memo s))).
  Proof. exact (koa_memo_function e h rn Hwf Hk r s res Hroot Hrun). Qed.

  Theorem rebuild_exactly_creach : forall i, In i (log s) <-> creach e h r i.
  Proof. exact (koa_exactly_creach e h rn Hwf Hk r s res Hroot Hrun). Qed.

  Theorem rebuild_root_image : forall r', res = inl r' -> map_ref (memo s) r = Some r'.
  Proof. exact (koa_root_image e h rn Hwf Hk r s res Hroot Hrun). Qed.

  Theorem rebuild_fresh_distinct : forall i j ri rj,
    memo_get (memo s) i = Some ri -> memo_get (memo s) j = Some rj ->
    ((ri = RP i /\ i < length h) \/ (exists k, ri = RP k /\ length h <= k < length (out s))) /\
    (i <> j -> ri <> rj).
  Proof. exact (koa_fresh_distinct e h rn Hwf Hk r s res Hroot Hrun). Qed.

  Theorem rebuild_mirrors : forall i n ri,
    In i (log s) -> nth_error h i = Some n -> memo_get (memo s) i = Some ri ->
    exists rs, map (map_ref (memo s)) (children e n) = map Some rs /\
      if traversable n
      then exists k, ri = RP k /\ length h <= k /\ nth_error (out s) k = Some (with_children e n rs)
      else ri = RP i.
  Proof.
    intros i n ri _ Hn Hg.
    destruct (koa_at e h rn Hwf Hk r s res Hroot Hrun i n ri Hn Hg)
      as (rs & o0 & Hm & [[Hon Hri]|(nd & Hon & Hri & Hlen & Hnth)]);
      exists rs; (split; [exact Hm |]); unfold rn, rebuild_node, alloc in Hon;
      destruct (traversable n).
    - exfalso. inversion Hon as [[Ho Hx]].
      apply (f_equal (@length node)) in Ho. rewrite app_length in Ho. cbn [length] in Ho. lia.
    - exact Hri.
    - exists (length o0). inversion Hon as [[Ho]]. apply app_inv_head in Ho.
      inversion Ho; subst nd. auto.
    - exfalso. inversion Hon as [[Ho Hx]].
      apply (f_equal (@length node)) in Ho. rewrite app_length in Ho. cbn [length] in Ho. lia.
  Qed.
  Theorem rebuild_covered : forall k, length h <= k < length (out s) ->
    exists i, memo_get (memo s) i = Some (RP k).
  Proof. exact (koa_covered e h rn Hwf Hk r s res Hroot Hrun). Qed.

  Definition rebuild_shares (n : node) : Prop :=
    (exists fz xs, n = NSet fz xs) \/ exists x, n = NOpaque x.

  Section Canonical.
    Hypothesis Hcanon : forall i n, creach e h r i -> nth_error h i = Some n -> node_canonical e n.

    Lemma rebuild_at i k : memo_get (memo s) i = Some (RP k) ->
      exists n rs, nth_error h i = Some n /\ node_canonical e n /\
        map (map_ref (memo s)) (children e n) = map Some rs /\
        ((k = i /\ rs = children e n /\ rebuild_shares n) \/
         (length h <= k /\ nth_error (out s) k = Some (with_children e n rs))).
    Proof.
      intros Hg.
      assert (Hin : In i (log s)).
      { apply rebuild_memo_function. eapply memo_get_some_in; eauto. }
      destruct (koa_lookup e h rn Hwf Hk r s res Hroot Hrun i _ Hg) as (n & _ & _ & _ & Hn & _).
      assert (Hc : node_canonical e n).
      { eapply Hcanon; [| exact Hn]. apply rebuild_exactly_creach. exact Hin. }
      destruct (rebuild_mirrors i n (RP k) Hin Hn Hg) as (rs & Hm & Hmir).
      exists n, rs. split; [exact Hn |]. split; [exact Hc |]. split; [exact Hm |].
      destruct (traversable n) eqn:Ht.
      - right. destruct Hmir as (k' & Hri & Hl & Hnth). inversion Hri; subst k'. auto.
      - left. inversion Hmir; subst k. split; [reflexivity |]. split.
        { rewrite (nontrav_children e n Ht) in *. destruct rs; [reflexivity | discriminate]. }
        destruct n; cbn [traversable node_canonical] in *; try discriminate;
          try (destruct Hc; fail); [left | right]; eauto.
    Qed.

    (* the rebuilt graph corresponds one-to-one to the original *)
    Theorem rebuild_faithful : forall r', res = inl r' ->
      bij_wf (memo_bij (memo s)) /\ simulates h (out s) (memo_bij (memo s)) /\
      rel_ref (memo_bij (memo s)) r r'.
    Proof. exact (koa_faithful e h rn Hwf Hk r s res Hroot Hrun rebuild_shares rebuild_at). Qed.

    (* everything the rebuilt graph reaches is new, except sets and opaque leaf objects *)
    Theorem rebuild_independent : forall r', res = inl r' ->
      forall k, rreach (out s) r' k ->
      length h <= k \/
      (k < length h /\ memo_get (memo s) k = Some (RP k) /\
       exists n, nth_error h k = Some n /\
                 ((exists fz xs, n = NSet fz xs) \/ exists x, n = NOpaque x)).
    Proof. exact (koa_independent e h rn Hwf Hk r s res Hroot Hrun rebuild_shares rebuild_at). Qed.
  End Canonical.
End Rebuild.

(* canonicity of a whole heap, as a boolean *)
Definition heap_canonical_b (e : sigenv) (h : heap) : bool := forallb (node_canonical_b e) h.

Lemma heap_canonical_b_spec e h : heap_canonical_b e h = true ->
  forall (r : ref) i n, creach e h r i -> nth_error h i = Some n -> node_canonical e n.
Proof.
  unfold heap_canonical_b. intros H r i n _ Hn. rewrite forallb_forall in H.
  apply node_canonical_b_spec. apply H. eapply nth_error_In; eauto.
Qed.

(* ------------------------------------------------------------------------------------------ *)
(* non-vacuity: a well-formed configuration in which one Config (0) is shared by two parents (a
   Config, 1, and a Partial, 4), with a tuple of leaves (2, shared too) and a set (3).  The deep
   copy succeeds, is isomorphic to the original, copies the shared Config once, keeps the tuple
   (deepcopy) or re-creates it (pickle), and leaves the original heap in place. *)

Definition ex_env : sigenv :=
  [(10%N, [mkparam 0%N PosOrKw None false]);
   (11%N, [mkparam 1%N PosOrKw None false]);
   (12%N, [mkparam 2%N PosOrKw None false; mkparam 3%N KwOnly None false])].

Definition ex_heap : heap :=
  [ NBuildable BConfig 10%N [(KName 0%N, RA (AInt 3))] [];
    NBuildable BConfig 11%N [(KName 1%N, RP 0)] [];
    NTuple [RA (AInt 1); RA (AInt 2)];
    NSet false [AInt 7];
    NBuildable BPartial 12%N [(KName 2%N, RP 0); (KName 3%N, RP 2)] [(KName 2%N, [5%N])];
    NList [RP 1; RP 4; RP 3; RP 2] ].

Example deepcopy_example :
  wf_b ex_env ex_heap = true /\
  (let '(s, res) := deepcopy ex_env false ex_heap (RP 5) in
   res = inl (RP 10) /\
   iso_b (out s) (out s) (RP 5) (RP 10) = true /\
   memo_get (memo s) 0 = Some (RP 6) /\           (* the shared Config: one copy ... *)
   nth_error (out s) 7 = Some (NBuildable BConfig 11%N [(KName 1%N, RP 6)] []) /\
   nth_error (out s) 8 =                          (* ... used by both parents *)
     Some (NBuildable BPartial 12%N [(KName 2%N, RP 6); (KName 3%N, RP 2)] [(KName 2%N, [5%N])]) /\
   memo_get (memo s) 2 = Some (RP 2) /\           (* the tuple of leaves is kept *)
   firstn 6 (out s) = ex_heap) /\
  (let '(s, res) := deepcopy ex_env true ex_heap (RP 5) in
   res = inl (RP 11) /\
   iso_b (out s) (out s) (RP 5) (RP 11) = true /\
   memo_get (memo s) 2 = Some (RP 8) /\           (* a pickle round trip re-creates the tuple *)
   firstn 6 (out s) = ex_heap).
Proof. vm_compute. repeat split. Qed.

(* the copy is not isomorphic to a configuration in which the two parents have separate (equal)
   children: sharing is part of what is compared *)
Definition ex_heap_unshared : heap :=
  [ NBuildable BConfig 10%N [(KName 0%N, RA (AInt 3))] [];
    NBuildable BConfig 11%N [(KName 1%N, RP 0)] [];
    NTuple [RA (AInt 1); RA (AInt 2)];
    NSet false [AInt 7];
    NBuildable BConfig 10%N [(KName 0%N, RA (AInt 3))] [];
    NBuildable BPartial 12%N [(KName 2%N, RP 4); (KName 3%N, RP 2)] [(KName 2%N, [5%N])];
    NList [RP 1; RP 5; RP 3; RP 2] ].

Example deepcopy_example_sharing_matters :
  let '(s, res) := deepcopy ex_env false ex_heap (RP 5) in
  iso_b (out s) ex_heap_unshared (RP 10) (RP 6) = false /\
  iso_b ex_heap ex_heap_unshared (RP 5) (RP 6) = false.
Proof. vm_compute. split; reflexivity. Qed.

Example ex_heap_canonical : heap_canonical_b ex_env ex_heap = true.
Proof. vm_compute. reflexivity. Qed.

(* ------------------------------------------------------------------------------------------ *)
(* why deepcopy_faithful and deepcopy_independent assume canonical encodings *)

(* Buildable arguments stored out of signature order: __unflatten__ re-creates them in signature
   order, so the copy's encoding differs from the original's (the represented configuration is the
   same; the checker compares encodings, which is why the harness emits canonical ones) *)
Definition cex_env : sigenv := [(10%N, [mkparam 0%N PosOrKw None false; mkparam 1%N PosOrKw None false])].
Definition cex_noncanon_heap : heap :=
  [NBuildable BConfig 10%N [(KName 1%N, RA (AInt 2)); (KName 0%N, RA (AInt 1))] []].

Theorem deepcopy_faithful_needs_canonical :
  exists e pickle h r s r',
    wf_b e h = true /\ root_ok h r /\ mrun e h (copy_node e pickle) r = (s, inl r') /\
    ~ simulates h (out s) (memo_bij (memo s)) /\ iso_b (out s) (out s) r r' = false.
Proof.
  exists cex_env, false, cex_noncanon_heap, (RP 0). eexists. eexists.
  split; [vm_compute; reflexivity |]. split; [cbn; lia |].
  split; [vm_compute; reflexivity |]. split; [| vm_compute; reflexivity].
  intros H. destruct (H 0 1 (or_introl eq_refl)) as (n1 & n2 & H1 & H2 & Hs & _).
  cbn in H1, H2. inversion H1; inversion H2; subst. discriminate.
Qed.

(* a built object (NObj) is not traversed by deepcopy in this model: it is returned as it is, and
   with it whatever it refers to *)
Definition cex_obj_heap : heap :=
  [NList []; NObj 10%N [(0%N, PV (RP 0))]; NList [RP 1]].

Theorem deepcopy_independent_needs_canonical :
  exists e pickle h r s r' k,
    wf_b e h = true /\ root_ok h r /\ mrun e h (copy_node e pickle) r = (s, inl r') /\
    rreach (out s) r' k /\ k < length h /\ memo_get (memo s) k = None /\
    nth_error h k = Some (NList []).
Proof.
  exists [], false, cex_obj_heap, (RP 2). eexists. eexists. exists 0.
  split; [vm_compute; reflexivity |]. split; [cbn; lia |].
  split; [vm_compute; reflexivity |]. split; [| split; [cbn; lia | split; reflexivity]].
  eapply rr_step; [reflexivity | left; reflexivity |].
  eapply rr_step; [reflexivity | left; reflexivity |].
  apply rr_refl.
Qed.
