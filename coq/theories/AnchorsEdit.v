(* AnchorsEdit: pins the constants regenerated from /repo (gen/Extracted.v) to what the models assume.
   If the source changes at an anchor, one of these Examples stops compiling and every property
   whose model depends on it reports a broken tie (other properties are not affected). *)
From Coq Require Import String List ZArith.
From FiddleGen Require Import Extracted.
Import ListNotations.
Open Scope string_scope.

(* C03: ArgStore.del_indices models the repaired __delitem__ *)
Example anchor_delitem_no_varargs : delitem_handles_no_varargs = true. Proof. reflexivity. Qed.
Example anchor_delitem_range : delitem_rejects_out_of_range = true. Proof. reflexivity. Qed.
Example anchor_delitem_iteration : delitem_iteration = "sorted(indices, reverse=True)".
Proof. reflexivity. Qed.
Example anchor_set_index_kinds : set_index_counts_positional_kinds = true. Proof. reflexivity. Qed.
Example anchor_set_slice_min : set_slice_uses_min_index = true. Proof. reflexivity. Qed.
Example anchor_set_slice_snapshot : set_slice_reads_snapshot = true. Proof. reflexivity. Qed.
Example anchor_index_to_key_negative : index_to_key_rejects_negative = true. Proof. reflexivity. Qed.
