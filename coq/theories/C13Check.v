(* C13Check: a resolved diff, the order in which the real fiddler_from_diff emitted its statements
   (as indices into the list of changes, with the parents in emitted order), and the heap after the real
   fiddler ran.  Checks: the model emits the same statement order; executing in that order gives the
   observed heap; and so does Diff.apply_changes (the statement of C13 on the case). *)
From Fiddle Require Import PyBase PySlice Sig ArgStore PyCall Heap Traverse Tags History Diff Fiddler Lang Codegen C02Check.

Record case := mkcase {
  c_env : sigenv; c_heap : heap; c_root : ref; c_changes : list change;
  c_parents : list path;            (* parent paths in the order their groups were emitted *)
  c_emitted : list nat;             (* emitted statements as indices into c_changes *)
  c_after : heap; c_after_root : ref   (* the configuration after the real fiddler ran (own numbering) *)
}.

Definition change_eq_dec : forall a b : change, {a = b} + {a <> b}.
Proof.
  decide equality; auto using path_eq_dec, ref_eq_dec, N.eq_dec;
    decide equality; auto using N.eq_dec, atom_eq_dec, Z.eq_dec.
Defined.

Definition same_order (cs : list change) (emitted : list nat) (model : list change) : bool :=
  if list_eq_dec change_eq_dec
       (flat_map (fun i => match nth_error cs i with Some c => [c] | None => [] end) emitted) model
  then Nat.eqb (length emitted) (length model) else false.

(* the two results are compared as graphs: the real fiddler builds its new values from emitted
   expressions, the model takes them from the resolved diff *)
Fixpoint insert_tags (x : skey * list N) (l : tagmap) : tagmap :=
  match l with
  | [] => [x]
  | y :: l' => if skey_leb (fst x) (fst y) then x :: l else y :: insert_tags x l'
  end.
(* tag maps up to empty entries and order *)
Definition canon_tags (t : tagmap) : tagmap :=
  fold_right insert_tags [] (filter (fun kt => match snd kt with [] => false | _ => true end) t).
Definition canon_node_tags (n : node) : node :=
  match n with
  | NBuildable k fn st tags => NBuildable k fn (sort_store st) (canon_tags tags)
  | _ => n
  end.
Definition same_graph (h1 : heap) (r1 : ref) (h2 : heap) (r2 : ref) : bool :=
  iso_b (map canon_node_tags h1) (map canon_node_tags h2) r1 r2.

Definition check_case (c : case) : bool :=
  let e := c_env c in
  let model := fiddler_order (c_parents c) (c_changes c) in
  same_order (c_changes c) (c_emitted c) model
  && same_graph (exec_fiddler e (c_heap c) (c_root c) (c_parents c) (c_changes c)) (c_root c)
                (c_after c) (c_after_root c)
  && same_graph (apply_changes e (c_heap c) (c_root c) (c_changes c)) (c_root c)
                (c_after c) (c_after_root c).

Definition explain_case (c : case) :=
  (fiddler_order (c_parents c) (c_changes c),
   exec_fiddler (c_env c) (c_heap c) (c_root c) (c_parents c) (c_changes c)).
