(* Fiddler_proofs: the statement order of codegen_diff.fiddler_from_diff (Fiddler.fiddler_order) against
   the five global phases of diffing._apply_changes (Diff.apply_changes).
     1. fiddler_order is a permutation of the changes; inside a group the stages are ordered and
        stable.
     2. Both executions are one left fold of apply_one over a permutation of the same resolved
        changes.  When no two changes have the same target on the same node (targets_distinct) and
        the dictionaries of the heap have unique keys and sorted tag sets (heap_wf), the results are
        equal as finite maps (node_rel): same callable, same argument -> value map, same
        argument -> tag set map, same dict items; only the insertion order of newly appended keys
        can differ (and does: see the _refuted theorems in props/C13.v).
     3. Exact equality holds when in addition no two parent paths resolve to the same node and every
        CModify of an argument / dict key finds that key present (which is what a diff produced by
        build_diff satisfies). *)
From Fiddle Require Import PyBase PySlice Sig ArgStore PyCall Heap Traverse Tags History Diff Fiddler
  Lang Codegen C02Check C13Check Diff_proofs.
From Coq Require Import List Arith Lia Permutation Sorting.Sorted.
Import ListNotations.

(* ------------------------------------------------------------------------------------------ *)
(* list facts                                                                                  *)

Lemma filter_true {A} (f : A -> bool) l : (forall x, In x l -> f x = true) -> filter f l = l.
Proof.
  induction l as [|x l IH]; intros H; [reflexivity |]. cbn [filter].
  rewrite (H x (or_introl eq_refl)). f_equal. apply IH. intros y Hy. apply H. right. exact Hy.
Qed.

Lemma filter_false {A} (f : A -> bool) l : (forall x, In x l -> f x = false) -> filter f l = [].
Proof.
  induction l as [|x l IH]; intros H; [reflexivity |]. cbn [filter].
  rewrite (H x (or_introl eq_refl)). apply IH. intros y Hy. apply H. right. exact Hy.
Qed.

Lemma Permutation_filter {A} (f : A -> bool) l l' :
  Permutation l l' -> Permutation (filter f l) (filter f l').
Proof.
  induction 1 as [|x l l' Hp IH|x y l|l l' l'' Hp1 IH1 Hp2 IH2]; cbn [filter].
  - constructor.
  - destruct (f x); [constructor |]; exact IH.
  - destruct (f x), (f y); try apply Permutation_refl. constructor.
  - eapply Permutation_trans; eassumption.
Qed.

Lemma filter_or_perm {A} (f g : A -> bool) l :
  (forall x, In x l -> f x = true -> g x = true -> False) ->
  Permutation (filter f l ++ filter g l) (filter (fun x => f x || g x) l).
Proof.
  induction l as [|x l IH]; intros Hd; [constructor |]. cbn [filter].
  assert (IH' := IH (fun y Hy => Hd y (or_intror Hy))).
  destruct (f x) eqn:Ef, (g x) eqn:Eg; cbn [orb app].
  - exfalso. exact (Hd x (or_introl eq_refl) Ef Eg).
  - constructor. exact IH'.
  - apply Permutation_sym. apply Permutation_cons_app. apply Permutation_sym. exact IH'.
  - exact IH'.
Qed.

Lemma flat_map_perm_pointwise {A B} (f g : A -> list B) l :
  (forall x, Permutation (f x) (g x)) -> Permutation (flat_map f l) (flat_map g l).
Proof.
  intros H. induction l as [|x l IH]; [constructor |]. cbn [flat_map].
  apply Permutation_app; [apply H | exact IH].
Qed.

Lemma StronglySorted_app {A} (R : A -> A -> Prop) l1 l2 :
  StronglySorted R l1 -> StronglySorted R l2 ->
  (forall x y, In x l1 -> In y l2 -> R x y) -> StronglySorted R (l1 ++ l2).
Proof.
  induction l1 as [|a l1 IH]; intros H1 H2 H12; [exact H2 |]. cbn [app].
  inversion H1 as [|? ? Hs Hf]. subst. constructor.
  - apply IH; [exact Hs | exact H2 |]. intros x y Hx Hy. apply H12; [right; exact Hx | exact Hy].
  - apply Forall_app. split; [exact Hf |]. apply Forall_forall. intros y Hy.
    apply H12; [left; reflexivity | exact Hy].
Qed.

Lemma StronglySorted_filter {A} (R : A -> A -> Prop) (f : A -> bool) l :
  StronglySorted R l -> StronglySorted R (filter f l).
Proof.
  induction 1 as [|a l Hs IH Hf]; cbn [filter]; [constructor |].
  destruct (f a); [| exact IH]. constructor; [exact IH |].
  apply Forall_forall. intros y Hy. apply filter_In in Hy. destruct Hy as [Hy _].
  rewrite Forall_forall in Hf. apply Hf. exact Hy.
Qed.

Lemma NoDup_map_filter {A B} (f : A -> B) (g : A -> bool) l :
  NoDup (map f l) -> NoDup (map f (filter g l)).
Proof.
  induction l as [|x l IH]; intros H; [constructor |]. cbn [map] in H.
  inversion H as [|? ? Hn Hnd]. subst. cbn [filter]. destruct (g x); [| apply IH; exact Hnd].
  cbn [map]. constructor; [| apply IH; exact Hnd].
  intros Hin. apply Hn. apply in_map_iff in Hin. destruct Hin as (y & Hy & Hin).
  apply filter_In in Hin. destruct Hin as [Hin _]. apply in_map_iff. exists y. split; assumption.
Qed.

Lemma NoDup_app_r {A} (l1 l2 : list A) : NoDup (l1 ++ l2) -> NoDup l2.
Proof.
  induction l1 as [|x l1 IH]; cbn [app]; [auto |]. intros H. inversion H. auto.
Qed.

Lemma Forall2_nth {A} (R : A -> A -> Prop) (l1 l2 : list A) :
  length l1 = length l2 ->
  (forall i a b, nth_error l1 i = Some a -> nth_error l2 i = Some b -> R a b) ->
  Forall2 R l1 l2.
Proof.
  revert l2. induction l1 as [|x l1 IH]; intros [|y l2] Hlen H; cbn [length] in Hlen; try discriminate.
  - constructor.
  - constructor.
    + apply (H 0%nat); reflexivity.
    + apply IH; [lia |]. intros i a b Ha Hb. apply (H (S i)); assumption.
Qed.

Lemma Forall2_nth_inv {A} (R : A -> A -> Prop) (l1 l2 : list A) :
  Forall2 R l1 l2 ->
  forall i a b, nth_error l1 i = Some a -> nth_error l2 i = Some b -> R a b.
Proof.
  induction 1 as [|x y l1 l2 Hxy Hf IH]; intros i a b Ha Hb.
  - destruct i; discriminate.
  - destruct i; cbn [nth_error] in Ha, Hb.
    + inversion Ha; inversion Hb; subst. exact Hxy.
    + eapply IH; eassumption.
Qed.

Section Classes.
  Context {A B : Type} (key : A -> B) (dec : forall a b : B, {a = b} + {a <> b}).

  Definition in_class (k : B) (x : A) : bool := if dec (key x) k then true else false.
  Definition class_mem (ks : list B) (x : A) : bool := if in_dec dec (key x) ks then true else false.

  Lemma classes_perm l ks :
    NoDup ks ->
    Permutation (flat_map (fun k => filter (in_class k) l) ks) (filter (class_mem ks) l).
  Proof.
    induction ks as [|p ps IH]; intros Hnd.
    - cbn [flat_map]. rewrite filter_false; [constructor | reflexivity].
    - inversion Hnd as [|? ? Hnot Hnd']. subst. cbn [flat_map].
      eapply Permutation_trans.
      + apply Permutation_app; [apply Permutation_refl | apply IH; exact Hnd'].
      + eapply Permutation_trans.
        * apply filter_or_perm. intros c _ H1 H2. unfold in_class, class_mem in *.
          destruct (dec (key c) p) as [Heq|]; [| discriminate].
          destruct (in_dec dec (key c) ps) as [Hin|]; [| discriminate].
          apply Hnot. rewrite <- Heq. exact Hin.
        * erewrite filter_ext; [apply Permutation_refl |]. intros c. unfold in_class, class_mem.
          destruct (dec (key c) p) as [Heq|Hne];
            destruct (in_dec dec (key c) ps) as [Hin|Hnin];
            destruct (in_dec dec (key c) (p :: ps)) as [Hin2|Hnin2]; cbn [orb];
            try reflexivity; exfalso.
          -- apply Hnin2. left. symmetry. exact Heq.
          -- apply Hnin2. left. symmetry. exact Heq.
          -- apply Hnin2. right. exact Hin.
          -- destruct Hin2 as [H|H]; [apply Hne; symmetry; exact H | contradiction].
  Qed.

  Lemma classes_perm_all l ks :
    NoDup ks -> (forall x, In x l -> In (key x) ks) ->
    Permutation (flat_map (fun k => filter (in_class k) l) ks) l.
  Proof.
    intros Hnd Hcov. eapply Permutation_trans; [apply classes_perm; exact Hnd |].
    rewrite filter_true; [apply Permutation_refl |]. intros x Hx. unfold class_mem.
    destruct (in_dec dec (key x) ks) as [|Hn]; [reflexivity |]. exfalso. apply Hn, Hcov, Hx.
  Qed.
End Classes.

(* ------------------------------------------------------------------------------------------ *)
(* 1. the emitted order                                                                        *)

Definition in_group (p : path) (c : change) : bool :=
  if path_eq_dec (parent_of c) p then true else false.

Definition path_mem (ps : list path) (p : path) : bool :=
  if in_dec path_eq_dec p ps then true else false.

Lemma stage_le_2 c : (stage c <= 2)%nat.
Proof. destruct c as [p l v|p l v|p l|p a t|p a t]; cbn [stage]; try lia. destruct l; lia. Qed.

Lemma group_order_perm g : Permutation (group_order g) g.
Proof.
  unfold group_order. induction g as [|c g IH]; [constructor |].
  cbn [filter].
  change (in_stage 0 c) with (Nat.eqb (stage c) 0); change (in_stage 1 c) with (Nat.eqb (stage c) 1);
    change (in_stage 2 c) with (Nat.eqb (stage c) 2).
  pose proof (stage_le_2 c) as Hle.
  destruct (stage c) as [|[|[|k]]] eqn:Es; cbn [Nat.eqb]; try lia.
  - cbn [app]. constructor. exact IH.
  - apply Permutation_sym.
    apply (Permutation_cons_app (filter (in_stage 0) g) (filter (in_stage 1) g ++ filter (in_stage 2) g)).
    apply Permutation_sym. exact IH.
  - apply Permutation_sym. rewrite app_assoc.
    apply (Permutation_cons_app (filter (in_stage 0) g ++ filter (in_stage 1) g) (filter (in_stage 2) g)).
    rewrite <- app_assoc. apply Permutation_sym. exact IH.
Qed.

Lemma groups_perm cs parents :
  NoDup parents ->
  Permutation (flat_map (fun p => group_of p cs) parents)
              (filter (fun c => path_mem parents (parent_of c)) cs).
Proof. intros Hnd. exact (classes_perm parent_of path_eq_dec cs parents Hnd). Qed.

Lemma phase_sort_perm cs : Permutation (phase_sort cs) cs.
Proof.
  apply (classes_perm_all type_of optype_eq_dec cs phase_order).
  - unfold phase_order. repeat constructor; cbn [In]; intuition discriminate.
  - intros c _. unfold phase_order. destruct c; cbn; auto 6.
Qed.

(* every change whose parent path is listed is emitted exactly once *)
Lemma fiddler_order_perm_filter cs parents :
  NoDup parents ->
  Permutation (fiddler_order parents cs) (filter (fun c => path_mem parents (parent_of c)) cs).
Proof.
  intros Hnd. unfold fiddler_order. eapply Permutation_trans; [| apply groups_perm; exact Hnd].
  apply flat_map_perm_pointwise. intros p. apply group_order_perm.
Qed.

Theorem fiddler_order_perm cs parents :
  NoDup parents -> (forall c, In c cs -> In (parent_of c) parents) ->
  Permutation (fiddler_order parents cs) cs.
Proof.
  intros Hnd Hcov. eapply Permutation_trans; [apply fiddler_order_perm_filter; exact Hnd |].
  rewrite filter_true; [apply Permutation_refl |]. intros c Hc. unfold path_mem.
  destruct (in_dec path_eq_dec (parent_of c) parents) as [|Hn]; [reflexivity |].
  exfalso. apply Hn. apply Hcov. exact Hc.
Qed.

Lemma dedup_paths_in ps : forall q, In q (dedup_paths ps) <-> In q ps.
Proof.
  induction ps as [|p ps IH]; intros q; cbn [dedup_paths In]; [reflexivity |].
  rewrite filter_In, IH. destruct (path_eq_dec p q) as [Heq|Hne].
  - split; [intros [H|[H _]]; auto | intros _; left; exact Heq].
  - split; [intros [H|[H _]]; auto | intros [H|H]; auto].
Qed.

Lemma dedup_paths_nodup ps : NoDup (dedup_paths ps).
Proof.
  induction ps as [|p ps IH]; cbn [dedup_paths]; [constructor |]. constructor.
  - intros Hin. apply filter_In in Hin. destruct Hin as [_ H].
    destruct (path_eq_dec p p); [discriminate | contradiction].
  - apply NoDup_filter. exact IH.
Qed.

Lemma parents_of_nodup cs : NoDup (parents_of cs).
Proof. apply dedup_paths_nodup. Qed.

Lemma parents_of_cover cs c : In c cs -> In (parent_of c) (parents_of cs).
Proof. intros H. apply dedup_paths_in. apply in_map. exact H. Qed.

Lemma parents_of_ok cs :
  NoDup (parents_of cs) /\ (forall c, In c cs -> In (parent_of c) (parents_of cs)).
Proof. split; [apply parents_of_nodup | apply parents_of_cover]. Qed.

Theorem fiddler_is_permutation cs : Permutation (fiddler_order (parents_of cs) cs) cs.
Proof. apply fiddler_order_perm; [apply parents_of_nodup | apply parents_of_cover]. Qed.

(* inside a group: stages in order, diff order kept inside a stage *)
Lemma in_stage_filter_filter k j g :
  filter (in_stage k) (filter (in_stage j) g) = if Nat.eqb j k then filter (in_stage k) g else [].
Proof.
  rewrite filter_filter. destruct (Nat.eqb j k) eqn:E.
  - apply Nat.eqb_eq in E. subst j. apply filter_ext. intros c. apply Bool.andb_diag.
  - apply filter_false. intros c _. unfold in_stage.
    destruct (Nat.eqb (stage c) j) eqn:E1; [| reflexivity].
    apply Nat.eqb_eq in E1. rewrite E1. exact E.
Qed.

Theorem group_order_stages g :
  StronglySorted (fun a b => (stage a <= stage b)%nat) (group_order g)
  /\ (forall k, filter (in_stage k) (group_order g) = filter (in_stage k) g).
Proof.
  assert (Hst : forall k l, StronglySorted (fun a b => (stage a <= stage b)%nat) (filter (in_stage k) l)).
  { intros k l. induction l as [|c l IH]; cbn [filter]; [constructor |].
    destruct (in_stage k c) eqn:E; [| exact IH]. constructor; [exact IH |].
    apply Forall_forall. intros y Hy. apply filter_In in Hy. destruct Hy as [_ Hy].
    unfold in_stage in *. apply Nat.eqb_eq in E, Hy. lia. }
  assert (Hin : forall k l c, In c (filter (in_stage k) l) -> stage c = k).
  { intros k l c Hc. apply filter_In in Hc. destruct Hc as [_ Hc]. apply Nat.eqb_eq. exact Hc. }
  split.
  - unfold group_order. apply StronglySorted_app; [apply Hst | |].
    + apply StronglySorted_app; [apply Hst | apply Hst |].
      intros x y Hx Hy. rewrite (Hin _ _ _ Hx), (Hin _ _ _ Hy). lia.
    + intros x y Hx Hy. rewrite (Hin _ _ _ Hx). lia.
  - intros k. unfold group_order. rewrite !filter_app, !in_stage_filter_filter.
    destruct k as [|[|[|k]]]; cbn [Nat.eqb app]; rewrite ?app_nil_r; try reflexivity.
    symmetry. apply filter_false. intros c _. unfold in_stage.
    pose proof (stage_le_2 c). apply Nat.eqb_neq. lia.
Qed.

(* ------------------------------------------------------------------------------------------ *)
(* 2. targets and normal form of the operations                                                *)

(* what a change touches on its parent node *)
Inductive target :=
| TgArg (a : N)            (* an argument of a Buildable *)
| TgKey (k : atom)         (* a dict item *)
| TgIdx (i : nat)          (* a list slot (the slot list_set_nat writes: Z.to_nat of the index) *)
| TgTag (a : N) (t : N)    (* one tag of one argument *)
| TgFn.                    (* the callable *)

Definition target_eq_dec : forall a b : target, {a = b} + {a <> b}.
Proof. decide equality; auto using N.eq_dec, atom_eq_dec, Nat.eq_dec. Defined.

Definition last_target (l : dlast) : target :=
  match l with
  | LAttr a => TgArg a | LKey k => TgKey k | LIndex i => TgIdx (Z.to_nat i) | LFn => TgFn
  end.

Definition target_of (c : change) : target :=
  match c with
  | CSet _ l _ | CModify _ l _ | CDelete _ l => last_target l
  | CAddTag _ a t | CRemoveTag _ a t => TgTag a t
  end.

Fixpoint nodupb {A} (dec : forall a b : A, {a = b} + {a <> b}) (l : list A) : bool :=
  match l with
  | [] => true
  | x :: l' => (if in_dec dec x l' then false else true) && nodupb dec l'
  end.

Lemma nodupb_spec {A} (dec : forall a b : A, {a = b} + {a <> b}) l :
  nodupb dec l = true <-> NoDup l.
Proof.
  induction l as [|x l IH]; cbn [nodupb].
  - split; [constructor | reflexivity].
  - destruct (in_dec dec x l) as [Hin|Hnin]; cbn [andb].
    + split; [discriminate |]. intros H. inversion H. contradiction.
    + rewrite IH. split; [intros H; constructor; assumption | intros H; inversion H; assumption].
Qed.

Definition tkey_eq_dec : forall a b : nat * target, {a = b} + {a <> b}.
Proof. decide equality; auto using target_eq_dec, Nat.eq_dec. Defined.

Section Targets.
  Variable e : sigenv.

  (* (resolved parent node, target); none for a change whose parent does not resolve to an object *)
  Definition tkey (h : heap) (root : ref) (c : change) : list (nat * target) :=
    match follow e h root (parent_of c) with
    | Some (RP i) => [(i, target_of c)]
    | _ => []
    end.

  Definition tkeys (h : heap) (root : ref) (cs : list change) : list (nat * target) :=
    flat_map (tkey h root) cs.

  (* at most one change per (resolved parent node, argument / key / slot / argument & tag / callable) *)
  Definition targets_distinct (h : heap) (root : ref) (cs : list change) : bool :=
    nodupb tkey_eq_dec (tkeys h root cs).

  Lemma tkeys_in_node h root i cs t :
    In t (map target_of (filter (resolves_to e h root i) cs)) -> In (i, t) (tkeys h root cs).
  Proof.
    intros Hin. apply in_map_iff in Hin. destruct Hin as (c & Ht & Hc).
    apply filter_In in Hc. destruct Hc as [Hc Hr]. apply resolves_to_iff in Hr.
    unfold tkeys. apply in_flat_map. exists c. split; [exact Hc |].
    unfold tkey. rewrite Hr. left. rewrite Ht. reflexivity.
  Qed.

  Lemma tkeys_node_nodup h root i cs :
    NoDup (tkeys h root cs) -> NoDup (map target_of (filter (resolves_to e h root i) cs)).
  Proof.
    induction cs as [|c cs IH]; intros Hnd; [constructor |].
    unfold tkeys in Hnd. cbn [flat_map] in Hnd. fold (tkeys h root cs) in Hnd.
    cbn [filter]. destruct (resolves_to e h root i c) eqn:Er.
    - apply resolves_to_iff in Er. unfold tkey in Hnd. rewrite Er in Hnd. cbn [app] in Hnd.
      inversion Hnd as [|? ? Hnot Hnd']. subst. cbn [map]. constructor; [| apply IH; exact Hnd'].
      intros Hin. apply Hnot. apply tkeys_in_node. exact Hin.
    - apply IH. apply NoDup_app_r in Hnd. exact Hnd.
  Qed.
End Targets.

(* the operation a change performs on its parent node, independent of the node *)
Inductive nop :=
| NSetArg (a : N) (v : ref) | NDelArg (a : N)
| NSetKey (k : atom) (v : ref) | NDelKey (k : atom)
| NSetIdx (i : nat) (v : ref)
| NAddTag (a t : N) | NRemTag (a t : N)
| NSetFn (f : N)
| NNop.

Definition nop_of (c : change) : nop :=
  match c with
  | CSet _ (LAttr a) v | CModify _ (LAttr a) v => NSetArg a v
  | CSet _ (LKey k) v | CModify _ (LKey k) v => NSetKey k v
  | CModify _ (LIndex i) v => NSetIdx (Z.to_nat i) v
  | CModify _ LFn (RA (ASym f)) => NSetFn f
  | CDelete _ (LAttr a) => NDelArg a
  | CDelete _ (LKey k) => NDelKey k
  | CAddTag _ a t => NAddTag a t
  | CRemoveTag _ a t => NRemTag a t
  | _ => NNop
  end.

Definition apply_nop (o : nop) (n : node) : node :=
  match o, n with
  | NSetArg a v, NBuildable k fn args tags => NBuildable k fn (sset args (KName a) v) tags
  | NDelArg a, NBuildable k fn args tags => NBuildable k fn (sdel args (KName a)) tags
  | NAddTag a t, NBuildable k fn args tags => NBuildable k fn args (tags_add tags (KName a) t)
  | NRemTag a t, NBuildable k fn args tags => NBuildable k fn args (tags_remove tags (KName a) t)
  | NSetFn f, NBuildable k _ args tags => NBuildable k f args tags
  | NSetKey key v, NDict kvs => NDict (dset atom_eqb kvs key v)
  | NSetKey key v, NDefaultDict f kvs => NDefaultDict f (dset atom_eqb kvs key v)
  | NDelKey key, NDict kvs => NDict (ddel atom_eqb kvs key)
  | NDelKey key, NDefaultDict f kvs => NDefaultDict f (ddel atom_eqb kvs key)
  | NSetIdx i v, NList xs => NList (list_set_nat xs i v)
  | _, other => other
  end.

Definition ntarget (o : nop) : option target :=
  match o with
  | NSetArg a _ | NDelArg a => Some (TgArg a)
  | NSetKey k _ | NDelKey k => Some (TgKey k)
  | NSetIdx i _ => Some (TgIdx i)
  | NAddTag a t | NRemTag a t => Some (TgTag a t)
  | NSetFn _ => Some TgFn
  | NNop => None
  end.

Lemma apply_op_nop c n : apply_op c n = apply_nop (nop_of c) n.
Proof.
  destruct c as [p l v|p l v|p l|p a t|p a t]; try destruct l as [a|key|i|];
    try (destruct v as [[]|]); destruct n; cbn [apply_op nop_of apply_nop];
    rewrite ?akv_set_dset, ?akv_del_ddel; reflexivity.
Qed.

Lemma ntarget_nop_of c t : ntarget (nop_of c) = Some t -> t = target_of c.
Proof.
  destruct c as [p l v|p l v|p l|p a t0|p a t0]; try destruct l as [a|key|i|];
    try (destruct v as [[]|]); cbn [nop_of ntarget target_of last_target]; intros H;
    try discriminate; inversion H; reflexivity.
Qed.

(* ------------------------------------------------------------------------------------------ *)
(* tag sets                                                                                    *)

Lemma tset_add_sorted t l : StronglySorted N.lt l -> StronglySorted N.lt (tset_add t l).
Proof.
  induction 1 as [|x l Hs IH Hf]; cbn [tset_add].
  - constructor; constructor.
  - destruct (N.eqb t x) eqn:E1; [constructor; assumption |].
    destruct (N.ltb t x) eqn:E2.
    + apply N.ltb_lt in E2. constructor; [constructor; assumption |]. constructor; [exact E2 |].
      rewrite Forall_forall in *. intros y Hy. specialize (Hf y Hy). lia.
    + apply N.eqb_neq in E1. apply N.ltb_ge in E2. constructor; [exact IH |].
      apply Forall_forall. intros y Hy. apply tset_add_in in Hy. destruct Hy as [Hy|Hy].
      * subst y. lia.
      * rewrite Forall_forall in Hf. apply Hf. exact Hy.
Qed.

Lemma tset_remove_sorted t l : StronglySorted N.lt l -> StronglySorted N.lt (tset_remove t l).
Proof. apply StronglySorted_filter. Qed.

Lemma sorted_ext l : forall l',
  StronglySorted N.lt l -> StronglySorted N.lt l' -> (forall x, In x l <-> In x l') -> l = l'.
Proof.
  induction l as [|x l IH]; intros [|y l'] H1 H2 Hext.
  - reflexivity.
  - exfalso. apply (proj2 (Hext y)). left. reflexivity.
  - exfalso. apply (proj1 (Hext x)). left. reflexivity.
  - inversion H1 as [|? ? Hs1 Hf1]. inversion H2 as [|? ? Hs2 Hf2]. subst.
    rewrite Forall_forall in Hf1, Hf2.
    assert (Hxy : x = y).
    { destruct (proj1 (Hext x) (or_introl eq_refl)) as [Heq|Hin]; [symmetry; exact Heq |].
      destruct (proj2 (Hext y) (or_introl eq_refl)) as [Heq|Hin2]; [exact Heq |].
      specialize (Hf2 x Hin). specialize (Hf1 y Hin2). lia. }
    subst y. f_equal. apply IH; [exact Hs1 | exact Hs2 |]. intros z. split; intros Hz.
    + destruct (proj1 (Hext z) (or_intror Hz)) as [Heq|Hin]; [| exact Hin].
      subst z. specialize (Hf1 x Hz). lia.
    + destruct (proj2 (Hext z) (or_intror Hz)) as [Heq|Hin]; [| exact Hin].
      subst z. specialize (Hf2 x Hz). lia.
Qed.

Lemma tset_add_add t1 t2 l :
  StronglySorted N.lt l -> tset_add t1 (tset_add t2 l) = tset_add t2 (tset_add t1 l).
Proof.
  intros Hs. apply sorted_ext; try (apply tset_add_sorted; apply tset_add_sorted; exact Hs).
  intros x. rewrite !tset_add_in. tauto.
Qed.

Lemma tset_remove_remove t1 t2 l :
  tset_remove t1 (tset_remove t2 l) = tset_remove t2 (tset_remove t1 l).
Proof.
  unfold tset_remove. rewrite !filter_filter. apply filter_ext. intros x. apply Bool.andb_comm.
Qed.

Lemma tset_add_remove t1 t2 l :
  t1 <> t2 -> StronglySorted N.lt l ->
  tset_add t1 (tset_remove t2 l) = tset_remove t2 (tset_add t1 l).
Proof.
  intros Hne Hs. apply sorted_ext.
  - apply tset_add_sorted, tset_remove_sorted, Hs.
  - apply tset_remove_sorted, tset_add_sorted, Hs.
  - intros x. rewrite tset_add_in, !tset_remove_in, tset_add_in. split.
    + intros [Hx|[Hx Hin]]; [subst x; auto | auto].
    + intros [Hx [Heq|Hin]]; auto.
Qed.

(* ------------------------------------------------------------------------------------------ *)
(* equality of nodes as finite maps                                                            *)

Definition tags_sorted (t : tagmap) : Prop := Forall (fun kt => StronglySorted N.lt (snd kt)) t.

(* same kind, same callable, same argument map, same tag map (with sorted tag sets), same dict
   items - each dictionary with unique keys; other nodes identical *)
Definition node_rel (n1 n2 : node) : Prop :=
  match n1 with
  | NBuildable k1 f1 a1 t1 =>
      match n2 with
      | NBuildable k2 f2 a2 t2 =>
          k1 = k2 /\ f1 = f2 /\ meq skey_eqb a1 a2 /\ meq skey_eqb t1 t2
          /\ tags_sorted t1 /\ tags_sorted t2
      | _ => False
      end
  | NDict d1 => match n2 with NDict d2 => meq atom_eqb d1 d2 | _ => False end
  | NDefaultDict f1 d1 =>
      match n2 with NDefaultDict f2 d2 => f1 = f2 /\ meq atom_eqb d1 d2 | _ => False end
  | _ => n1 = n2
  end.

Lemma node_rel_sym n1 n2 : node_rel n1 n2 -> node_rel n2 n1.
Proof.
  destruct n1, n2; cbn [node_rel]; try contradiction; try discriminate; try (intros H; symmetry; exact H).
  - apply meq_sym.
  - intros [H1 H2]. split; [symmetry; exact H1 | apply meq_sym; exact H2].
  - intros (H1 & H2 & H3 & H4 & H5 & H6).
    repeat split; try (symmetry; assumption); try assumption;
      try (apply meq_sym; assumption); try (apply meq_sym in H3; apply H3); try (apply meq_sym in H4; apply H4).
Qed.

Lemma node_rel_trans n1 n2 n3 : node_rel n1 n2 -> node_rel n2 n3 -> node_rel n1 n3.
Proof.
  destruct n1, n2; cbn [node_rel]; try contradiction; try discriminate;
    try (intros H; inversion H; subst; cbn [node_rel]; intros H'; exact H').
  - destruct n3; cbn [node_rel]; try contradiction. apply meq_trans.
  - destruct n3; cbn [node_rel]; try contradiction.
    intros [H1 H2] [H3 H4]. split; [congruence | eapply meq_trans; eassumption].
  - destruct n3; cbn [node_rel]; try contradiction.
    intros (H1 & H2 & H3 & H4 & H5 & H6) (H1' & H2' & H3' & H4' & H5' & H6').
    split; [congruence | split; [congruence |]].
    split; [eapply meq_trans; eassumption |]. split; [eapply meq_trans; eassumption |].
    split; assumption.
Qed.

Lemma node_rel_refl_r n1 n2 : node_rel n1 n2 -> node_rel n2 n2.
Proof. intros H. eapply node_rel_trans; [apply node_rel_sym; exact H | exact H]. Qed.

Lemma node_rel_refl_l n1 n2 : node_rel n1 n2 -> node_rel n1 n1.
Proof. intros H. eapply node_rel_trans; [exact H | apply node_rel_sym; exact H]. Qed.

Lemma tags_get_meq m m' k : meq skey_eqb m m' -> tags_get m k = tags_get m' k.
Proof. intros (_ & _ & H). unfold tags_get. rewrite H. reflexivity. Qed.

Lemma tags_get_sorted m k : tags_sorted m -> StronglySorted N.lt (tags_get m k).
Proof.
  intros Hs. unfold tags_get. destruct (dget skey_eqb m k) as [l|] eqn:E; [| constructor].
  apply (dget_in skey_eqb skey_eqb_spec) in E. unfold tags_sorted in Hs. rewrite Forall_forall in Hs.
  exact (Hs _ E).
Qed.

Lemma tags_sorted_dset m k l : tags_sorted m -> StronglySorted N.lt l -> tags_sorted (dset skey_eqb m k l).
Proof.
  intros Hm Hl. induction m as [|[k0 l0] m IH]; cbn [dset].
  - constructor; [exact Hl | constructor].
  - inversion Hm as [|? ? H0 Hm']. subst. destruct (skey_eqb k k0).
    + constructor; [exact Hl | exact Hm'].
    + constructor; [exact H0 | apply IH; exact Hm'].
Qed.

Lemma tags_add_sorted m k t : tags_sorted m -> tags_sorted (tags_add m k t).
Proof.
  intros H. unfold tags_add, tags_set. apply tags_sorted_dset; [exact H |].
  apply tset_add_sorted, tags_get_sorted, H.
Qed.

Lemma tags_remove_sorted m k t : tags_sorted m -> tags_sorted (tags_remove m k t).
Proof.
  intros H. unfold tags_remove, tags_set. apply tags_sorted_dset; [exact H |].
  apply tset_remove_sorted, tags_get_sorted, H.
Qed.

Lemma tags_add_meq m m' k t : meq skey_eqb m m' -> meq skey_eqb (tags_add m k t) (tags_add m' k t).
Proof.
  intros H. unfold tags_add, tags_set. rewrite (tags_get_meq m m' k H).
  apply (meq_dset skey_eqb skey_eqb_spec). exact H.
Qed.

Lemma tags_remove_meq m m' k t : meq skey_eqb m m' -> meq skey_eqb (tags_remove m k t) (tags_remove m' k t).
Proof.
  intros H. unfold tags_remove, tags_set. rewrite (tags_get_meq m m' k H).
  apply (meq_dset skey_eqb skey_eqb_spec). exact H.
Qed.

(* every operation respects the relation *)
Lemma apply_nop_cong o n n' : node_rel n n' -> node_rel (apply_nop o n) (apply_nop o n').
Proof.
  intros H.
  destruct n; destruct n'; cbn [node_rel] in H; try contradiction; try discriminate;
    try (inversion H; subst; destruct o; cbn [apply_nop node_rel]; reflexivity).
  - (* dict *)
    destruct o; cbn [apply_nop node_rel]; try exact H.
    + apply (meq_dset atom_eqb atom_eqb_spec). exact H.
    + apply (meq_ddel atom_eqb atom_eqb_spec). exact H.
  - destruct H as [Hf H]. destruct o; cbn [apply_nop node_rel]; (split; [exact Hf |]); try exact H.
    + apply (meq_dset atom_eqb atom_eqb_spec). exact H.
    + apply (meq_ddel atom_eqb atom_eqb_spec). exact H.
  - destruct H as (H1 & H2 & H3 & H4 & H5 & H6).
    destruct o; cbn [apply_nop node_rel];
      (split; [exact H1 | split; [try exact H2; try reflexivity | split; [| split; [| split]]]]);
      try assumption.
    + apply (meq_dset skey_eqb skey_eqb_spec). exact H3.
    + apply (meq_ddel skey_eqb skey_eqb_spec). exact H3.
    + apply tags_add_meq. exact H4.
    + apply tags_add_sorted. exact H5.
    + apply tags_add_sorted. exact H6.
    + apply tags_remove_meq. exact H4.
    + apply tags_remove_sorted. exact H5.
    + apply tags_remove_sorted. exact H6.
Qed.

(* ------------------------------------------------------------------------------------------ *)
(* operations with different targets commute (as finite maps)                                  *)

Section DictComm.
  Context {K V : Type} (keqb : K -> K -> bool).
  Hypothesis keqb_spec : forall a b, keqb a b = true <-> a = b.

  Ltac keq_cases :=
    repeat match goal with
           | |- context [keqb ?a ?b] =>
               let E := fresh "E" in
               destruct (keqb a b) eqn:E;
               [apply keqb_spec in E; try subst | apply (keqb_false keqb keqb_spec) in E]
           end; try reflexivity; try congruence.

  Lemma meq_dset_dset_comm (d : list (K * V)) k1 v1 k2 v2 :
    k1 <> k2 -> NoDup (map fst d) ->
    meq keqb (dset keqb (dset keqb d k2 v2) k1 v1) (dset keqb (dset keqb d k1 v1) k2 v2).
  Proof.
    intros Hne Hnd. split; [| split].
    - apply (dset_nodup keqb keqb_spec), (dset_nodup keqb keqb_spec), Hnd.
    - apply (dset_nodup keqb keqb_spec), (dset_nodup keqb keqb_spec), Hnd.
    - intros k. rewrite !(dget_dset keqb keqb_spec). keq_cases.
  Qed.

  Lemma meq_dset_ddel_comm (d : list (K * V)) k1 v1 k2 :
    k1 <> k2 -> NoDup (map fst d) ->
    meq keqb (dset keqb (ddel keqb d k2) k1 v1) (ddel keqb (dset keqb d k1 v1) k2).
  Proof.
    intros Hne Hnd. split; [| split].
    - apply (dset_nodup keqb keqb_spec), (ddel_nodup keqb), Hnd.
    - apply (ddel_nodup keqb), (dset_nodup keqb keqb_spec), Hnd.
    - intros k. rewrite (dget_dset keqb keqb_spec).
      rewrite (dget_ddel keqb keqb_spec) by exact Hnd.
      rewrite (dget_ddel keqb keqb_spec) by (apply (dset_nodup keqb keqb_spec); exact Hnd).
      rewrite (dget_dset keqb keqb_spec). keq_cases.
  Qed.

  Lemma meq_ddel_ddel_comm (d : list (K * V)) k1 k2 :
    NoDup (map fst d) ->
    meq keqb (ddel keqb (ddel keqb d k2) k1) (ddel keqb (ddel keqb d k1) k2).
  Proof.
    intros Hnd. split; [| split].
    - apply (ddel_nodup keqb), (ddel_nodup keqb), Hnd.
    - apply (ddel_nodup keqb), (ddel_nodup keqb), Hnd.
    - intros k.
      rewrite (dget_ddel keqb keqb_spec) by (apply (ddel_nodup keqb); exact Hnd).
      rewrite (dget_ddel keqb keqb_spec) by exact Hnd.
      rewrite (dget_ddel keqb keqb_spec) by (apply (ddel_nodup keqb); exact Hnd).
      rewrite (dget_ddel keqb keqb_spec) by exact Hnd. keq_cases.
  Qed.

  (* exact: the key written second is already there, so nothing is appended in another order *)
  Lemma dset_dset_comm_present (d : list (K * V)) k1 v1 k2 v2 :
    k1 <> k2 -> In k1 (map fst d) ->
    dset keqb (dset keqb d k2 v2) k1 v1 = dset keqb (dset keqb d k1 v1) k2 v2.
  Proof.
    intros Hne. induction d as [|[k0 v0] d IH]; cbn [map fst In]; [intros [] |].
    intros Hin. cbn [dset].
    destruct (keqb k2 k0) eqn:E2; destruct (keqb k1 k0) eqn:E1; cbn [dset]; rewrite ?E1, ?E2; try reflexivity.
    - apply keqb_spec in E1, E2. congruence.
    - f_equal. apply IH. destruct Hin as [H|H]; [| exact H].
      subst k0. rewrite (keqb_refl keqb keqb_spec) in E1. discriminate.
  Qed.
End DictComm.

Definition tags_upd (f : list N -> list N) (m : tagmap) (k : skey) : tagmap :=
  tags_set m k (f (tags_get m k)).

Lemma tags_upd_comm f1 f2 m k1 k2 :
  NoDup (map fst m) ->
  (k1 = k2 -> f1 (f2 (tags_get m k1)) = f2 (f1 (tags_get m k1))) ->
  meq skey_eqb (tags_upd f1 (tags_upd f2 m k2) k1) (tags_upd f2 (tags_upd f1 m k1) k2).
Proof.
  intros Hnd Hf. unfold tags_upd. split; [| split].
  - unfold tags_set. apply (dset_nodup skey_eqb skey_eqb_spec), (dset_nodup skey_eqb skey_eqb_spec), Hnd.
  - unfold tags_set. apply (dset_nodup skey_eqb skey_eqb_spec), (dset_nodup skey_eqb skey_eqb_spec), Hnd.
  - intros k. rewrite !tags_get_set. unfold tags_set. rewrite !(dget_dset skey_eqb skey_eqb_spec).
    destruct (skey_eq_dec k1 k2) as [H12|H12].
    + subst k2. specialize (Hf eq_refl). rewrite skey_eqb_refl.
      destruct (skey_eqb k k1); [| reflexivity]. rewrite Hf. reflexivity.
    + rewrite (skey_eqb_neq k1 k2) by exact H12.
      rewrite (skey_eqb_neq k2 k1) by (intros Heq; apply H12; symmetry; exact Heq).
      destruct (skey_eqb k k1) eqn:E1; destruct (skey_eqb k k2) eqn:E2; try reflexivity.
      apply skey_eqb_eq in E1, E2. congruence.
Qed.

Lemma list_set_nat_comm {A} (l : list A) i v j w :
  i <> j -> list_set_nat (list_set_nat l j w) i v = list_set_nat (list_set_nat l i v) j w.
Proof.
  intros Hne. apply nth_error_ext.
  - rewrite !list_set_nat_length. reflexivity.
  - intros k. rewrite !list_set_nat_nth, !list_set_nat_length.
    destruct (Nat.eqb i k) eqn:E1; destruct (Nat.eqb j k) eqn:E2; try reflexivity.
    apply Nat.eqb_eq in E1, E2. congruence.
Qed.

Lemma apply_nop_comm o1 o2 n :
  node_rel n n ->
  (forall t, ntarget o1 = Some t -> ntarget o2 = Some t -> False) ->
  node_rel (apply_nop o1 (apply_nop o2 n)) (apply_nop o2 (apply_nop o1 n)).
Proof.
  intros Hwf Hne.
  pose proof (apply_nop_cong o1 _ _ (apply_nop_cong o2 _ _ Hwf)) as Hwf12.
  destruct n; try (destruct o1, o2; cbn [apply_nop node_rel] in *; reflexivity).
  - (* list *)
    destruct o1 as [| | | |i v| | | |], o2 as [| | | |j w| | | |]; cbn [apply_nop node_rel] in *; try reflexivity.
    f_equal. apply list_set_nat_comm. intros Heq. subst j. apply (Hne (TgIdx i)); reflexivity.
  - (* dict *)
    cbn [node_rel] in Hwf. destruct Hwf as (Hnd & _ & _).
    destruct o1 as [| |k1 v1|k1| | | | |], o2 as [| |k2 v2|k2| | | | |];
      cbn [apply_nop node_rel] in *; try exact Hwf12;
      assert (Hk : k1 <> k2) by (intros Heq; subst k2; apply (Hne (TgKey k1)); reflexivity).
    + apply (meq_dset_dset_comm atom_eqb atom_eqb_spec); assumption.
    + apply (meq_dset_ddel_comm atom_eqb atom_eqb_spec); assumption.
    + apply meq_sym. apply (meq_dset_ddel_comm atom_eqb atom_eqb_spec); [congruence | assumption].
    + apply (meq_ddel_ddel_comm atom_eqb atom_eqb_spec); assumption.
  - (* defaultdict *)
    cbn [node_rel] in Hwf. destruct Hwf as (_ & Hnd & _ & _).
    destruct o1 as [| |k1 v1|k1| | | | |], o2 as [| |k2 v2|k2| | | | |];
      cbn [apply_nop node_rel] in *; try exact Hwf12; (split; [reflexivity |]);
      assert (Hk : k1 <> k2) by (intros Heq; subst k2; apply (Hne (TgKey k1)); reflexivity).
    + apply (meq_dset_dset_comm atom_eqb atom_eqb_spec); assumption.
    + apply (meq_dset_ddel_comm atom_eqb atom_eqb_spec); assumption.
    + apply meq_sym. apply (meq_dset_ddel_comm atom_eqb atom_eqb_spec); [congruence | assumption].
    + apply (meq_ddel_ddel_comm atom_eqb atom_eqb_spec); assumption.
  - (* buildable *)
    cbn [node_rel] in Hwf. destruct Hwf as (_ & _ & (Hna & _ & _) & (Hnt & _ & _) & Hst & _).
    destruct o1 as [a1 v1|a1| | | |a1 t1|a1 t1|f1|], o2 as [a2 v2|a2| | | |a2 t2|a2 t2|f2|];
      cbn [apply_nop node_rel] in *; try exact Hwf12;
      try (exfalso; apply (Hne TgFn); reflexivity);
      destruct Hwf12 as (W1 & W2 & W3 & W4 & W5 & W6);
      (split; [reflexivity | split; [reflexivity | split; [| split; [| split]]]]);
      try assumption;
      try (apply (meq_refl skey_eqb); apply W3);
      try (apply (meq_refl skey_eqb); apply W4).
    all: try (repeat (first [apply tags_add_sorted | apply tags_remove_sorted]); exact Hst).
    all: try (assert (Hk : a1 <> a2) by (intros Heq; subst a2; apply (Hne (TgArg a1)); reflexivity);
              assert (Hk' : KName a1 <> KName a2) by congruence).
    all: try (assert (Hk : KName a1 = KName a2 -> t1 <> t2)
               by (intros Heq Heqt; inversion Heq; subst a2 t2; apply (Hne (TgTag a1 t1)); reflexivity)).
    + apply (meq_dset_dset_comm skey_eqb skey_eqb_spec); assumption.
    + apply (meq_dset_ddel_comm skey_eqb skey_eqb_spec); assumption.
    + apply meq_sym. apply (meq_dset_ddel_comm skey_eqb skey_eqb_spec); [congruence | assumption].
    + apply (meq_ddel_ddel_comm skey_eqb skey_eqb_spec); assumption.
    + apply (tags_upd_comm (tset_add t1) (tset_add t2)); [exact Hnt |].
      intros Heq. apply tset_add_add. apply tags_get_sorted. exact Hst.
    + apply (tags_upd_comm (tset_add t1) (tset_remove t2)); [exact Hnt |].
      intros Heq. apply tset_add_remove; [auto | apply tags_get_sorted; exact Hst].
    + apply (tags_upd_comm (tset_remove t1) (tset_add t2)); [exact Hnt |].
      intros Heq. symmetry. apply tset_add_remove; [intros H; apply (Hk Heq); symmetry; exact H | apply tags_get_sorted; exact Hst].
    + apply (tags_upd_comm (tset_remove t1) (tset_remove t2)); [exact Hnt |].
      intros Heq. apply tset_remove_remove.
Qed.

(* ------------------------------------------------------------------------------------------ *)
(* any two orders of operations with pairwise different targets agree                          *)

Lemma apply_op_cong c n n' : node_rel n n' -> node_rel (apply_op c n) (apply_op c n').
Proof. rewrite !apply_op_nop. apply apply_nop_cong. Qed.

Lemma apply_op_comm c1 c2 n :
  node_rel n n -> target_of c1 <> target_of c2 ->
  node_rel (apply_op c1 (apply_op c2 n)) (apply_op c2 (apply_op c1 n)).
Proof.
  intros Hwf Hne. rewrite !apply_op_nop. apply apply_nop_comm; [exact Hwf |].
  intros t H1 H2. apply ntarget_nop_of in H1, H2. congruence.
Qed.

Lemma apply_ops_cong l : forall n n', node_rel n n' -> node_rel (apply_ops l n) (apply_ops l n').
Proof.
  unfold apply_ops. induction l as [|c l IH]; intros n n' H; [exact H |].
  cbn [fold_left]. apply IH. apply apply_op_cong. exact H.
Qed.

Lemma apply_ops_perm l l' :
  Permutation l l' -> NoDup (map target_of l) ->
  forall n n', node_rel n n' -> node_rel (apply_ops l n) (apply_ops l' n').
Proof.
  induction 1 as [|c l l' Hp IH|c1 c2 l|l l' l'' Hp1 IH1 Hp2 IH2]; intros Hnd n n' Hr.
  - exact Hr.
  - cbn [map] in Hnd. inversion Hnd. subst. unfold apply_ops in *. cbn [fold_left].
    apply IH; [assumption |]. apply apply_op_cong. exact Hr.
  - cbn [map] in Hnd. inversion Hnd as [|? ? Hnot Hnd']. subst.
    change (node_rel (apply_ops l (apply_op c1 (apply_op c2 n))) (apply_ops l (apply_op c2 (apply_op c1 n')))).
    apply apply_ops_cong. eapply node_rel_trans.
    + apply apply_op_comm; [eapply node_rel_refl_l; exact Hr |].
      intros Heq. apply Hnot. left. exact Heq.
    + apply apply_op_cong, apply_op_cong. exact Hr.
  - eapply node_rel_trans.
    + apply IH1; [exact Hnd | exact Hr].
    + apply IH2; [| eapply node_rel_refl_r; exact Hr].
      eapply Permutation_NoDup; [| exact Hnd]. apply Permutation_map. exact Hp1.
Qed.

Definition heap_rel (h1 h2 : heap) : Prop := Forall2 node_rel h1 h2.
Definition heap_ok (h : heap) : Prop := Forall (fun n => node_rel n n) h.

Section Core.
  Variable e : sigenv.

  (* the core: two executions of permuted statement lists *)
  Theorem run_perm_rel h root l1 l2 :
    heap_ok h -> Permutation l1 l2 -> NoDup (tkeys e h root l1) ->
    heap_rel (run h (resolve_parents e h root l1)) (run h (resolve_parents e h root l2)).
  Proof.
    intros Hok Hp Hnd. apply Forall2_nth.
    - rewrite !run_length. reflexivity.
    - intros i a b. rewrite !run_nth, !node_ops_resolve.
      destruct (nth_error h i) as [n|] eqn:En; cbn [option_map]; [| discriminate].
      intros Ha Hb. inversion Ha. inversion Hb. subst.
      apply apply_ops_perm.
      + apply Permutation_filter. exact Hp.
      + apply tkeys_node_nodup. exact Hnd.
      + unfold heap_ok in Hok. rewrite Forall_forall in Hok. apply Hok.
        eapply nth_error_In. exact En.
  Qed.

  Lemma tkeys_perm h root l1 l2 : Permutation l1 l2 -> Permutation (tkeys e h root l1) (tkeys e h root l2).
  Proof. intros Hp. unfold tkeys. apply Permutation_flat_map. exact Hp. Qed.

  Lemma tkeys_filter_nodup h root (f : change -> bool) cs :
    NoDup (tkeys e h root cs) -> NoDup (tkeys e h root (filter f cs)).
  Proof.
    induction cs as [|c cs IH]; intros Hnd; [constructor |].
    unfold tkeys in Hnd. cbn [flat_map] in Hnd. fold (tkeys e h root cs) in Hnd.
    cbn [filter]. destruct (f c).
    - unfold tkeys. cbn [flat_map]. fold (tkeys e h root (filter f cs)).
      unfold tkey in *. destruct (follow e h root (parent_of c)) as [[a|j]|]; cbn [app] in *;
        try (apply IH; exact Hnd).
      inversion Hnd as [|? ? Hnot Hnd']. subst. constructor; [| apply IH; exact Hnd'].
      intros Hin. apply Hnot. unfold tkeys in *. apply in_flat_map in Hin.
      destruct Hin as (c' & Hc' & Hin). apply filter_In in Hc'. apply in_flat_map.
      exists c'. split; [apply Hc' | exact Hin].
    - apply IH. apply NoDup_app_r in Hnd. exact Hnd.
  Qed.

  Theorem fiddler_agrees_rel h root parents cs :
    heap_ok h -> NoDup (tkeys e h root cs) ->
    NoDup parents -> (forall c, In c cs -> In (parent_of c) parents) ->
    heap_rel (exec_fiddler e h root parents cs) (apply_changes e h root cs).
  Proof.
    intros Hok Hnd Hp Hcov. unfold exec_fiddler. rewrite apply_changes_run.
    change (fold_left apply_one (resolve_parents e h root (fiddler_order parents cs)) h)
      with (run h (resolve_parents e h root (fiddler_order parents cs))).
    assert (Hperm1 : Permutation (fiddler_order parents cs) cs) by (apply fiddler_order_perm; assumption).
    apply run_perm_rel; [exact Hok | |].
    - eapply Permutation_trans; [exact Hperm1 |].
      apply Permutation_sym. apply phase_sort_perm.
    - eapply Permutation_NoDup; [| exact Hnd]. apply Permutation_sym. apply tkeys_perm. exact Hperm1.
  Qed.

  Theorem any_parent_order_rel h root parents1 parents2 cs :
    heap_ok h -> NoDup (tkeys e h root cs) ->
    NoDup parents1 -> NoDup parents2 -> Permutation parents1 parents2 ->
    heap_rel (exec_fiddler e h root parents1 cs) (exec_fiddler e h root parents2 cs).
  Proof.
    intros Hok Hnd Hp1 Hp2 Hperm. unfold exec_fiddler.
    change (heap_rel (run h (resolve_parents e h root (fiddler_order parents1 cs)))
                     (run h (resolve_parents e h root (fiddler_order parents2 cs)))).
    apply run_perm_rel; [exact Hok | |].
    - unfold fiddler_order. apply Permutation_flat_map. exact Hperm.
    - eapply Permutation_NoDup.
      + apply Permutation_sym. apply tkeys_perm. apply fiddler_order_perm_filter. exact Hp1.
      + apply tkeys_filter_nodup. exact Hnd.
  Qed.
End Core.

(* ------------------------------------------------------------------------------------------ *)
(* the hypotheses as evaluable booleans, the conclusion in reader form                         *)

Fixpoint sortedb (l : list N) : bool :=
  match l with
  | [] => true
  | x :: l' => match l' with [] => true | y :: _ => N.ltb x y end && sortedb l'
  end.

Lemma sortedb_spec l : sortedb l = true -> StronglySorted N.lt l.
Proof.
  intros H. apply Sorted_StronglySorted; [intros a b c; apply N.lt_trans |].
  induction l as [|x l IH]; [constructor |]. cbn [sortedb] in H. apply andb_prop in H.
  destruct H as [H1 H2]. constructor; [apply IH; exact H2 |].
  destruct l as [|y l]; constructor. apply N.ltb_lt. exact H1.
Qed.

(* dictionaries have unique keys (Python dicts) and tag sets are sorted without repetition (how
   the harness and History.tset_add keep Python sets) *)
Definition node_wfb (n : node) : bool :=
  match n with
  | NBuildable _ _ args tags =>
      nodupb skey_eq_dec (map fst args) && nodupb skey_eq_dec (map fst tags)
      && forallb (fun kt => sortedb (snd kt)) tags
  | NDict d | NDefaultDict _ d => nodupb atom_eq_dec (map fst d)
  | _ => true
  end.
Definition heap_wf (h : heap) : bool := forallb node_wfb h.

Lemma node_wfb_ok n : node_wfb n = true -> node_rel n n.
Proof.
  destruct n; cbn [node_wfb node_rel]; intros H; try reflexivity.
  - apply nodupb_spec in H. apply (meq_refl atom_eqb). exact H.
  - apply nodupb_spec in H. split; [reflexivity | apply (meq_refl atom_eqb); exact H].
  - apply andb_prop in H. destruct H as [H H3]. apply andb_prop in H. destruct H as [H1 H2].
    apply nodupb_spec in H1, H2.
    assert (Hs : tags_sorted tags).
    { unfold tags_sorted. apply Forall_forall. intros kt Hkt. rewrite forallb_forall in H3.
      apply sortedb_spec. apply H3. exact Hkt. }
    repeat split; try assumption.
Qed.

Lemma heap_wf_ok h : heap_wf h = true -> heap_ok h.
Proof.
  unfold heap_wf, heap_ok. rewrite forallb_forall, Forall_forall.
  intros H n Hn. apply node_wfb_ok. apply H. exact Hn.
Qed.

(* equal up to the order of the entries of argument stores, tag maps and dict items *)
Definition node_equiv (n1 n2 : node) : Prop :=
  match n1 with
  | NBuildable k1 f1 a1 t1 =>
      match n2 with
      | NBuildable k2 f2 a2 t2 => k1 = k2 /\ f1 = f2 /\ Permutation a1 a2 /\ Permutation t1 t2
      | _ => False
      end
  | NDict d1 => match n2 with NDict d2 => Permutation d1 d2 | _ => False end
  | NDefaultDict f1 d1 =>
      match n2 with NDefaultDict f2 d2 => f1 = f2 /\ Permutation d1 d2 | _ => False end
  | _ => n1 = n2
  end.
Definition heap_equiv (h1 h2 : heap) : Prop := Forall2 node_equiv h1 h2.

Lemma node_rel_equiv n1 n2 : node_rel n1 n2 -> node_equiv n1 n2.
Proof.
  destruct n1, n2; cbn [node_rel node_equiv]; try contradiction; try (intros H; exact H).
  - apply (meq_permutation atom_eqb atom_eqb_spec).
  - intros [H1 H2]. split; [exact H1 | apply (meq_permutation atom_eqb atom_eqb_spec); exact H2].
  - intros (H1 & H2 & H3 & H4 & _).
    repeat split; try assumption; apply (meq_permutation skey_eqb skey_eqb_spec); assumption.
Qed.

Lemma heap_rel_equiv h1 h2 : heap_rel h1 h2 -> heap_equiv h1 h2.
Proof.
  unfold heap_rel, heap_equiv. induction 1; constructor; [apply node_rel_equiv; assumption | assumption].
Qed.

(* ------------------------------------------------------------------------------------------ *)
(* sorting by key is canonical on dictionaries with unique keys                                *)

Lemma skey_leb_total a b : skey_leb a b = false -> skey_leb b a = true.
Proof.
  destruct a, b; cbn [skey_leb]; try discriminate; try reflexivity.
  - rewrite Z.leb_gt, Z.leb_le. lia.
  - rewrite N.leb_gt, N.leb_le. lia.
Qed.

Lemma skey_leb_trans a b c : skey_leb a b = true -> skey_leb b c = true -> skey_leb a c = true.
Proof.
  destruct a, b, c; cbn [skey_leb]; try discriminate; try reflexivity.
  - rewrite !Z.leb_le. lia.
  - rewrite !N.leb_le. lia.
Qed.

Lemma skey_leb_antisym a b : skey_leb a b = true -> skey_leb b a = true -> a = b.
Proof.
  destruct a, b; cbn [skey_leb]; try discriminate.
  - rewrite !Z.leb_le. intros. f_equal. lia.
  - rewrite !N.leb_le. intros. f_equal. lia.
Qed.

Section KSort.
  Context {V : Type}.

  Fixpoint kinsert (x : skey * V) (l : list (skey * V)) : list (skey * V) :=
    match l with
    | [] => [x]
    | y :: l' => if skey_leb (fst x) (fst y) then x :: l else y :: kinsert x l'
    end.
  Definition ksort (l : list (skey * V)) : list (skey * V) := fold_right kinsert [] l.
  Definition kle (x y : skey * V) : Prop := skey_leb (fst x) (fst y) = true.

  Lemma kinsert_perm x l : Permutation (kinsert x l) (x :: l).
  Proof.
    induction l as [|y l IH]; cbn [kinsert]; [apply Permutation_refl |].
    destruct (skey_leb (fst x) (fst y)); [apply Permutation_refl |].
    eapply Permutation_trans; [apply perm_skip; exact IH | apply perm_swap].
  Qed.

  Lemma ksort_perm l : Permutation (ksort l) l.
  Proof.
    induction l as [|x l IH]; [constructor |]. cbn [ksort fold_right]. fold (ksort l).
    eapply Permutation_trans; [apply kinsert_perm | apply perm_skip; exact IH].
  Qed.

  Lemma kinsert_sorted x l : StronglySorted kle l -> StronglySorted kle (kinsert x l).
  Proof.
    induction 1 as [|y l Hs IH Hf]; cbn [kinsert].
    - constructor; constructor.
    - destruct (skey_leb (fst x) (fst y)) eqn:E.
      + constructor; [constructor; assumption |]. constructor; [exact E |].
        rewrite Forall_forall in *. intros z Hz. unfold kle in *.
        eapply skey_leb_trans; [exact E | apply Hf; exact Hz].
      + constructor; [exact IH |]. apply Forall_forall. intros z Hz.
        apply (Permutation_in _ (kinsert_perm x l)) in Hz. destruct Hz as [Hz|Hz].
        * subst z. unfold kle. apply skey_leb_total. exact E.
        * rewrite Forall_forall in Hf. apply Hf. exact Hz.
  Qed.

  Lemma ksort_sorted l : StronglySorted kle (ksort l).
  Proof.
    induction l as [|x l IH]; [constructor |]. cbn [ksort fold_right]. fold (ksort l).
    apply kinsert_sorted. exact IH.
  Qed.

  Lemma sorted_perm_eq l1 : forall l2,
    StronglySorted kle l1 -> StronglySorted kle l2 -> Permutation l1 l2 ->
    NoDup (map fst l1) -> l1 = l2.
  Proof.
    induction l1 as [|x l1 IH]; intros l2 H1 H2 Hp Hnd.
    - apply Permutation_nil in Hp. symmetry. exact Hp.
    - destruct l2 as [|y l2]; [apply Permutation_sym, Permutation_nil in Hp; discriminate |].
      inversion H1 as [|? ? Hs1 Hf1]. inversion H2 as [|? ? Hs2 Hf2]. subst.
      cbn [map] in Hnd. inversion Hnd as [|? ? Hnot Hnd']. subst.
      rewrite Forall_forall in Hf1, Hf2.
      assert (Hxy : x = y).
      { assert (Hx : In x (y :: l2)) by (eapply Permutation_in; [exact Hp | left; reflexivity]).
        assert (Hy : In y (x :: l1)) by (eapply Permutation_in; [apply Permutation_sym; exact Hp | left; reflexivity]).
        destruct Hx as [Hx|Hx]; [symmetry; exact Hx |]. destruct Hy as [Hy|Hy]; [exact Hy |].
        exfalso. apply Hnot.
        assert (Hk : fst x = fst y) by (apply skey_leb_antisym; [apply Hf1; exact Hy | apply Hf2; exact Hx]).
        rewrite Hk. apply in_map. exact Hy. }
      subst y. f_equal. apply IH; try assumption. eapply Permutation_cons_inv. exact Hp.
  Qed.

  Lemma ksort_canonical l l' : NoDup (map fst l) -> Permutation l l' -> ksort l = ksort l'.
  Proof.
    intros Hnd Hp. apply sorted_perm_eq; try apply ksort_sorted.
    - eapply Permutation_trans; [apply ksort_perm |].
      eapply Permutation_trans; [exact Hp | apply Permutation_sym, ksort_perm].
    - eapply Permutation_NoDup; [| exact Hnd]. apply Permutation_map. apply Permutation_sym, ksort_perm.
  Qed.
End KSort.

Lemma sort_store_ksort l : sort_store l = ksort l.
Proof.
  unfold sort_store, ksort. induction l as [|x l IH]; [reflexivity |]. cbn [fold_right]. rewrite IH.
  generalize (fold_right kinsert [] l). intros s. induction s as [|y s IHs]; [reflexivity |].
  cbn [insert_entry kinsert]. rewrite IHs. reflexivity.
Qed.

Lemma insert_tags_kinsert x l : insert_tags x l = kinsert x l.
Proof.
  induction l as [|y l IH]; [reflexivity |]. cbn [insert_tags kinsert]. rewrite IH. reflexivity.
Qed.

Lemma canon_tags_ksort t :
  canon_tags t = ksort (filter (fun kt => match snd kt with [] => false | _ => true end) t).
Proof.
  unfold canon_tags, ksort. generalize (filter (fun kt : skey * list N => match snd kt with [] => false | _ => true end) t).
  intros l. induction l as [|x l IH]; [reflexivity |]. cbn [fold_right]. rewrite IH. apply insert_tags_kinsert.
Qed.

(* the normal form the harness compares (C13Check.canon_node_tags: stores sorted by key, tag maps
   sorted by key without their empty entries) coincides on related Buildables *)
Lemma node_rel_canon n1 n2 :
  node_rel n1 n2 ->
  match n1 with
  | NDict d1 => exists d2, n2 = NDict d2 /\ Permutation d1 d2
  | NDefaultDict f d1 => exists d2, n2 = NDefaultDict f d2 /\ Permutation d1 d2
  | _ => canon_node_tags n1 = canon_node_tags n2
  end.
Proof.
  destruct n1, n2; cbn [node_rel]; try contradiction; try (intros H; rewrite H; reflexivity).
  - intros H. eexists. split; [reflexivity | apply (meq_permutation atom_eqb atom_eqb_spec); exact H].
  - intros [H1 H2]. subst. eexists. split; [reflexivity | apply (meq_permutation atom_eqb atom_eqb_spec); exact H2].
  - intros (H1 & H2 & H3 & H4 & _). subst. cbn [canon_node_tags]. f_equal.
    + rewrite !sort_store_ksort. apply ksort_canonical; [apply H3 |].
      apply (meq_permutation skey_eqb skey_eqb_spec). exact H3.
    + rewrite !canon_tags_ksort. apply ksort_canonical.
      * apply NoDup_map_filter. apply H4.
      * apply Permutation_filter. apply (meq_permutation skey_eqb skey_eqb_spec). exact H4.
Qed.

(* node by node: Buildables (and all nodes but dicts) have the same normal form; dicts have the same
   items *)
Definition node_canon_same (n1 n2 : node) : Prop :=
  match n1 with
  | NDict d1 => exists d2, n2 = NDict d2 /\ Permutation d1 d2
  | NDefaultDict f d1 => exists d2, n2 = NDefaultDict f d2 /\ Permutation d1 d2
  | _ => canon_node_tags n1 = canon_node_tags n2
  end.
Definition heap_canon_same (h1 h2 : heap) : Prop := Forall2 node_canon_same h1 h2.

Lemma heap_rel_canon h1 h2 : heap_rel h1 h2 -> heap_canon_same h1 h2.
Proof.
  unfold heap_rel, heap_canon_same. induction 1; constructor; [apply node_rel_canon; assumption | assumption].
Qed.

(* when no dict is involved the two heaps have literally the same normal form *)
Definition no_dicts (h : heap) : bool :=
  forallb (fun n => match n with NDict _ | NDefaultDict _ _ => false | _ => true end) h.

Lemma heap_canon_same_eq h1 h2 :
  heap_canon_same h1 h2 -> no_dicts h1 = true -> map canon_node_tags h1 = map canon_node_tags h2.
Proof.
  unfold heap_canon_same. induction 1 as [|n1 n2 h1 h2 Hn Hf IH]; [reflexivity |].
  cbn [no_dicts forallb map]. intros H. apply andb_prop in H. destruct H as [Hd Hrest].
  f_equal; [| apply IH; exact Hrest].
  destruct n1; cbn [node_canon_same] in Hn; try exact Hn; discriminate.
Qed.

(* ------------------------------------------------------------------------------------------ *)
(* 3. exact equality                                                                           *)

(* which field of the node an operation touches: 0 none, 1 arguments, 2 dict items, 3 list slots,
   4 tags, 5 callable *)
Definition fcls (o : nop) : nat :=
  match o with
  | NSetArg _ _ | NDelArg _ => 1 | NSetKey _ _ | NDelKey _ => 2 | NSetIdx _ _ => 3
  | NAddTag _ _ | NRemTag _ _ => 4 | NSetFn _ => 5 | NNop => 0
  end%nat.
Definition indep (o1 o2 : nop) : bool :=
  Nat.eqb (fcls o1) 0 || Nat.eqb (fcls o2) 0 || negb (Nat.eqb (fcls o1) (fcls o2)).

Lemma apply_nop_comm_indep o1 o2 m :
  indep o1 o2 = true -> apply_nop o1 (apply_nop o2 m) = apply_nop o2 (apply_nop o1 m).
Proof.
  destruct o1, o2; cbn; try discriminate; intros _; destruct m; reflexivity.
Qed.

(* the key an assignment writes is already present: the assignment does not append *)
Definition inplace_nop (o : nop) (m : node) : Prop :=
  match o, m with
  | NSetArg a _, NBuildable _ _ args _ => In (KName a) (map fst args)
  | NSetKey k _, NDict kvs => In k (map fst kvs)
  | NSetKey k _, NDefaultDict _ kvs => In k (map fst kvs)
  | _, _ => True
  end.
Definition inplace (c : change) (m : node) : Prop := inplace_nop (nop_of c) m.

Definition is_setop (o : nop) : bool :=
  match o with NSetArg _ _ | NSetKey _ _ | NSetIdx _ _ | NSetFn _ | NNop => true | _ => false end.

Lemma apply_nop_comm_set o1 o2 m :
  is_setop o1 = true -> is_setop o2 = true ->
  (forall t, ntarget o1 = Some t -> ntarget o2 = Some t -> False) ->
  inplace_nop o1 m ->
  apply_nop o1 (apply_nop o2 m) = apply_nop o2 (apply_nop o1 m).
Proof.
  intros H1 H2 Hne Hin.
  destruct (indep o1 o2) eqn:Ei; [apply apply_nop_comm_indep; exact Ei |].
  destruct o1 as [a1 v1| |k1 v1| |i1 v1| | |f1|], o2 as [a2 v2| |k2 v2| |i2 v2| | |f2|];
    try discriminate.
  - destruct m; try reflexivity. cbn [apply_nop inplace_nop] in *. f_equal.
    apply (dset_dset_comm_present skey_eqb skey_eqb_spec); [| exact Hin].
    intros Heq. inversion Heq. subst. apply (Hne (TgArg a2)); reflexivity.
  - assert (Hk : k1 <> k2) by (intros Heq; subst; apply (Hne (TgKey k2)); reflexivity).
    destruct m; try reflexivity; cbn [apply_nop inplace_nop] in *; f_equal;
      apply (dset_dset_comm_present atom_eqb atom_eqb_spec); assumption.
  - destruct m; try reflexivity. cbn [apply_nop]. f_equal. apply list_set_nat_comm.
    intros Heq. subst. apply (Hne (TgIdx i2)); reflexivity.
  - exfalso. apply (Hne TgFn); reflexivity.
Qed.

Lemma ddel_keys_other {K V} (keqb : K -> K -> bool) (keqb_spec : forall a b, keqb a b = true <-> a = b)
      (d : list (K * V)) k k' :
  k' <> k -> In k' (map fst d) -> In k' (map fst (ddel keqb d k)).
Proof.
  intros Hne. induction d as [|[k0 v0] d IH]; cbn [ddel map fst In]; [auto |].
  intros [Heq|Hin].
  - subst k0. destruct (keqb k k') eqn:E; [apply keqb_spec in E; congruence | left; reflexivity].
  - destruct (keqb k k0); [exact Hin | right; apply IH; exact Hin].
Qed.

Definition is_delop (o : nop) : bool :=
  match o with NDelArg _ | NDelKey _ => true | _ => false end.

Lemma inplace_nop_preserved o o' m :
  (is_delop o' = true -> forall t, ntarget o = Some t -> ntarget o' = Some t -> False) ->
  inplace_nop o m -> inplace_nop o (apply_nop o' m).
Proof.
  intros Hne Hin.
  destruct o as [a v| |k v| | | | | |]; try (destruct o', m; exact I).
  - destruct m; try (destruct o'; exact I).
    destruct o' as [a' v'|a'| | | | | | |]; cbn [apply_nop inplace_nop] in *; try exact Hin.
    + apply (dset_keys_in skey_eqb skey_eqb_spec). right. exact Hin.
    + apply (ddel_keys_other skey_eqb skey_eqb_spec); [| exact Hin].
      intros Heq. inversion Heq. subst. exact (Hne eq_refl (TgArg a') eq_refl eq_refl).
  - destruct m; try (destruct o'; exact I);
      destruct o' as [| |k' v'|k'| | | | |]; cbn [apply_nop inplace_nop] in *; try exact Hin.
    + apply (dset_keys_in atom_eqb atom_eqb_spec). right. exact Hin.
    + apply (ddel_keys_other atom_eqb atom_eqb_spec); [| exact Hin].
      intros Heq. subst. exact (Hne eq_refl (TgKey k') eq_refl eq_refl).
    + apply (dset_keys_in atom_eqb atom_eqb_spec). right. exact Hin.
    + apply (ddel_keys_other atom_eqb atom_eqb_spec); [| exact Hin].
      intros Heq. subst. exact (Hne eq_refl (TgKey k') eq_refl eq_refl).
Qed.

Lemma is_setop_nop_of c : type_of c <> OpDelete -> type_of c <> OpRemoveTag -> type_of c <> OpAddTag ->
  is_setop (nop_of c) = true.
Proof.
  destruct c as [p l v|p l v|p l|p a t|p a t]; cbn [type_of]; try congruence; intros _ _ _;
    destruct l; try reflexivity; destruct v as [[]|]; reflexivity.
Qed.

Lemma is_delop_nop_of c : is_delop (nop_of c) = true -> type_of c = OpDelete.
Proof.
  destruct c as [p l v|p l v|p l|p a t|p a t]; try reflexivity; cbn [type_of nop_of is_delop];
    try discriminate; destruct l; try discriminate; destruct v as [[]|]; discriminate.
Qed.

Lemma inplace_preserved c c' m :
  (type_of c' = OpDelete -> target_of c <> target_of c') ->
  inplace c m -> inplace c (apply_op c' m).
Proof.
  intros Hne Hin. unfold inplace. rewrite apply_op_nop. apply inplace_nop_preserved; [| exact Hin].
  intros Hdel t H1 H2. apply is_delop_nop_of in Hdel. apply ntarget_nop_of in H1, H2.
  apply (Hne Hdel). congruence.
Qed.

(* a sublist of commuting operations can be moved to the front *)
Lemma apply_ops_app l1 l2 n : apply_ops (l1 ++ l2) n = apply_ops l2 (apply_ops l1 n).
Proof. unfold apply_ops. apply fold_left_app. Qed.

Lemma apply_ops_split (P : change -> bool) (Inv : node -> Prop) l :
  (forall c m, In c l -> Inv m -> Inv (apply_op c m)) ->
  (forall c1 c2 m, In c1 l -> In c2 l -> P c1 = true -> P c2 = false -> Inv m ->
                   apply_op c1 (apply_op c2 m) = apply_op c2 (apply_op c1 m)) ->
  forall n, Inv n ->
  apply_ops l n = apply_ops (filter P l ++ filter (fun c => negb (P c)) l) n.
Proof.
  induction l as [|x l IH]; intros Hinv Hcomm n Hn; [reflexivity |].
  assert (Hinv' : forall c m, In c l -> Inv m -> Inv (apply_op c m))
    by (intros c m Hc; apply Hinv; right; exact Hc).
  assert (Hcomm' : forall c1 c2 m, In c1 l -> In c2 l -> P c1 = true -> P c2 = false -> Inv m ->
                                   apply_op c1 (apply_op c2 m) = apply_op c2 (apply_op c1 m))
    by (intros c1 c2 m H1 H2; apply Hcomm; right; assumption).
  cbn [filter]. destruct (P x) eqn:Ex; cbn [negb].
  - change (apply_ops (x :: l) n) with (apply_ops l (apply_op x n)).
    change (apply_ops ((x :: filter P l) ++ filter (fun c => negb (P c)) l) n)
      with (apply_ops (filter P l ++ filter (fun c => negb (P c)) l) (apply_op x n)).
    apply IH; [exact Hinv' | exact Hcomm' |]. apply Hinv; [left; reflexivity | exact Hn].
  - change (apply_ops (x :: l) n) with (apply_ops l (apply_op x n)).
    rewrite (IH Hinv' Hcomm' (apply_op x n)) by (apply Hinv; [left; reflexivity | exact Hn]).
    rewrite !apply_ops_app.
    change (apply_ops (x :: filter (fun c => negb (P c)) l) (apply_ops (filter P l) n))
      with (apply_ops (filter (fun c => negb (P c)) l) (apply_op x (apply_ops (filter P l) n))).
    f_equal.
    (* push x through the P-operations *)
    assert (Hpush : forall lp, (forall c, In c lp -> In c l /\ P c = true) ->
                     forall m, Inv m -> apply_ops lp (apply_op x m) = apply_op x (apply_ops lp m)).
    { induction lp as [|y lp IHp]; intros Hlp m Hm; [reflexivity |].
      destruct (Hlp y (or_introl eq_refl)) as [Hy Py].
      change (apply_ops (y :: lp) (apply_op x m)) with (apply_ops lp (apply_op y (apply_op x m))).
      change (apply_ops (y :: lp) m) with (apply_ops lp (apply_op y m)).
      rewrite (Hcomm y x m); [| right; exact Hy | left; reflexivity | exact Py | exact Ex | exact Hm].
      apply IHp; [intros c Hc; apply Hlp; right; exact Hc |]. apply Hinv'; assumption. }
    apply Hpush; [| exact Hn]. intros c Hc. apply filter_In in Hc. exact Hc.
Qed.

Lemma apply_ops_inv (Inv : node -> Prop) l :
  (forall c m, In c l -> Inv m -> Inv (apply_op c m)) -> forall n, Inv n -> Inv (apply_ops l n).
Proof.
  induction l as [|x l IH]; intros H n Hn; [exact Hn |].
  change (apply_ops (x :: l) n) with (apply_ops l (apply_op x n)).
  apply IH; [intros c m Hc; apply H; right; exact Hc |]. apply H; [left; reflexivity | exact Hn].
Qed.

Lemma NoDup_map_inj {A B} (f : A -> B) l x y :
  NoDup (map f l) -> In x l -> In y l -> f x = f y -> x = y.
Proof.
  induction l as [|a l IH]; cbn [map In]; [intros _ [] |].
  intros Hnd Hx Hy Heq. inversion Hnd as [|? ? Hnot Hnd']. subst.
  destruct Hx as [Hx|Hx], Hy as [Hy|Hy]; subst.
  - reflexivity.
  - exfalso. apply Hnot. rewrite Heq. apply in_map. exact Hy.
  - exfalso. apply Hnot. rewrite <- Heq. apply in_map. exact Hx.
  - apply IH; assumption.
Qed.

(* the modifications (other than update_callable) of a list of changes assign keys that exist *)
Definition modifies_present (g : list change) (m : node) : Prop :=
  forall c, In c g -> type_of c = OpModify -> inplace c m.

Definition is_m' (c : change) : bool := is_type OpModify c && in_stage 2 c.

Lemma indep_by_type c1 c2 :
  match type_of c1, type_of c2 with
  | OpDelete, OpRemoveTag | OpRemoveTag, OpDelete => true
  | (OpSet | OpModify), OpAddTag | OpAddTag, (OpSet | OpModify) => true
  | _, _ => false
  end = true ->
  indep (nop_of c1) (nop_of c2) = true.
Proof.
  destruct c1 as [p1 l1 v1|p1 l1 v1|p1 l1|p1 a1 t1|p1 a1 t1];
    destruct c2 as [p2 l2 v2|p2 l2 v2|p2 l2|p2 a2 t2|p2 a2 t2]; cbn [type_of]; try discriminate; intros _;
    try destruct l1; try destruct l2; try reflexivity;
    try (destruct v1 as [[]|]; reflexivity); try (destruct v2 as [[]|]; reflexivity).
Qed.

Lemma indep_fn_modify c1 c2 :
  in_stage 1 c1 = true -> is_type OpModify c2 = true -> in_stage 1 c2 = false ->
  indep (nop_of c1) (nop_of c2) = true.
Proof.
  destruct c1 as [p1 l1 v1|p1 l1 v1|p1 l1|p1 a1 t1|p1 a1 t1]; try discriminate.
  destruct l1; try discriminate. intros _.
  destruct c2 as [p2 l2 v2|p2 l2 v2|p2 l2|p2 a2 t2|p2 a2 t2]; try discriminate. intros _.
  destruct l2; try discriminate; intros _; destruct v1 as [[]|]; reflexivity.
Qed.

Lemma apply_op_comm_indep c1 c2 m :
  indep (nop_of c1) (nop_of c2) = true -> apply_op c1 (apply_op c2 m) = apply_op c2 (apply_op c1 m).
Proof. intros H. rewrite !apply_op_nop. apply apply_nop_comm_indep. exact H. Qed.

Lemma is_type_eq ty c : is_type ty c = true <-> type_of c = ty.
Proof. unfold is_type. destruct (optype_eq_dec (type_of c) ty); split; congruence. Qed.

Lemma stage_type c :
  (in_stage 0 c = is_type OpDelete c || is_type OpRemoveTag c)
  /\ (in_stage 1 c = true -> is_type OpModify c = true)
  /\ (in_stage 2 c = (is_type OpSet c || is_type OpAddTag c || (is_type OpModify c && negb (in_stage 1 c)))).
Proof.
  destruct c as [p l v|p l v|p l|p a t|p a t]; try destruct l; cbn; auto.
Qed.

(* one parent node: the three stages of a group against the five phases *)
Lemma group_order_phase_sort g n :
  NoDup (map target_of g) -> modifies_present g n ->
  apply_ops (group_order g) n = apply_ops (phase_sort g) n.
Proof.
  intros Hnd Hmp.
  set (D := filter (is_type OpDelete) g). set (R := filter (is_type OpRemoveTag) g).
  set (M := filter (is_type OpModify) g). set (S := filter (is_type OpSet) g).
  set (A := filter (is_type OpAddTag) g).
  set (F := filter (in_stage 1) g). set (M' := filter is_m' g).
  assert (Hps : phase_sort g = D ++ R ++ M ++ S ++ A).
  { unfold phase_sort, phase_sort_with, phase_order. cbn [flat_map]. rewrite app_nil_r. reflexivity. }
  rewrite Hps. unfold group_order. fold F.
  assert (Htrue : forall m : node, True -> True) by auto.
  (* stage 0 = deletes, then tag removals *)
  assert (H0 : forall m, apply_ops (filter (in_stage 0) g) m = apply_ops (D ++ R) m).
  { intros m.
    rewrite (apply_ops_split (is_type OpDelete) (fun _ => True) (filter (in_stage 0) g)); [| auto | | exact I].
    - rewrite !filter_filter. f_equal. f_equal.
      + apply filter_ext. intros c. destruct (stage_type c) as (E0 & _). rewrite E0.
        destruct (is_type OpDelete c), (is_type OpRemoveTag c); reflexivity.
      + apply filter_ext. intros c. destruct (stage_type c) as (E0 & _). rewrite E0.
        destruct c; reflexivity.
    - intros c1 c2 m0 Hc1 Hc2 P1 P2 _. apply apply_op_comm_indep. apply indep_by_type.
      apply filter_In in Hc2. destruct Hc2 as [_ Hs2]. destruct (stage_type c2) as (E0 & _).
      rewrite E0, P2 in Hs2. cbn [orb] in Hs2. apply is_type_eq in P1, Hs2. rewrite P1, Hs2. reflexivity. }
  (* the modify phase = update_callable, then the other modifications *)
  assert (HM : forall m, apply_ops M m = apply_ops (F ++ M') m).
  { intros m. unfold M.
    rewrite (apply_ops_split (in_stage 1) (fun _ => True) (filter (is_type OpModify) g)); [| auto | | exact I].
    - rewrite !filter_filter. f_equal. f_equal.
      + apply filter_ext. intros c. destruct (stage_type c) as (_ & E1 & _).
        destruct (in_stage 1 c) eqn:E; [rewrite (E1 eq_refl); reflexivity | apply Bool.andb_false_r].
      + apply filter_ext. intros c. unfold is_m'.
        destruct c as [? l ?|? l ?|? l|? ? ?|? ? ?]; try destruct l; reflexivity.
    - intros c1 c2 m0 Hc1 Hc2 P1 P2 _. apply apply_op_comm_indep. apply indep_fn_modify; try assumption.
      apply filter_In in Hc2. apply Hc2. }
  (* stage 2 = the other modifications, then sets, then tag additions *)
  assert (H2 : forall m, modifies_present g m ->
                         apply_ops (filter (in_stage 2) g) m = apply_ops (M' ++ S ++ A) m).
  { intros m Hm.
    rewrite (apply_ops_split (fun c => negb (is_type OpAddTag c)) (fun _ => True) (filter (in_stage 2) g));
      [| auto | | exact I].
    - rewrite !filter_filter, !apply_ops_app.
      assert (EA : filter (fun x => in_stage 2 x && negb (negb (is_type OpAddTag x))) g = A).
      { apply filter_ext. intros c. destruct c as [? l ?|? l ?|? l|? ? ?|? ? ?]; try destruct l; reflexivity. }
      rewrite EA. f_equal.
      set (MS := filter (fun x => in_stage 2 x && negb (is_type OpAddTag x)) g).
      rewrite (apply_ops_split (is_type OpModify) (modifies_present g) MS); [| | | exact Hm].
      + unfold MS. rewrite !filter_filter, apply_ops_app. f_equal; [| f_equal].
        * apply filter_ext. intros c.
          destruct c as [? l ?|? l ?|? l|? ? ?|? ? ?]; try destruct l; reflexivity.
        * apply filter_ext. intros c. unfold is_m'.
          destruct c as [? l ?|? l ?|? l|? ? ?|? ? ?]; try destruct l; reflexivity.
      + (* assignments keep the keys present *)
        intros c m0 Hc Hm0 c' Hc' Hty. apply inplace_preserved; [| apply Hm0; assumption].
        intros Hdel. exfalso. unfold MS in Hc. apply filter_In in Hc. destruct Hc as [_ Hc].
        destruct c as [? l ?|? l ?|? l|? ? ?|? ? ?]; try discriminate.
      + intros c1 c2 m0 Hc1 Hc2 P1 P2 Hm0.
        unfold MS in Hc1, Hc2. apply filter_In in Hc1, Hc2. destruct Hc1 as [Hg1 Hs1], Hc2 as [Hg2 Hs2].
        rewrite !apply_op_nop. apply apply_nop_comm_set.
        * apply is_setop_nop_of; apply is_type_eq in P1; rewrite P1; discriminate.
        * destruct c2 as [? l ?|? l ?|? l|? ? ?|? ? ?]; try discriminate; destruct l; reflexivity.
        * intros t T1 T2. apply ntarget_nop_of in T1, T2.
          assert (Heq : c1 = c2) by (eapply NoDup_map_inj; [exact Hnd | exact Hg1 | exact Hg2 | congruence]).
          subst c2. congruence.
        * apply Hm0; [exact Hg1 | apply is_type_eq; exact P1].
    - intros c1 c2 m0 Hc1 Hc2 P1 P2 _. apply apply_op_comm_indep. apply indep_by_type.
      apply filter_In in Hc1. destruct Hc1 as [_ Hs1].
      apply Bool.negb_false_iff in P2. apply is_type_eq in P2. rewrite P2.
      destruct c1 as [? l ?|? l ?|? l|? ? ?|? ? ?]; try discriminate; reflexivity. }
  (* the keys of the modifications are still present after the deletes, tag removals and update_callable *)
  assert (Hpres : forall l, (forall c, In c l -> In c g) -> forall m, modifies_present g m -> modifies_present g (apply_ops l m)).
  { intros l Hl. apply apply_ops_inv. intros c' m0 Hc' Hm0 c Hc Hty.
    apply inplace_preserved; [| apply Hm0; assumption].
    intros Hdel Heq. assert (c = c') by (eapply NoDup_map_inj; [exact Hnd | exact Hc | apply Hl; exact Hc' | exact Heq]).
    subst c'. congruence. }
  rewrite !apply_ops_app, H0, !apply_ops_app, HM, !apply_ops_app. rewrite H2.
  - rewrite !apply_ops_app. reflexivity.
  - apply (Hpres F); [intros c Hc; apply filter_In in Hc; apply Hc |].
    apply (Hpres R); [intros c Hc; apply filter_In in Hc; apply Hc |].
    apply (Hpres D); [intros c Hc; apply filter_In in Hc; apply Hc |]. exact Hmp.
Qed.

Lemma filter_comm {A} (f g : A -> bool) l : filter f (filter g l) = filter g (filter f l).
Proof. rewrite !filter_filter. apply filter_ext. intros x. apply Bool.andb_comm. Qed.

Lemma filter_group_order f g : filter f (group_order g) = group_order (filter f g).
Proof. unfold group_order. rewrite !filter_app, !(filter_comm f). reflexivity. Qed.

Lemma fiddler_order_filter f parents cs :
  filter f (fiddler_order parents cs) = fiddler_order parents (filter f cs).
Proof.
  unfold fiddler_order. rewrite filter_flat_map. apply flat_map_ext. intros p.
  rewrite filter_group_order. unfold group_of. rewrite filter_comm. reflexivity.
Qed.

Lemma fiddler_order_single p0 g parents :
  (forall c, In c g -> parent_of c = p0) -> NoDup parents ->
  fiddler_order parents g = if in_dec path_eq_dec p0 parents then group_order g else [].
Proof.
  intros Hg. induction parents as [|p ps IH]; intros Hnd.
  - destruct (in_dec path_eq_dec p0 []) as [[]|]; reflexivity.
  - inversion Hnd as [|? ? Hnot Hnd']. subst. unfold fiddler_order in *. cbn [flat_map].
    rewrite (IH Hnd'). destruct (path_eq_dec p p0) as [Heq|Hne].
    + subst p. unfold group_of. rewrite filter_true.
      * destruct (in_dec path_eq_dec p0 ps) as [Hin|_]; [contradiction |].
        destruct (in_dec path_eq_dec p0 (p0 :: ps)) as [_|Hn]; [apply app_nil_r |].
        exfalso. apply Hn. left. reflexivity.
      * intros c Hc. rewrite (Hg c Hc). destruct (path_eq_dec p0 p0); [reflexivity | contradiction].
    + unfold group_of. rewrite filter_false.
      * cbn [group_order filter app].
        destruct (in_dec path_eq_dec p0 ps) as [Hin|Hnin];
          destruct (in_dec path_eq_dec p0 (p :: ps)) as [Hin2|Hnin2]; try reflexivity; exfalso.
        -- apply Hnin2. right. exact Hin.
        -- destruct Hin2 as [H|H]; [apply Hne; exact H | contradiction].
      * intros c Hc. rewrite (Hg c Hc). destruct (path_eq_dec p0 p) as [H|]; [| reflexivity].
        exfalso. apply Hne. symmetry. exact H.
Qed.

Lemma dmem_in {K V} (keqb : K -> K -> bool) (keqb_spec : forall a b, keqb a b = true <-> a = b)
      (d : list (K * V)) k :
  dmem keqb d k = true -> In k (map fst d).
Proof.
  unfold dmem. destruct (dget keqb d k) as [v|] eqn:E; [| discriminate]. intros _.
  apply (dget_in keqb keqb_spec) in E. apply (in_map fst) in E. exact E.
Qed.

Section Exact.
  Variable e : sigenv.

  (* two changes whose parents resolve to the same node have the same parent path *)
  Definition same_node_same_path (h : heap) (root : ref) (c1 c2 : change) : bool :=
    match follow e h root (parent_of c1), follow e h root (parent_of c2) with
    | Some (RP i), Some (RP j) =>
        if Nat.eqb i j then (if path_eq_dec (parent_of c1) (parent_of c2) then true else false) else true
    | _, _ => true
    end.
  Definition paths_injective (h : heap) (root : ref) (cs : list change) : bool :=
    forallb (fun c1 => forallb (same_node_same_path h root c1) cs) cs.

  Definition inplaceb (c : change) (m : node) : bool :=
    match nop_of c, m with
    | NSetArg a _, NBuildable _ _ args _ => smem args (KName a)
    | NSetKey k _, NDict kvs => dmem atom_eqb kvs k
    | NSetKey k _, NDefaultDict _ kvs => dmem atom_eqb kvs k
    | _, _ => true
    end.

  (* every CModify of an argument / dict item finds it present in the old node *)
  Definition modifies_in_place (h : heap) (root : ref) (cs : list change) : bool :=
    forallb (fun c =>
               if is_type OpModify c then
                 match follow e h root (parent_of c) with
                 | Some (RP i) => match nth_error h i with Some m => inplaceb c m | None => true end
                 | _ => true
                 end
               else true) cs.

  Lemma inplaceb_spec c m : inplaceb c m = true -> inplace c m.
  Proof.
    unfold inplaceb, inplace. destruct (nop_of c); destruct m; cbn [inplace_nop]; try (intros _; exact I).
    - apply (dmem_in skey_eqb skey_eqb_spec).
    - apply (dmem_in atom_eqb atom_eqb_spec).
    - apply (dmem_in atom_eqb atom_eqb_spec).
  Qed.

  Lemma paths_injective_spec h root cs i c1 c2 :
    paths_injective h root cs = true -> In c1 cs -> In c2 cs ->
    resolves_to e h root i c1 = true -> resolves_to e h root i c2 = true ->
    parent_of c1 = parent_of c2.
  Proof.
    intros Hpi H1 H2 R1 R2. unfold paths_injective in Hpi. rewrite forallb_forall in Hpi.
    specialize (Hpi c1 H1). rewrite forallb_forall in Hpi. specialize (Hpi c2 H2).
    apply resolves_to_iff in R1, R2. unfold same_node_same_path in Hpi. rewrite R1, R2, Nat.eqb_refl in Hpi.
    destruct (path_eq_dec (parent_of c1) (parent_of c2)); [assumption | discriminate].
  Qed.

  (* the statements of the fiddler that act on node i: the stages of the one group of that node *)
  Lemma fiddler_node_ops h root parents cs i :
    paths_injective h root cs = true -> NoDup parents ->
    exists p0,
      filter (resolves_to e h root i) (fiddler_order parents cs)
      = if in_dec path_eq_dec p0 parents then group_order (filter (resolves_to e h root i) cs) else [].
  Proof.
    intros Hpi Hnd. rewrite fiddler_order_filter.
    destruct (filter (resolves_to e h root i) cs) as [|c0 g] eqn:Eg.
    - exists []. rewrite (fiddler_order_single [] [] parents); [| intros c [] | exact Hnd].
      destruct (in_dec path_eq_dec [] parents); reflexivity.
    - exists (parent_of c0). rewrite <- Eg. apply fiddler_order_single; [| exact Hnd].
      intros c Hc. assert (H0 : In c0 (filter (resolves_to e h root i) cs)) by (rewrite Eg; left; reflexivity).
      apply filter_In in Hc, H0. destruct Hc as [Hc Rc], H0 as [H0 R0].
      eapply paths_injective_spec; eassumption.
  Qed.

  Lemma phase_sort_filter f cs : filter f (phase_sort cs) = phase_sort (filter f cs).
  Proof.
    unfold phase_sort, phase_sort_with. rewrite filter_flat_map. apply flat_map_ext. intros ty.
    apply filter_comm.
  Qed.

  Theorem fiddler_agrees_exact h root parents cs :
    targets_distinct e h root cs = true ->
    paths_injective h root cs = true ->
    modifies_in_place h root cs = true ->
    NoDup parents -> (forall c, In c cs -> In (parent_of c) parents) ->
    exec_fiddler e h root parents cs = apply_changes e h root cs.
  Proof.
    intros Htd Hpi Hmp Hnd Hcov. unfold exec_fiddler. rewrite apply_changes_run.
    change (fold_left apply_one (resolve_parents e h root (fiddler_order parents cs)) h)
      with (run h (resolve_parents e h root (fiddler_order parents cs))).
    apply run_ext. intros i n Hn. rewrite !node_ops_resolve, phase_sort_filter.
    destruct (fiddler_node_ops h root parents cs i Hpi Hnd) as [p0 Hf]. rewrite Hf.
    set (g := filter (resolves_to e h root i) cs).
    assert (Hgo : apply_ops (group_order g) n = apply_ops (phase_sort g) n).
    { apply group_order_phase_sort.
      - apply tkeys_node_nodup. apply (proj1 (nodupb_spec tkey_eq_dec _)). exact Htd.
      - intros c Hc Hty. apply inplaceb_spec. unfold g in Hc. apply filter_In in Hc.
        destruct Hc as [Hc Rc]. apply resolves_to_iff in Rc.
        unfold modifies_in_place in Hmp. rewrite forallb_forall in Hmp. specialize (Hmp c Hc).
        apply is_type_eq in Hty. rewrite Hty, Rc, Hn in Hmp. exact Hmp. }
    destruct (in_dec path_eq_dec p0 parents) as [Hin|Hnin]; [exact Hgo |].
    (* the group of node i is not listed: then it is empty *)
    destruct g as [|c0 g'] eqn:Eg; [reflexivity |].
    exfalso. assert (H0 : In c0 (filter (resolves_to e h root i) cs)) by (fold g; rewrite Eg; left; reflexivity).
    clear Hgo. apply filter_In in H0. destruct H0 as [H0 R0].
    (* p0 is the parent path of the group *)
    rewrite fiddler_order_filter in Hf. fold g in Hf. rewrite Eg in Hf.
    rewrite (fiddler_order_single (parent_of c0) (c0 :: g') parents) in Hf; [| | exact Hnd].
    - destruct (in_dec path_eq_dec (parent_of c0) parents) as [_|Hnp]; [| apply Hnp, Hcov, H0].
      pose proof (group_order_perm (c0 :: g')) as Hp. rewrite Hf in Hp.
      apply Permutation_nil in Hp. discriminate.
    - intros c Hc. assert (Hc' : In c (filter (resolves_to e h root i) cs)) by (fold g; rewrite Eg; exact Hc).
      apply filter_In in Hc'. destruct Hc' as [Hc' Rc]. eapply paths_injective_spec; eassumption.
  Qed.

  Theorem any_parent_order_exact h root parents1 parents2 cs :
    paths_injective h root cs = true ->
    NoDup parents1 -> NoDup parents2 -> Permutation parents1 parents2 ->
    exec_fiddler e h root parents1 cs = exec_fiddler e h root parents2 cs.
  Proof.
    intros Hpi Hnd1 Hnd2 Hperm. unfold exec_fiddler.
    change (run h (resolve_parents e h root (fiddler_order parents1 cs))
            = run h (resolve_parents e h root (fiddler_order parents2 cs))).
    apply run_ext. intros i n Hn. rewrite !node_ops_resolve, !fiddler_order_filter.
    set (g := filter (resolves_to e h root i) cs).
    assert (Hsame : forall c c', In c g -> In c' g -> parent_of c = parent_of c').
    { intros c c' Hc Hc'. unfold g in Hc, Hc'. apply filter_In in Hc, Hc'.
      destruct Hc as [Hc Rc], Hc' as [Hc' Rc']. eapply paths_injective_spec; eassumption. }
    destruct g as [|c0 g'] eqn:Eg.
    - rewrite (fiddler_order_single [] [] parents1), (fiddler_order_single [] [] parents2);
        try assumption; try (intros c []).
      destruct (in_dec path_eq_dec [] parents1), (in_dec path_eq_dec [] parents2); reflexivity.
    - rewrite (fiddler_order_single (parent_of c0) (c0 :: g') parents1),
        (fiddler_order_single (parent_of c0) (c0 :: g') parents2); try assumption;
        try (intros c Hc; apply Hsame; [exact Hc | left; reflexivity]).
      destruct (in_dec path_eq_dec (parent_of c0) parents1) as [H1|H1],
               (in_dec path_eq_dec (parent_of c0) parents2) as [H2|H2]; try reflexivity; exfalso.
      + apply H2. eapply Permutation_in; eassumption.
      + apply H1. eapply Permutation_in; [apply Permutation_sym; exact Hperm | exact H2].
  Qed.
End Exact.

(* ------------------------------------------------------------------------------------------ *)
(* 4. the statements of props/C13.v                                                            *)

Lemma forallb_heap_set (f : node -> bool) h : forall i n n',
  nth_error h i = Some n -> f n' = f n -> forallb f (heap_set h i n') = forallb f h.
Proof.
  induction h as [|x h IH]; intros i n n' Hn Hf; [destruct i; discriminate |].
  destruct i; cbn [nth_error] in Hn; cbn [heap_set forallb].
  - inversion Hn. subst. rewrite Hf. reflexivity.
  - rewrite (IH i n n' Hn Hf). reflexivity.
Qed.

Definition not_dict (n : node) : bool :=
  match n with NDict _ | NDefaultDict _ _ => false | _ => true end.

Lemma no_dicts_run cps : forall h, no_dicts (run h cps) = no_dicts h.
Proof.
  induction cps as [|cp cps IH]; intros h; [reflexivity |].
  unfold run in *. cbn [fold_left]. rewrite IH. unfold apply_one.
  destruct (snd cp) as [i|]; [| reflexivity]. destruct (nth_error h i) as [n|] eqn:En; [| reflexivity].
  unfold no_dicts. apply (forallb_heap_set _ h i n); [exact En |].
  rewrite apply_op_nop. destruct (nop_of (fst cp)); destruct n; reflexivity.
Qed.

Section Final.
  Variable e : sigenv.

  (* finite-map form *)
  Theorem fiddler_agrees_maps h root parents cs :
    heap_wf h = true -> targets_distinct e h root cs = true ->
    NoDup parents -> (forall c, In c cs -> In (parent_of c) parents) ->
    heap_rel (exec_fiddler e h root parents cs) (apply_changes e h root cs).
  Proof.
    intros Hwf Htd Hnd Hcov. apply fiddler_agrees_rel; try assumption.
    - apply heap_wf_ok. exact Hwf.
    - apply (proj1 (nodupb_spec tkey_eq_dec _)). exact Htd.
  Qed.

  Theorem fiddler_agrees h root parents cs :
    heap_wf h = true -> targets_distinct e h root cs = true ->
    NoDup parents -> (forall c, In c cs -> In (parent_of c) parents) ->
    heap_equiv (exec_fiddler e h root parents cs) (apply_changes e h root cs).
  Proof.
    intros Hwf Htd Hnd Hcov. apply heap_rel_equiv. apply fiddler_agrees_maps; assumption.
  Qed.

  Theorem fiddler_agrees_canon h root parents cs :
    heap_wf h = true -> targets_distinct e h root cs = true ->
    NoDup parents -> (forall c, In c cs -> In (parent_of c) parents) ->
    heap_canon_same (exec_fiddler e h root parents cs) (apply_changes e h root cs).
  Proof.
    intros Hwf Htd Hnd Hcov. apply heap_rel_canon. apply fiddler_agrees_maps; assumption.
  Qed.

  Theorem fiddler_agrees_sorted h root parents cs :
    heap_wf h = true -> no_dicts h = true -> targets_distinct e h root cs = true ->
    NoDup parents -> (forall c, In c cs -> In (parent_of c) parents) ->
    map canon_node_tags (exec_fiddler e h root parents cs)
    = map canon_node_tags (apply_changes e h root cs).
  Proof.
    intros Hwf Hnd Htd Hp Hcov. apply heap_canon_same_eq; [apply fiddler_agrees_canon; assumption |].
    unfold exec_fiddler. change (fold_left apply_one ?l h) with (run h l).
    rewrite no_dicts_run. exact Hnd.
  Qed.

  Theorem any_parent_order h root parents1 parents2 cs :
    heap_wf h = true -> targets_distinct e h root cs = true ->
    NoDup parents1 -> NoDup parents2 -> Permutation parents1 parents2 ->
    heap_equiv (exec_fiddler e h root parents1 cs) (exec_fiddler e h root parents2 cs).
  Proof.
    intros Hwf Htd H1 H2 Hp. apply heap_rel_equiv. apply any_parent_order_rel; try assumption.
    - apply heap_wf_ok. exact Hwf.
    - apply (proj1 (nodupb_spec tkey_eq_dec _)). exact Htd.
  Qed.

  Theorem any_parent_order_sorted h root parents1 parents2 cs :
    heap_wf h = true -> no_dicts h = true -> targets_distinct e h root cs = true ->
    NoDup parents1 -> NoDup parents2 -> Permutation parents1 parents2 ->
    map canon_node_tags (exec_fiddler e h root parents1 cs)
    = map canon_node_tags (exec_fiddler e h root parents2 cs).
  Proof.
    intros Hwf Hnd Htd H1 H2 Hp. apply heap_canon_same_eq.
    - apply heap_rel_canon. apply any_parent_order_rel; try assumption.
      + apply heap_wf_ok. exact Hwf.
      + apply (proj1 (nodupb_spec tkey_eq_dec _)). exact Htd.
    - unfold exec_fiddler. change (fold_left apply_one ?l h) with (run h l).
      rewrite no_dicts_run. exact Hnd.
  Qed.
End Final.

(* ---- witnesses ---------------------------------------------------------------------------- *)

Definition w_int (z : Z) : ref := RA (AInt z).

(* (a) no aliasing, but a CModify of an argument that is not set: it appends, and the two orders
       append in different orders *)
Definition wa_heap : heap := [NBuildable BConfig 7%N [] []].
Definition wa_changes : list change :=
  [CSet [] (LAttr 1%N) (w_int 1); CModify [] (LAttr 2%N) (w_int 2)].

(* (b) two parent paths that resolve to the same object (a list holding the same Buildable twice) *)
Definition wb_heap : heap := [NBuildable BConfig 8%N [] []; NList [RP 0; RP 0]].
Definition wb_changes : list change :=
  [CSet [PIndex 0] (LAttr 1%N) (w_int 1); CSet [PIndex 1] (LAttr 2%N) (w_int 2);
   CSet [PIndex 0] (LAttr 3%N) (w_int 3)].

Theorem fiddler_exact_refuted :
  exists (e : sigenv) (h : heap) (root : ref) (cs : list change),
    heap_wf h = true /\ targets_distinct e h root cs = true
    /\ paths_injective e h root cs = true
    /\ exec_fiddler e h root (parents_of cs) cs <> apply_changes e h root cs.
Proof.
  exists [], wa_heap, (RP 0), wa_changes. repeat split; try (vm_compute; reflexivity).
  vm_compute. discriminate.
Qed.

Theorem fiddler_exact_refuted_alias :
  exists (e : sigenv) (h : heap) (root : ref) (cs : list change),
    heap_wf h = true /\ targets_distinct e h root cs = true
    /\ modifies_in_place e h root cs = true
    /\ exec_fiddler e h root (parents_of cs) cs <> apply_changes e h root cs.
Proof.
  exists [], wb_heap, (RP 1), wb_changes. repeat split; try (vm_compute; reflexivity).
  vm_compute. discriminate.
Qed.

(* (c) two changes with the same target: an assignment and a modification of the same argument *)
Definition wc_heap : heap := [NBuildable BConfig 7%N [(KName 1%N, w_int 0)] []].
Definition wc_changes : list change :=
  [CSet [] (LAttr 1%N) (w_int 1); CModify [] (LAttr 1%N) (w_int 2)].

Lemma heap_equiv_buildable_arg k1 f1 a1 t1 k2 f2 a2 t2 r1 r2 :
  heap_equiv (NBuildable k1 f1 a1 t1 :: r1) (NBuildable k2 f2 a2 t2 :: r2) -> Permutation a1 a2.
Proof. intros H. inversion H as [|? ? ? ? Hn]. subst. cbn [node_equiv] in Hn. apply Hn. Qed.

Theorem needs_targets_distinct :
  exists (e : sigenv) (h : heap) (root : ref) (cs : list change),
    heap_wf h = true /\ paths_injective e h root cs = true /\ modifies_in_place e h root cs = true
    /\ targets_distinct e h root cs = false
    /\ ~ heap_equiv (exec_fiddler e h root (parents_of cs) cs) (apply_changes e h root cs).
Proof.
  exists [], wc_heap, (RP 0), wc_changes. repeat split; try (vm_compute; reflexivity).
  assert (E1 : exec_fiddler [] wc_heap (RP 0) (parents_of wc_changes) wc_changes
               = [NBuildable BConfig 7%N [(KName 1%N, w_int 2)] []]) by (vm_compute; reflexivity).
  assert (E2 : apply_changes [] wc_heap (RP 0) wc_changes
               = [NBuildable BConfig 7%N [(KName 1%N, w_int 1)] []]) by (vm_compute; reflexivity).
  rewrite E1, E2. intros H. apply heap_equiv_buildable_arg in H.
  apply Permutation_length_1 in H. discriminate.
Qed.

(* (d) with two paths to one object the order of the groups shows in the stored order *)
Definition wd_changes : list change :=
  [CSet [PIndex 0] (LAttr 1%N) (w_int 1); CSet [PIndex 1] (LAttr 2%N) (w_int 2)].

Theorem any_parent_order_exact_refuted :
  exists (e : sigenv) (h : heap) (root : ref) (cs : list change) (ps1 ps2 : list path),
    heap_wf h = true /\ targets_distinct e h root cs = true
    /\ NoDup ps1 /\ NoDup ps2 /\ Permutation ps1 ps2
    /\ exec_fiddler e h root ps1 cs <> exec_fiddler e h root ps2 cs.
Proof.
  exists [], wb_heap, (RP 1), wd_changes, [[PIndex 0]; [PIndex 1]], [[PIndex 1]; [PIndex 0]].
  repeat split; try (vm_compute; reflexivity).
  - repeat constructor; cbn [In]; intuition discriminate.
  - repeat constructor; cbn [In]; intuition discriminate.
  - apply perm_swap.
  - vm_compute. discriminate.
Qed.

(* (e) the sortedness of the tag sets is used: on an unsorted tag list, add_tag and remove_tag of
       different tags through two paths to the same object do not commute *)
Definition we_heap : heap :=
  [NBuildable BConfig 8%N [] [(KName 1%N, [5%N; 1%N])]; NList [RP 0; RP 0]].
Definition we_changes : list change :=
  [CRemoveTag [PIndex 1] 1%N 5%N; CAddTag [PIndex 0] 1%N 3%N].

Lemma heap_equiv_buildable_tags k1 f1 a1 t1 k2 f2 a2 t2 r1 r2 :
  heap_equiv (NBuildable k1 f1 a1 t1 :: r1) (NBuildable k2 f2 a2 t2 :: r2) -> Permutation t1 t2.
Proof. intros H. inversion H as [|? ? ? ? Hn]. subst. cbn [node_equiv] in Hn. apply Hn. Qed.

Theorem needs_sorted_tags :
  exists (e : sigenv) (h : heap) (root : ref) (cs : list change) (ps : list path),
    heap_wf h = false /\ targets_distinct e h root cs = true
    /\ NoDup ps /\ (forall c, In c cs -> In (parent_of c) ps)
    /\ ~ heap_equiv (exec_fiddler e h root ps cs) (apply_changes e h root cs).
Proof.
  exists [], we_heap, (RP 1), we_changes, [[PIndex 0]; [PIndex 1]].
  repeat split; try (vm_compute; reflexivity).
  - repeat constructor; cbn [In]; intuition discriminate.
  - intros c [Hc|[Hc|[]]]; subst c; cbn; auto.
  - assert (E1 : exec_fiddler [] we_heap (RP 1) [[PIndex 0]; [PIndex 1]] we_changes
                 = [NBuildable BConfig 8%N [] [(KName 1%N, [3%N; 1%N])]; NList [RP 0; RP 0]])
      by (vm_compute; reflexivity).
    assert (E2 : apply_changes [] we_heap (RP 1) we_changes
                 = [NBuildable BConfig 8%N [] [(KName 1%N, [1%N; 3%N])]; NList [RP 0; RP 0]])
      by (vm_compute; reflexivity).
    rewrite E1, E2. intros H. apply heap_equiv_buildable_tags in H.
    apply Permutation_length_1 in H. discriminate.
Qed.
