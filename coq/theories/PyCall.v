(* PyCall: CPython's call binding f applied to ( *args, **kwargs ) as seen by the callee, Fiddle's
   build-time argument transformation, and the reference view of C01.
   [py_call is Python semantics: validated against real calls by the correspondence stream.] *)
From Fiddle Require Import PyBase PySlice Sig ArgStore.

(* what a callee observes for one parameter *)
Inductive pval := PV (v : ref) | PTuple (l : list ref) | PDict (d : list (N * ref)).
Definition view := list (N * pval).

Definition pval_eq_dec : forall a b : pval, {a = b} + {a <> b}.
Proof.
  decide equality; auto using ref_eq_dec, (list_eq_dec ref_eq_dec).
  apply list_eq_dec. decide equality; auto using ref_eq_dec, N.eq_dec.
Defined.
Definition view_eq_dec : forall a b : view, {a = b} + {a <> b}.
Proof. apply list_eq_dec. decide equality; auto using pval_eq_dec, N.eq_dec. Defined.

Section WithSig.
  Variable sg : sig.

  (* ------------------------------------------------------------------------------------------
     transform_to_args_kwargs(arguments) with include_pos_or_kw_in_args = include_no_value = False
     (the mode call_buildable uses), including the repaired handling of skipped parameters.  *)

  (* append_positional: fill skipped parameters with their defaults, or fail *)
  Fixpoint fill_skipped (skipped : list param) (acc : list ref) : option (list ref) :=
    match skipped with
    | [] => Some acc
    | p :: rest =>
        match pdefault p with
        | Some d => fill_skipped rest (acc ++ [d])
        | None => None
        end
    end.

  Definition append_positional (skipped : list param) (acc : list ref) (v : ref)
    : option (list ref) :=
    match fill_skipped skipped acc with
    | Some acc' => Some (acc' ++ [v])
    | None => None
    end.

  Fixpoint tb_params (vin : bool) (ps : list param) (index : nat) (args : store)
           (skipped : list param) (acc : list ref)
    : option (list ref * store * list param) :=
    match ps with
    | [] => Some (acc, args, skipped)
    | p :: ps' =>
        match pk p with
        | PosOnly =>
            match sget args (kpos index) with
            | Some v =>
                match append_positional skipped acc v with
                | Some acc' => tb_params vin ps' (S index) (sdel args (kpos index)) [] acc'
                | None => None
                end
            | None => tb_params vin ps' (S index) args (skipped ++ [p]) acc
            end
        | PosOrKw =>
            if vin then
              match sget args (KName (pname p)) with
              | Some v =>
                  match append_positional skipped acc v with
                  | Some acc' => tb_params vin ps' (S index) (sdel args (KName (pname p))) [] acc'
                  | None => None
                  end
              | None => tb_params vin ps' (S index) args (skipped ++ [p]) acc
              end
            else tb_params vin ps' (S index) args skipped acc
        | _ => tb_params vin ps' (S index) args skipped acc
        end
    end.

  Fixpoint tb_varargs (fuel : nat) (args : store) (index : nat) (skipped : list param)
           (acc : list ref) : option (list ref * store) :=
    match fuel with
    | O => Some (acc, args)
    | S f =>
        match sget args (kpos index) with
        | Some v =>
            match append_positional skipped acc v with
            | Some acc' => tb_varargs f (sdel args (kpos index)) (S index) [] acc'
            | None => None
            end
        | None => Some (acc, args)
        end
    end.

  (* None = TypeError raised by the transformation itself *)
  Definition transform_build (args : store) : option (list ref * store) :=
    let vin := match vps sg with Some s => smem args (kpos s) | None => false end in
    match tb_params vin sg 0 args [] [] with
    | None => None
    | Some (pos, rest, skipped) =>
        match vps sg with
        | Some s => tb_varargs (length rest) rest s skipped pos
        | None => Some (pos, rest)
        end
    end.

  (* ------------------------------------------------------------------------------------------
     CPython: binding of f applied to ( *pos, **kws ) to the parameters.  None = TypeError. *)

  (* positional arguments fill the positional parameters in order *)
  Fixpoint bind_positional (ps : list param) (pos : list ref) (bound : list (N * ref))
    : list (N * ref) * list ref :=
    match ps with
    | [] => (bound, pos)
    | p :: ps' =>
        if is_prefix_kind (pk p) then
          match pos with
          | v :: pos' => bind_positional ps' pos' (bound ++ [(pname p, v)])
          | [] => (bound, [])
          end
        else (bound, pos)
    end.

  Definition nget : list (N * ref) -> N -> option ref := dget N.eqb.

  Fixpoint bind_keywords (kws : store) (bound extra : list (N * ref))
    : option (list (N * ref) * list (N * ref)) :=
    match kws with
    | [] => Some (bound, extra)
    | (KPos _, _) :: _ => None                       (* keywords must be strings *)
    | (KName n, v) :: kws' =>
        let to_extra := if has_var_kw sg then bind_keywords kws' bound (extra ++ [(n, v)]) else None in
        match find_param sg n with
        | Some p =>
            match pk p with
            | PosOrKw | KwOnly =>
                match nget bound n with
                | Some _ => None                      (* multiple values for argument *)
                | None => bind_keywords kws' (bound ++ [(n, v)]) extra
                end
            | _ => to_extra
            end
        | None => to_extra
        end
    end.

  Fixpoint finish_view (ps : list param) (bound : list (N * ref)) (star : list ref)
           (extra : list (N * ref)) : option view :=
    match ps with
    | [] => Some []
    | p :: ps' =>
        let here :=
          match pk p with
          | VarPos => Some (PTuple star)
          | VarKw => Some (PDict extra)
          | _ => match nget bound (pname p) with
                 | Some v => Some (PV v)
                 | None => match pdefault p with Some d => Some (PV d) | None => None end
                 end
          end in
        match here, finish_view ps' bound star extra with
        | Some x, Some rest => Some ((pname p, x) :: rest)
        | _, _ => None
        end
    end.

  Definition py_call (pos : list ref) (kws : store) : option view :=
    let '(bound, leftover) := bind_positional sg pos [] in
    let star_ok := match leftover, vps sg with
                   | [], _ => true
                   | _ :: _, Some _ => true
                   | _ :: _, None => false
                   end in
    if negb star_ok then None else
    match bind_keywords kws bound [] with
    | None => None
    | Some (bound', extra) => finish_view sg bound' leftover extra
    end.

  (* what fdl.build does for one Config whose arguments are already built *)
  Definition build1 (args : store) : option view :=
    match transform_build args with
    | None => None
    | Some (pos, kws) => py_call pos kws
    end.

  (* ------------------------------------------------------------------------------------------
     The reference (C01): every parameter receives its configured value, an unconfigured one
     the callee's default; a required parameter without value makes the call impossible;
     *args are the values stored from var_positional_start upwards; every stored name that is
     not a nameable parameter goes to **kwargs. *)

  Fixpoint varargs_of (fuel : nat) (st : store) (i : nat) : list ref :=
    match fuel with
    | O => []
    | S f => match sget st (kpos i) with
             | Some v => v :: varargs_of f st (S i)
             | None => []
             end
    end.

  Fixpoint extras_of (st : store) : list (N * ref) :=
    match st with
    | [] => []
    | (KName n, v) :: st' =>
        match find_param sg n with
        | Some p => match pk p with
                    | PosOrKw | KwOnly => extras_of st'
                    | _ => (n, v) :: extras_of st'
                    end
        | None => (n, v) :: extras_of st'
        end
    | (KPos _, _) :: st' => extras_of st'
    end.

  Fixpoint reference_params (ps : list param) (index : nat) (st : store) : option view :=
    match ps with
    | [] => Some []
    | p :: ps' =>
        let here :=
          match pk p with
          | VarPos => Some (PTuple (varargs_of (length st) st index))
          | VarKw => Some (PDict (extras_of st))
          | k =>
              let key := match k with PosOnly => kpos index | _ => KName (pname p) end in
              match sget st key with
              | Some v => Some (PV v)
              | None => match pdefault p with Some d => Some (PV d) | None => None end
              end
          end in
        match here, reference_params ps' (S index) st with
        | Some x, Some rest => Some ((pname p, x) :: rest)
        | _, _ => None
        end
    end.

  Definition reference_view (st : store) : option view := reference_params sg 0 st.
End WithSig.
