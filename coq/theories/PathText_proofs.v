(* PathText_proofs: proofs about PyText (repr / unescape / decimal) and PathText
   (print / parse round trip, flag directives).  Statements are re-exported in props/C18.v. *)
From Fiddle Require Import PyBase PyText PathText C18Check.
From Coq Require Import ZifyN ZifyBool.
Open Scope N_scope.

Arguments N.add : simpl never.
Arguments N.mul : simpl never.
Arguments N.sub : simpl never.
Arguments N.div : simpl never.
Arguments N.modulo : simpl never.
Arguments N.eqb : simpl never.
Arguments N.leb : simpl never.
Arguments N.ltb : simpl never.

Ltac closed_pos p := match p with xH => idtac | xO ?p' => closed_pos p' | xI ?p' => closed_pos p' end.
Ltac closed_N n := match n with N0 => idtac | Npos ?p => closed_pos p end.
(* evaluate comparisons between literals only *)
Ltac ev_lit :=
  unfold ch_bslash, ch_squote, ch_dquote;
  repeat match goal with
  | |- context [?a =? ?b] =>
      closed_N a; closed_N b;
      let v := eval vm_compute in (a =? b) in change (a =? b) with v; cbv iota
  end.

(* ================================================================ 5. flag directives *)

Definition non_base (d : directive) : bool := negb (is_base d).

Lemma run_true_ok ds : forall acc r,
  run_directives ds true acc = FOk r <-> (r = acc ++ ds /\ forallb non_base ds = true).
Proof.
  induction ds as [|d ds IH]; intros acc r; cbn [run_directives forallb].
  - rewrite app_nil_r. split; [intros H; inversion H; auto | intros [-> _]; reflexivity].
  - unfold non_base at 1. cbn [negb andb].
    destruct (is_base d) eqn:Hd; cbn [negb andb].
    + split; [discriminate | intros [_ H]; discriminate].
    + rewrite IH, <- app_assoc. cbn [app]. tauto.
Qed.

Lemma run_true_not_first ds : forall acc, run_directives ds true acc <> FErrFirstNotBase.
Proof.
  induction ds as [|d ds IH]; intros acc; cbn [run_directives negb andb]; [discriminate|].
  destruct (is_base d); [discriminate | apply IH].
Qed.

Lemma run_true_second ds : forall acc,
  run_directives ds true acc = FErrSecondBase <-> existsb is_base ds = true.
Proof.
  induction ds as [|d ds IH]; intros acc; cbn [run_directives existsb negb andb orb].
  - split; discriminate.
  - destruct (is_base d); cbn [orb]; [tauto | apply IH].
Qed.

(* the fold succeeds exactly on "one base directive, then only non-base ones" (or nothing),
   and then the applied list IS the input list *)
Definition well_formed_directives (ds : list directive) : Prop :=
  ds = [] \/ exists d rest, ds = d :: rest /\ is_base d = true /\ forallb non_base rest = true.

Theorem directives_ok_iff ds ds' :
  run_directives ds false [] = FOk ds' <-> (ds' = ds /\ well_formed_directives ds).
Proof.
  unfold well_formed_directives.
  destruct ds as [|d rest]; cbn [run_directives negb andb app].
  - split.
    + intros H; inversion H; auto.
    + intros [-> _]; reflexivity.
  - destruct (is_base d) eqn:Hd; cbn [negb andb].
    + rewrite run_true_ok. cbn [app]. split.
      * intros [-> H]. split; [reflexivity|]. right. exists d, rest. auto.
      * intros [-> [H | (d0 & r0 & E & _ & H)]]; [discriminate|].
        inversion E; subst. auto.
    + split; [discriminate|].
      intros [_ [H | (d0 & r0 & E & Hb & _)]]; [discriminate|].
      inversion E; subst. congruence.
Qed.

Theorem directives_applied_in_order ds ds' :
  run_directives ds false [] = FOk ds' -> ds' = ds.
Proof. intros H; apply directives_ok_iff in H; tauto. Qed.

Theorem directives_err_first_iff ds :
  run_directives ds false [] = FErrFirstNotBase <->
  exists d rest, ds = d :: rest /\ is_base d = false.
Proof.
  destruct ds as [|d rest]; cbn [run_directives negb andb app].
  - split; [discriminate | intros (d & r & E & _); discriminate].
  - destruct (is_base d) eqn:Hd; cbn [negb andb].
    + split; [intros H; exfalso; exact (run_true_not_first _ _ H)|].
      intros (d0 & r0 & E & Hb); inversion E; subst; congruence.
    + split; [|reflexivity]. intros _. exists d, rest. auto.
Qed.

Theorem directives_err_second_iff ds :
  run_directives ds false [] = FErrSecondBase <->
  exists d rest, ds = d :: rest /\ is_base d = true /\ existsb is_base rest = true.
Proof.
  destruct ds as [|d rest]; cbn [run_directives negb andb app].
  - split; [discriminate | intros (d & r & E & _); discriminate].
  - destruct (is_base d) eqn:Hd; cbn [negb andb].
    + rewrite run_true_second. split.
      * intros H. exists d, rest. auto.
      * intros (d0 & r0 & E & _ & H); inversion E; subst; auto.
    + split; [discriminate|].
      intros (d0 & r0 & E & Hb & _); inversion E; subst; congruence.
Qed.

(* order sensitivity: swapping a base directive behind a non-base one turns success into an error *)
Example directives_order_sensitive :
  run_directives [DConfig 1; DSet 2; DFiddler 3] false [] = FOk [DConfig 1; DSet 2; DFiddler 3] /\
  run_directives [DSet 2; DConfig 1; DFiddler 3] false [] = FErrFirstNotBase /\
  run_directives [DConfig 1; DSet 2; DConfigStr 4] false [] = FErrSecondBase /\
  run_directives [DConfig 1; DFiddler 3; DSet 2] false [] = FOk [DConfig 1; DFiddler 3; DSet 2].
Proof. repeat split; reflexivity. Qed.

(* ================================================================ 4. the empty key *)

Example empty_key_needs_star :
  let text := print_tpath [TAttr [120]; TKeyStr []; TAttr [120]] in
  text = [46; 120; 91; 39; 39; 93; 46; 120] /\
  parse_path_text 1 (strip_leading_dot text) = None /\
  parse_path_text 1 text = None /\
  parse_path_text 0 (strip_leading_dot text) = Some [TAttr [120]; TKeyStr []; TAttr [120]].
Proof. vm_compute. repeat split. Qed.

(* ================================================================ 1. repr / unescape *)

Definition is_quote (q : N) : Prop := q = 39 \/ q = 34.

Lemma repr_quote_is_quote s : is_quote (repr_quote s).
Proof.
  unfold repr_quote, is_quote, ch_squote, ch_dquote.
  destruct (mem_ch 39 s && negb (mem_ch 34 s)); auto.
Qed.

Lemma unhex_hex_digit d : d < 16 -> unhex (hex_digit d) = Some d.
Proof.
  intros Hd. unfold unhex, hex_digit.
  destruct (d <? 10) eqn:H10.
  - replace ((48 <=? 48 + d) && (48 + d <=? 57)) with true by lia.
    f_equal. lia.
  - replace ((48 <=? 87 + d) && (87 + d <=? 57)) with false by lia.
    replace ((97 <=? 87 + d) && (87 + d <=? 102)) with true by lia.
    f_equal. lia.
Qed.

Lemma unescape_S f c rest :
  unescape (S f) (c :: rest) =
  if c =? ch_bslash then
    match rest with
    | e :: rest' =>
        let simple (x : N) := match unescape f rest' with Some t => Some (x :: t) | None => None end in
        if e =? ch_bslash then simple ch_bslash
        else if e =? ch_squote then simple ch_squote
        else if e =? ch_dquote then simple ch_dquote
        else if e =? 110 then simple 10
        else if e =? 114 then simple 13
        else if e =? 116 then simple 9
        else if e =? 120 then
          match rest' with
          | h1 :: h2 :: rest'' =>
              match unhex h1, unhex h2, unescape f rest'' with
              | Some a, Some b, Some t => Some (a * 16 + b :: t)
              | _, _, _ => None
              end
          | _ => None
          end
        else None
    | [] => None
    end
  else match unescape f rest with Some t => Some (c :: t) | None => None end.
Proof. reflexivity. Qed.

(* one escaped character is undone by one step of unescape *)
Lemma unescape_repr_char q c rest f t :
  is_quote q -> is_ascii c = true ->
  unescape f rest = Some t ->
  unescape (S f) (repr_char q c ++ rest) = Some (c :: t).
Proof.
  intros Hq Hc Hr. unfold is_ascii in Hc. unfold repr_char, ch_bslash.
  destruct (c =? 92) eqn:E92.
  { cbn [app]. rewrite unescape_S. ev_lit. rewrite Hr. f_equal. f_equal. lia. }
  destruct (c =? q) eqn:Eq.
  { cbn [app]. rewrite unescape_S. assert (c = q) by lia. subst c.
    destruct Hq as [-> | ->]; ev_lit; rewrite Hr; reflexivity. }
  destruct (c =? 10) eqn:E10.
  { cbn [app]. rewrite unescape_S. ev_lit. rewrite Hr. f_equal. f_equal. lia. }
  destruct (c =? 13) eqn:E13.
  { cbn [app]. rewrite unescape_S. ev_lit. rewrite Hr. f_equal. f_equal. lia. }
  destruct (c =? 9) eqn:E9.
  { cbn [app]. rewrite unescape_S. ev_lit. rewrite Hr. f_equal. f_equal. lia. }
  destruct (is_printable_ascii c) eqn:Ep.
  { cbn [app]. rewrite unescape_S. unfold ch_bslash. rewrite E92, Hr. reflexivity. }
  cbn [app]. rewrite unescape_S. ev_lit.
  rewrite !unhex_hex_digit, Hr by lia.
  f_equal. f_equal. lia.
Qed.

Lemma repr_char_nonempty q c : (1 <= length (repr_char q c))%nat.
Proof.
  unfold repr_char.
  repeat match goal with |- context [if ?b then _ else _] => destruct b end; cbn [length]; lia.
Qed.

Lemma flat_map_repr_length q s : (length s <= length (flat_map (repr_char q) s))%nat.
Proof.
  induction s as [|c s IH]; cbn [flat_map length]; [lia|].
  rewrite app_length. pose proof (repr_char_nonempty q c). lia.
Qed.

Lemma unescape_flat_map q s : is_quote q -> forallb is_ascii s = true ->
  forall f, (length s < f)%nat -> unescape f (flat_map (repr_char q) s) = Some s.
Proof.
  intros Hq. induction s as [|c s IH]; intros Hs f Hf.
  - destruct f; [lia | reflexivity].
  - cbn [forallb] in Hs. apply andb_true_iff in Hs as [Hc Hs].
    cbn [length] in Hf. destruct f as [|f]; [lia|].
    cbn [flat_map]. apply unescape_repr_char; auto. apply IH; auto. lia.
Qed.

Lemma body_repr_str s : body (repr_str s) = flat_map (repr_char (repr_quote s)) s.
Proof. unfold body, repr_str. cbn [tl]. apply removelast_last. Qed.

Theorem repr_unescape_roundtrip s : forallb is_ascii s = true ->
  unescape (S (length (repr_str s))) (body (repr_str s)) = Some s.
Proof.
  intros Hs. rewrite body_repr_str. apply unescape_flat_map; auto using repr_quote_is_quote.
  unfold repr_str. cbn [length]. rewrite app_length.
  pose proof (flat_map_repr_length (repr_quote s) s). lia.
Qed.

(* the fuel the path parser uses (length of the body) is enough too *)
Lemma unescape_body_fuel q s : is_quote q -> forallb is_ascii s = true ->
  unescape (S (length (flat_map (repr_char q) s))) (flat_map (repr_char q) s) = Some s.
Proof.
  intros Hq Hs. apply unescape_flat_map; auto.
  pose proof (flat_map_repr_length q s). lia.
Qed.

(* quote-free keys *)
Lemma key_ok_ascii k : key_ok k = true -> forallb is_ascii k = true.
Proof.
  unfold key_ok. rewrite !forallb_forall. intros H c Hc. specialize (H c Hc).
  apply andb_true_iff in H as [H _]. apply andb_true_iff in H as [H _]. exact H.
Qed.

Lemma key_ok_no_quote k c : key_ok k = true -> mem_ch c k = true -> c <> 39 /\ c <> 34.
Proof.
  unfold key_ok, mem_ch. rewrite forallb_forall, existsb_exists.
  intros H (x & Hx & E). specialize (H x Hx). unfold ch_squote, ch_dquote in H. lia.
Qed.

Lemma key_ok_repr_quote k : key_ok k = true -> repr_quote k = 39.
Proof.
  intros Hk. unfold repr_quote, ch_squote, ch_dquote.
  destruct (mem_ch 39 k) eqn:E; [|reflexivity].
  destruct (key_ok_no_quote k 39 Hk E) as [H _]. congruence.
Qed.

Lemma hex_digit_ge d : 48 <= hex_digit d.
Proof. unfold hex_digit. destruct (d <? 10); lia. Qed.

Lemma repr_char_no_squote c :
  is_ascii c = true -> c <> 39 ->
  forallb (fun x => negb (x =? 39)) (repr_char 39 c) = true.
Proof.
  intros Hc H39. unfold repr_char, ch_bslash.
  destruct (c =? 92); [reflexivity|].
  destruct (c =? 39) eqn:E; [lia|].
  destruct (c =? 10); [reflexivity|].
  destruct (c =? 13); [reflexivity|].
  destruct (c =? 9); [reflexivity|].
  destruct (is_printable_ascii c).
  - cbn [forallb]. rewrite E. reflexivity.
  - cbn [forallb].
    pose proof (hex_digit_ge (c / 16)). pose proof (hex_digit_ge (c mod 16)).
    ev_lit. cbn [negb andb].
    generalize dependent (hex_digit (c / 16)). generalize dependent (hex_digit (c mod 16)).
    intros. lia.
Qed.

Theorem key_ok_body_no_squote k : key_ok k = true ->
  repr_quote k = 39 /\ forallb (fun x => negb (x =? 39)) (body (repr_str k)) = true.
Proof.
  intros Hk. split; [apply key_ok_repr_quote; auto|].
  rewrite body_repr_str, key_ok_repr_quote by auto.
  unfold key_ok in Hk. induction k as [|c k IH]; [reflexivity|].
  cbn [forallb flat_map] in *. apply andb_true_iff in Hk as [Hc Hk].
  rewrite forallb_app, IH by auto. rewrite repr_char_no_squote; [reflexivity | |];
  unfold ch_squote, ch_dquote, is_ascii in *; lia.
Qed.

(* ================================================================ 2. decimal round trip *)

Fixpoint pow10 (f : nat) : N := match f with O => 1 | S f' => 10 * pow10 f' end.

Lemma digits_of_S f n acc :
  digits_of (S f) n acc =
  if n <? 10 then (48 + n) :: acc else digits_of f (n / 10) ((48 + n mod 10) :: acc).
Proof. reflexivity. Qed.

Lemma parse_digits_cons c s acc : parse_digits (c :: s) acc = parse_digits s (acc * 10 + (c - 48)).
Proof. reflexivity. Qed.

Lemma parse_digits_of f : forall n acc,
  n < pow10 f -> parse_digits (digits_of f n acc) 0 = parse_digits acc n.
Proof.
  induction f as [|f IH]; intros n acc Hn.
  - cbn [pow10] in Hn. assert (n = 0) by lia. subst. reflexivity.
  - rewrite digits_of_S. destruct (n <? 10) eqn:E.
    + rewrite parse_digits_cons. f_equal. lia.
    + cbn [pow10] in Hn. rewrite IH by lia. rewrite parse_digits_cons. f_equal. lia.
Qed.

Lemma pow2_le_pow10 f : 2 ^ N.of_nat f <= pow10 f.
Proof.
  induction f as [|f IH]; [cbn; lia|].
  rewrite Nat2N.inj_succ, N.pow_succ_r'. cbn [pow10]. lia.
Qed.

Lemma print_nat_fuel n : n < pow10 (S (N.to_nat (N.log2 n))).
Proof.
  eapply N.lt_le_trans; [|apply pow2_le_pow10].
  rewrite Nat2N.inj_succ, N2Nat.id.
  destruct (N.eq_dec n 0) as [->|Hn]; [cbn; lia|].
  apply N.log2_spec. lia.
Qed.

Theorem parse_print_nat n : parse_digits (print_nat n) 0 = n.
Proof. unfold print_nat. rewrite parse_digits_of by apply print_nat_fuel. reflexivity. Qed.

Lemma digits_of_all_digits f : forall n acc,
  forallb is_digit acc = true -> forallb is_digit (digits_of f n acc) = true.
Proof.
  induction f as [|f IH]; intros n acc Hacc; [exact Hacc|].
  rewrite digits_of_S. destruct (n <? 10) eqn:E.
  - cbn [forallb]. rewrite Hacc. unfold is_digit. lia.
  - apply IH. cbn [forallb]. rewrite Hacc. unfold is_digit. lia.
Qed.

Theorem print_nat_digits n : forallb is_digit (print_nat n) = true.
Proof. apply digits_of_all_digits. reflexivity. Qed.

Lemma digits_of_length f : forall n acc, (length acc <= length (digits_of f n acc))%nat.
Proof.
  induction f as [|f IH]; intros n acc; [cbn; lia|].
  rewrite digits_of_S. destruct (n <? 10); [cbn [length]; lia|].
  specialize (IH (n / 10) ((48 + n mod 10) :: acc)). cbn [length] in IH. lia.
Qed.

Theorem print_nat_nonempty n : print_nat n <> [].
Proof.
  unfold print_nat. rewrite digits_of_S. destruct (n <? 10); [discriminate|].
  intros H. pose proof (digits_of_length (N.to_nat (N.log2 n)) (n / 10) [48 + n mod 10]) as L.
  rewrite H in L. cbn [length] in L. lia.
Qed.

(* ================================================================ 3. parse / print round trip *)

Lemma span_app_stop (f : N -> bool) a rest :
  forallb f a = true ->
  match rest with [] => True | c :: _ => f c = false end ->
  span f (a ++ rest) = (a, rest).
Proof.
  intros Ha Hr. induction a as [|x a IH]; cbn [app].
  - destruct rest as [|c r]; [reflexivity|]. cbn [span]. rewrite Hr. reflexivity.
  - cbn [forallb] in Ha. apply andb_true_iff in Ha as [Hx Ha].
    cbn [span]. rewrite Hx, IH by exact Ha. reflexivity.
Qed.

Lemma match_part_dot k s' :
  match_part k (46 :: s') =
  let '(w, rest) := span is_word s' in
  match w with [] => None | _ => Some (TAttr w, rest) end.
Proof. reflexivity. Qed.

Lemma match_part_bracket k c s'' :
  match_part k (91 :: c :: s'') =
  if is_digit c then
    let '(d, rest) := span is_digit (c :: s'') in
    match rest with 93 :: rest' => Some (TKeyInt (parse_digits d 0), rest') | _ => None end
  else if (c =? ch_squote) || (c =? ch_dquote) then
    let '(body, rest) := span (fun x => negb (x =? c)) s'' in
    match rest with
    | q :: 93 :: rest' =>
        if Nat.leb k (length body) then
          match unescape (S (length body)) body with
          | Some key => Some (TKeyStr key, rest')
          | None => None
          end
        else None
    | _ => None
    end
  else None.
Proof. reflexivity. Qed.

(* the text after a token does not extend it *)
Definition boundary (rest : list N) : bool :=
  match rest with [] => true | c :: _ => negb (is_word c) end.

Lemma match_part_attr nm rest :
  ident_ok nm = true -> boundary rest = true ->
  match_part 0 (print_telt (TAttr nm) ++ rest) = Some (TAttr nm, rest).
Proof.
  intros Hn Hb. cbn [print_telt app]. rewrite match_part_dot.
  destruct nm as [|c nm]; [discriminate|].
  unfold ident_ok in Hn. apply andb_true_iff in Hn as [_ Hn].
  rewrite span_app_stop; [reflexivity | exact Hn |].
  destruct rest as [|x r]; [exact I|]. cbn [boundary] in Hb.
  destruct (is_word x); [discriminate | reflexivity].
Qed.

Lemma match_part_int i rest :
  match_part 0 (91 :: print_nat i ++ [93] ++ rest) = Some (TKeyInt i, rest).
Proof.
  pose proof (print_nat_nonempty i) as Hne. pose proof (print_nat_digits i) as Hd.
  pose proof (parse_print_nat i) as Hp.
  destruct (print_nat i) as [|c s] eqn:E; [congruence|].
  cbn [app]. rewrite match_part_bracket.
  assert (Hc : is_digit c = true) by (cbn [forallb] in Hd; apply andb_true_iff in Hd; tauto).
  rewrite Hc.
  change (c :: s ++ 93 :: rest) with ((c :: s) ++ 93 :: rest).
  rewrite span_app_stop; [rewrite Hp; reflexivity | exact Hd | reflexivity].
Qed.

(* a wider domain for string keys on which the round trip still holds: ASCII keys that do not
   contain BOTH kinds of quote (repr then picks a quote that does not occur in the key) *)
Definition key_ok_weak (k : list N) : bool :=
  forallb is_ascii k && negb (mem_ch ch_squote k && mem_ch ch_dquote k).
Definition telt_ok_weak (t : telt) : bool :=
  match t with TAttr nm => ident_ok nm | TKeyStr k => key_ok_weak k | _ => true end.

Lemma key_ok_weaken k : key_ok k = true -> key_ok_weak k = true.
Proof.
  intros Hk. unfold key_ok_weak. rewrite (key_ok_ascii k Hk).
  destruct (mem_ch ch_squote k) eqn:E; [|reflexivity].
  destruct (key_ok_no_quote k _ Hk E) as [H _]. unfold ch_squote in H. congruence.
Qed.

Lemma telt_ok_weaken t : telt_ok t = true -> telt_ok_weak t = true.
Proof. destruct t; cbn [telt_ok telt_ok_weak]; auto using key_ok_weaken. Qed.

Lemma forallb_telt_ok_weaken p : forallb telt_ok p = true -> forallb telt_ok_weak p = true.
Proof. rewrite !forallb_forall. auto using telt_ok_weaken. Qed.

Lemma key_ok_weak_no_q k : key_ok_weak k = true -> mem_ch (repr_quote k) k = false.
Proof.
  unfold key_ok_weak, repr_quote. intros H. apply andb_true_iff in H as [_ H].
  destruct (mem_ch ch_squote k) eqn:E1, (mem_ch ch_dquote k) eqn:E2; cbn [andb negb] in *;
    congruence.
Qed.

Lemma repr_char_no_q q c :
  is_quote q -> is_ascii c = true -> c <> q ->
  forallb (fun x => negb (x =? q)) (repr_char q c) = true.
Proof.
  intros Hq Hc Hne. unfold repr_char, ch_bslash.
  pose proof (hex_digit_ge (c / 16)). pose proof (hex_digit_ge (c mod 16)).
  generalize dependent (hex_digit (c / 16)). generalize dependent (hex_digit (c mod 16)).
  intros h2 Hh2 h1 Hh1.
  destruct (c =? 92); [destruct Hq as [-> | ->]; reflexivity|].
  destruct (c =? q) eqn:E; [lia|].
  destruct (c =? 10); [destruct Hq as [-> | ->]; reflexivity|].
  destruct (c =? 13); [destruct Hq as [-> | ->]; reflexivity|].
  destruct (c =? 9); [destruct Hq as [-> | ->]; reflexivity|].
  destruct (is_printable_ascii c).
  - cbn [forallb]. rewrite E. reflexivity.
  - cbn [forallb]. destruct Hq as [-> | ->]; ev_lit; cbn [negb andb]; lia.
Qed.

Lemma flat_map_repr_no_q q k :
  is_quote q -> forallb is_ascii k = true -> mem_ch q k = false ->
  forallb (fun x => negb (x =? q)) (flat_map (repr_char q) k) = true.
Proof.
  intros Hq. induction k as [|c k IH]; intros Ha Hm; [reflexivity|].
  cbn [forallb] in Ha. apply andb_true_iff in Ha as [Hc Ha].
  unfold mem_ch in *. cbn [existsb] in Hm. apply orb_false_iff in Hm as [Hqc Hm].
  cbn [flat_map]. rewrite forallb_app, IH by auto.
  rewrite repr_char_no_q; [reflexivity | exact Hq | exact Hc | lia].
Qed.

Lemma match_part_quoted q k rest :
  is_quote q -> forallb is_ascii k = true -> mem_ch q k = false ->
  match_part 0 (91 :: (q :: flat_map (repr_char q) k ++ [q]) ++ [93] ++ rest) = Some (TKeyStr k, rest).
Proof.
  intros Hq Ha Hm. pose proof (flat_map_repr_no_q q k Hq Ha Hm) as Hbody.
  cbn [app]. rewrite match_part_bracket.
  replace (is_digit q) with false by (destruct Hq as [-> | ->]; reflexivity).
  replace ((q =? ch_squote) || (q =? ch_dquote)) with true by (destruct Hq as [-> | ->]; reflexivity).
  rewrite <- app_assoc. cbn [app].
  rewrite span_app_stop; [| exact Hbody | cbn; rewrite N.eqb_refl; reflexivity].
  cbn [Nat.leb].
  rewrite unescape_body_fuel; [reflexivity | exact Hq | exact Ha].
Qed.

Lemma match_part_keystr_weak k rest :
  key_ok_weak k = true ->
  match_part 0 (print_telt (TKeyStr k) ++ rest) = Some (TKeyStr k, rest).
Proof.
  intros Hk. cbn [print_telt]. unfold repr_str. cbv zeta. cbn [app]. rewrite <- app_assoc.
  pose proof (key_ok_weak_no_q k Hk). unfold key_ok_weak in Hk. apply andb_true_iff in Hk as [Ha _].
  apply (match_part_quoted (repr_quote k) k rest); auto using repr_quote_is_quote.
Qed.

Lemma match_part_keystr k rest :
  key_ok k = true ->
  match_part 0 (print_telt (TKeyStr k) ++ rest) = Some (TKeyStr k, rest).
Proof. intros Hk. apply match_part_keystr_weak, key_ok_weaken, Hk. Qed.

Theorem match_part_print_telt_weak t rest :
  telt_ok_weak t = true -> boundary rest = true ->
  match_part 0 (print_telt t ++ rest) = Some (erase t, rest).
Proof.
  intros Ht Hb. destruct t as [nm | i | k | i]; cbn [erase telt_ok_weak] in *.
  - apply match_part_attr; auto.
  - cbn [print_telt app]. rewrite <- app_assoc. apply match_part_int.
  - apply match_part_keystr_weak; auto.
  - cbn [print_telt app]. rewrite <- app_assoc. apply match_part_int.
Qed.

Theorem match_part_print_telt t rest :
  telt_ok t = true -> boundary rest = true ->
  match_part 0 (print_telt t ++ rest) = Some (erase t, rest).
Proof. intros Ht. apply match_part_print_telt_weak, telt_ok_weaken, Ht. Qed.

Lemma print_telt_head t : exists c s, print_telt t = c :: s /\ (c = 46 \/ c = 91).
Proof. destruct t; cbn [print_telt]; eauto. Qed.

Lemma print_tpath_boundary p : boundary (print_tpath p) = true.
Proof.
  destruct p as [|t p]; [reflexivity|]. cbn [print_tpath flat_map].
  destruct (print_telt_head t) as (c & s & -> & [-> | ->]); reflexivity.
Qed.

Lemma parse_tpath_S k f s : s <> [] ->
  parse_tpath k (S f) s =
  match match_part k s with
  | Some (t, rest) =>
      match parse_tpath k f rest with Some p => Some (t :: p) | None => None end
  | None => None
  end.
Proof. destruct s; [congruence | reflexivity]. Qed.

Lemma parse_print_fuel p : forallb telt_ok_weak p = true ->
  forall f, (length p <= f)%nat -> parse_tpath 0 f (print_tpath p) = Some (map erase p).
Proof.
  induction p as [|t p IH]; intros Hp f Hf.
  - destruct f; reflexivity.
  - cbn [forallb] in Hp. apply andb_true_iff in Hp as [Ht Hp].
    cbn [length] in Hf. destruct f as [|f]; [lia|].
    change (print_tpath (t :: p)) with (print_telt t ++ print_tpath p).
    rewrite parse_tpath_S.
    + rewrite match_part_print_telt_weak by auto using print_tpath_boundary.
      rewrite IH by (auto; lia). reflexivity.
    + destruct (print_telt_head t) as (c & s & -> & _). discriminate.
Qed.

Lemma print_tpath_length p : (length p <= length (print_tpath p))%nat.
Proof.
  induction p as [|t p IH]; [cbn; lia|].
  change (print_tpath (t :: p)) with (print_telt t ++ print_tpath p).
  rewrite app_length. destruct (print_telt_head t) as (c & s & -> & _). cbn [length]. lia.
Qed.

Theorem parse_print_tpath_weak p : forallb telt_ok_weak p = true ->
  parse_tpath 0 (S (length (print_tpath p))) (print_tpath p) = Some (map erase p).
Proof.
  intros Hp. apply parse_print_fuel; auto. pose proof (print_tpath_length p). lia.
Qed.

Theorem parse_print_tpath p : forallb telt_ok p = true ->
  parse_tpath 0 (S (length (print_tpath p))) (print_tpath p) = Some (map erase p).
Proof. intros Hp. apply parse_print_tpath_weak, forallb_telt_ok_weaken, Hp. Qed.

(* the leading dot: dropped by the printer, put back by the flag parser *)
Lemma add_leading_dot_spec s :
  add_leading_dot s =
  match s with
  | c :: _ => if (c =? 46) || (c =? 91) then s else 46 :: s
  | [] => [46]
  end.
Proof.
  destruct s as [|c s]; [reflexivity|].
  destruct c as [|p]; [reflexivity|].
  do 8 (try (destruct p as [p|p|]; try reflexivity)).
Qed.

Lemma strip_leading_dot_spec s :
  strip_leading_dot s =
  match s with
  | c :: s' => if c =? 46 then s' else s
  | [] => []
  end.
Proof.
  destruct s as [|c s]; [reflexivity|].
  destruct c as [|p]; [reflexivity|].
  do 8 (try (destruct p as [p|p|]; try reflexivity)).
Qed.

Lemma ident_start_not_punct c : is_ident_start c = true -> (c =? 46) || (c =? 91) = false.
Proof. unfold is_ident_start. lia. Qed.

Lemma add_strip_print p (b : bool) : forallb telt_ok_weak p = true -> p <> [] ->
  let s := if b then strip_leading_dot (print_tpath p) else print_tpath p in
  add_leading_dot s = print_tpath p /\ (length (print_tpath p) <= S (length s))%nat.
Proof.
  intros Hp Hne. destruct p as [|t p]; [congruence|].
  cbn [forallb] in Hp. apply andb_true_iff in Hp as [Ht _].
  change (print_tpath (t :: p)) with (print_telt t ++ print_tpath p).
  destruct t as [nm | i | k | i]; cbn [print_telt app].
  - destruct b; cbv zeta.
    + rewrite strip_leading_dot_spec. ev_lit.
      cbn [telt_ok_weak] in Ht. destruct nm as [|c nm]; [discriminate|].
      unfold ident_ok in Ht. apply andb_true_iff in Ht as [Hc _].
      cbn [app]. rewrite add_leading_dot_spec, ident_start_not_punct by exact Hc.
      split; [reflexivity | cbn [length]; lia].
    + rewrite add_leading_dot_spec. ev_lit. split; [reflexivity | lia].
  - destruct b; cbv zeta; [rewrite strip_leading_dot_spec|]; rewrite add_leading_dot_spec; ev_lit;
      (split; [reflexivity | lia]).
  - destruct b; cbv zeta; [rewrite strip_leading_dot_spec|]; rewrite add_leading_dot_spec; ev_lit;
      (split; [reflexivity | lia]).
  - destruct b; cbv zeta; [rewrite strip_leading_dot_spec|]; rewrite add_leading_dot_spec; ev_lit;
      (split; [reflexivity | lia]).
Qed.

(* main theorem: whichever of the two printed forms is used (with or without the leading dot
   stripped), the command-line parser reads back the printed path up to Index/Key erasure *)
Theorem parse_print_roundtrip_weak p (strip : bool) :
  forallb telt_ok_weak p = true -> p <> [] ->
  parse_path_text 0 (if strip then strip_leading_dot (print_tpath p) else print_tpath p)
  = Some (map erase p).
Proof.
  intros Hp Hne. destruct (add_strip_print p strip Hp Hne) as [E L].
  unfold parse_path_text. rewrite E. apply parse_print_fuel; auto.
  pose proof (print_tpath_length p). lia.
Qed.

Theorem parse_print_roundtrip p (strip : bool) :
  forallb telt_ok p = true -> p <> [] ->
  parse_path_text 0 (if strip then strip_leading_dot (print_tpath p) else print_tpath p)
  = Some (map erase p).
Proof. intros Hp. apply parse_print_roundtrip_weak, forallb_telt_ok_weaken, Hp. Qed.

Definition starts_with_attr (p : tpath) : bool :=
  match p with TAttr _ :: _ => true | _ => false end.

Corollary parse_print_roundtrip_printer p :
  forallb telt_ok p = true -> p <> [] ->
  parse_path_text 0 (if starts_with_attr p then strip_leading_dot (print_tpath p) else print_tpath p)
  = Some (map erase p).
Proof. apply parse_print_roundtrip. Qed.

(* the empty path is outside the domain: it prints as "" which parses as an error *)
Example empty_path_not_roundtrip : parse_path_text 0 (print_tpath []) = None.
Proof. reflexivity. Qed.

(* the theorem is exactly the third conjunct of C18Check.check_case *)
Corollary check_case_third_conjunct c :
  c_text c = (if c_strip c then strip_leading_dot (print_tpath (c_path c)) else print_tpath (c_path c)) ->
  c_path c <> [] ->
  negb (forallb telt_ok (c_path c))
  || (if otpath_eq_dec (parse_path_text 0 (c_text c)) (Some (map erase (c_path c))) then true else false)
  = true.
Proof.
  intros Et Hne. destruct (forallb telt_ok (c_path c)) eqn:Hok; [|reflexivity].
  cbn [negb orb]. rewrite Et, parse_print_roundtrip by auto.
  destruct (otpath_eq_dec _ _); congruence.
Qed.

(* ================================================================ 6. non-vacuity and the edge of the domain *)

(* .model.layers[3]['drop \out<LF><SOH><DEL>'][10].rate : an index, a string key with a space, a
   backslash, a newline and two control characters, an integer key *)
Definition example_path : tpath :=
  [TAttr [109;111;100;101;108]; TAttr [108;97;121;101;114;115]; TIndex 3;
   TKeyStr [100;114;111;112;32;92;111;117;116;10;1;127]; TKeyInt 10; TAttr [114;97;116;101]].

Example example_roundtrip :
  forallb telt_ok example_path = true /\
  strip_leading_dot (print_tpath example_path) =
    [109;111;100;101;108; 46; 108;97;121;101;114;115; 91;51;93;
     91;39; 100;114;111;112;32; 92;92; 111;117;116; 92;110; 92;120;48;49; 92;120;55;102; 39;93;
     91;49;48;93; 46; 114;97;116;101] /\
  parse_path_text 0 (strip_leading_dot (print_tpath example_path)) =
    Some [TAttr [109;111;100;101;108]; TAttr [108;97;121;101;114;115]; TKeyInt 3;
          TKeyStr [100;114;111;112;32;92;111;117;116;10;1;127]; TKeyInt 10; TAttr [114;97;116;101]] /\
  parse_path_text 0 (print_tpath example_path) = Some (map erase example_path).
Proof. vm_compute. repeat split. Qed.

(* outside the domain the round trip can fail: a key made of a single quote and a double quote
   prints with the single quote escaped by a backslash, and the key regex (anything but the
   delimiter) stops at that escaped quote; a non-identifier attribute name *)
Example both_quotes_not_roundtrip :
  print_tpath [TAttr [120]; TKeyStr [39; 34]] = [46; 120; 91; 39; 92; 39; 34; 39; 93] /\
  parse_path_text 0 (print_tpath [TAttr [120]; TKeyStr [39; 34]]) = None.
Proof. vm_compute. split; reflexivity. Qed.

Example bad_ident_not_roundtrip :
  parse_path_text 0 (print_tpath [TAttr [120; 45]]) = None /\
  parse_path_text 0 (print_tpath [TAttr []; TAttr [120]]) = None.
Proof. vm_compute. split; reflexivity. Qed.

(* one kind of quote is fine (covered by key_ok_weak, not by key_ok) *)
Example single_quote_key_roundtrip :
  telt_ok (TKeyStr [97; 39; 98]) = false /\ telt_ok_weak (TKeyStr [97; 39; 98]) = true /\
  parse_path_text 0 (print_tpath [TAttr [120]; TKeyStr [97; 39; 98]]) = Some [TAttr [120]; TKeyStr [97; 39; 98]].
Proof. vm_compute. repeat split. Qed.

(* repr/unescape needs the ASCII (really: < 256) hypothesis in this model *)
Example unescape_needs_small_codes : unescape 100 (body (repr_str [256])) = None.
Proof. reflexivity. Qed.
