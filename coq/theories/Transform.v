(* Transform: the meaning-preserving transformations of C20.
   L1 (one Buildable): materialize_defaults and with_defaults_trimmed on an argument store.
   L2 (heap): the same lifted over a graph, partial simplification, tag materialisation. *)
From Fiddle Require Import PyBase PySlice Sig ArgStore ArgSpec PyCall Heap Traverse Tags Eq.

(* ------------------------------------------------------------------ L1 *)
Section L1.
  Variable sg : sig.

  (* materialize_defaults on one Buildable: for every parameter with a default value (not a
     dataclass default_factory sentinel) that is not set: positional-only by index, others by name *)
  Fixpoint mat_params (ps : list param) (index : nat) (st : store) : store :=
    match ps with
    | [] => st
    | p :: ps' =>
        let st' :=
          match pdefault p with
          | Some d =>
              if pfactory p then st else
              match pk p with
              | PosOnly => if smem st (kpos index) then st else sset st (kpos index) d
              | PosOrKw | KwOnly => if smem st (KName (pname p)) then st else sset st (KName (pname p)) d
              | _ => st
              end
          | None => st
          end in
        mat_params ps' (S index) st'
    end.
  Definition materialize (st : store) : store := mat_params sg 0 st.

  (* with_defaults_trimmed on one Buildable: named arguments equal to the parameter default *)
  Definition trim (veq : ref -> ref -> bool) (st : store) : store :=
    filter (fun kv =>
              match fst kv with
              | KName n =>
                  match find_param sg n with
                  | Some p =>
                      match pk p, pdefault p with
                      | VarKw, _ => true
                      | PosOnly, _ | VarPos, _ => true   (* a **kwargs entry spelled like that parameter *)
                      | _, Some d => negb (veq d (snd kv))
                      | _, None => true
                      end
                  | None => true
                  end
              | KPos _ => true
              end) st.
End L1.

(* ------------------------------------------------------------------ L2 *)
Section L2.
  Variable e : sigenv.

  Definition on_buildable (f : N -> store -> store) (n : node) : node :=
    match n with
    | NBuildable k fn args tags => NBuildable k fn (f fn args) tags
    | _ => n
    end.

  (* a lazy memoized pre-order walk that overwrites each node with (f node) before enumerating
     its children: materialize_defaults (in place) *)
  Fixpoint map_visit (f : node -> node) (fuel : nat) (hs : heap * list nat) (r : ref)
    : heap * list nat :=
    match r with
    | RA _ => hs
    | RP i =>
        if existsb (Nat.eqb i) (snd hs) then hs else
        match fuel with
        | O => hs
        | S fu =>
            match nth_error (fst hs) i with
            | None => hs
            | Some n =>
                let n' := f n in
                fold_left (fun acc c => map_visit f fu acc c) (children e n')
                          (heap_set (fst hs) i n', i :: snd hs)
            end
        end
    end.

  (* a TaggedValue is left alone: its `tags` parameter is supplied by TaggedValueCls.__build__, and
     giving it a value would make the build fail (repaired in the implementation) *)
  Definition mat_node (n : node) : node :=
    match n with
    | NBuildable BTagged _ _ _ => n
    | _ => on_buildable (fun fn args => materialize (sig_of e fn) args) n
    end.

  Definition materialize_defaults (h : heap) (root : ref) : heap :=
    fst (map_visit mat_node (S (length h)) (h, []) root).

  (* atoms compared with Python ==; a pointer is "equal to the default" only if it is the default
     object itself (structural equality of mutable values is left to the oracle stream) *)
  Definition leaf_eq (a b : ref) : bool :=
    match a, b with
    | RA x, RA y => atom_py_eq x y
    | RP i, RP j => Nat.eqb i j
    | _, _ => false
    end.

  (* with_defaults_trimmed: each Buildable is trimmed (on a copy), then the graph is rebuilt *)
  Definition trim_node (i : nat) (n : node) (rs : list ref) (o : heap) : heap * (ref + fail) :=
    if traversable n then let '(o', r) := alloc o (with_children e n rs) in (o', inl r)
    else (o, inl (RP i)).

  Definition pre_trim (h : heap) : heap :=
    map (on_buildable (fun fn args => trim (sig_of e fn) leaf_eq args)) h.

  Definition with_defaults_trimmed (h : heap) (root : ref) : mstate * (ref + fail) :=
    (* the traversal rebuilds over the trimmed nodes; new objects are appended to the ORIGINAL heap *)
    let ht := pre_trim h in
    match mrun e ht trim_node root with
    | (s, r) => (mk_ms (memo s) (h ++ skipn (length h) (out s)) (log s), r)
    end.

  (* replace_unconfigured_partials_with_callables *)
  Definition nondefault_args (fn : N) (args : store) : store :=
    match ordered_arguments (sig_of e fn) leaf_eq (mkflags true false false true false) args with
    | inl r => r
    | inr _ => args
    end.

  Definition simplify_node (i : nat) (n : node) (rs : list ref) (o : heap) : heap * (ref + fail) :=
    match n with
    | NBuildable BPartial fn args _ =>
        match nondefault_args fn args with
        | [] => (o, inl (RA (ASym fn)))
        | _ => let '(o', r) := alloc o (with_children e n rs) in (o', inl r)
        end
    | _ => if traversable n then let '(o', r) := alloc o (with_children e n rs) in (o', inl r)
           else (o, inl (RP i))
    end.

  Definition simplify_partials (h : heap) (root : ref) : mstate * (ref + fail) :=
    mrun e h simplify_node root.

  (* materialize_tags(buildable) with tags=None: a TaggedValue that has a value becomes that value *)
  Definition mattags_node (i : nat) (n : node) (rs : list ref) (o : heap) : heap * (ref + fail) :=
    match n with
    | NBuildable BTagged fn args tags =>
        match sget (combine (map fst (flat_args e fn args)) rs) (KName 0%N) with
        | Some v => if ref_eqb v NoValue
                    then let '(o', r) := alloc o (with_children e n rs) in (o', inl r)
                    else (o, inl v)
        | None => let '(o', r) := alloc o (with_children e n rs) in (o', inl r)
        end
    | _ => if traversable n then let '(o', r) := alloc o (with_children e n rs) in (o', inl r)
           else (o, inl (RP i))
    end.

  Definition materialize_tags (h : heap) (root : ref) : mstate * (ref + fail) :=
    mrun e h mattags_node root.
End L2.
