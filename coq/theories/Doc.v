(* Doc: the JSON document of experimental/serialization.py as an object table.
   Serialization._serialize walks the value once (memoized by id()); every memoizable object becomes
   one entry of the "objects" table, added after the entries of its items (post-order), and is
   referred to by {"type": "ref", "key": name} wherever it occurs; leaves, enum members, functions
   and classes are written inline.  Names are `<hint>_<n>`, unique, in creation order: here an
   entry's name is its position.  So a document is a heap (entry k holds the shape of the object
   and, for each item, an inline atom or the position of another entry) plus the root reference.
   The metadata objects of the real document (tuple of dict keys, BuildableTraverserMetadata, tag
   sets) are part of the shape of the entry they belong to.

   Deserialization._deserialize walks a document from its root in the same order and memoizes by
   key, so loading is the same memoized copy applied to the table. *)
From Fiddle Require Import PyBase PySlice Sig ArgStore PyCall Heap Traverse Copy.

Local Open Scope nat_scope.

Section Doc.
  Variable e : sigenv.

  Definition unshift_ref (n : nat) (r : ref) : ref :=
    match r with RP i => RP (i - n) | RA a => RA a end.
  Definition unshift_node (n : nat) (x : node) : node :=
    with_children e x (map (unshift_ref n) (children e x)).

  (* the entries are the objects allocated by the memoized copy, re-based at 0 *)
  Definition ser (h : heap) (r : ref) : option (heap * ref) :=
    match mrun e h (copy_node e true) r with
    | (s, inl r') =>
        Some (map (unshift_node (length h)) (skipn (length h) (out s)), unshift_ref (length h) r')
    | (_, inr _) => None
    end.

  (* load_json of a document *)
  Definition deser (d : heap) (rd : ref) : option (heap * ref) := ser d rd.

  Definition roundtrip (h : heap) (r : ref) : option (heap * ref) :=
    match ser h r with Some (d, rd) => deser d rd | None => None end.
  (* dump_json (load_json (dump_json v)) *)
  Definition redump (h : heap) (r : ref) : option (heap * ref) :=
    match roundtrip h r with Some (h2, r2) => ser h2 r2 | None => None end.

  (* the entry that describes input object i *)
  Definition doc_index (h : heap) (r : ref) (i : nat) : option nat :=
    match mrun e h (copy_node e true) r with
    | (s, inl _) =>
        match memo_get (memo s) i with
        | Some (RP j) => if Nat.leb (length h) j then Some (j - length h) else None
        | _ => None
        end
    | (_, inr _) => None
    end.

  (* input objects in the order their entries are written *)
  Definition doc_order (h : heap) (r : ref) : list nat :=
    match mrun e h (copy_node e true) r with
    | (s, inl _) => log s
    | (_, inr _) => []
    end.

  (* "refcounts": one per item slot of a written object that holds the object, one for the root *)
  Definition occurrences (i : nat) (rs : list ref) : nat :=
    length (filter (fun c => match c with RP k => Nat.eqb k i | RA _ => false end) rs).
  Definition doc_refcount (h : heap) (r : ref) (i : nat) : nat :=
    fold_left (fun acc j => match nth_error h j with
                            | Some n => (acc + occurrences i (children e n))%nat
                            | None => acc
                            end) (doc_order h r) (occurrences i [r]).

  (* every reachable node can be written: containers and Buildables (sets hold atoms only) *)
  Definition writable (n : node) : bool :=
    match n with
    | NSet _ _ => true
    | _ => traversable n
    end.
End Doc.
