(* Select_proofs: NodeSelection (select / set / replace) and TagSelection iteration, proved on
   well-formed heaps.  Model: Tags.post_order, select_ids, select_set, rp_visit, tag_iter. *)
From Fiddle Require Import PyBase PySlice Sig ArgStore PyCall Heap Traverse Build Build_stmt
  Traverse_proofs Build_proofs Tags.
From Coq Require Import List Arith Lia Bool.
Import ListNotations.
Local Open Scope nat_scope.

(* ------------------------------------------------------------------------------------------ *)
(* 3. what a selector matches *)

Lemma existsb_Neqb_in (a : N) l : existsb (N.eqb a) l = true <-> In a l.
Proof.
  rewrite existsb_exists. split.
  - intros (x & Hin & Hx). apply N.eqb_eq in Hx. subst. exact Hin.
  - intros Hin. exists a. split; [exact Hin | apply N.eqb_refl].
Qed.

Theorem matches_char subclasses classes sel n :
  matches subclasses classes sel n = true <->
  exists k fn args tags,
    n = NBuildable k fn args tags /\ btype_ok (s_btype sel) k = true /\
    (fn = s_fn sel \/
     (s_match_sub sel = true /\ In (s_fn sel) classes /\ In fn classes /\
      pair_mem subclasses fn (s_fn sel) = true)).
Proof.
  split.
  - destruct n; cbn [matches]; try discriminate. intros Hm.
    apply andb_true_iff in Hm. destruct Hm as [Hb Hm].
    exists k, fn, args, tags. split; [reflexivity |]. split; [exact Hb |].
    apply orb_true_iff in Hm. destruct Hm as [Hm|Hm].
    + left. apply N.eqb_eq. exact Hm.
    + right. repeat (apply andb_true_iff in Hm; destruct Hm as [Hm ?Hx]).
      repeat split; auto; apply existsb_Neqb_in; assumption.
  - intros (k & fn & args & tags & Hn & Hb & Hm). subst n. cbn [matches].
    rewrite Hb. cbn [andb]. apply orb_true_iff. destruct Hm as [Hm|(H1 & H2 & H3 & H4)].
    + left. apply N.eqb_eq. exact Hm.
    + right. rewrite H1, H4. cbn [andb].
      rewrite (proj2 (existsb_Neqb_in _ _) H2), (proj2 (existsb_Neqb_in _ _) H3). reflexivity.
Qed.

Lemma matches_buildable subclasses classes sel n :
  matches subclasses classes sel n = true -> exists k fn args tags, n = NBuildable k fn args tags.
Proof.
  intros Hm. apply matches_char in Hm. destruct Hm as (k & fn & args & tags & Hn & _). eauto.
Qed.

(* ------------------------------------------------------------------------------------------ *)
(* 1. post_order: every reachable object once, children before parents *)

Lemma nodup_snoc {A} (l : list A) x : NoDup l -> ~ In x l -> NoDup (l ++ [x]).
Proof.
  intros Hnd Hnot. apply NoDup_rev in Hnd. rewrite <- (rev_involutive (l ++ [x])).
  apply NoDup_rev. rewrite rev_unit. constructor; [| exact Hnd].
  rewrite <- in_rev. exact Hnot.
Qed.

Section PostOrder.
  Variable e : sigenv.
  Variable h : heap.

  Definition pgo (f : nat) (acc : list nat * list nat) (cs : list ref) : list nat * list nat :=
    fold_left (fun a c => post_order e f h a c) cs acc.

  Lemma post_order_atom f acc a : post_order e f h acc (RA a) = acc.
  Proof. destruct f; reflexivity. Qed.

  Lemma post_order_seen f acc i :
    existsb (Nat.eqb i) (fst acc) = true -> post_order e f h acc (RP i) = acc.
  Proof. intros Hs. destruct f; cbn [post_order]; rewrite Hs; reflexivity. Qed.

  Lemma post_order_S f acc i n :
    existsb (Nat.eqb i) (fst acc) = false -> nth_error h i = Some n ->
    post_order e (S f) h acc (RP i) =
    (fst (pgo f (i :: fst acc, snd acc) (children e n)),
     snd (pgo f (i :: fst acc, snd acc) (children e n)) ++ [i]).
  Proof.
    intros Hs Hn. cbn [post_order]. rewrite Hs, Hn. unfold pgo.
    destruct (fold_left _ _ _) as [s o]. reflexivity.
  Qed.

  Lemma existsb_nat_in i l : existsb (Nat.eqb i) l = true <-> In i l.
  Proof.
    rewrite existsb_exists. split.
    - intros (x & Hin & Hx). apply Nat.eqb_eq in Hx. subst. exact Hin.
    - intros Hin. exists i. split; [exact Hin | apply Nat.eqb_refl].
  Qed.

  Lemma existsb_nat_notin i l : existsb (Nat.eqb i) l = false <-> ~ In i l.
  Proof.
    rewrite <- existsb_nat_in. destruct (existsb (Nat.eqb i) l); split; congruence.
  Qed.

  (* the state: every finished object is seen; what is seen below B is finished; finished objects
     are listed once, after everything they point to *)
  Definition po_inv (B : nat) (acc : list nat * list nat) : Prop :=
    (forall k, In k (snd acc) -> In k (fst acc)) /\
    (forall k, k < B -> In k (fst acc) -> In k (snd acc)) /\
    NoDup (snd acc) /\
    ordered e h (snd acc).

  Definition po_step (R : nat -> Prop) (acc acc' : list nat * list nat) : Prop :=
    (exists l, snd acc' = snd acc ++ l /\ forall k, In k l -> R k /\ ~ In k (fst acc)) /\
    (forall k, In k (fst acc) -> In k (fst acc')) /\
    (forall k, In k (fst acc') -> In k (fst acc) \/ In k (snd acc')).

  Definition po_spec (f : nat) : Prop :=
    forall B acc r,
      (forall i, r = RP i -> i < f /\ i < B /\ i < length h) -> po_inv B acc ->
      po_inv B (post_order e f h acc r) /\
      po_step (creach e h r) acc (post_order e f h acc r) /\
      (forall k, creach e h r k -> In k (snd (post_order e f h acc r))).

  Lemma po_step_refl R acc : po_step R acc acc.
  Proof.
    split; [exists []; split; [rewrite app_nil_r; reflexivity | intros k []] |].
    split; [auto | auto].
  Qed.

  Lemma pgo_spec f (Hvis : po_spec f) B : forall cs acc,
    (forall j, In (RP j) cs -> j < f /\ j < B /\ j < length h) -> po_inv B acc ->
    po_inv B (pgo f acc cs) /\
    po_step (fun k => exists c, In c cs /\ creach e h c k) acc (pgo f acc cs) /\
    (forall c k, In c cs -> creach e h c k -> In k (snd (pgo f acc cs))).
  Proof.
    induction cs as [|c cs IH]; intros acc Hcs Hinv.
    - cbn [pgo fold_left]. split; [exact Hinv |]. split; [apply po_step_refl | intros c k []].
    - unfold pgo. cbn [fold_left]. fold (pgo f (post_order e f h acc c) cs).
      destruct (Hvis B acc c) as (Hinv1 & Hstep1 & Hcov1); [| exact Hinv |].
      { intros i Hi. subst c. apply Hcs. left; reflexivity. }
      destruct (IH (post_order e f h acc c)) as (Hinv2 & Hstep2 & Hcov2);
        [intros j Hj; apply Hcs; right; exact Hj | exact Hinv1 |].
      split; [exact Hinv2 |].
      destruct Hstep1 as ((l1 & Hl1 & Hr1) & Hs1 & Hn1).
      destruct Hstep2 as ((l2 & Hl2 & Hr2) & Hs2 & Hn2).
      split.
      + split.
        { exists (l1 ++ l2). split; [rewrite Hl2, Hl1, app_assoc; reflexivity |].
          intros k Hk. apply in_app_or in Hk. destruct Hk as [Hk|Hk].
          - destruct (Hr1 k Hk) as [Hc Hnot]. split; [| exact Hnot].
            exists c. split; [left; reflexivity | exact Hc].
          - destruct (Hr2 k Hk) as [(c0 & Hc0 & Hc) Hnot]. split.
            + exists c0. split; [right; exact Hc0 | exact Hc].
            + intros Hin. apply Hnot. apply Hs1. exact Hin. }
        split; [intros k Hk; apply Hs2, Hs1; exact Hk |].
        intros k Hk. destruct (Hn2 k Hk) as [Hk1|Hk1]; [| right; exact Hk1].
        destruct (Hn1 k Hk1) as [Hk0|Hk0]; [left; exact Hk0 |].
        right. rewrite Hl2. apply in_or_app. left; exact Hk0.
      + intros c0 k [Heq|Hin] Hc.
        * subst c0. rewrite Hl2. apply in_or_app. left. apply Hcov1. exact Hc.
        * eapply Hcov2; eauto.
  Qed.

  Lemma post_order_spec (Hwf : wf_b e h = true) : forall f, po_spec f.
  Proof.
    induction f as [|f IH]; intros B acc r Hr Hinv.
    - destruct r as [a|i]; [| destruct (Hr i eq_refl); lia].
      rewrite post_order_atom. split; [exact Hinv |]. split; [apply po_step_refl |].
      intros k Hc. exfalso. eapply creach_atom; eauto.
    - destruct r as [a|i].
      { rewrite post_order_atom. split; [exact Hinv |]. split; [apply po_step_refl |].
        intros k Hc. exfalso. eapply creach_atom; eauto. }
      destruct (Hr i eq_refl) as (Hif & HiB & Hih).
      destruct Hinv as (Hsub & Hbelow & Hnd & Hord).
      destruct (existsb (Nat.eqb i) (fst acc)) eqn:Hs.
      + rewrite post_order_seen by exact Hs.
        split; [repeat split; assumption |]. split; [apply po_step_refl |].
        intros k Hc. apply existsb_nat_in in Hs.
        eapply closed_creach; eauto.
      + destruct (nth_error h i) as [n|] eqn:Hn; [| apply nth_error_None in Hn; lia].
        rewrite (post_order_S f acc i n Hs Hn).
        apply existsb_nat_notin in Hs.
        assert (Hlt : forall j, In (RP j) (children e n) -> j < i).
        { intros j Hj. eapply wf_children_lt; eauto. }
        assert (Hinv0 : po_inv i (i :: fst acc, snd acc)).
        { cbn [fst snd]. split; [intros k Hk; right; auto |].
          split; [| split; assumption].
          intros k Hk [Heq|Hin]; [lia |]. apply Hbelow; [lia | exact Hin]. }
        destruct (pgo_spec f IH i (children e n) (i :: fst acc, snd acc))
          as (Hinv1 & Hstep1 & Hcov1);
          [intros j Hj; specialize (Hlt j Hj); lia | exact Hinv0 |].
        destruct (pgo f (i :: fst acc, snd acc) (children e n)) as [seen' order'] eqn:Hg.
        destruct Hinv1 as (Hsub1 & Hbelow1 & Hnd1 & Hord1).
        destruct Hstep1 as ((l1 & Hl1 & Hr1) & Hs1 & Hn1).
        cbn [fst snd] in *.
        assert (Hl1lt : forall k, In k l1 -> k < i).
        { intros k Hk. destruct (Hr1 k Hk) as [(c & Hc & Hck) _].
          destruct c as [a|j]; [exfalso; eapply creach_atom; eauto |].
          pose proof (creach_le e h Hwf _ _ Hck j eq_refl). specialize (Hlt j Hc). lia. }
        assert (Hnotin : ~ In i order').
        { rewrite Hl1. intros Hin. apply in_app_or in Hin. destruct Hin as [Hin|Hin].
          - apply Hs. apply Hsub. exact Hin.
          - specialize (Hl1lt i Hin). lia. }
        assert (Hch : forall j, In (RP j) (children e n) -> In j order').
        { intros j Hj. apply (Hcov1 (RP j) j Hj). constructor. }
        split; [| split].
        * split; [| split; [| split]].
          -- intros k Hk. apply in_app_or in Hk. destruct Hk as [Hk|[Hk|[]]]; [auto |].
             subst k. apply Hs1. left; reflexivity.
          -- intros k Hk Hin. apply in_or_app.
             destruct (Nat.lt_trichotomy k i) as [Hki|[Hki|Hki]].
             ++ left. apply Hbelow1; assumption.
             ++ right. left. auto.
             ++ left. destruct (Hn1 k Hin) as [[Heq|Hin0]|Hin0]; [lia | | exact Hin0].
                rewrite Hl1. apply in_or_app. left. apply Hbelow; assumption.
          -- apply nodup_snoc; assumption.
          -- apply ordered_snoc; [exact Hord1 |].
             intros j (n0 & Hn0 & Hj). rewrite Hn in Hn0. inversion Hn0; subst n0. auto.
        * split.
          { exists (l1 ++ [i]). split; [rewrite Hl1, app_assoc; reflexivity |].
            intros k Hk. apply in_app_or in Hk. destruct Hk as [Hk|[Hk|[]]].
            - destruct (Hr1 k Hk) as [(c & Hc & Hck) Hnot]. split.
              + eapply cr_step; eauto.
              + intros Hin. apply Hnot. right; exact Hin.
            - subst k. split; [constructor | exact Hs]. }
          split; [intros k Hk; apply Hs1; right; exact Hk |].
          intros k Hk. destruct (Hn1 k Hk) as [[Heq|Hin0]|Hin0].
          -- subst k. right. apply in_or_app. right; left; reflexivity.
          -- left; exact Hin0.
          -- right. apply in_or_app. left; exact Hin0.
        * intros k Hc. apply in_or_app. inversion Hc as [|? n0 c ? Hn0 Hc0 Hck]; subst.
          -- right; left; reflexivity.
          -- left. rewrite Hn in Hn0. inversion Hn0; subst n0. eapply Hcov1; eauto.
  Qed.

  Definition po_order (r : ref) : list nat := snd (post_order e (S (length h)) h ([], []) r).

  Lemma po_inv_init B : po_inv B ([], []).
  Proof.
    split; [intros k [] |]. split; [intros k _ [] |]. split; [constructor |].
    intros l1 i l2 Heq. destruct l1; discriminate.
  Qed.

  Lemma po_run (Hwf : wf_b e h = true) r (Hroot : root_ok h r) :
    po_inv (S (length h)) (post_order e (S (length h)) h ([], []) r) /\
    po_step (creach e h r) ([], []) (post_order e (S (length h)) h ([], []) r) /\
    (forall k, creach e h r k -> In k (po_order r)).
  Proof.
    apply (post_order_spec Hwf (S (length h)) (S (length h)) ([], []) r).
    - intros i Hi. subst r. cbn [root_ok] in Hroot. lia.
    - apply po_inv_init.
  Qed.

  Theorem post_order_nodup (Hwf : wf_b e h = true) r (Hroot : root_ok h r) : NoDup (po_order r).
  Proof. destruct (po_run Hwf r Hroot) as ((_ & _ & Hnd & _) & _). exact Hnd. Qed.

  Theorem post_order_exact (Hwf : wf_b e h = true) r (Hroot : root_ok h r) i :
    In i (po_order r) <-> creach e h r i.
  Proof.
    destruct (po_run Hwf r Hroot) as (_ & ((l & Hl & Hr) & _) & Hcov). split; [| apply Hcov].
    unfold po_order. rewrite Hl. cbn [snd app]. intros Hin. apply Hr. exact Hin.
  Qed.

  Theorem post_order_exact_reach (Hwf : wf_b e h = true) (Hk : keys_ok h) r (Hroot : root_ok h r) i :
    In i (po_order r) <-> reach e h r i.
  Proof.
    rewrite (post_order_exact Hwf r Hroot). split.
    - apply creach_reach. apply keys_ok_elts_ok. exact Hk.
    - apply reach_creach.
  Qed.

  Theorem post_order_children_first (Hwf : wf_b e h = true) r (Hroot : root_ok h r) i n j :
    In i (po_order r) -> nth_error h i = Some n -> In (RP j) (children e n) ->
    before j i (po_order r).
  Proof.
    destruct (po_run Hwf r Hroot) as ((_ & _ & _ & Hord) & _). intros Hin Hn Hj.
    apply in_split in Hin. destruct Hin as (l1 & l2 & Hl).
    assert (Hj1 : In j l1).
    { eapply Hord; [exact Hl |]. exists n. split; assumption. }
    apply in_split in Hj1. destruct Hj1 as (a & b & Hab).
    exists a, b, l2. fold (po_order r). rewrite Hl, Hab, <- app_assoc. reflexivity.
  Qed.
End PostOrder.

(* ------------------------------------------------------------------------------------------ *)
(* 2. select: each reachable matching Buildable exactly once, and nothing else *)

Section Select.
  Variable e : sigenv.
  Variable subclasses : list (N * N).
  Variable classes : list N.
  Variable sel : selector.
  Variable h : heap.

  Definition match_at (i : nat) : bool :=
    match nth_error h i with Some n => matches subclasses classes sel n | None => false end.

  Lemma select_ids_eq r :
    select_ids e subclasses classes sel h r = filter match_at (po_order e h r).
  Proof. reflexivity. Qed.

  Theorem select_nodup (Hwf : wf_b e h = true) r (Hroot : root_ok h r) :
    NoDup (select_ids e subclasses classes sel h r).
  Proof. rewrite select_ids_eq. apply NoDup_filter. apply post_order_nodup; assumption. Qed.

  Theorem select_exact (Hwf : wf_b e h = true) r (Hroot : root_ok h r) i :
    In i (select_ids e subclasses classes sel h r) <->
    creach e h r i /\ exists n, nth_error h i = Some n /\ matches subclasses classes sel n = true.
  Proof.
    rewrite select_ids_eq, filter_In, (post_order_exact e h Hwf r Hroot). unfold match_at.
    split; intros [Hc Hm]; (split; [exact Hc |]).
    - destruct (nth_error h i) as [n|]; [| discriminate]. exists n. split; [reflexivity | exact Hm].
    - destruct Hm as (n & Hn & Hm). rewrite Hn. exact Hm.
  Qed.

  Theorem select_exact_reach (Hwf : wf_b e h = true) (Hk : keys_ok h) r (Hroot : root_ok h r) i :
    In i (select_ids e subclasses classes sel h r) <->
    reach e h r i /\ exists n, nth_error h i = Some n /\ matches subclasses classes sel n = true.
  Proof.
    rewrite (select_exact Hwf r Hroot). split; intros [Hc Hm]; (split; [| exact Hm]).
    - apply creach_reach; [apply keys_ok_elts_ok; exact Hk | exact Hc].
    - apply reach_creach; exact Hc.
  Qed.

  (* the order of the yielded ids: a selected node comes after the selected nodes nested in it *)
  Theorem select_children_first (Hwf : wf_b e h = true) r (Hroot : root_ok h r) i n j :
    In i (po_order e h r) -> nth_error h i = Some n -> In (RP j) (children e n) ->
    before j i (po_order e h r).
  Proof. apply post_order_children_first; assumption. Qed.
End Select.

(* ------------------------------------------------------------------------------------------ *)
(* 4. NodeSelection.set *)

Lemma heap_set_length h : forall i n, length (heap_set h i n) = length h.
Proof.
  induction h as [|x h IH]; intros i n; [destruct i; reflexivity |].
  destruct i; cbn [heap_set length]; [reflexivity | rewrite IH; reflexivity].
Qed.

Lemma heap_set_same h : forall i n, i < length h -> nth_error (heap_set h i n) i = Some n.
Proof.
  induction h as [|x h IH]; intros i n Hi; cbn [length] in Hi; [lia |].
  destruct i; cbn [heap_set nth_error]; [reflexivity | apply IH; lia].
Qed.

Lemma heap_set_other h : forall i n j, i <> j -> nth_error (heap_set h i n) j = nth_error h j.
Proof.
  induction h as [|x h IH]; intros i n j Hij; [destruct i; reflexivity |].
  destruct i, j; cbn [heap_set nth_error]; try reflexivity; [lia | apply IH; lia].
Qed.

Section SelectSet.
  Variable kvs : list (N * ref).

  Definition set_attrs (args : store) : store :=
    fold_left (fun a kv => sset a (KName (fst kv)) (snd kv)) kvs args.

  Definition set_step (h : heap) (i : nat) : heap :=
    match nth_error h i with
    | Some (NBuildable k fn args tags) => heap_set h i (NBuildable k fn (set_attrs args) tags)
    | _ => h
    end.

  Lemma set_step_length h i : length (set_step h i) = length h.
  Proof.
    unfold set_step. destruct (nth_error h i) as [[]|]; try reflexivity. apply heap_set_length.
  Qed.

  Lemma set_step_other h i j : i <> j -> nth_error (set_step h i) j = nth_error h j.
  Proof.
    intros Hij. unfold set_step. destruct (nth_error h i) as [[]|]; try reflexivity.
    apply heap_set_other. exact Hij.
  Qed.

  Lemma set_step_same h i k fn args tags :
    nth_error h i = Some (NBuildable k fn args tags) ->
    nth_error (set_step h i) i = Some (NBuildable k fn (set_attrs args) tags).
  Proof.
    intros Hn. unfold set_step. rewrite Hn. apply heap_set_same.
    apply nth_error_Some. congruence.
  Qed.

  Lemma set_fold_length l : forall h, length (fold_left set_step l h) = length h.
  Proof.
    induction l as [|i l IH]; intros h; cbn [fold_left]; [reflexivity |].
    rewrite IH. apply set_step_length.
  Qed.

  Lemma set_fold_other l j : ~ In j l -> forall h, nth_error (fold_left set_step l h) j = nth_error h j.
  Proof.
    induction l as [|i l IH]; intros Hnot h; cbn [fold_left]; [reflexivity |].
    rewrite IH by (intros Hin; apply Hnot; right; exact Hin).
    apply set_step_other. intros Heq. apply Hnot. left; exact Heq.
  Qed.

  Lemma set_fold_same l : NoDup l -> forall h i k fn args tags,
    In i l -> nth_error h i = Some (NBuildable k fn args tags) ->
    nth_error (fold_left set_step l h) i = Some (NBuildable k fn (set_attrs args) tags).
  Proof.
    induction 1 as [|a l Hnotin Hnd IH]; intros h i k fn args tags Hin Hn; [destruct Hin |].
    cbn [fold_left]. destruct (Nat.eq_dec a i) as [Heq|Hne].
    - subst a. rewrite set_fold_other by exact Hnotin. apply set_step_same. exact Hn.
    - destruct Hin as [Heq|Hin]; [congruence |].
      apply IH; [exact Hin |]. rewrite set_step_other by exact Hne. exact Hn.
  Qed.
End SelectSet.

Lemma select_set_eq e subclasses classes sel h r kvs :
  select_set e subclasses classes sel h r kvs =
  fold_left (set_step kvs) (select_ids e subclasses classes sel h r) h.
Proof. reflexivity. Qed.

Theorem select_set_exact e subclasses classes sel h r kvs
  (Hwf : wf_b e h = true) (Hroot : root_ok h r) :
  let ids := select_ids e subclasses classes sel h r in
  let h' := select_set e subclasses classes sel h r kvs in
  length h' = length h /\
  (forall i, ~ In i ids -> nth_error h' i = nth_error h i) /\
  (forall i k fn args tags, In i ids -> nth_error h i = Some (NBuildable k fn args tags) ->
     nth_error h' i =
     Some (NBuildable k fn (fold_left (fun a kv => sset a (KName (fst kv)) (snd kv)) kvs args) tags)).
Proof.
  cbn zeta. rewrite select_set_eq. split; [apply set_fold_length |]. split.
  - intros i Hnot. apply set_fold_other. exact Hnot.
  - intros i k fn args tags Hin Hn. apply set_fold_same; [| exact Hin | exact Hn].
    apply select_nodup; assumption.
Qed.

(* every selected id holds a Buildable, so the third clause covers all of them *)
Lemma select_ids_buildable e subclasses classes sel h r i :
  In i (select_ids e subclasses classes sel h r) ->
  exists k fn args tags, nth_error h i = Some (NBuildable k fn args tags) /\
                         matches subclasses classes sel (NBuildable k fn args tags) = true.
Proof.
  rewrite select_ids_eq, filter_In. unfold match_at. intros [_ Hm].
  destruct (nth_error h i) as [n|]; [| discriminate].
  destruct (matches_buildable _ _ _ _ Hm) as (k & fn & args & tags & Hn). subst n.
  exists k, fn, args, tags. split; [reflexivity | exact Hm].
Qed.

(* ------------------------------------------------------------------------------------------ *)
(* 6. TagSelection.__iter__ *)

Section TagIter.
  Variable e : sigenv.
  Variable subtags : list (N * N).

  (* the default a tagged parameter falls back to *)
  Definition tag_default (fn : N) (key : skey) : ref :=
    match key with
    | KName nm =>
        match find_param (sig_of e fn) nm with
        | Some p => if pfactory p then NoValue
                    else match pdefault p with Some d => d | None => NoValue end
        | None => NoValue
        end
    | KPos z =>
        match nth_error (sig_of e fn) (Z.to_nat z) with
        | Some p => if is_prefix_kind (pk p)
                    then match pdefault p with Some d => d | None => NoValue end
                    else NoValue
        | None => NoValue
        end
    end.

  Definition tag_value (fn : N) (args : store) (key : skey) : ref :=
    match sget args key with Some v => v | None => tag_default fn key end.

  Definition tagged_keys (T : N) (tags : list (skey * list N)) : list skey :=
    map fst (filter (fun kt => tag_matches subtags T (snd kt)) tags).

  Definition node_tag_values (h : heap) (T : N) (i : nat) : list ref :=
    match nth_error h i with
    | Some (NBuildable _ fn args tags) => map (tag_value fn args) (tagged_keys T tags)
    | _ => []
    end.

  Lemma tagged_flat_map fn args T tags :
    flat_map (fun kt : skey * list N =>
                if tag_matches subtags T (snd kt) then [tag_value fn args (fst kt)] else []) tags =
    map (tag_value fn args) (tagged_keys T tags).
  Proof.
    unfold tagged_keys. induction tags as [|kt tags IH]; cbn [flat_map filter map]; [reflexivity |].
    destruct (tag_matches subtags T (snd kt)); cbn [map app]; rewrite IH; reflexivity.
  Qed.

  (* the values are listed node by node in post-order, and inside a node in the order of its
     __argument_tags__; one value per tagged argument *)
  Theorem tag_iter_flat h r T :
    tag_iter e subtags h r T = flat_map (node_tag_values h T) (po_order e h r).
  Proof.
    unfold tag_iter, po_order. apply flat_map_ext. intros i. unfold node_tag_values.
    destruct (nth_error h i) as [[]|]; try reflexivity.
    rewrite <- tagged_flat_map. reflexivity.
  Qed.

  Theorem tag_iter_length h r T :
    length (tag_iter e subtags h r T) =
    list_sum (map (fun i => match nth_error h i with
                            | Some (NBuildable _ _ _ tags) =>
                                length (filter (fun kt => tag_matches subtags T (snd kt)) tags)
                            | _ => 0
                            end) (po_order e h r)).
  Proof.
    rewrite tag_iter_flat. induction (po_order e h r) as [|i l IH]; cbn [flat_map map list_sum]; [reflexivity |].
    rewrite app_length, IH. f_equal. unfold node_tag_values, tagged_keys.
    destruct (nth_error h i) as [[]|]; try reflexivity. rewrite !map_length. reflexivity.
  Qed.

  Theorem tag_iter_in h r T (Hwf : wf_b e h = true) (Hroot : root_ok h r) v :
    In v (tag_iter e subtags h r T) <->
    exists i k fn args tags key ts,
      creach e h r i /\ nth_error h i = Some (NBuildable k fn args tags) /\
      In (key, ts) tags /\ tag_matches subtags T ts = true /\
      (sget args key = Some v \/ (sget args key = None /\ v = tag_default fn key)).
  Proof.
    rewrite tag_iter_flat, in_flat_map. split.
    - intros (i & Hi & Hv). apply (post_order_exact e h Hwf r Hroot) in Hi.
      unfold node_tag_values in Hv. destruct (nth_error h i) as [[]|] eqn:Hn; try destruct Hv.
      apply in_map_iff in Hv. destruct Hv as (key & Hv & Hkey).
      unfold tagged_keys in Hkey. apply in_map_iff in Hkey. destruct Hkey as ([key' ts] & Hk & Hin).
      cbn [fst] in Hk. subst key'. apply filter_In in Hin. destruct Hin as [Hin Hm]. cbn [snd] in Hm.
      exists i, k, fn, args, tags, key, ts. repeat (split; [assumption |]).
      unfold tag_value in Hv. destruct (sget args key) as [w|]; [left; congruence | right; auto].
    - intros (i & k & fn & args & tags & key & ts & Hc & Hn & Hin & Hm & Hv).
      exists i. split; [apply (post_order_exact e h Hwf r Hroot); exact Hc |].
      unfold node_tag_values. rewrite Hn. apply in_map_iff. exists key. split.
      + unfold tag_value. destruct Hv as [Hv|[Hv Hd]]; rewrite Hv; auto.
      + unfold tagged_keys. apply in_map_iff. exists (key, ts). split; [reflexivity |].
        apply filter_In. split; [exact Hin | exact Hm].
  Qed.
End TagIter.

(* ------------------------------------------------------------------------------------------ *)
(* 5. NodeSelection.replace(value, deepcopy=False) *)

Definition is_bld (n : node) : bool :=
  match n with NBuildable _ _ _ _ => true | _ => false end.

Lemma nontrav_children' e n : traversable n = false -> children e n = [].
Proof. destruct n; cbn [traversable children]; intros; try reflexivity; discriminate. Qed.

Lemma map_ref_ext m m' c rc :
  (forall j rj, memo_get m j = Some rj -> memo_get m' j = Some rj) ->
  map_ref m c = Some rc -> map_ref m' c = Some rc.
Proof. intros Hext. destruct c as [a|j]; cbn [map_ref]; auto. Qed.

Section Replace.
  Variable e : sigenv.
  Variable subclasses : list (N * N).
  Variable classes : list N.
  Variable sel : selector.
  Variable x : ref.
  Variable h : heap.
  Hypothesis Hwf : wf_b e h = true.

  Notation mt := (matches subclasses classes sel).
  Notation visit := (rp_visit e subclasses classes).
  Notation rstate := (list (nat * ref) * heap)%type.

  Definition rgo (f : nat) (a : rstate * list ref) (cs : list ref) : rstate * list ref :=
    fold_left (fun a c => let '(s1, r1) := visit f sel x (fst a) c in (s1, snd a ++ [r1])) cs a.

  Lemma rgo_cons f a c cs :
    rgo f a (c :: cs) =
    rgo f (fst (visit f sel x (fst a) c), snd a ++ [snd (visit f sel x (fst a) c)]) cs.
  Proof. unfold rgo. cbn [fold_left]. destruct (visit f sel x (fst a) c). reflexivity. Qed.

  Lemma rp_atom f st a : visit f sel x st (RA a) = (st, RA a).
  Proof. destruct f; reflexivity. Qed.

  Lemma rp_hit f st i r' : memo_get (fst st) i = Some r' -> visit f sel x st (RP i) = (st, r').
  Proof. intros Hm. destruct f; cbn [rp_visit]; rewrite Hm; reflexivity. Qed.

  Lemma rp_S f (m : list (nat * ref)) (o : heap) i n :
    memo_get m i = None -> nth_error o i = Some n ->
    visit (S f) sel x (m, o) (RP i) =
    if mt n then (((i, x) :: m, o), x) else
    if traversable n then
      let st1 := fst (rgo f ((m, o), []) (children e n)) in
      let rs := snd (rgo f ((m, o), []) (children e n)) in
      if is_bld n
      then (((i, RP i) :: fst st1, heap_set (snd st1) i (with_children e n rs)), RP i)
      else (((i, RP (length (snd st1))) :: fst st1, snd st1 ++ [with_children e n rs]),
            RP (length (snd st1)))
    else (((i, RP i) :: m, o), RP i).
  Proof.
    intros Hm Hn. cbn [rp_visit fst snd]. rewrite Hm, Hn.
    destruct (mt n); [reflexivity |]. destruct (traversable n); [| reflexivity].
    unfold rgo. cbn zeta. destruct (fold_left _ _ _) as [st1 rs]. cbn [fst snd].
    destruct n; reflexivity.
  Qed.

  (* reachability that does not look inside matching nodes *)
  Inductive sreach : ref -> nat -> Prop :=
  | sr_refl i : sreach (RP i) i
  | sr_step i n c k : nth_error h i = Some n -> mt n = false -> In c (children e n) ->
                      sreach c k -> sreach (RP i) k.

  Lemma sreach_creach r k : sreach r k -> creach e h r k.
  Proof. induction 1; [constructor | eapply cr_step; eauto]. Qed.

  Lemma sreach_atom a k : ~ sreach (RA a) k.
  Proof. intros H; inversion H. Qed.

  (* what a memo entry says *)
  Definition entry_ok (m : list (nat * ref)) (o : heap) (i : nat) (ri : ref) : Prop :=
    exists n, nth_error h i = Some n /\
      if mt n then ri = x
      else if traversable n then
        exists rs, map (map_ref m) (children e n) = map Some rs /\
          if is_bld n then ri = RP i /\ nth_error o i = Some (with_children e n rs)
          else exists k, ri = RP k /\ length h <= k /\ nth_error o k = Some (with_children e n rs)
      else ri = RP i.

  (* a traversable container that is not a Buildable: re-created by replace *)
  Definition is_cont (i : nat) : Prop :=
    exists n, nth_error h i = Some n /\ traversable n = true /\ is_bld n = false.

  Lemma mt_not_bld n : is_bld n = false -> mt n = false.
  Proof.
    intros Hb. destruct (mt n) eqn:Hmt; [| reflexivity].
    destruct (matches_buildable _ _ _ _ Hmt) as (k & fn & a & t & Heq). subst n. discriminate.
  Qed.

  Lemma cont_entry_lt m o i ri : entry_ok m o i ri -> is_cont i ->
    exists k, ri = RP k /\ k < length o.
  Proof.
    intros (n & Hn & Hcase) (n' & Hn' & Htr & Hb). rewrite Hn in Hn'. inversion Hn'; subst n'.
    rewrite (mt_not_bld n Hb), Htr in Hcase. destruct Hcase as (rs & _ & Hcase). rewrite Hb in Hcase.
    destruct Hcase as (k & Hr & _ & Ho). exists k. split; [exact Hr |].
    apply nth_error_Some. congruence.
  Qed.

  Definition rinv (st : rstate) : Prop :=
    length h <= length (snd st) /\
    NoDup (map fst (fst st)) /\
    (forall i ri, memo_get (fst st) i = Some ri -> entry_ok (fst st) (snd st) i ri) /\
    (forall i n, nth_error h i = Some n ->
                 memo_get (fst st) i = None \/ mt n = true \/ is_bld n = false ->
                 nth_error (snd st) i = Some n) /\
    (forall i j ri rj, memo_get (fst st) i = Some ri -> memo_get (fst st) j = Some rj ->
                       is_cont i -> is_cont j -> i <> j -> ri <> rj).

  Definition rext (R : nat -> Prop) (st st' : rstate) : Prop :=
    (forall j rj, memo_get (fst st) j = Some rj -> memo_get (fst st') j = Some rj) /\
    (forall k v, memo_get (fst st) k = None -> memo_get (fst st') k = Some v -> R k).

  Lemma rext_refl R st : rext R st st.
  Proof. split; [auto |]. intros k v H1 H2. congruence. Qed.

  Lemma rinv_add (m : list (nat * ref)) (o : heap) i ri (o' : heap) :
    rinv (m, o) -> memo_get m i = None -> length o <= length o' ->
    (forall k, k <> i -> k < length o -> nth_error o' k = nth_error o k) ->
    entry_ok ((i, ri) :: m) o' i ri ->
    (forall n, nth_error h i = Some n -> mt n = true \/ is_bld n = false -> nth_error o' i = Some n) ->
    (is_cont i -> ri = RP (length o)) ->
    rinv ((i, ri) :: m, o').
  Proof.
    intros (Hlen & Hnd & Hent & Hold & Hinj) Hm Hlen' Hsame Hei Hoi Hfresh. cbn [fst snd] in *.
    pose proof (memo_get_none_notin m i Hm) as Hnotin.
    assert (Hih : i < length h).
    { destruct Hei as (n & Hn & _). apply nth_error_Some. congruence. }
    unfold rinv. cbn [fst snd].
    split; [lia |]. split; [cbn [map fst]; constructor; assumption |]. split; [| split].
    3:{ intros a b ra rb Ha Hb Hca Hcb Hab. cbn [memo_get] in Ha, Hb.
        destruct (Nat.eqb a i) eqn:Hai; destruct (Nat.eqb b i) eqn:Hbi.
        - apply Nat.eqb_eq in Hai, Hbi. congruence.
        - apply Nat.eqb_eq in Hai. subst a. inversion Ha; subst ra.
          destruct (cont_entry_lt m o b rb (Hent b rb Hb) Hcb) as (k & Hk & Hlt).
          rewrite (Hfresh Hca), Hk. intros Heq. inversion Heq. lia.
        - apply Nat.eqb_eq in Hbi. subst b. inversion Hb; subst rb.
          destruct (cont_entry_lt m o a ra (Hent a ra Ha) Hca) as (k & Hk & Hlt).
          rewrite (Hfresh Hcb), Hk. intros Heq. inversion Heq. lia.
        - eapply Hinj; eauto. }
    - intros j rj Hj. cbn [memo_get] in Hj. destruct (Nat.eqb j i) eqn:Hji.
      + apply Nat.eqb_eq in Hji. subst j. inversion Hj; subst rj. exact Hei.
      + apply Nat.eqb_neq in Hji. destruct (Hent j rj Hj) as (n & Hn & Hcase).
        exists n. split; [exact Hn |].
        destruct (mt n); [exact Hcase |]. destruct (traversable n); [| exact Hcase].
        destruct Hcase as (rs & Hrs & Hcase). exists rs. split.
        { eapply map_some_transfer; [exact Hrs |]. intros c y _. apply map_ref_cons_mono; exact Hnotin. }
        destruct (is_bld n).
        * destruct Hcase as [Hr Ho]. split; [exact Hr |].
          rewrite Hsame; [exact Ho | exact Hji |]. apply nth_error_Some. congruence.
        * destruct Hcase as (k & Hr & Hk & Ho). exists k. split; [exact Hr |]. split; [exact Hk |].
          rewrite Hsame; [exact Ho | lia |]. apply nth_error_Some. congruence.
    - intros k n Hn Hcase. destruct (Nat.eq_dec k i) as [Heq|Hne].
      + subst k. apply Hoi; [exact Hn |]. destruct Hcase as [Hc|Hc]; [| exact Hc].
        cbn [memo_get] in Hc. rewrite Nat.eqb_refl in Hc. discriminate.
      + rewrite Hsame; [| exact Hne |].
        * apply Hold; [exact Hn |]. destruct Hcase as [Hc|Hc]; [| right; exact Hc].
          left. cbn [memo_get] in Hc. apply Nat.eqb_neq in Hne. rewrite Hne in Hc. exact Hc.
        * assert (k < length h) by (apply nth_error_Some; congruence). lia.
  Qed.

  Definition rspec (f : nat) : Prop :=
    forall st r,
      (forall i, r = RP i -> i < f /\ i < length h) -> rinv st ->
      rinv (fst (visit f sel x st r)) /\
      rext (sreach r) st (fst (visit f sel x st r)) /\
      map_ref (fst (fst (visit f sel x st r))) r = Some (snd (visit f sel x st r)).

  Lemma rgo_spec f (Hvis : rspec f) : forall cs st rs0,
    (forall j, In (RP j) cs -> j < f /\ j < length h) -> rinv st ->
    rinv (fst (rgo f (st, rs0) cs)) /\
    rext (fun k => exists c, In c cs /\ sreach c k) st (fst (rgo f (st, rs0) cs)) /\
    exists rs, snd (rgo f (st, rs0) cs) = rs0 ++ rs /\
               map (map_ref (fst (fst (rgo f (st, rs0) cs)))) cs = map Some rs.
  Proof.
    induction cs as [|c cs IH]; intros st rs0 Hcs Hinv.
    - cbn [rgo fold_left fst snd]. split; [exact Hinv |]. split; [apply rext_refl |].
      exists []. split; [rewrite app_nil_r; reflexivity | reflexivity].
    - rewrite rgo_cons. cbn [fst snd].
      destruct (Hvis st c) as (Hinv1 & [Hext1 Hnew1] & Hres1); [| exact Hinv |].
      { intros i Hi. subst c. apply Hcs. left; reflexivity. }
      destruct (visit f sel x st c) as [st1 r1]. cbn [fst snd] in *.
      destruct (IH st1 (rs0 ++ [r1])) as (Hinv2 & [Hext2 Hnew2] & (rs & Hrs & Hmap));
        [intros j Hj; apply Hcs; right; exact Hj | exact Hinv1 |].
      split; [exact Hinv2 |]. split.
      + split; [intros j rj Hj; apply Hext2, Hext1; exact Hj |].
        intros k v Hk Hk2. destruct (memo_get (fst st1) k) as [v1|] eqn:Hk1.
        * exists c. split; [left; reflexivity | eapply Hnew1; eauto].
        * destruct (Hnew2 k v Hk1 Hk2) as (c0 & Hc0 & Hs). exists c0. split; [right; exact Hc0 | exact Hs].
      + exists (r1 :: rs). split; [rewrite Hrs, <- app_assoc; reflexivity |].
        cbn [map]. f_equal; [| exact Hmap]. eapply map_ref_ext; [exact Hext2 | exact Hres1].
  Qed.

  Lemma rp_visit_spec : forall f, rspec f.
  Proof.
    induction f as [|f IH]; intros st r Hr Hinv.
    - destruct r as [a|i]; [| destruct (Hr i eq_refl); lia].
      rewrite rp_atom. cbn [fst snd]. split; [exact Hinv |]. split; [apply rext_refl | reflexivity].
    - destruct r as [a|i].
      { rewrite rp_atom. cbn [fst snd]. split; [exact Hinv |]. split; [apply rext_refl | reflexivity]. }
      destruct (Hr i eq_refl) as [Hif Hih].
      destruct (memo_get (fst st) i) as [r'|] eqn:Hm.
      { rewrite (rp_hit _ _ _ _ Hm). cbn [fst snd map_ref].
        split; [exact Hinv |]. split; [apply rext_refl | exact Hm]. }
      destruct (nth_error h i) as [n|] eqn:Hn; [| apply nth_error_None in Hn; lia].
      destruct st as [m o]. cbn [fst snd] in *.
      pose proof Hinv as (Hlen & Hnd & Hent & Hold & Hinj). cbn [fst snd] in *.
      assert (Hon : nth_error o i = Some n) by (apply Hold; [exact Hn | left; exact Hm]).
      rewrite (rp_S f m o i n Hm Hon). cbn [fst snd].
      assert (Hextc : forall (o1 : heap) ri, rext (sreach (RP i)) (m, o) ((i, ri) :: m, o1)).
      { intros o1 ri. split; cbn [fst snd memo_get].
        - intros j rj Hj. destruct (Nat.eqb j i) eqn:Hji; [| exact Hj].
          apply Nat.eqb_eq in Hji. subst j. congruence.
        - intros k v Hk Hk'. destruct (Nat.eqb k i) eqn:Hki; [| congruence].
          apply Nat.eqb_eq in Hki. subst k. constructor. }
      destruct (mt n) eqn:Hmt.
      { (* matching: replaced by x, not traversed *)
        cbn [fst snd map_ref memo_get]. rewrite Nat.eqb_refl.
        split; [| split; [apply Hextc | reflexivity]].
        apply (rinv_add m o); [exact Hinv | exact Hm | lia | reflexivity | | |].
        - exists n. split; [exact Hn |]. rewrite Hmt. reflexivity.
        - intros n0 Hn0 _. congruence.
        - intros (n0 & Hn0 & _ & Hb0). rewrite Hn in Hn0. inversion Hn0; subst n0.
          rewrite (mt_not_bld n Hb0) in Hmt. discriminate. }
      destruct (traversable n) eqn:Htr.
      2:{ (* a leaf object: kept *)
        cbn [fst snd map_ref memo_get]. rewrite Nat.eqb_refl.
        split; [| split; [apply Hextc | reflexivity]].
        apply (rinv_add m o); [exact Hinv | exact Hm | lia | reflexivity | | |].
        - exists n. split; [exact Hn |]. rewrite Hmt, Htr. reflexivity.
        - intros n0 Hn0 _. congruence.
        - intros (n0 & Hn0 & Htr0 & _). congruence. }
      (* a container or a non-matching Buildable: children first *)
      assert (Hlt : forall j, In (RP j) (children e n) -> j < i).
      { intros j Hj. eapply wf_children_lt; eauto. }
      destruct (rgo_spec f IH (children e n) (m, o) []) as (Hinv1 & [Hext1 Hnew1] & (rs & Hrs & Hmap));
        [intros j Hj; specialize (Hlt j Hj); lia | exact Hinv |].
      cbn zeta. destruct (rgo f (m, o, []) (children e n)) as [[m1 o1] rs'] eqn:Hg.
      cbn [fst snd app] in *. subst rs'.
      assert (Hm1 : memo_get m1 i = None).
      { destruct (memo_get m1 i) as [v|] eqn:Hv; [| reflexivity].
        destruct (Hnew1 i v Hm Hv) as (c & Hc & Hs). apply sreach_creach in Hs.
        destruct c as [a|j]; [exfalso; eapply creach_atom; eauto |].
        pose proof (creach_le e h Hwf _ _ Hs j eq_refl). specialize (Hlt j Hc). lia. }
      pose proof Hinv1 as (Hlen1 & Hnd1 & Hent1 & Hold1 & Hinj1). cbn [fst snd] in *.
      assert (Hon1 : nth_error o1 i = Some n) by (apply Hold1; [exact Hn | left; exact Hm1]).
      assert (Hmap' : forall ri, map (map_ref ((i, ri) :: m1)) (children e n) = map Some rs).
      { intros ri. eapply map_some_transfer; [exact Hmap |]. intros c y _.
        apply map_ref_cons_mono. apply memo_get_none_notin. exact Hm1. }
      assert (Hextn : forall ri o', rext (sreach (RP i)) (m, o) ((i, ri) :: m1, o')).
      { intros ri o'. split; cbn [fst snd memo_get].
        - intros j rj Hj. destruct (Nat.eqb j i) eqn:Hji; [| apply Hext1; exact Hj].
          apply Nat.eqb_eq in Hji. subst j. congruence.
        - intros k v Hk Hk'. destruct (Nat.eqb k i) eqn:Hki.
          + apply Nat.eqb_eq in Hki. subst k. constructor.
          + destruct (Hnew1 k v Hk Hk') as (c & Hc & Hs). eapply sr_step; eauto. }
      destruct (is_bld n) eqn:Hb; cbn [fst snd map_ref memo_get]; rewrite Nat.eqb_refl.
      + split; [| split; [apply Hextn | reflexivity]].
        apply (rinv_add m1 o1); [exact Hinv1 | exact Hm1 | | | | |].
        5:{ intros (n0 & Hn0 & _ & Hb0). congruence. }
        * rewrite heap_set_length. lia.
        * intros k Hk _. apply heap_set_other. auto.
        * exists n. split; [exact Hn |]. rewrite Hmt, Htr. exists rs. split; [apply Hmap' |].
          rewrite Hb. split; [reflexivity |]. apply heap_set_same. lia.
        * intros n0 Hn0 [Hc|Hc]; congruence.
      + split; [| split; [apply Hextn | reflexivity]].
        apply (rinv_add m1 o1); [exact Hinv1 | exact Hm1 | | | | |].
        5:{ intros _. reflexivity. }
        * rewrite app_length. cbn [length]. lia.
        * intros k _ Hk. apply nth_error_app1. exact Hk.
        * exists n. split; [exact Hn |]. rewrite Hmt, Htr. exists rs. split; [apply Hmap' |].
          rewrite Hb. exists (length o1). split; [reflexivity |]. split; [exact Hlen1 |].
          rewrite nth_error_app2 by lia. rewrite Nat.sub_diag. reflexivity.
        * intros n0 Hn0 _. rewrite nth_error_app1 by lia. congruence.
  Qed.

  Lemma rinv_init : rinv ([], h).
  Proof.
    split; [cbn [snd]; lia |]. split; [constructor |]. split; [intros i ri Hi; discriminate |].
    split; [intros i n Hn _; exact Hn |]. intros i j ri rj Hi; discriminate.
  Qed.

  (* the processed objects are exactly those reachable without entering a matching node *)
  Lemma closed_sreach (m : list (nat * ref)) (o : heap) :
    (forall i ri, memo_get m i = Some ri -> entry_ok m o i ri) ->
    forall r k, sreach r k -> forall i, r = RP i -> (exists v, memo_get m i = Some v) ->
                exists v, memo_get m k = Some v.
  Proof.
    intros Hent. induction 1 as [i|i n c k Hn Hmt Hc Hs IH]; intros i' Hr [v Hv]; inversion Hr; subst.
    - eauto.
    - destruct c as [a|j]; [exfalso; eapply sreach_atom; eauto |].
      apply (IH j eq_refl).
      destruct (Hent i' v Hv) as (n0 & Hn0 & Hcase). rewrite Hn in Hn0. inversion Hn0; subst n0.
      rewrite Hmt in Hcase. destruct (traversable n) eqn:Htr.
      + destruct Hcase as (rs & Hrs & _).
        clear - Hrs Hc. revert rs Hrs. induction (children e n) as [|c0 cs IHc]; intros rs Hrs; [destruct Hc |].
        destruct rs as [|y rs]; [discriminate |]. cbn [map] in Hrs. injection Hrs as Hy Hrs.
        destruct Hc as [Heq|Hin]; [subst c0; cbn [map_ref] in Hy; eauto | eauto].
      + rewrite (nontrav_children' e n Htr) in Hc. destruct Hc.
  Qed.

  Section Run.
    Variable r : ref.
    Hypothesis Hroot : root_ok h r.
    Let res := visit (S (length h)) sel x ([], h) r.
    Let memo' := fst (fst res).
    Let h' := snd (fst res).
    Let r' := snd res.

    Lemma replace_run :
      rinv (memo', h') /\ rext (sreach r) ([], h) (memo', h') /\ map_ref memo' r = Some r'.
    Proof.
      destruct (rp_visit_spec (S (length h)) ([], h) r) as (H1 & H2 & H3).
      - intros i Hi. subst r. cbn [root_ok] in Hroot. lia.
      - apply rinv_init.
      - unfold memo', h', r', res. destruct (visit (S (length h)) sel x ([], h) r) as [[m o] rr].
        cbn [fst snd] in *. auto.
    Qed.

    Theorem replace_root_image : map_ref memo' r = Some r'.
    Proof. apply replace_run. Qed.

    Theorem replace_memo_function : NoDup (map fst memo').
    Proof. destruct replace_run as ((_ & Hnd & _) & _). exact Hnd. Qed.

    Theorem replace_processed i : (exists v, memo_get memo' i = Some v) <-> sreach r i.
    Proof.
      destruct replace_run as ((_ & _ & Hent & _ & _) & [_ Hnew] & Hres). cbn [fst snd] in *. split.
      - intros [v Hv]. eapply Hnew; [reflexivity | exact Hv].
      - intros Hs. destruct r as [a|j]; [exfalso; eapply sreach_atom; eauto |].
        apply (closed_sreach memo' h' Hent _ _ Hs j eq_refl). cbn [map_ref] in Hres. eauto.
    Qed.

    Theorem replace_processed_reach i v : memo_get memo' i = Some v -> creach e h r i.
    Proof. intros Hv. apply sreach_creach. apply replace_processed. eauto. Qed.

    (* (a) the heap only grows, and nothing changes except the processed non-matching Buildables *)
    Theorem replace_frame :
      length h <= length h' /\
      forall i n, nth_error h i = Some n ->
                  memo_get memo' i = None \/ mt n = true \/ is_bld n = false ->
                  nth_error h' i = Some n.
    Proof. destruct replace_run as ((Hlen & _ & _ & Hold & _) & _). split; [exact Hlen | exact Hold]. Qed.

    Theorem replace_unreached i : ~ sreach r i -> i < length h -> nth_error h' i = nth_error h i.
    Proof.
      intros Hnot Hi. destruct (nth_error h i) as [n|] eqn:Hn; [| apply nth_error_None in Hn; lia].
      apply (proj2 replace_frame i n Hn). left.
      destruct (memo_get memo' i) as [v|] eqn:Hv; [| reflexivity].
      exfalso. apply Hnot. apply replace_processed. eauto.
    Qed.

    Lemma replace_entry i ri : memo_get memo' i = Some ri -> entry_ok memo' h' i ri.
    Proof. destruct replace_run as ((_ & _ & Hent & _ & _) & _). apply Hent. Qed.

    (* (b) a processed Buildable that does not match keeps its identity; it is overwritten by
       itself rebuilt over the images of its children *)
    Theorem replace_buildable_kept i ri k fn args tags :
      memo_get memo' i = Some ri -> nth_error h i = Some (NBuildable k fn args tags) ->
      mt (NBuildable k fn args tags) = false ->
      ri = RP i /\
      exists rs, map (map_ref memo') (map snd (flat_args e fn args)) = map Some rs /\
        nth_error h' i =
        Some (NBuildable k fn (combine (map fst (flat_args e fn args)) rs)
                (filter (fun kt => match snd kt with [] => false | _ => true end) tags)).
    Proof.
      intros Hi Hn Hmt. destruct (replace_entry i ri Hi) as (n & Hn' & Hcase).
      rewrite Hn in Hn'. inversion Hn'; subst n. rewrite Hmt in Hcase.
      cbn [traversable is_bld children with_children] in Hcase.
      destruct Hcase as (rs & Hrs & Hr & Ho). split; [exact Hr |]. exists rs. split; assumption.
    Qed.

    (* (c) a processed matching node is mapped to the replacement *)
    Theorem replace_matching i ri n :
      memo_get memo' i = Some ri -> nth_error h i = Some n -> mt n = true -> ri = x.
    Proof.
      intros Hi Hn Hmt. destruct (replace_entry i ri Hi) as (n' & Hn' & Hcase).
      rewrite Hn in Hn'. inversion Hn'; subst n'. rewrite Hmt in Hcase. exact Hcase.
    Qed.

    (* (d) any other traversable container is re-created as a new object *)
    Theorem replace_container_fresh i ri n :
      memo_get memo' i = Some ri -> nth_error h i = Some n ->
      traversable n = true -> is_bld n = false ->
      exists rs k, map (map_ref memo') (children e n) = map Some rs /\
                   ri = RP k /\ length h <= k /\ nth_error h' k = Some (with_children e n rs).
    Proof.
      intros Hi Hn Htr Hb. destruct (replace_entry i ri Hi) as (n' & Hn' & Hcase).
      rewrite Hn in Hn'. inversion Hn'; subst n'.
      assert (Hmt : mt n = false).
      { destruct (mt n) eqn:Hmt; [| reflexivity].
        destruct (matches_buildable _ _ _ _ Hmt) as (k & fn & a & t & Heq). subst n. discriminate. }
      rewrite Hmt, Htr in Hcase. destruct Hcase as (rs & Hrs & Hcase). rewrite Hb in Hcase.
      destruct Hcase as (k & Hr & Hk & Ho). exists rs, k. auto.
    Qed.

    (* (e) everything else (sets, built objects, opaque values) is kept *)
    Theorem replace_leaf_kept i ri n :
      memo_get memo' i = Some ri -> nth_error h i = Some n -> traversable n = false -> ri = RP i.
    Proof.
      intros Hi Hn Htr. destruct (replace_entry i ri Hi) as (n' & Hn' & Hcase).
      rewrite Hn in Hn'. inversion Hn'; subst n'.
      assert (Hmt : mt n = false).
      { destruct (mt n) eqn:Hmt; [| reflexivity].
        destruct (matches_buildable _ _ _ _ Hmt) as (k & fn & a & t & Heq). subst n. discriminate. }
      rewrite Hmt, Htr in Hcase. exact Hcase.
    Qed.

    (* distinct containers are re-created as distinct new objects (a shared one once) *)
    Theorem replace_fresh_distinct i j ri rj ni nj :
      memo_get memo' i = Some ri -> memo_get memo' j = Some rj ->
      nth_error h i = Some ni -> nth_error h j = Some nj ->
      traversable ni = true -> is_bld ni = false -> traversable nj = true -> is_bld nj = false ->
      i <> j -> ri <> rj.
    Proof.
      intros Hi Hj Hni Hnj Hti Hbi Htj Hbj. destruct replace_run as ((_ & _ & _ & _ & Hinj) & _).
      cbn [fst snd] in Hinj. apply (Hinj i j ri rj Hi Hj); [exists ni | exists nj]; auto.
    Qed.
  End Run.

  (* everything about one call of NodeSelection.replace(x, deepcopy=False), in one statement *)
  Theorem replace_identity r (Hroot : root_ok h r) memo1 h1 r1 :
    visit (S (length h)) sel x ([], h) r = ((memo1, h1), r1) ->
    (* the result, and the memo is a function on the objects reached outside matching nodes *)
    map_ref memo1 r = Some r1 /\
    NoDup (map fst memo1) /\
    (forall i, (exists v, memo_get memo1 i = Some v) <-> sreach r i) /\
    (* (a) frame *)
    length h <= length h1 /\
    (forall i n, nth_error h i = Some n ->
                 memo_get memo1 i = None \/ mt n = true \/ is_bld n = false ->
                 nth_error h1 i = Some n) /\
    (* (b) non-matching Buildables keep their identity and are rebuilt in place *)
    (forall i ri n, memo_get memo1 i = Some ri -> nth_error h i = Some n ->
                    is_bld n = true -> mt n = false ->
                    ri = RP i /\
                    exists rs, map (map_ref memo1) (children e n) = map Some rs /\
                               nth_error h1 i = Some (with_children e n rs)) /\
    (* (c) matching nodes become x *)
    (forall i ri n, memo_get memo1 i = Some ri -> nth_error h i = Some n -> mt n = true -> ri = x) /\
    (* (d) other containers are new objects *)
    (forall i ri n, memo_get memo1 i = Some ri -> nth_error h i = Some n ->
                    traversable n = true -> is_bld n = false ->
                    exists rs k, map (map_ref memo1) (children e n) = map Some rs /\
                                 ri = RP k /\ length h <= k /\
                                 nth_error h1 k = Some (with_children e n rs)) /\
    (* (e) non-traversable objects are kept *)
    (forall i ri n, memo_get memo1 i = Some ri -> nth_error h i = Some n ->
                    traversable n = false -> ri = RP i).
  Proof.
    intros Hv.
    pose proof (replace_root_image r Hroot) as H0. pose proof (replace_memo_function r Hroot) as H1.
    pose proof (replace_processed r Hroot) as H2. pose proof (replace_frame r Hroot) as [H3 H4].
    pose proof (replace_buildable_kept r Hroot) as H5. pose proof (replace_matching r Hroot) as H6.
    pose proof (replace_container_fresh r Hroot) as H7. pose proof (replace_leaf_kept r Hroot) as H8.
    rewrite Hv in *. cbn [fst snd] in *.
    repeat (split; [assumption |]). split; [| auto].
    intros i ri n Hi Hn Hb Hmt. destruct n; try discriminate.
    destruct (H5 i ri k fn args tags Hi Hn Hmt) as (Hr & rs & Hrs & Ho).
    split; [exact Hr |]. exists rs. split; assumption.
  Qed.
End Replace.

(* ------------------------------------------------------------------------------------------ *)
(* 7. non-vacuity.  Classes: 20 (Base) and 21 (Sub, a subclass of Base); 30 is a function.
   Object 0 configures Sub; it is an argument of the Base config 1 (a matching node), an element
   of the list 2 and of the root tuple 5: shared by several parents and nested in a matching
   node.  3 is a Partial of the function, with tagged parameters; 4 is a set. *)

Definition sx_env : sigenv :=
  [(20%N, [mkparam 0%N PosOrKw (Some (RA (AInt 0))) false; mkparam 1%N PosOrKw (Some (RA ANone)) false]);
   (21%N, [mkparam 0%N PosOrKw (Some (RA (AInt 0))) false; mkparam 1%N PosOrKw (Some (RA ANone)) false]);
   (30%N, [mkparam 2%N PosOrKw None false; mkparam 3%N PosOrKw None false;
           mkparam 4%N KwOnly (Some (RA (AInt 5))) false])].
Definition sx_classes : list N := [20%N; 21%N].
Definition sx_subclasses : list (N * N) := [(20%N, 20%N); (21%N, 21%N); (21%N, 20%N)].
Definition sx_subtags : list (N * N) := [(50%N, 50%N); (51%N, 51%N); (51%N, 50%N)].
Definition sx_heap : heap :=
  [ NBuildable BConfig 21%N [(KName 0%N, RA (AInt 1))] [];
    NBuildable BConfig 20%N [(KName 1%N, RP 0)] [];
    NList [RP 0; RA (AInt 2)];
    NBuildable BPartial 30%N [(KName 2%N, RP 1); (KName 3%N, RP 2)]
               [(KName 2%N, [50%N]); (KName 4%N, [51%N]); (KName 3%N, [])];
    NSet false [AInt 7];
    NTuple [RP 3; RP 0; RP 4] ].
Definition sx_sel : selector := mksel 20%N true None.         (* select(cfg, Base) *)
Definition sx_sel_exact : selector := mksel 20%N false None.  (* select(cfg, Base, match_subclasses=False) *)
Definition sx_x : ref := RA (AStr [120%N]).

Lemma sx_hyps : wf_b sx_env sx_heap = true /\ keys_ok sx_heap /\ root_ok sx_heap (RP 5).
Proof.
  split; [vm_compute; reflexivity |]. split; [apply keys_ok_b_spec; vm_compute; reflexivity |].
  cbn. lia.
Qed.

Example select_example :
  po_order sx_env sx_heap (RP 5) = [0; 1; 2; 3; 4; 5] /\
  (* the shared Sub config is yielded once, before the Base config that contains it *)
  select_ids sx_env sx_subclasses sx_classes sx_sel sx_heap (RP 5) = [0; 1] /\
  select_ids sx_env sx_subclasses sx_classes sx_sel_exact sx_heap (RP 5) = [1] /\
  select_ids sx_env sx_subclasses sx_classes (mksel 20%N true (Some BPartial)) sx_heap (RP 5) = [] /\
  (* set(p0=9): both matching nodes get the attribute, nothing else changes *)
  select_set sx_env sx_subclasses sx_classes sx_sel sx_heap (RP 5) [(0%N, RA (AInt 9))] =
    [ NBuildable BConfig 21%N [(KName 0%N, RA (AInt 9))] [];
      NBuildable BConfig 20%N [(KName 1%N, RP 0); (KName 0%N, RA (AInt 9))] [];
      NList [RP 0; RA (AInt 2)];
      NBuildable BPartial 30%N [(KName 2%N, RP 1); (KName 3%N, RP 2)]
                 [(KName 2%N, [50%N]); (KName 4%N, [51%N]); (KName 3%N, [])];
      NSet false [AInt 7];
      NTuple [RP 3; RP 0; RP 4] ] /\
  (* replace("x"): the Partial 3 keeps its identity and now holds "x" and a new list; the list
     and the root tuple are new objects (6, 7); the set is shared; 0 and 1 are left in place *)
  rp_visit sx_env sx_subclasses sx_classes (S (length sx_heap)) sx_sel sx_x ([], sx_heap) (RP 5) =
    (([(5, RP 7); (4, RP 4); (3, RP 3); (2, RP 6); (0, sx_x); (1, sx_x)],
      [ NBuildable BConfig 21%N [(KName 0%N, RA (AInt 1))] [];
        NBuildable BConfig 20%N [(KName 1%N, RP 0)] [];
        NList [RP 0; RA (AInt 2)];
        NBuildable BPartial 30%N [(KName 2%N, sx_x); (KName 3%N, RP 6)]
                   [(KName 2%N, [50%N]); (KName 4%N, [51%N])];
        NSet false [AInt 7];
        NTuple [RP 3; RP 0; RP 4];
        NList [sx_x; RA (AInt 2)];
        NTuple [RP 3; sx_x; RP 4] ]), RP 7) /\
  select_replace sx_env sx_subclasses sx_classes sx_sel sx_heap (RP 5) sx_x =
    snd (fst (rp_visit sx_env sx_subclasses sx_classes (S (length sx_heap)) sx_sel sx_x
                ([], sx_heap) (RP 5))) /\
  (* without subclass matching the Sub config outside the Base config is kept (0 -> 0); the one
     inside is never visited *)
  fst (fst (rp_visit sx_env sx_subclasses sx_classes (S (length sx_heap)) sx_sel_exact sx_x
              ([], sx_heap) (RP 5))) =
    [(5, RP 7); (4, RP 4); (3, RP 3); (2, RP 6); (0, RP 0); (1, sx_x)] /\
  (* tags: parameter 2 is tagged 50 and set; parameter 4 is tagged 51 (a subclass of 50) and
     unset, so its default is listed; parameter 3 has an empty tag set *)
  tag_iter sx_env sx_subtags sx_heap (RP 5) 50%N = [RP 1; RA (AInt 5)] /\
  tag_iter sx_env sx_subtags sx_heap (RP 5) 51%N = [RA (AInt 5)].
Proof. vm_compute. repeat split. Qed.

(* root_ok cannot be dropped from post_order_exact / select_exact: a dangling root is
   (trivially) reachable from itself but is not visited *)
Theorem post_order_exact_needs_root_ok :
  ~ (forall e h, wf_b e h = true -> forall r i,
       In i (snd (post_order e (S (length h)) h ([], []) r)) <-> creach e h r i).
Proof.
  intros H. specialize (H [] [] eq_refl (RP 0) 0). destruct H as [_ H].
  specialize (H (cr_refl [] [] 0)). vm_compute in H. exact H.
Qed.
