(* Traverse: daglish.MemoizedTraversal as a generic memoized post-order map over a heap, the
   isomorphism checker used to compare object graphs, and the path-reporting traversals. *)
From Fiddle Require Import PyBase PySlice Sig ArgStore PyCall Heap.

Inductive fail :=
| FOutOfFuel | FDangling | FCycle (at_ : nat)
| FRaise (who : nat) (e : N)       (* the callable of Buildable `who` raised exception (class) e *)
| FType (who : nat)                (* argument binding failed (TypeError) at Buildable `who` *)
| FNested.                         (* fdl.build called inside fdl.build *)
Definition fail_eq_dec : forall a b : fail, {a = b} + {a <> b}.
Proof. decide equality; auto using Nat.eq_dec, N.eq_dec. Defined.

(* memo: id(value) -> result;  out: the heap being extended with new objects;
   log: ids in the order their traversal_fn finished (post-order) *)
Record mstate := mk_ms { memo : list (nat * ref); out : heap; log : list nat }.

Fixpoint memo_get (m : list (nat * ref)) (i : nat) : option ref :=
  match m with
  | [] => None
  | (j, r) :: m' => if Nat.eqb i j then Some r else memo_get m' i
  end.

Section MVisit.
  Variable e : sigenv.
  Variable h : heap.
  (* what traversal_fn does with a node once its children are mapped:
     id, node, mapped children, heap so far -> extended heap and result (or failure) *)
  Variable on_node : nat -> node -> list ref -> heap -> heap * (ref + fail).

  Fixpoint mvisit (fuel : nat) (stack : list nat) (s : mstate) (r : ref) : mstate * (ref + fail) :=
    match r with
    | RA a => (s, inl (RA a))
    | RP i =>
        match memo_get (memo s) i with
        | Some r' => (s, inl r')
        | None =>
            if existsb (Nat.eqb i) stack then (s, inr (FCycle i)) else
            match fuel with
            | O => (s, inr FOutOfFuel)
            | S f =>
                match nth_error h i with
                | None => (s, inr FDangling)
                | Some n =>
                    let fix go (s : mstate) (l : list ref) : mstate * (list ref + fail) :=
                      match l with
                      | [] => (s, inl [])
                      | x :: l' =>
                          match mvisit f (i :: stack) s x with
                          | (s1, inl x') =>
                              match go s1 l' with
                              | (s2, inl l'') => (s2, inl (x' :: l''))
                              | (s2, inr fl) => (s2, inr fl)
                              end
                          | (s1, inr fl) => (s1, inr fl)
                          end
                      end in
                    match go s (children e n) with
                    | (s1, inr fl) => (s1, inr fl)
                    | (s1, inl rs) =>
                        match on_node i n rs (out s1) with
                        | (o', inl r') => (mk_ms ((i, r') :: memo s1) o' (log s1 ++ [i]), inl r')
                        | (o', inr fl) => (mk_ms (memo s1) o' (log s1), inr fl)
                        end
                    end
                end
            end
        end
    end.

  Definition mrun (r : ref) : mstate * (ref + fail) :=
    mvisit (S (length h)) [] (mk_ms [] h []) r.
End MVisit.

(* allocate a node at the end of a heap *)
Definition alloc (o : heap) (n : node) : heap * ref := (o ++ [n], RP (length o)).

(* ---------------------------------------------------------------------------------------------
   Isomorphism of object graphs, decided by a simultaneous walk that maintains a bijection between
   pointers.  Inline atoms must be equal; nodes must have the same constructor and the same
   non-reference data; references are compared recursively. *)

Definition bij := list (nat * nat).
Fixpoint bij_l (m : bij) (i : nat) : option nat :=
  match m with [] => None | (a, b) :: m' => if Nat.eqb a i then Some b else bij_l m' i end.
Fixpoint bij_r (m : bij) (j : nat) : option nat :=
  match m with [] => None | (a, b) :: m' => if Nat.eqb b j then Some a else bij_r m' j end.

(* the references of a node in a fixed order, and the node with its references erased *)
Definition refs_of (n : node) : list ref :=
  match n with
  | NList xs | NTuple xs => xs
  | NDict kvs | NDefaultDict _ kvs => map snd kvs
  | NNamedTuple _ fs => map snd fs
  | NBuildable _ _ args _ => map snd args
  | NObj _ vw => flat_map (fun kv => match snd kv with
                                     | PV v => [v] | PTuple l => l | PDict d => map snd d end) vw
  | NPartialObj _ pos kw => pos ++ map snd kw
  | NSet _ _ | NOpaque _ => []
  end.

Definition hole : ref := RA ANone.
Definition erase_pval (p : pval) : pval :=
  match p with
  | PV _ => PV hole
  | PTuple l => PTuple (map (fun _ => hole) l)
  | PDict d => PDict (map (fun kv => (fst kv, hole)) d)
  end.
Definition shape (n : node) : node :=
  match n with
  | NList xs => NList (map (fun _ => hole) xs)
  | NTuple xs => NTuple (map (fun _ => hole) xs)
  | NDict kvs => NDict (map (fun kv => (fst kv, hole)) kvs)
  | NDefaultDict f kvs => NDefaultDict f (map (fun kv => (fst kv, hole)) kvs)
  | NNamedTuple ty fs => NNamedTuple ty (map (fun kv => (fst kv, hole)) fs)
  | NBuildable k fn args tags => NBuildable k fn (map (fun kv => (fst kv, hole)) args) tags
  | NObj fn vw => NObj fn (map (fun kv => (fst kv, erase_pval (snd kv))) vw)
  | NPartialObj fn pos kw => NPartialObj fn (map (fun _ => hole) pos) (map (fun kv => (fst kv, hole)) kw)
  | other => other
  end.

Section Iso.
  Variables h1 h2 : heap.

  Fixpoint iso (fuel : nat) (m : bij) (r1 r2 : ref) : option bij :=
    match r1, r2 with
    | RA a, RA b => if atom_eq_dec a b then Some m else None
    | RP i, RP j =>
        match bij_l m i, bij_r m j with
        | Some j', Some i' => if Nat.eqb j' j && Nat.eqb i' i then Some m else None
        | None, None =>
            match fuel with
            | O => None
            | S f =>
                match nth_error h1 i, nth_error h2 j with
                | Some n1, Some n2 =>
                    if node_eq_dec (shape n1) (shape n2) then
                      let fix go (m : bij) (l1 l2 : list ref) : option bij :=
                        match l1, l2 with
                        | [], [] => Some m
                        | x :: l1', y :: l2' =>
                            match iso f m x y with
                            | Some m' => go m' l1' l2'
                            | None => None
                            end
                        | _, _ => None
                        end in
                      go ((i, j) :: m) (refs_of n1) (refs_of n2)
                    else None
                | _, _ => None
                end
            end
        | _, _ => None
        end
    | _, _ => None
    end.

  Definition iso_b (r1 r2 : ref) : bool :=
    match iso (S (length h1 + length h2)) [] r1 r2 with Some _ => true | None => false end.
End Iso.

(* ---------------------------------------------------------------------------------------------
   Path-reporting traversals (daglish.iterate, collect_paths_by_id). *)
Section Iterate.
  Variable e : sigenv.
  Variable h : heap.

  (* BasicTraversal: every (value, path), pre-order; fuel bounds the depth *)
  Fixpoint iter_basic (fuel : nat) (r : ref) (p : path) : list (ref * path) :=
    (r, p) ::
    match r, fuel with
    | RP i, S f =>
        match nth_error h i with
        | Some n =>
            (fix go (cs : list ref) (es : list pelt) : list (ref * path) :=
               match cs, es with
               | c :: cs', pe :: es' => iter_basic f c (p ++ [pe]) ++ go cs' es'
               | _, _ => []
               end) (children e n) (elts e n)
        | None => []
        end
    | _, _ => []
    end.

  (* daglish.is_internable: leaves, and tuples all of whose elements are internable *)
  Fixpoint internable (fuel : nat) (r : ref) : bool :=
    match r with
    | RA (ASym _) => false          (* functions and classes are memoizable, hence not internable *)
    | RA _ => true
    | RP i =>
        match fuel with
        | O => false
        | S f => match nth_error h i with
                 | Some (NTuple xs) => forallb (internable f) xs
                 | _ => false
                 end
        end
    end.

  (* MemoizedTraversal + the generator protocol of iterate(): a memoized value is yielded at its
     first visit only.  With memoize_internables = false (mi = false) internable values are not
     memoized: they are yielded, and traversed, at every occurrence.  With mi = true the
     implementation memoizes leaves by id() as well, which depends on CPython's interning; the
     harness therefore compares only the pointer entries in that mode. *)
  Fixpoint iter_memo (mi : bool) (fuel : nat) (seen : list ref) (r : ref) (p : path)
    : list ref * list (ref * path) :=
    match r with
    | RA (ASym _) =>
        (* functions and classes are leaves for the traversers but have identity: memoized *)
        if existsb (ref_eqb r) seen then (seen, []) else (r :: seen, [(r, p)])
    | RA _ => (seen, [(r, p)])
    | RP i =>
        let memoized := mi || negb (internable (S (length h)) r) in
        if memoized && existsb (ref_eqb r) seen then (seen, []) else
        match fuel with
        | O => (seen, [])
        | S f =>
            match nth_error h i with
            | Some n =>
                let '(seen', ys) :=
                  (fix go (seen : list ref) (cs : list ref) (es : list pelt)
                     : list ref * list (ref * path) :=
                     match cs, es with
                     | c :: cs', pe :: es' =>
                         let '(s1, y1) := iter_memo mi f seen c (p ++ [pe]) in
                         let '(s2, y2) := go s1 cs' es' in
                         (s2, y1 ++ y2)
                     | _, _ => (seen, [])
                     end) (if memoized then r :: seen else seen) (children e n) (elts e n) in
                (seen', (r, p) :: ys)
            | None => (seen, [])
            end
        end
    end.

  (* collect_paths_by_id: all paths of one memoizable object *)
  Definition paths_to (fuel : nat) (root : ref) (i : nat) : list path :=
    map snd (filter (fun vp => match fst vp with RP j => Nat.eqb i j | RA _ => false end)
               (iter_basic fuel root [])).
End Iterate.
