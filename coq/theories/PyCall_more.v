(* Corollaries of the C01 binding theorem, read off the reference view: the callee sees every
   parameter exactly once and in signature order; the build fails exactly when a required parameter
   has no configured value; *args / **kwargs are exactly the stored run / the stored extra names. *)
From Fiddle Require Import PyBase PySlice Sig ArgStore ArgSpec PyCall C01Check PyCall_proofs.
From Coq Require Import List Arith Bool Lia NArith.
Import ListNotations.
Local Open Scope nat_scope.

Definition pkey (p : param) (i : nat) : skey :=
  match pk p with PosOnly => kpos i | _ => KName (pname p) end.

Definition plain_kind (p : param) : bool :=
  match pk p with VarPos | VarKw => false | _ => true end.

Lemma ref_names sg : forall ps i st vw,
  reference_params sg ps i st = Some vw -> map fst vw = map pname ps.
Proof.
  induction ps as [|p ps IH]; intros i st vw H; cbn [reference_params] in H.
  - inversion H. reflexivity.
  - match type of H with match ?h with _ => _ end = _ => destruct h as [x|] end; [|discriminate].
    destruct (reference_params sg ps (S i) st) as [rest|] eqn:Hr; [|discriminate].
    inversion H; subst. cbn [map fst]. f_equal. eapply IH. exact Hr.
Qed.

Lemma ref_none_iff sg : forall ps i st,
  reference_params sg ps i st = None <->
  exists j p, nth_error ps j = Some p /\ plain_kind p = true /\
              sget st (pkey p (i + j)) = None /\ pdefault p = None.
Proof.
  induction ps as [|p ps IH]; intros i st; cbn [reference_params].
  - split; [discriminate|]. intros (j & q & Hn & _). destruct j; discriminate.
  - specialize (IH (S i) st). split.
    + intros H.
      assert (Hcase : (plain_kind p = true /\ sget st (pkey p i) = None /\ pdefault p = None) \/
                      reference_params sg ps (S i) st = None).
      { unfold plain_kind, pkey.
        destruct (pk p); cbn in H |- *;
          try (destruct (sget st _) eqn:Hg; [| destruct (pdefault p) eqn:Hd]);
          destruct (reference_params sg ps (S i) st); try discriminate; auto. }
      destruct Hcase as [(Hk & Hg & Hd)|Hr].
      * exists 0, p. rewrite Nat.add_0_r. cbn [nth_error]. auto.
      * apply IH in Hr. destruct Hr as (j & q & Hn & Hk & Hg & Hd).
        exists (S j), q. cbn [nth_error]. replace (i + S j) with (S i + j) by lia. auto.
    + intros (j & q & Hn & Hk & Hg & Hd). destruct j as [|j].
      * cbn [nth_error] in Hn. inversion Hn; subst q. rewrite Nat.add_0_r in Hg.
        unfold plain_kind, pkey in *. destruct (pk p); try discriminate; rewrite Hg, Hd; reflexivity.
      * cbn [nth_error] in Hn. replace (i + S j) with (S i + j) in Hg by lia.
        assert (Hr : reference_params sg ps (S i) st = None) by (apply IH; exists j, q; auto).
        rewrite Hr. match goal with |- match ?h with _ => _ end = None => destruct h end; reflexivity.
Qed.

Lemma ref_var_entries sg : forall ps i st vw j p,
  reference_params sg ps i st = Some vw -> nth_error ps j = Some p ->
  nth_error vw j = Some (pname p,
    match pk p with
    | VarPos => PTuple (varargs_of (length st) st (i + j))
    | VarKw => PDict (extras_of sg st)
    | _ => match sget st (pkey p (i + j)) with
           | Some v => PV v
           | None => match pdefault p with Some d => PV d | None => PV (RA ANone) end
           end
    end).
Proof.
  induction ps as [|q ps IH]; intros i st vw j p H Hn; [destruct j; discriminate|].
  cbn [reference_params] in H.
  match type of H with match ?h with _ => _ end = _ => destruct h as [x|] eqn:Hx end; [|discriminate].
  destruct (reference_params sg ps (S i) st) as [rest|] eqn:Hr; [|discriminate].
  inversion H; subst vw. destruct j as [|j].
  - cbn [nth_error] in Hn |- *. inversion Hn; subst q. rewrite Nat.add_0_r. f_equal. f_equal.
    unfold pkey. destruct (pk p); cbn in Hx |- *;
      try (inversion Hx; reflexivity);
      (destruct (sget st _); [inversion Hx; reflexivity|]; destruct (pdefault p); inversion Hx; reflexivity).
  - cbn [nth_error] in Hn |- *. replace (i + S j) with (S i + j) by lia. eapply IH; eassumption.
Qed.

Theorem view_names_are_parameters sg st vw :
  valid_sig sg = true -> inv01_b sg st = true -> build1 sg st = Some vw ->
  map fst vw = map pname sg.
Proof.
  intros Hv Hi Hb. rewrite (build_binds_exactly sg st Hv Hi) in Hb. eapply ref_names. exact Hb.
Qed.

Theorem build_fails_iff_required_unset sg st :
  valid_sig sg = true -> inv01_b sg st = true ->
  (build1 sg st = None <->
   exists j p, nth_error sg j = Some p /\ plain_kind p = true /\
               sget st (pkey p j) = None /\ pdefault p = None).
Proof.
  intros Hv Hi. rewrite (build_binds_exactly sg st Hv Hi). unfold reference_view.
  rewrite ref_none_iff. cbn [Nat.add]. reflexivity.
Qed.

Theorem star_arguments_exact sg st vw j p :
  valid_sig sg = true -> inv01_b sg st = true -> build1 sg st = Some vw ->
  nth_error sg j = Some p ->
  (pk p = VarPos -> nth_error vw j = Some (pname p, PTuple (varargs_of (length st) st j))) /\
  (pk p = VarKw -> nth_error vw j = Some (pname p, PDict (extras_of sg st))).
Proof.
  intros Hv Hi Hb Hn. rewrite (build_binds_exactly sg st Hv Hi) in Hb.
  pose proof (ref_var_entries sg sg 0 st vw j p Hb Hn) as H. cbn [Nat.add] in H.
  split; intros Hk; rewrite Hk in H; exact H.
Qed.
