(* AnchorsBuild: pins the constants regenerated from /repo (gen/Extracted.v) to what the models assume.
   If the source changes at an anchor, one of these Examples stops compiling and every property
   whose model depends on it reports a broken tie (other properties are not affected). *)
From Coq Require Import String List ZArith.
From FiddleGen Require Import Extracted.
Import ListNotations.
Open Scope string_scope.

(* C01: PyCall.transform_build models the repaired transform_to_args_kwargs *)
Example anchor_transform_fills : transform_fills_skipped_positionals = true. Proof. reflexivity. Qed.
Example anchor_transform_posorkw :
  transform_posorkw_condition = "include_pos_or_kw_in_args or self.var_positional_start in arguments".
Proof. reflexivity. Qed.
Example anchor_ordered_arguments_posonly : ordered_arguments_posonly_by_index = true.
Proof. reflexivity. Qed.
