(* Iso_proofs: soundness of the isomorphism checker Traverse.iso.  When iso answers [Some m], m is
   a one-to-one correspondence between pointers of the two heaps under which corresponding nodes
   have the same non-reference data and corresponding references, and the two roots correspond. *)
From Fiddle Require Import PyBase PySlice Sig ArgStore PyCall Heap Traverse.
From Coq Require Import List Arith Lia Bool.
Import ListNotations.
Local Open Scope nat_scope.

Definition rel_ref (m : bij) (r1 r2 : ref) : Prop :=
  match r1, r2 with
  | RA a, RA b => a = b
  | RP i, RP j => In (i, j) m
  | _, _ => False
  end.

Definition bij_wf (m : bij) : Prop :=
  forall i j i' j', In (i, j) m -> In (i', j') m -> (i = i' <-> j = j').

Definition sim_pair (h1 h2 : heap) (m : bij) (i j : nat) : Prop :=
  exists n1 n2, nth_error h1 i = Some n1 /\ nth_error h2 j = Some n2 /\
                shape n1 = shape n2 /\ Forall2 (rel_ref m) (refs_of n1) (refs_of n2).

Definition simulates (h1 h2 : heap) (m : bij) : Prop :=
  forall i j, In (i, j) m ->
    exists n1 n2, nth_error h1 i = Some n1 /\ nth_error h2 j = Some n2 /\
                  shape n1 = shape n2 /\ Forall2 (rel_ref m) (refs_of n1) (refs_of n2).

(* ------------------------------------------------------------------------------------------ *)
(* lookups in the bijection *)

Lemma bij_l_some m i j : bij_l m i = Some j -> In (i, j) m.
Proof.
  induction m as [|[a b] m IH]; cbn [bij_l In]; intros H; [discriminate |].
  destruct (Nat.eqb a i) eqn:Hai.
  - apply Nat.eqb_eq in Hai. inversion H; subst. left; reflexivity.
  - right; auto.
Qed.

Lemma bij_l_none m i : bij_l m i = None -> forall j, ~ In (i, j) m.
Proof.
  induction m as [|[a b] m IH]; cbn [bij_l In]; intros H j Hin; [exact Hin |].
  destruct (Nat.eqb a i) eqn:Hai; [discriminate |]. apply Nat.eqb_neq in Hai.
  destruct Hin as [Heq|Hin]; [inversion Heq; congruence | exact (IH H j Hin)].
Qed.

Lemma bij_r_none m j : bij_r m j = None -> forall i, ~ In (i, j) m.
Proof.
  induction m as [|[a b] m IH]; cbn [bij_r In]; intros H i Hin; [exact Hin |].
  destruct (Nat.eqb b j) eqn:Hbj; [discriminate |]. apply Nat.eqb_neq in Hbj.
  destruct Hin as [Heq|Hin]; [inversion Heq; congruence | exact (IH H i Hin)].
Qed.

Lemma bij_wf_nil : bij_wf [].
Proof. intros i j i' j' []. Qed.

Lemma bij_wf_cons m i j :
  bij_wf m -> bij_l m i = None -> bij_r m j = None -> bij_wf ((i, j) :: m).
Proof.
  intros Hwf Hl Hr a b a' b' [H1|H1] [H2|H2].
  - inversion H1; inversion H2; subst. split; reflexivity.
  - inversion H1; subst a b. split; intros Heq; subst; exfalso.
    + eapply bij_l_none; eauto.
    + eapply bij_r_none; eauto.
  - inversion H2; subst a' b'. split; intros Heq; subst; exfalso.
    + eapply bij_l_none; eauto.
    + eapply bij_r_none; eauto.
  - apply Hwf; assumption.
Qed.

Lemma rel_ref_mono m m' r1 r2 : incl m m' -> rel_ref m r1 r2 -> rel_ref m' r1 r2.
Proof. intros Hinc. destruct r1, r2; cbn [rel_ref]; auto. Qed.

Lemma Forall2_rel_mono m m' l1 l2 :
  incl m m' -> Forall2 (rel_ref m) l1 l2 -> Forall2 (rel_ref m') l1 l2.
Proof. intros Hinc H. induction H; constructor; eauto using rel_ref_mono. Qed.

Lemma sim_pair_mono h1 h2 m m' i j : incl m m' -> sim_pair h1 h2 m i j -> sim_pair h1 h2 m' i j.
Proof.
  intros Hinc (n1 & n2 & H1 & H2 & Hs & Hf). exists n1, n2.
  repeat split; auto. eapply Forall2_rel_mono; eauto.
Qed.

(* ------------------------------------------------------------------------------------------ *)
(* the invariant of the simultaneous walk *)

Section Sound.
  Variables h1 h2 : heap.

  (* the local loop over the two lists of references, as a named function *)
  Definition igo (f : bij -> ref -> ref -> option bij) :=
    fix go (m : bij) (l1 l2 : list ref) : option bij :=
      match l1, l2 with
      | [], [] => Some m
      | x :: l1', y :: l2' =>
          match f m x y with
          | Some m' => go m' l1' l2'
          | None => None
          end
      | _, _ => None
      end.

  Lemma iso_step f m i j n1 n2 :
    bij_l m i = None -> bij_r m j = None ->
    nth_error h1 i = Some n1 -> nth_error h2 j = Some n2 ->
    iso h1 h2 (S f) m (RP i) (RP j) =
    if node_eq_dec (shape n1) (shape n2)
    then igo (iso h1 h2 f) ((i, j) :: m) (refs_of n1) (refs_of n2)
    else None.
  Proof. intros Hl Hr Hn1 Hn2. cbn [iso]. rewrite Hl, Hr, Hn1, Hn2. reflexivity. Qed.

  (* m extends m0 by pairs that are all simulated with respect to m *)
  Definition extends_ok (m0 m : bij) : Prop :=
    exists ext, m = ext ++ m0 /\ (bij_wf m0 -> bij_wf m) /\
                (forall i j, In (i, j) ext -> sim_pair h1 h2 m i j).

  Lemma extends_ok_refl m : extends_ok m m.
  Proof. exists []. split; [reflexivity |]. split; [auto | intros i j []]. Qed.

  Lemma extends_ok_incl m0 m : extends_ok m0 m -> incl m0 m.
  Proof. intros (ext & Hm & _). subst. apply incl_appr, incl_refl. Qed.

  Lemma extends_ok_trans m0 m1 m2 : extends_ok m0 m1 -> extends_ok m1 m2 -> extends_ok m0 m2.
  Proof.
    intros (e1 & Hm1 & Hw1 & Hs1) (e2 & Hm2 & Hw2 & Hs2).
    exists (e2 ++ e1). split; [subst; rewrite app_assoc; reflexivity |].
    split; [auto |].
    intros i j Hin. apply in_app_or in Hin. destruct Hin as [Hin|Hin]; [auto |].
    eapply sim_pair_mono; [| apply Hs1; exact Hin].
    subst m2. apply incl_appr, incl_refl.
  Qed.

  Definition iso_ok (f : bij -> ref -> ref -> option bij) : Prop :=
    forall m0 r1 r2 m, f m0 r1 r2 = Some m -> extends_ok m0 m /\ rel_ref m r1 r2.

  Lemma igo_ok f (Hf : iso_ok f) : forall l1 l2 m0 m,
    igo f m0 l1 l2 = Some m -> extends_ok m0 m /\ Forall2 (rel_ref m) l1 l2.
  Proof.
    induction l1 as [|x l1 IH]; intros l2 m0 m Hgo; destruct l2 as [|y l2]; cbn [igo] in Hgo;
      try discriminate.
    - inversion Hgo; subst. split; [apply extends_ok_refl | constructor].
    - destruct (f m0 x y) as [m1|] eqn:Hxy; [| discriminate].
      destruct (Hf _ _ _ _ Hxy) as [He1 Hr1]. destruct (IH _ _ _ Hgo) as [He2 Hr2].
      split; [eapply extends_ok_trans; eauto |].
      constructor; [| exact Hr2]. eapply rel_ref_mono; [| exact Hr1].
      apply extends_ok_incl; exact He2.
  Qed.

  Lemma iso_iso_ok : forall fuel, iso_ok (iso h1 h2 fuel).
  Proof.
    induction fuel as [|f IH]; intros m0 r1 r2 m Hiso.
    - destruct r1 as [a|i], r2 as [b|j]; cbn [iso] in Hiso; try discriminate.
      + destruct (atom_eq_dec a b); [| discriminate]. inversion Hiso; subst.
        split; [apply extends_ok_refl | reflexivity].
      + destruct (bij_l m0 i) as [j'|] eqn:Hl; destruct (bij_r m0 j) as [i'|] eqn:Hr;
          try discriminate.
        destruct (Nat.eqb j' j && Nat.eqb i' i) eqn:Hc; [| discriminate].
        apply andb_true_iff in Hc. destruct Hc as [Hj _]. apply Nat.eqb_eq in Hj. subst j'.
        inversion Hiso; subst. split; [apply extends_ok_refl |].
        cbn [rel_ref]. apply bij_l_some; exact Hl.
    - destruct r1 as [a|i], r2 as [b|j]; try (cbn [iso] in Hiso; discriminate).
      + cbn [iso] in Hiso. destruct (atom_eq_dec a b); [| discriminate]. inversion Hiso; subst.
        split; [apply extends_ok_refl | reflexivity].
      + destruct (bij_l m0 i) as [j'|] eqn:Hl; destruct (bij_r m0 j) as [i'|] eqn:Hr;
          try (cbn [iso] in Hiso; rewrite Hl, Hr in Hiso; discriminate).
        * cbn [iso] in Hiso. rewrite Hl, Hr in Hiso.
          destruct (Nat.eqb j' j && Nat.eqb i' i) eqn:Hc; [| discriminate].
          apply andb_true_iff in Hc. destruct Hc as [Hj _]. apply Nat.eqb_eq in Hj. subst j'.
          inversion Hiso; subst. split; [apply extends_ok_refl |].
          cbn [rel_ref]. apply bij_l_some; exact Hl.
        * destruct (nth_error h1 i) as [n1|] eqn:Hn1;
            [| cbn [iso] in Hiso; rewrite Hl, Hr, Hn1 in Hiso; discriminate].
          destruct (nth_error h2 j) as [n2|] eqn:Hn2;
            [| cbn [iso] in Hiso; rewrite Hl, Hr, Hn1, Hn2 in Hiso; discriminate].
          rewrite (iso_step f m0 i j n1 n2 Hl Hr Hn1 Hn2) in Hiso.
          destruct (node_eq_dec (shape n1) (shape n2)) as [Hsh|]; [| discriminate].
          apply (igo_ok _ IH) in Hiso. destruct Hiso as [(ext & Hm & Hw & Hs) Hrefs].
          assert (Hin : In (i, j) m).
          { subst m. apply in_or_app. right. left. reflexivity. }
          split; [| exact Hin].
          exists (ext ++ [(i, j)]). split; [rewrite <- app_assoc; exact Hm |]. split.
          { intros Hw0. apply Hw. apply bij_wf_cons; assumption. }
          intros a b Hab. apply in_app_or in Hab. destruct Hab as [Hab|[Hab|[]]]; [auto |].
          inversion Hab; subst a b. exists n1, n2. auto.
  Qed.

  Theorem iso_sound_gen : forall fuel m0 r1 r2 m,
    iso h1 h2 fuel m0 r1 r2 = Some m ->
    (exists ext, m = ext ++ m0 /\ (bij_wf m0 -> bij_wf m) /\
                 (forall i j, In (i, j) ext -> sim_pair h1 h2 m i j)) /\
    rel_ref m r1 r2.
  Proof. intros fuel m0 r1 r2 m H. exact (iso_iso_ok fuel m0 r1 r2 m H). Qed.

  (* with a starting bijection that is already simulated, so is the result *)
  Corollary iso_sound_from : forall fuel m0 r1 r2 m,
    bij_wf m0 -> simulates h1 h2 m0 -> iso h1 h2 fuel m0 r1 r2 = Some m ->
    incl m0 m /\ bij_wf m /\ simulates h1 h2 m /\ rel_ref m r1 r2.
  Proof.
    intros fuel m0 r1 r2 m Hw0 Hs0 H.
    destruct (iso_sound_gen _ _ _ _ _ H) as [(ext & Hm & Hw & Hs) Hr].
    assert (Hinc : incl m0 m) by (subst m; apply incl_appr, incl_refl).
    split; [exact Hinc |]. split; [auto |]. split; [| exact Hr].
    intros i j Hin. rewrite Hm in Hin. apply in_app_or in Hin. destruct Hin as [Hin|Hin].
    - apply Hs; exact Hin.
    - apply (sim_pair_mono h1 h2 m0 m i j Hinc). apply Hs0; exact Hin.
  Qed.

  Theorem iso_sound : forall fuel r1 r2 m,
    iso h1 h2 fuel [] r1 r2 = Some m ->
    bij_wf m /\ simulates h1 h2 m /\ rel_ref m r1 r2.
  Proof.
    intros fuel r1 r2 m H.
    destruct (iso_sound_from fuel [] r1 r2 m bij_wf_nil (fun i j (F : In (i, j) []) => match F with end) H)
      as (_ & Hw & Hs & Hr).
    auto.
  Qed.

  Corollary iso_b_sound r1 r2 : iso_b h1 h2 r1 r2 = true ->
    exists m, bij_wf m /\ simulates h1 h2 m /\ rel_ref m r1 r2.
  Proof.
    unfold iso_b. destruct (iso h1 h2 _ [] r1 r2) as [m|] eqn:H; [| discriminate].
    intros _. exists m. eapply iso_sound; eauto.
  Qed.
End Sound.

(* ------------------------------------------------------------------------------------------ *)
(* a node is its shape plus its references *)

Lemma app_inv_length {A} (a c b d : list A) :
  length a = length c -> a ++ b = c ++ d -> a = c /\ b = d.
Proof.
  revert c. induction a as [|x a IH]; intros [|y c] Hlen Heq; cbn [length app] in *;
    try discriminate; [auto |].
  inversion Heq; subst. destruct (IH c ltac:(lia) H1) as [Ha Hb]. subst. auto.
Qed.

Lemma holes_length {A} (a b : list A) :
  map (fun _ => hole) a = map (fun _ => hole) b -> length a = length b.
Proof. intros H. apply (f_equal (@length ref)) in H. rewrite !map_length in H. exact H. Qed.

Lemma keyed_eq {K} (a b : list (K * ref)) :
  map (fun kv => (fst kv, hole)) a = map (fun kv => (fst kv, hole)) b ->
  map snd a = map snd b -> a = b.
Proof.
  revert b. induction a as [|[k v] a IH]; intros [|[k' v'] b] Hk Hv; cbn [map fst snd] in *;
    try discriminate; [reflexivity |].
  inversion Hk; inversion Hv; subst. f_equal. auto.
Qed.

Lemma keyed_length {K} (a b : list (K * ref)) :
  map (fun kv => (fst kv, hole)) a = map (fun kv => (fst kv, hole)) b -> length a = length b.
Proof. intros H. apply (f_equal (@length _)) in H. rewrite !map_length in H. exact H. Qed.

Definition pval_refs (p : pval) : list ref :=
  match p with PV v => [v] | PTuple l => l | PDict d => map snd d end.

Lemma pval_determine p q : erase_pval p = erase_pval q -> pval_refs p = pval_refs q -> p = q.
Proof.
  destruct p, q; cbn [erase_pval pval_refs]; intros He Hr; try discriminate.
  - inversion Hr; reflexivity.
  - subst; reflexivity.
  - f_equal. inversion He. apply keyed_eq; assumption.
Qed.

Lemma pval_refs_length p q : erase_pval p = erase_pval q -> length (pval_refs p) = length (pval_refs q).
Proof.
  destruct p, q; cbn [erase_pval pval_refs]; intros He; try discriminate.
  - reflexivity.
  - inversion He. apply holes_length; assumption.
  - inversion He. rewrite !map_length. eapply keyed_length; eauto.
Qed.

Lemma view_determine (v w : view) :
  map (fun kv => (fst kv, erase_pval (snd kv))) v = map (fun kv => (fst kv, erase_pval (snd kv))) w ->
  flat_map (fun kv => pval_refs (snd kv)) v = flat_map (fun kv => pval_refs (snd kv)) w ->
  v = w.
Proof.
  revert w. induction v as [|[k p] v IH]; intros [|[k' q] w] Hs Hr; cbn [map flat_map fst snd] in *;
    try discriminate; [reflexivity |].
  inversion Hs as [[Hk He Hrest]]. subst k'.
  destruct (app_inv_length _ _ _ _ (pval_refs_length p q He) Hr) as [Hpq Htl].
  f_equal; [f_equal; apply pval_determine; assumption | auto].
Qed.

Theorem shape_refs_determine : forall n1 n2,
  shape n1 = shape n2 -> refs_of n1 = refs_of n2 -> n1 = n2.
Proof.
  intros n1 n2 Hs Hr.
  destruct n1, n2; cbn [shape refs_of] in Hs, Hr; try discriminate.
  - subst; reflexivity.
  - subst; reflexivity.
  - f_equal. inversion Hs. apply keyed_eq; assumption.
  - inversion Hs. subst. f_equal. apply keyed_eq; assumption.
  - inversion Hs. subst. f_equal. apply keyed_eq; assumption.
  - inversion Hs. subst. f_equal. apply keyed_eq; assumption.
  - inversion Hs as [[Hfn Hv]]. subst. f_equal.
    apply view_determine; [exact Hv |].
    unfold pval_refs. exact Hr.
  - inversion Hs as [[Hfn Hp Hk]]. subst.
    destruct (app_inv_length _ _ _ _ (holes_length _ _ Hp) Hr) as [Hpos Hkw].
    f_equal; [assumption | apply keyed_eq; assumption].
  - exact Hs.
  - exact Hs.
Qed.

(* corresponding nodes whose references coincide are equal *)
Corollary simulates_same_refs h1 h2 m i j n1 n2 :
  simulates h1 h2 m -> In (i, j) m -> nth_error h1 i = Some n1 -> nth_error h2 j = Some n2 ->
  refs_of n1 = refs_of n2 -> n1 = n2.
Proof.
  intros Hs Hin H1 H2 Hr. destruct (Hs i j Hin) as (n1' & n2' & H1' & H2' & Hsh & _).
  rewrite H1 in H1'. rewrite H2 in H2'. inversion H1'; inversion H2'; subst.
  apply shape_refs_determine; assumption.
Qed.
