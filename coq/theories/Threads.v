(* Threads: the module-level state Fiddle shares between threads, and all interleavings of
   per-thread programs over it.
     building._state.in_build      threading.local  -> a flag per thread
     history._tracking_state       threading.local  -> a flag per thread
     history._set_counter          itertools.count  -> one global counter (atomic increment)
     signatures._signature_cache / _type_hints_cache / make_exception_class's lru_cache
                                   -> one global map key -> value, filled with a pure function of the key
   Each action below is atomic (one bytecode-level operation under the GIL: the assumption of C19). *)
From Coq Require Import List Arith Bool Lia.
Import ListNotations.

Definition tid := nat.

Inductive action :=
| AEnterBuild            (* check-and-set of the per-thread in_build flag *)
| AExitBuild             (* the finally clause *)
| ASetTracking (b : bool)
| ANextSeq               (* next(_set_counter), only if tracking is enabled for this thread *)
| ACacheGet (k : nat)    (* cache lookup *)
| ACachePut (k : nat).   (* cache[k] = f k *)

Inductive obs :=
| OOk | ONested          (* EnterBuild: accepted / "forbidden to call fdl.build inside fdl.build" *)
| OSeq (n : option nat)  (* the sequence id obtained, None when tracking is suspended *)
| OCache (v : option nat)
| ODone.

Record gstate := mk_g {
  g_in_build : tid -> bool;
  g_tracking : tid -> bool;
  g_counter : nat;
  g_cache : nat -> option nat
}.

Definition upd {A} (f : nat -> A) (k : nat) (v : A) : nat -> A :=
  fun x => if Nat.eqb x k then v else f x.

Section Run.
  Variable f : nat -> nat.     (* what the caches compute: signature of a callable, ... *)

  Definition step (g : gstate) (t : tid) (a : action) : gstate * obs :=
    match a with
    | AEnterBuild =>
        if g_in_build g t then (g, ONested)
        else (mk_g (upd (g_in_build g) t true) (g_tracking g) (g_counter g) (g_cache g), OOk)
    | AExitBuild => (mk_g (upd (g_in_build g) t false) (g_tracking g) (g_counter g) (g_cache g), ODone)
    | ASetTracking b => (mk_g (g_in_build g) (upd (g_tracking g) t b) (g_counter g) (g_cache g), ODone)
    | ANextSeq =>
        if g_tracking g t
        then (mk_g (g_in_build g) (g_tracking g) (S (g_counter g)) (g_cache g), OSeq (Some (g_counter g)))
        else (g, OSeq None)
    | ACacheGet k => (g, OCache (g_cache g k))
    | ACachePut k => (mk_g (g_in_build g) (g_tracking g) (g_counter g) (upd (g_cache g) k (Some (f k))), ODone)
    end.

  (* a schedule is a list of (thread, action); the result is each step's observation, tagged *)
  Fixpoint run (g : gstate) (sched : list (tid * action)) : gstate * list (tid * obs) :=
    match sched with
    | [] => (g, [])
    | (t, a) :: rest =>
        let '(g1, o) := step g t a in
        let '(g2, os) := run g1 rest in
        (g2, (t, o) :: os)
    end.

  Definition proj {A} (t : tid) (l : list (tid * A)) : list A :=
    map snd (filter (fun x => Nat.eqb (fst x) t) l).

  (* the observations of thread t with sequence ids erased (they are compared up to an
     order-preserving renaming: only whether an id was issued matters here) and cache hits / misses
     erased (a miss is followed by computing f k: the value used is f k either way) *)
  Definition erase (o : obs) : obs :=
    match o with
    | OSeq (Some _) => OSeq (Some 0)
    | OCache _ => OCache None
    | other => other
    end.

  Definition seqs_of (l : list obs) : list nat :=
    flat_map (fun o => match o with OSeq (Some n) => [n] | _ => [] end) l.

  Definition cache_ok (g : gstate) : Prop := forall k v, g_cache g k = Some v -> v = f k.
End Run.
