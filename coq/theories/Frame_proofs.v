(* The frame theorem of C17: a memoized traversal whose node function only appends to the output
   heap never modifies the heap it was given.  Instantiated for every modelled read-only or
   copy-returning API. *)
From Fiddle Require Import PyBase PySlice Sig ArgStore PyCall Heap Traverse Build Build_stmt
  Traverse_proofs Build_proofs Copy Tags Eq Transform C08Check.
From Coq Require Import List Arith Lia.

Definition appends (on_node : nat -> node -> list ref -> heap -> heap * (ref + fail)) : Prop :=
  forall i n rs o o' x, on_node i n rs o = (o', x) -> exists ext, o' = o ++ ext.

Theorem frame_generic e h on_node :
  wf_b e h = true -> appends on_node ->
  forall r s res, root_ok h r -> mrun e h on_node r = (s, res) ->
    firstn (length h) (out s) = h /\ (length h <= length (out s))%nat.
Proof.
  intros Hwf Happ r s res Hroot Hrun.
  pose proof (mrun_spec e h on_node Hwf Happ r s res Hroot Hrun) as Hv.
  destruct Hv as (Hinv & _). destruct Hinv as (_ & _ & _ & Hrec).
  destruct (recorded_prefix e h on_node Happ _ _ Hrec) as [ext Ho]. rewrite Ho. split.
  - rewrite firstn_app, Nat.sub_diag, firstn_all. cbn [firstn]. apply app_nil_r.
  - rewrite app_length. lia.
Qed.

Lemma alloc_appends o n o' r : alloc o n = (o', r) -> exists ext, o' = o ++ ext.
Proof. unfold alloc. intros H. inversion H; subst. exists [n]. reflexivity. Qed.

Ltac solve_appends :=
  repeat match goal with
         | H : (let '(_, _) := alloc ?o ?n in _) = _ |- _ =>
             destruct (alloc o n) as [? ?] eqn:?
         | H : (if ?b then _ else _) = _ |- _ => destruct b eqn:?
         | H : match ?x with _ => _ end = _ |- _ => destruct x eqn:?
         end;
  match goal with
  | H : (_, _) = (_, _) |- _ => inversion H; subst
  end;
  try (eexists nil; rewrite app_nil_r; reflexivity);
  try (eapply alloc_appends; eassumption).

Lemma rebuild_appends e : appends (rebuild_node e).
Proof. intros i n rs o o' x H. unfold rebuild_node in H. solve_appends. Qed.

Lemma copy_appends e pickle : appends (copy_node e pickle).
Proof. intros i n rs o o' x H. unfold copy_node in H. solve_appends. Qed.

Lemma trim_appends e : appends (trim_node e).
Proof. intros i n rs o o' x H. unfold trim_node in H. solve_appends. Qed.

Lemma simplify_appends e : appends (simplify_node e).
Proof. intros i n rs o o' x H. unfold simplify_node in H. solve_appends. Qed.

Lemma mattags_appends e : appends (mattags_node e).
Proof. intros i n rs o o' x H. unfold mattags_node in H. solve_appends. Qed.

Lemma build_appends e fails : appends (build_node e fails).
Proof. intros i n rs o o' x H. eapply build_app; eauto. Qed.
