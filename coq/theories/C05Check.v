(* C05Check: fault enumeration.  A case: signatures, heap, root, the Config node whose callable
   raises, and the callables the implementation invoked before it (input ids, in order). *)
From Fiddle Require Import PyBase PySlice Sig ArgStore PyCall Heap Traverse Build Build_proofs.

Record case := mkcase { c_env : sigenv; c_heap : heap; c_root : ref; c_target : nat;
                        c_log_before : list nat;
                        c_path : path (* the path named by the escaping exception *) }.

(* The path named in the message is state.current_path of the memoized traversal when the callable is
   invoked: the first path, in traversal order, that reaches the Buildable. *)
Definition failing_path (e : sigenv) (h : heap) (r : ref) (k : nat) : path :=
  match paths_to e h (S (length h)) r k with
  | p :: _ => p
  | [] => []
  end.

Definition fail_at (k : nat) (i : nat) : option N := if Nat.eqb i k then Some 1%N else None.

Definition check_case (c : case) : bool :=
  wf_b (c_env c) (c_heap c) && keys_ok_b (c_heap c) &&   (* the hypotheses of the C02 theorems *)
  let '(flag, (s, res)) := build (c_env c) (fail_at (c_target c)) false (c_heap c) (c_root c) in
  negb flag &&
  match res with
  | inr (FRaise k x) =>
      Nat.eqb k (c_target c)
      && (if list_eq_dec Nat.eq_dec (call_log (c_heap c) s) (c_log_before c) then true else false)
      && (if heap_eq_dec (firstn (length (c_heap c)) (out s)) (c_heap c) then true else false)
      && (if path_eq_dec (failing_path (c_env c) (c_heap c) (c_root c) k) (c_path c) then true else false)
  | _ => false
  end.

Definition explain_case (c : case) :=
  let '(flag, (s, res)) := build (c_env c) (fail_at (c_target c)) false (c_heap c) (c_root c) in
  (flag, res, call_log (c_heap c) s, failing_path (c_env c) (c_heap c) (c_root c) (c_target c)).
