(* Codegen: the core of Fiddle's code generators on a heap.
     shared nodes -> variables (auto_config/shared_to_variables.py), everything else inline,
     Buildables emitted as constructor calls with their int-keyed arguments positionally and the
     named ones as keywords (ir_to_cst._prepare_args_helper over ordered_arguments).
   The generated program is a Lang.program; its cfg-semantics (Lang.eval true) is what executing the
   emitted `fdl.Config(fn, ...)` module text computes. *)
From Fiddle Require Import PyBase PySlice Sig ArgStore PyCall Heap Traverse Build Lang.

(* number of slots (argument values, list items, dict values ...) of the sub-graph reachable from the
   root that hold a pointer to node i: a node held by two slots is "shared" *)
Section Gen.
  Variable e : sigenv.

  (* slots of the whole reachable sub-graph, each reachable node listed once (memoized walk) *)
  Fixpoint reach (fuel : nat) (h : heap) (seen : list nat) (r : ref) : list nat :=
    match fuel with
    | O => seen
    | S f =>
        match r with
        | RA _ => seen
        | RP i =>
            if existsb (Nat.eqb i) seen then seen
            else match nth_error h i with
                 | Some n => fold_left (fun s c => reach f h s c) (node_refs e n) (i :: seen)
                 | None => seen
                 end
        end
    end.

  Definition reachable_ids (h : heap) (r : ref) : list nat := reach (S (length h)) h [] r.

  Definition count_refs (h : heap) (ids : list nat) (i : nat) : nat :=
    fold_left (fun (acc : nat) j =>
                 match nth_error h j with
                 | Some n => (acc + length (filter (fun c => match c with RP k => Nat.eqb k i | RA _ => false end)
                                                  (node_refs e n)))%nat
                 | None => acc
                 end) ids 0%nat.

  Definition shared_in (h : heap) (ids : list nat) (i : nat) : bool := Nat.leb 2%nat (count_refs h ids i).

  (* the arguments of a Buildable as the emitter writes them: int keys positionally (they must be
     0..n-1), names as keywords in the order of ordered_arguments.  None = the generator raises
     ("Positional args supplied were not contiguous"). *)
  Definition emit_split (st : store) : option (list ref * list (N * ref)) :=
    let pos := flat_map (fun kv => match fst kv with KPos z => [(z, snd kv)] | KName _ => [] end) st in
    let kw := flat_map (fun kv => match fst kv with KName n => [(n, snd kv)] | KPos _ => [] end) st in
    let n := length pos in
    let sorted := flat_map (fun i => match sget st (KPos (Z.of_nat i)) with Some v => [v] | None => [] end)
                           (nat_seq 0%nat n) in
    if Nat.eqb (length sorted) n then Some (sorted, kw) else None.

  (* generator state: node id -> variable index, and the variable definitions so far *)
  Record gstate := mk_gs { g_map : list (nat * nat); g_vars : list expr }.

  Fixpoint lookup_var (m : list (nat * nat)) (i : nat) : option nat :=
    match m with [] => None | (a, b) :: m' => if Nat.eqb a i then Some b else lookup_var m' i end.

  (* nbase: number of parameters in front of the variables in the environment (0 for a fixture
     without parameters) *)
  Fixpoint genx (fuel : nat) (h : heap) (ids : list nat) (s : gstate) (r : ref) : option (gstate * expr) :=
    match fuel with
    | O => None
    | S f =>
        match r with
        | RA a => Some (s, EConst a)
        | RP i =>
            match lookup_var (g_map s) i with
            | Some v => Some (s, EVar v)
            | None =>
                let fix gen_list (s : gstate) (rs : list ref) : option (gstate * list expr) :=
                  match rs with
                  | [] => Some (s, [])
                  | c :: rs' =>
                      match genx f h ids s c with
                      | Some (s1, x) => match gen_list s1 rs' with
                                        | Some (s2, xs) => Some (s2, x :: xs)
                                        | None => None
                                        end
                      | None => None
                      end
                  end in
                let finish (s : gstate) (x : expr) : option (gstate * expr) :=
                  if shared_in h ids i
                  then let v := length (g_vars s) in
                       Some (mk_gs ((i, v) :: g_map s) (g_vars s ++ [x]), EVar v)
                  else Some (s, x) in
                match nth_error h i with
                | Some (NList xs) =>
                    match gen_list s xs with Some (s1, es) => finish s1 (EList es) | None => None end
                | Some (NTuple xs) =>
                    match gen_list s xs with Some (s1, es) => finish s1 (ETuple es) | None => None end
                | Some (NDict kvs) =>
                    match gen_list s (map snd kvs) with
                    | Some (s1, es) => finish s1 (EDict (combine (map fst kvs) es))
                    | None => None
                    end
                | Some (NBuildable k fn st []) =>
                    match emit_split st with
                    | Some (pos, kw) =>
                        match gen_list s (pos ++ map snd kw) with
                        | Some (s1, es) =>
                            let pe := firstn (length pos) es in
                            let ke := combine (map fst kw) (skipn (length pos) es) in
                            match k with
                            | BConfig => finish s1 (ECall fn pe ke)
                            | BPartial => finish s1 (EPartial fn pe ke)
                            | _ => None
                            end
                        | None => None
                        end
                    | None => None
                    end
                | _ => None          (* not expressible: the generator must raise *)
                end
            end
        end
    end.

  Definition gen (h : heap) (r : ref) : option program :=
    let ids := reachable_ids h r in
    match genx (S (length h)) h ids (mk_gs [] []) r with
    | Some (s, x) => Some (mkprog (g_vars s) x)
    | None => None
    end.
End Gen.

(* ---- comparison up to the storage order of __arguments__ ---------------------------------------
   A configuration rebuilt by executing generated code stores its arguments in the order the
   constructor binds them; the input may have been assembled in any order.  Equality of
   configurations does not depend on that order: stores are compared sorted by key. *)
Definition skey_leb (a b : skey) : bool :=
  match a, b with
  | KPos x, KPos y => Z.leb x y
  | KPos _, KName _ => true
  | KName _, KPos _ => false
  | KName x, KName y => N.leb x y
  end.
Fixpoint insert_entry (x : skey * ref) (l : store) : store :=
  match l with
  | [] => [x]
  | y :: l' => if skey_leb (fst x) (fst y) then x :: l else y :: insert_entry x l'
  end.
Definition sort_store (l : store) : store := fold_right insert_entry [] l.
Definition canon_node (n : node) : node :=
  match n with
  | NBuildable k fn st tags => NBuildable k fn (sort_store st) tags
  | _ => n
  end.
Definition canon_heap (h : heap) : heap := map canon_node h.
