(* Tags_proofs: C14.  set_tagged / apply_tagged select exactly the tagged arguments, list_tags is
   the sorted union of the tag sets of the reachable Buildables, and the per-Buildable tag
   operations of History.v only touch the tag set of the one key they name.

   The main observation for set_tagged: st_visit over the mutable heap h is a memoized pre-order
   walk over the STATIC heap  hA := map (apply_tagged T x) h  (a node is overwritten before its
   children are enumerated, and never visited again), which marks the nodes it visits. *)
From Fiddle Require Import PyBase PySlice Sig ArgStore History PyCall Heap Traverse Build Build_stmt
  Traverse_proofs Build_proofs Store_proofs Tags.
From Coq Require Import List Arith Lia Bool NArith ZArith Sorted.
Import ListNotations.
Local Open Scope nat_scope.

(* ------------------------------------------------------------------------------------------ *)
(* 1. apply_tagged *)

Section ApplyTagged.
  Variable subtags : list (N * N).
  Variable T : N.
  Variable x : ref.

  (* the new argument store of a Buildable *)
  Definition tagged_args (tags : list (skey * list N)) (args : store) : store :=
    fold_left (fun a kt => if tag_matches subtags T (snd kt) then sset a (fst kt) x else a) tags args.

  (* key kk carries a tag that is a subtag of T *)
  Definition key_tagged (tags : list (skey * list N)) (kk : skey) : bool :=
    existsb (fun kt => skey_eqb (fst kt) kk && tag_matches subtags T (snd kt)) tags.

  Lemma key_tagged_spec tags kk :
    key_tagged tags kk = true <-> exists ts, In (kk, ts) tags /\ tag_matches subtags T ts = true.
  Proof.
    unfold key_tagged. rewrite existsb_exists. split.
    - intros ([k ts] & Hin & Hb). cbn [fst snd] in Hb. apply andb_true_iff in Hb.
      destruct Hb as [Hk Hm]. apply skey_eqb_eq in Hk. subst k. exists ts. split; assumption.
    - intros (ts & Hin & Hm). exists (kk, ts). split; [exact Hin |]. cbn [fst snd].
      rewrite skey_eqb_refl, Hm. reflexivity.
  Qed.

  Lemma apply_tagged_buildable k fn args tags :
    apply_tagged subtags T x (NBuildable k fn args tags) = NBuildable k fn (tagged_args tags args) tags.
  Proof. reflexivity. Qed.

  Lemma tagged_args_sget tags : forall args kk,
    sget (tagged_args tags args) kk = if key_tagged tags kk then Some x else sget args kk.
  Proof.
    unfold tagged_args, key_tagged.
    induction tags as [|[k ts] tags IH]; intros args kk; cbn [fold_left existsb fst snd].
    - reflexivity.
    - rewrite IH. destruct (existsb _ tags) eqn:Hex.
      + rewrite orb_true_r. reflexivity.
      + rewrite orb_false_r. destruct (tag_matches subtags T ts).
        * rewrite andb_true_r, sget_sset, (skey_eqb_sym k kk). reflexivity.
        * rewrite andb_false_r. reflexivity.
  Qed.

  (* target 1: no hypothesis on the tag map is needed (in particular not NoDup (map fst tags)) *)
  Theorem apply_tagged_char n :
    match n with
    | NBuildable k fn args tags =>
        exists args',
          apply_tagged subtags T x n = NBuildable k fn args' tags /\
          forall kk,
            ((exists ts, In (kk, ts) tags /\ tag_matches subtags T ts = true) -> sget args' kk = Some x) /\
            (~ (exists ts, In (kk, ts) tags /\ tag_matches subtags T ts = true) -> sget args' kk = sget args kk)
    | _ => apply_tagged subtags T x n = n
    end.
  Proof.
    destruct n; try reflexivity.
    exists (tagged_args tags args). split; [reflexivity |].
    intros kk. rewrite tagged_args_sget. split; intros Hk.
    - apply key_tagged_spec in Hk. rewrite Hk. reflexivity.
    - destruct (key_tagged tags kk) eqn:Hb; [| reflexivity].
      exfalso. apply Hk. apply key_tagged_spec. exact Hb.
  Qed.

  Lemma apply_tagged_not_buildable n :
    (forall k fn args tags, n <> NBuildable k fn args tags) -> apply_tagged subtags T x n = n.
  Proof. intros Hn. destruct n; try reflexivity. exfalso. eapply Hn. reflexivity. Qed.

  Lemma apply_tagged_keys_ok n : node_keys_ok n -> node_keys_ok (apply_tagged subtags T x n).
  Proof. destruct n; cbn [apply_tagged node_keys_ok]; auto. Qed.

  Lemma tagged_args_values tags : forall args v,
    In v (map snd (tagged_args tags args)) -> v = x \/ In v (map snd args).
  Proof.
    unfold tagged_args.
    induction tags as [|[k ts] tags IH]; intros args v; cbn [fold_left fst snd]; intros Hin.
    - right; exact Hin.
    - apply IH in Hin. destruct Hin as [Hx|Hin]; [left; exact Hx |].
      destruct (tag_matches subtags T ts); [| right; exact Hin].
      apply sset_values in Hin. exact Hin.
  Qed.

  Lemma apply_tagged_refs e n v :
    In v (node_refs e (apply_tagged subtags T x n)) -> v = x \/ In v (node_refs e n).
  Proof.
    destruct n; cbn [apply_tagged]; try (right; assumption).
    cbn [node_refs]. apply tagged_args_values.
  Qed.
End ApplyTagged.

(* ------------------------------------------------------------------------------------------ *)
(* 5. the tag operations of one Buildable (History.v) *)

Lemma tset_add_in t l x : In x (tset_add t l) <-> x = t \/ In x l.
Proof.
  induction l as [|y l IH]; cbn [tset_add In].
  - split; [intros [H|[]]; left; auto | intros [H|[]]; left; auto].
  - destruct (N.eqb t y) eqn:Hty.
    + apply N.eqb_eq in Hty. subst y. cbn [In]. split; [auto |]. intros [H|H]; [left; auto | exact H].
    + destruct (N.ltb t y); cbn [In].
      * split; [intros [H|H]; [left; auto | right; exact H] | intros [H|H]; [left; auto | right; exact H]].
      * rewrite IH. split; [intros [H|[H|H]]; auto | intros [H|[H|H]]; auto].
Qed.

Lemma tset_remove_in t l x : In x (tset_remove t l) <-> x <> t /\ In x l.
Proof.
  unfold tset_remove. rewrite filter_In. split.
  - intros [Hin Hb]. split; [| exact Hin]. intros Heq. subst x. rewrite N.eqb_refl in Hb. discriminate.
  - intros [Hne Hin]. split; [exact Hin |]. destruct (N.eqb t x) eqn:E; [| reflexivity].
    apply N.eqb_eq in E. congruence.
Qed.

Lemma tags_get_set m k l k' :
  tags_get (tags_set m k l) k' = if skey_eqb k' k then l else tags_get m k'.
Proof.
  unfold tags_get, tags_set.
  induction m as [|[k0 v0] m IH]; cbn [dset dget].
  - destruct (skey_eqb k' k); reflexivity.
  - destruct (skey_eqb k k0) eqn:E.
    + apply skey_eqb_eq in E. subst k0. cbn [dget]. destruct (skey_eqb k' k); reflexivity.
    + cbn [dget]. destruct (skey_eqb k' k0) eqn:E0.
      * destruct (skey_eqb k' k) eqn:E1; [| reflexivity].
        apply skey_eqb_eq in E0. apply skey_eqb_eq in E1. subst.
        rewrite skey_eqb_refl in E. discriminate.
      * exact IH.
Qed.

Lemma tags_get_set_same m k k' : tags_get (tags_set m k (tags_get m k)) k' = tags_get m k'.
Proof.
  rewrite tags_get_set. destruct (skey_eqb k' k) eqn:E; [| reflexivity].
  apply skey_eqb_eq in E. subst. reflexivity.
Qed.

Lemma log_entry_args s k v : b_args (log_entry s k v) = b_args s.
Proof. unfold log_entry. destruct (b_tracking s); reflexivity. Qed.
Lemma log_entry_tags s k v : b_tags (log_entry s k v) = b_tags s.
Proof. unfold log_entry. destruct (b_tracking s); reflexivity. Qed.

Section TagOps.
  Variable sg : sig.

  (* what a successful tag operation on argument a does: only the tag set of the key of a moves *)
  Definition tag_frame (s s' : bstate) (a : targ) (upd : list N -> list N -> Prop) : Prop :=
    exists k,
      targ_key sg s a = inl k /\
      b_args s' = b_args s /\
      (forall k', k' <> k -> tags_get (b_tags s') k' = tags_get (b_tags s) k') /\
      upd (tags_get (b_tags s) k) (tags_get (b_tags s') k).

  (* what a failing tag operation does: nothing that can be observed through tags_get *)
  Definition tag_unchanged (s s' : bstate) : Prop :=
    b_args s' = b_args s /\ forall k', tags_get (b_tags s') k' = tags_get (b_tags s) k'.

  Lemma targ_key_args s s' a : b_args s' = b_args s -> targ_key sg s' a = targ_key sg s a.
  Proof. intros H. destruct a; cbn [targ_key]; [reflexivity | rewrite H; reflexivity]. Qed.

  Theorem add_tag_frame s a t s' :
    add_tag sg s a t = (s', None) ->
    tag_frame s s' a (fun old new => new = tset_add t old).
  Proof.
    unfold add_tag. destruct (validate_targ sg a); [discriminate |].
    destruct (targ_key sg s a) as [k|ex] eqn:Hk; [| discriminate].
    intros H. inversion H; subst s'; clear H. exists k. split; [exact Hk |].
    rewrite log_entry_args, log_entry_tags. cbn [with_tags b_args b_tags].
    split; [reflexivity |]. split.
    - intros k' Hne. rewrite tags_get_set, (skey_eqb_neq _ _ Hne). reflexivity.
    - rewrite tags_get_set, skey_eqb_refl. reflexivity.
  Qed.

  Theorem add_tag_error s a t s' ex : add_tag sg s a t = (s', Some ex) -> s' = s.
  Proof.
    unfold add_tag. destruct (validate_targ sg a); [intros H; inversion H; reflexivity |].
    destruct (targ_key sg s a); intros H; inversion H; reflexivity.
  Qed.

  Theorem clear_tags_frame s a s' :
    clear_tags sg s a = (s', None) -> tag_frame s s' a (fun _ new => new = []).
  Proof.
    unfold clear_tags. destruct (validate_targ sg a); [discriminate |].
    destruct (targ_key sg s a) as [k|ex] eqn:Hk; [| discriminate].
    intros H. inversion H; subst s'; clear H. exists k. split; [exact Hk |].
    rewrite log_entry_args, log_entry_tags. cbn [with_tags b_args b_tags].
    split; [reflexivity |]. split.
    - intros k' Hne. rewrite tags_get_set, (skey_eqb_neq _ _ Hne). reflexivity.
    - rewrite tags_get_set, skey_eqb_refl. reflexivity.
  Qed.

  Theorem clear_tags_error s a s' ex : clear_tags sg s a = (s', Some ex) -> s' = s.
  Proof.
    unfold clear_tags. destruct (validate_targ sg a); [intros H; inversion H; reflexivity |].
    destruct (targ_key sg s a); intros H; inversion H; reflexivity.
  Qed.

  Theorem remove_tag_frame s a t s' :
    remove_tag sg s a t = (s', None) ->
    tag_frame s s' a (fun old new => new = tset_remove t old /\ In t old).
  Proof.
    unfold remove_tag. destruct (validate_targ sg a); [discriminate |].
    destruct (targ_key sg s a) as [k|ex] eqn:Hk; [| discriminate].
    destruct (tset_mem t (tags_get (b_tags s) k)) eqn:Hmem; [| discriminate].
    intros H. inversion H; subst s'; clear H. exists k. split; [exact Hk |].
    rewrite log_entry_args, log_entry_tags. cbn [with_tags b_args b_tags].
    split; [reflexivity |]. split.
    - intros k' Hne. rewrite !tags_get_set, (skey_eqb_neq _ _ Hne). reflexivity.
    - rewrite tags_get_set, skey_eqb_refl. split; [reflexivity |].
      unfold tset_mem in Hmem. apply existsb_exists in Hmem. destruct Hmem as (y & Hin & Hy).
      apply N.eqb_eq in Hy. subst y. exact Hin.
  Qed.

  (* on error the tag map is unchanged up to the creation of an empty entry *)
  Theorem remove_tag_error s a t s' ex : remove_tag sg s a t = (s', Some ex) -> tag_unchanged s s'.
  Proof.
    unfold remove_tag, tag_unchanged.
    destruct (validate_targ sg a); [intros H; inversion H; subst; split; reflexivity |].
    destruct (targ_key sg s a) as [k|ex0]; [| intros H; inversion H; subst; split; reflexivity].
    destruct (tset_mem t (tags_get (b_tags s) k)); [discriminate |].
    intros H. inversion H; subst s'; clear H. cbn [with_tags b_args b_tags].
    split; [reflexivity |]. intros k'. apply tags_get_set_same.
  Qed.

  Lemma add_tags_frame ts : forall s a s',
    add_tags sg s a ts = (s', None) ->
    ts = [] /\ s' = s \/
    tag_frame s s' a (fun old new => forall t, In t new <-> In t ts \/ In t old).
  Proof.
    induction ts as [|t ts IH]; intros s a s' H; cbn [add_tags] in H.
    - left. inversion H; auto.
    - right. destruct (add_tag sg s a t) as [s1 [ex|]] eqn:Hadd; [discriminate |].
      apply add_tag_frame in Hadd. destruct Hadd as (k & Hk & Hargs & Hother & Hnew).
      destruct (IH _ _ _ H) as [[Hts Hs]|(k2 & Hk2 & Hargs2 & Hother2 & Hnew2)].
      + subst. exists k. repeat split; auto.
        * rewrite Hnew. intros Ht. apply tset_add_in in Ht. destruct Ht; [left; left; auto | right; auto].
        * rewrite Hnew. intros [[Ht|[]]|Ht]; apply tset_add_in; auto.
      + rewrite (targ_key_args s s1 a Hargs) in Hk2. rewrite Hk in Hk2. inversion Hk2; subst k2.
        exists k. split; [exact Hk |]. split; [congruence |]. split.
        * intros k' Hne. rewrite Hother2, Hother; auto.
        * intros t0. rewrite Hnew2, Hnew, tset_add_in. cbn [In]. intuition auto.
  Qed.

  Lemma add_tags_no_error ts : forall s a k,
    validate_targ sg a = None -> targ_key sg s a = inl k ->
    exists s', add_tags sg s a ts = (s', None).
  Proof.
    induction ts as [|t ts IH]; intros s a k Hv Hk; cbn [add_tags].
    - eexists; reflexivity.
    - destruct (add_tag sg s a t) as [s1 [ex|]] eqn:Hadd.
      + exfalso. unfold add_tag in Hadd. rewrite Hv, Hk in Hadd. discriminate.
      + pose proof (add_tag_frame _ _ _ _ Hadd) as (k1 & Hk1 & Hargs & _).
        eapply (IH s1 a k Hv). rewrite (targ_key_args s s1 a Hargs). exact Hk.
  Qed.

  Theorem set_tags_frame s a ts s' :
    set_tags sg s a ts = (s', None) ->
    tag_frame s s' a (fun _ new => forall t, In t new <-> In t ts).
  Proof.
    unfold set_tags.
    destruct (clear_tags sg s a) as [s1 [ex|]] eqn:Hclear; [discriminate |].
    apply clear_tags_frame in Hclear. destruct Hclear as (k & Hk & Hargs & Hother & Hnew).
    destruct (add_tags sg s1 a ts) as [s2 [ex|]] eqn:Hadd; [discriminate |].
    apply add_tags_frame in Hadd.
    assert (Hs2 : b_args s2 = b_args s /\
                  (forall k', k' <> k -> tags_get (b_tags s2) k' = tags_get (b_tags s) k') /\
                  (forall t, In t (tags_get (b_tags s2) k) <-> In t ts)).
    { destruct Hadd as [[Hts Hs]|(k2 & Hk2 & Hargs2 & Hother2 & Hnew2)].
      - subst. rewrite Hnew. repeat split; auto.
      - rewrite (targ_key_args s s1 a Hargs), Hk in Hk2. inversion Hk2; subst k2.
        split; [congruence |]. split.
        + intros k' Hne. rewrite Hother2, Hother; auto.
        + intros t. rewrite Hnew2, Hnew. cbn [In]. intuition auto. }
    destruct Hs2 as (Ha2 & Ho2 & Hn2).
    rewrite (targ_key_args s s2 a Ha2), Hk.
    intros H. inversion H; subst s'; clear H. exists k. split; [exact Hk |].
    rewrite log_entry_args, log_entry_tags. auto.
  Qed.

  Theorem set_tags_error s a ts s' ex : set_tags sg s a ts = (s', Some ex) -> s' = s.
  Proof.
    unfold set_tags.
    destruct (clear_tags sg s a) as [s1 [ex1|]] eqn:Hclear.
    { intros H. inversion H; subst. eapply clear_tags_error; eauto. }
    intros H; exfalso; revert H. pose proof Hclear as Hc.
    unfold clear_tags in Hc. destruct (validate_targ sg a) eqn:Hv; [discriminate |].
    destruct (targ_key sg s a) as [k|ex0] eqn:Hk; [| discriminate].
    apply clear_tags_frame in Hclear. destruct Hclear as (k1 & Hk1 & Hargs & _).
    destruct (add_tags_no_error ts s1 a k Hv) as [s2 Hadd].
    { rewrite (targ_key_args s s1 a Hargs). exact Hk. }
    rewrite Hadd.
    assert (Ha2 : b_args s2 = b_args s).
    { apply add_tags_frame in Hadd. destruct Hadd as [[_ Hs]|(k2 & _ & Hargs2 & _)]; congruence. }
    rewrite (targ_key_args s s2 a Ha2), Hk. discriminate.
  Qed.
End TagOps.

(* ------------------------------------------------------------------------------------------ *)
(* A memoized pre-order walk over a static well-formed heap visits exactly the reachable objects.
   `add` is how an id is recorded (st_visit conses, reach_list appends). *)

Lemma fold_left_ext {A B} (F G : A -> B -> A) (HFG : forall a b, F a b = G a b) l :
  forall a, fold_left F l a = fold_left G l a.
Proof. induction l as [|b l IH]; intros a; cbn [fold_left]; [reflexivity |]. rewrite HFG. apply IH. Qed.

Lemma existsb_nat_in i l : existsb (Nat.eqb i) l = true <-> In i l.
Proof.
  rewrite existsb_exists. split.
  - intros (k & Hin & Hk). apply Nat.eqb_eq in Hk. subst. exact Hin.
  - intros Hin. exists i. split; [exact Hin | apply Nat.eqb_refl].
Qed.

Section Dfs.
  Variable e : sigenv.
  Variable g : heap.
  Variable add : nat -> list nat -> list nat.
  Hypothesis add_in : forall i s k, In k (add i s) <-> k = i \/ In k s.

  Fixpoint gdfs (fuel : nat) (seen : list nat) (r : ref) : list nat :=
    match r with
    | RA _ => seen
    | RP i =>
        if existsb (Nat.eqb i) seen then seen else
        match fuel with
        | O => seen
        | S f =>
            match nth_error g i with
            | None => seen
            | Some n => fold_left (fun acc c => gdfs f acc c) (children e n) (add i seen)
            end
        end
    end.

  Definition ggo (f : nat) (seen : list nat) (cs : list ref) : list nat :=
    fold_left (fun acc c => gdfs f acc c) cs seen.

  Lemma ggo_cons f seen c cs : ggo f seen (c :: cs) = ggo f (gdfs f seen c) cs.
  Proof. reflexivity. Qed.

  Lemma gdfs_incl : forall f seen r k, In k seen -> In k (gdfs f seen r).
  Proof.
    induction f as [|f IH]; intros seen r k Hin; destruct r as [a|i]; cbn [gdfs]; auto.
    - destruct (existsb _ seen); exact Hin.
    - destruct (existsb _ seen); [exact Hin |].
      destruct (nth_error g i) as [n|]; [| exact Hin].
      assert (Hadd : In k (add i seen)) by (apply add_in; right; exact Hin).
      revert Hadd. generalize (add i seen). generalize (children e n).
      intros cs. induction cs as [|c cs IHcs]; intros s Hs; cbn [fold_left]; [exact Hs |].
      apply IHcs. apply IH. exact Hs.
  Qed.

  Lemma ggo_incl f : forall cs seen k, In k seen -> In k (ggo f seen cs).
  Proof.
    induction cs as [|c cs IH]; intros seen k Hin; [exact Hin |].
    rewrite ggo_cons. apply IH. apply gdfs_incl. exact Hin.
  Qed.

  (* soundness: everything recorded by a visit is reachable from the visited value *)
  Lemma ggo_new_of f
    (Hvis : forall seen r k, In k (gdfs f seen r) -> In k seen \/ creach e g r k) :
    forall cs seen k, In k (ggo f seen cs) -> In k seen \/ exists c, In c cs /\ creach e g c k.
  Proof.
    induction cs as [|c cs IH]; intros seen k Hin; [left; exact Hin |].
    rewrite ggo_cons in Hin. apply IH in Hin. destruct Hin as [Hin|(c0 & Hc0 & Hr)].
    - apply Hvis in Hin. destruct Hin as [Hin|Hr]; [left; exact Hin |].
      right. exists c. split; [left; reflexivity | exact Hr].
    - right. exists c0. split; [right; exact Hc0 | exact Hr].
  Qed.

  Lemma gdfs_new : forall f seen r k, In k (gdfs f seen r) -> In k seen \/ creach e g r k.
  Proof.
    induction f as [|f IH]; intros seen r k Hin; destruct r as [a|i]; cbn [gdfs] in Hin; auto.
    - destruct (existsb _ seen); left; exact Hin.
    - destruct (existsb _ seen); [left; exact Hin |].
      destruct (nth_error g i) as [n|] eqn:Hn; [| left; exact Hin].
      apply (ggo_new_of f IH) in Hin. destruct Hin as [Hin|(c & Hc & Hr)].
      + apply add_in in Hin. destruct Hin as [Hk|Hin]; [| left; exact Hin].
        subst k. right. constructor.
      + right. eapply cr_step; eauto.
  Qed.

  Lemma ggo_new f cs seen k :
    In k (ggo f seen cs) -> In k seen \/ exists c, In c cs /\ creach e g c k.
  Proof. apply ggo_new_of. apply gdfs_new. Qed.

  (* coverage *)
  Definition closed_below (seen : list nat) (B : nat) : Prop :=
    forall j k, j < B -> In j seen -> creach e g (RP j) k -> In k seen.

  Definition visitB (f : nat) : Prop :=
    forall seen r B,
      (forall i, r = RP i -> i < f /\ i < B /\ i < length g) -> closed_below seen B ->
      closed_below (gdfs f seen r) B /\ (forall k, creach e g r k -> In k (gdfs f seen r)).

  Lemma ggo_B f (Hvis : visitB f) B : forall cs seen,
    (forall j, In (RP j) cs -> j < f /\ j < B /\ j < length g) -> closed_below seen B ->
    closed_below (ggo f seen cs) B /\
    (forall c k, In c cs -> creach e g c k -> In k (ggo f seen cs)).
  Proof.
    induction cs as [|c cs IH]; intros seen Hcs Hcl.
    - split; [exact Hcl | intros c k []].
    - rewrite ggo_cons.
      destruct (Hvis seen c B) as [Hcl1 Hcov1]; [| exact Hcl |].
      { intros i Hi. subst c. apply Hcs. left; reflexivity. }
      destruct (IH (gdfs f seen c)) as [Hcl2 Hcov2];
        [intros j Hj; apply Hcs; right; exact Hj | exact Hcl1 |].
      split; [exact Hcl2 |].
      intros c0 k [Heq|Hin] Hr.
      + subst c0. apply ggo_incl. apply Hcov1. exact Hr.
      + eapply Hcov2; eauto.
  Qed.

  Lemma gdfs_B (Hwf : wf_b e g = true) : forall f, visitB f.
  Proof.
    induction f as [|f IH]; intros seen r B Hr Hcl.
    - destruct r as [a|i]; [| destruct (Hr i eq_refl); lia].
      split; [exact Hcl | intros k Hc; exfalso; eapply creach_atom; eauto].
    - destruct r as [a|i].
      { split; [exact Hcl | intros k Hc; exfalso; eapply creach_atom; eauto]. }
      destruct (Hr i eq_refl) as (Hif & HiB & Hih).
      cbn [gdfs]. destruct (existsb (Nat.eqb i) seen) eqn:Hex.
      + split; [exact Hcl |]. intros k Hc. apply existsb_nat_in in Hex. eapply Hcl; eauto.
      + destruct (nth_error g i) as [n|] eqn:Hn; [| apply nth_error_None in Hn; lia].
        assert (Hlt : forall j, In (RP j) (children e n) -> j < i).
        { intros j Hj. eapply wf_children_lt; eauto. }
        assert (Hcl0 : closed_below (add i seen) i).
        { intros j k Hj Hin Hc. apply add_in in Hin. destruct Hin as [Heq|Hin]; [lia |].
          apply add_in. right. apply (Hcl j k); auto. lia. }
        destruct (ggo_B f IH i (children e n) (add i seen)) as [Hcl1 Hcov1];
          [intros j Hj; specialize (Hlt j Hj); lia | exact Hcl0 |].
        pose proof (ggo_incl f (children e n) (add i seen)) as Hincl.
        pose proof (ggo_new f (children e n) (add i seen)) as Hnew.
        fold (ggo f (add i seen) (children e n)).
        set (seen' := ggo f (add i seen) (children e n)) in *.
        assert (Hcov : forall k, creach e g (RP i) k -> In k seen').
        { intros k Hc. inversion Hc as [|? n0 c ? Hn0 Hc0 Hck]; subst.
          - apply Hincl. apply add_in. left; reflexivity.
          - rewrite Hn in Hn0. inversion Hn0; subst n0. eapply Hcov1; eauto. }
        split; [| exact Hcov].
        intros j k Hj Hin Hc.
        destruct (Nat.lt_trichotomy j i) as [Hji|[Hji|Hji]].
        * eapply Hcl1; eauto.
        * subst j. apply Hcov; assumption.
        * destruct (Hnew j Hin) as [Hs|(c & Hc0 & Hcj)].
          -- apply add_in in Hs. destruct Hs as [Heq|Hs]; [lia |].
             apply Hincl. apply add_in. right. eapply Hcl; eauto.
          -- destruct c as [a|j']; [exfalso; eapply creach_atom; eauto |].
             pose proof (creach_le e g Hwf _ _ Hcj j' eq_refl). specialize (Hlt j' Hc0). lia.
  Qed.

  Theorem gdfs_exact (Hwf : wf_b e g = true) r (Hroot : root_ok g r) k :
    In k (gdfs (S (length g)) [] r) <-> creach e g r k.
  Proof.
    split.
    - intros Hin. apply gdfs_new in Hin. destruct Hin as [[]|Hr]. exact Hr.
    - intros Hr. destruct (gdfs_B Hwf (S (length g)) [] r (S (length g))) as [_ Hcov].
      + intros i Hi. subst r. cbn [root_ok] in Hroot. lia.
      + intros j k0 _ [].
      + apply Hcov. exact Hr.
  Qed.
End Dfs.

(* ------------------------------------------------------------------------------------------ *)
(* 4. list_tags *)

Lemma nset_add_in t l x : In x (nset_add t l) <-> x = t \/ In x l.
Proof.
  induction l as [|y l IH]; cbn [nset_add In].
  - split; [intros [H|[]]; left; auto | intros [H|[]]; left; auto].
  - destruct (N.eqb t y) eqn:Hty.
    + apply N.eqb_eq in Hty. subst y. cbn [In]. split; [auto |]. intros [H|H]; [left; auto | exact H].
    + destruct (N.ltb t y); cbn [In].
      * split; [intros [H|H]; [left; auto | right; exact H] | intros [H|H]; [left; auto | right; exact H]].
      * rewrite IH. split; [intros [H|[H|H]]; auto | intros [H|[H|H]]; auto].
Qed.

Lemma nset_add_sorted t l : StronglySorted N.lt l -> StronglySorted N.lt (nset_add t l).
Proof.
  induction l as [|y l IH]; intros Hs; cbn [nset_add].
  - constructor; constructor.
  - destruct (N.eqb t y) eqn:Hty; [exact Hs |].
    apply N.eqb_neq in Hty.
    inversion Hs as [|? ? Hs' Hall]; subst.
    destruct (N.ltb t y) eqn:Hlt.
    + apply N.ltb_lt in Hlt. constructor; [exact Hs |].
      constructor; [exact Hlt |].
      rewrite Forall_forall in *. intros z Hz. specialize (Hall z Hz). lia.
    + apply N.ltb_ge in Hlt. constructor; [apply IH; exact Hs' |].
      rewrite Forall_forall in *. intros z Hz. apply nset_add_in in Hz.
      destruct Hz as [Hz|Hz]; [subst z; lia | auto].
Qed.

Lemma sorted_lt_nodup l : StronglySorted N.lt l -> NoDup l.
Proof.
  induction 1 as [|y l Hs IH Hall]; constructor; [| exact IH].
  intros Hin. rewrite Forall_forall in Hall. specialize (Hall y Hin). lia.
Qed.

Definition add_tag_set (a : list N) (ts : list N) : list N := fold_left (fun a2 t => nset_add t a2) ts a.
Definition add_tag_map (a : list N) (tags : list (skey * list N)) : list N :=
  fold_left (fun a kt => add_tag_set a (snd kt)) tags a.
Definition add_node_tags (h : heap) (acc : list N) (i : nat) : list N :=
  match nth_error h i with
  | Some (NBuildable _ _ _ tags) => add_tag_map acc tags
  | _ => acc
  end.

Lemma add_tag_set_in ts : forall a x, In x (add_tag_set a ts) <-> In x ts \/ In x a.
Proof.
  unfold add_tag_set. induction ts as [|t ts IH]; intros a x; cbn [fold_left In].
  - tauto.
  - rewrite IH, nset_add_in. split; [intros [H|[H|H]]; auto | intros [[H|H]|H]; auto].
Qed.

Lemma add_tag_set_sorted ts : forall a, StronglySorted N.lt a -> StronglySorted N.lt (add_tag_set a ts).
Proof.
  unfold add_tag_set. induction ts as [|t ts IH]; intros a Hs; cbn [fold_left]; [exact Hs |].
  apply IH. apply nset_add_sorted. exact Hs.
Qed.

Lemma add_tag_map_in tags : forall a x,
  In x (add_tag_map a tags) <-> (exists kk ts, In (kk, ts) tags /\ In x ts) \/ In x a.
Proof.
  unfold add_tag_map. induction tags as [|[k ts0] tags IH]; intros a x; cbn [fold_left In snd].
  - split; [auto |]. intros [(kk & ts & [] & _)|H]; exact H.
  - rewrite IH, add_tag_set_in. split.
    + intros [(kk & ts & Hin & Hx)|[Hx|Hx]]; [left; exists kk, ts; auto | | right; exact Hx].
      left. exists k, ts0. auto.
    + intros [(kk & ts & [Heq|Hin] & Hx)|Hx]; [| left; exists kk, ts; auto | auto].
      inversion Heq; subst. auto.
Qed.

Lemma add_tag_map_sorted tags : forall a, StronglySorted N.lt a -> StronglySorted N.lt (add_tag_map a tags).
Proof.
  unfold add_tag_map. induction tags as [|[k ts] tags IH]; intros a Hs; cbn [fold_left]; [exact Hs |].
  apply IH. apply add_tag_set_sorted. exact Hs.
Qed.

Definition tag_at (h : heap) (i : nat) (t : N) : Prop :=
  exists k fn args tags kk ts,
    nth_error h i = Some (NBuildable k fn args tags) /\ In (kk, ts) tags /\ In t ts.

Lemma add_node_tags_in h a i x : In x (add_node_tags h a i) <-> tag_at h i x \/ In x a.
Proof.
  unfold add_node_tags, tag_at.
  destruct (nth_error h i) as [n|].
  2:{ split; [auto |]. intros [(k & fn & args & tags & kk & ts & Hn & _)|H]; [discriminate | exact H]. }
  destruct n; try (split; [auto |];
    intros [(k0 & fn0 & args0 & tags0 & kk & ts & Hn & _)|H]; [discriminate | exact H]).
  rewrite add_tag_map_in. split.
  - intros [(kk & ts & Hin & Hx)|H]; [left | right; exact H].
    exists k, fn, args, tags, kk, ts. auto.
  - intros [(k0 & fn0 & args0 & tags0 & kk & ts & Hn & Hin & Hx)|H]; [left | right; exact H].
    inversion Hn; subst. exists kk, ts. auto.
Qed.

Lemma add_node_tags_sorted h a i : StronglySorted N.lt a -> StronglySorted N.lt (add_node_tags h a i).
Proof.
  unfold add_node_tags. intros Hs. destruct (nth_error h i) as [n|]; [| exact Hs].
  destruct n; try exact Hs. apply add_tag_map_sorted. exact Hs.
Qed.

Lemma fold_node_tags_in h l : forall a x,
  In x (fold_left (add_node_tags h) l a) <-> (exists i, In i l /\ tag_at h i x) \/ In x a.
Proof.
  induction l as [|i l IH]; intros a x; cbn [fold_left In].
  - split; [auto |]. intros [(i & [] & _)|H]; exact H.
  - rewrite IH, add_node_tags_in. split.
    + intros [(j & Hj & Ht)|[Ht|Hx]]; [left; exists j; auto | left; exists i; auto | right; exact Hx].
    + intros [(j & [Heq|Hj] & Ht)|Hx]; [subst; auto | left; exists j; auto | auto].
Qed.

Lemma fold_node_tags_sorted h l : forall a,
  StronglySorted N.lt a -> StronglySorted N.lt (fold_left (add_node_tags h) l a).
Proof.
  induction l as [|i l IH]; intros a Hs; cbn [fold_left]; [exact Hs |].
  apply IH. apply add_node_tags_sorted. exact Hs.
Qed.

Section ListTags.
  Variable e : sigenv.

  Definition snoc_id (i : nat) (s : list nat) : list nat := s ++ [i].
  Lemma snoc_id_in i s k : In k (snoc_id i s) <-> k = i \/ In k s.
  Proof. unfold snoc_id. rewrite in_app_iff. cbn [In]. split; [intros [H|[H|[]]]; auto | intros [H|H]; auto]. Qed.

  Lemma reach_list_gdfs h : forall f seen r, reach_list e f h seen r = gdfs e h snoc_id f seen r.
  Proof.
    induction f as [|f IH]; intros seen r; destruct r as [a|i]; cbn [reach_list gdfs]; try reflexivity.
    destruct (existsb _ seen); [reflexivity |].
    destruct (nth_error h i) as [n|]; [| reflexivity].
    apply fold_left_ext. intros acc c. apply IH.
  Qed.

  Lemma list_tags_unfold h r :
    list_tags e h r = fold_left (add_node_tags h) (reach_list e (S (length h)) h [] r) [].
  Proof. reflexivity. Qed.

  Theorem reach_list_exact h r (Hwf : wf_b e h = true) (Hroot : root_ok h r) i :
    In i (reach_list e (S (length h)) h [] r) <-> creach e h r i.
  Proof. rewrite reach_list_gdfs. apply gdfs_exact; auto. apply snoc_id_in. Qed.

  Theorem list_tags_in h r (Hwf : wf_b e h = true) (Hroot : root_ok h r) t :
    In t (list_tags e h r) <->
    exists i k fn args tags kk ts,
      creach e h r i /\ nth_error h i = Some (NBuildable k fn args tags) /\ In (kk, ts) tags /\ In t ts.
  Proof.
    rewrite list_tags_unfold, fold_node_tags_in. split.
    - intros [(i & Hi & (k & fn & args & tags & kk & ts & Hn & Hin & Ht))|[]].
      exists i, k, fn, args, tags, kk, ts. split; [| auto].
      apply reach_list_exact; auto.
    - intros (i & k & fn & args & tags & kk & ts & Hr & Hn & Hin & Ht). left.
      exists i. split; [apply reach_list_exact; auto |].
      exists k, fn, args, tags, kk, ts. auto.
  Qed.

  Theorem list_tags_in_reach h r (Hwf : wf_b e h = true) (Hk : keys_ok h) (Hroot : root_ok h r) t :
    In t (list_tags e h r) <->
    exists i k fn args tags kk ts,
      reach e h r i /\ nth_error h i = Some (NBuildable k fn args tags) /\ In (kk, ts) tags /\ In t ts.
  Proof.
    rewrite list_tags_in by assumption. split;
      intros (i & k & fn & args & tags & kk & ts & Hr & Hrest);
      exists i, k, fn, args, tags, kk, ts; (split; [| exact Hrest]).
    - apply creach_reach; [apply keys_ok_elts_ok; exact Hk | exact Hr].
    - apply reach_creach. exact Hr.
  Qed.

  (* no hypothesis needed *)
  Theorem list_tags_sorted h r : StronglySorted N.lt (list_tags e h r).
  Proof. rewrite list_tags_unfold. apply fold_node_tags_sorted. constructor. Qed.

  Theorem list_tags_nodup h r : NoDup (list_tags e h r).
  Proof. apply sorted_lt_nodup. apply list_tags_sorted. Qed.
End ListTags.

(* ------------------------------------------------------------------------------------------ *)
(* 2./3. set_tagged *)

Lemma heap_set_length h : forall i n, length (heap_set h i n) = length h.
Proof.
  induction h as [|x h IH]; intros i n; [reflexivity |].
  destruct i; cbn [heap_set length]; [reflexivity | rewrite IH; reflexivity].
Qed.

Lemma heap_set_nth_eq h : forall i n, i < length h -> nth_error (heap_set h i n) i = Some n.
Proof.
  induction h as [|x h IH]; intros i n Hi; cbn [length] in Hi; [lia |].
  destruct i; cbn [heap_set nth_error]; [reflexivity | apply IH; lia].
Qed.

Lemma heap_set_nth_neq h : forall i n j, j <> i -> nth_error (heap_set h i n) j = nth_error h j.
Proof.
  induction h as [|x h IH]; intros i n j Hne; [reflexivity |].
  destruct i; destruct j; cbn [heap_set nth_error]; try reflexivity; [congruence |].
  apply IH. congruence.
Qed.

Section SetTagged.
  Variable e : sigenv.
  Variable subtags : list (N * N).
  Variable T : N.
  Variable x : ref.
  Variable h : heap.

  (* the heap in which every object has already been overwritten *)
  Definition all_applied : heap := map (apply_tagged subtags T x) h.

  (* hc is h with exactly the objects in `seen` overwritten *)
  Definition marked (hc : heap) (seen : list nat) : Prop :=
    length hc = length h /\
    forall i n, nth_error h i = Some n ->
      nth_error hc i = Some (if existsb (Nat.eqb i) seen then apply_tagged subtags T x n else n).

  Lemma marked_init : marked h [].
  Proof. split; [reflexivity |]. intros i n Hn. exact Hn. Qed.

  Lemma marked_step hc seen i n :
    marked hc seen -> nth_error h i = Some n ->
    marked (heap_set hc i (apply_tagged subtags T x n)) (i :: seen).
  Proof.
    intros [Hlen Hm] Hn. split; [rewrite heap_set_length; exact Hlen |].
    intros j m Hj. cbn [existsb]. destruct (Nat.eqb j i) eqn:Hji.
    - apply Nat.eqb_eq in Hji. subst j. cbn [orb]. rewrite Hn in Hj. inversion Hj; subst m.
      apply heap_set_nth_eq. rewrite Hlen. apply nth_error_Some. congruence.
    - apply Nat.eqb_neq in Hji. cbn [orb]. rewrite heap_set_nth_neq by exact Hji. apply Hm. exact Hj.
  Qed.

  (* st_visit on the mutable heap is the memoized walk of the static heap all_applied *)
  Lemma st_visit_sim : forall f hs r,
    marked (fst hs) (snd hs) ->
    snd (st_visit e subtags f T x hs r) = gdfs e all_applied cons f (snd hs) r /\
    marked (fst (st_visit e subtags f T x hs r)) (snd (st_visit e subtags f T x hs r)).
  Proof.
    induction f as [|f IH]; intros hs r Hm; destruct r as [a|i]; cbn [st_visit gdfs].
    - split; [reflexivity | exact Hm].
    - destruct (existsb _ (snd hs)); split; solve [reflexivity | exact Hm].
    - split; [reflexivity | exact Hm].
    - destruct (existsb (Nat.eqb i) (snd hs)) eqn:Hex; [split; [reflexivity | exact Hm] |].
      destruct Hm as [Hlen Hm].
      assert (HA : nth_error all_applied i = option_map (apply_tagged subtags T x) (nth_error h i))
        by apply nth_error_map.
      rewrite HA. clear HA.
      destruct (nth_error h i) as [n|] eqn:Hn; cbn [option_map].
      + rewrite (Hm i n Hn), Hex.
        pose proof (marked_step (fst hs) (snd hs) i n (conj Hlen Hm) Hn) as Hm1.
        revert Hm1.
        generalize (heap_set (fst hs) i (apply_tagged subtags T x n)). intros hc.
        generalize (i :: snd hs). intros seen.
        generalize (children e (apply_tagged subtags T x n)). intros cs.
        revert hc seen. induction cs as [|c cs IHcs]; intros hc seen Hm1; cbn [fold_left].
        * split; [reflexivity | exact Hm1].
        * destruct (IH (hc, seen) c Hm1) as [Hs1 Hm2]. cbn [snd] in Hs1.
          rewrite <- Hs1.
          destruct (st_visit e subtags f T x (hc, seen) c) as [hc1 seen1]. cbn [fst snd] in *.
          apply IHcs. exact Hm2.
      + assert (Hnone : nth_error (fst hs) i = None).
        { apply nth_error_None. rewrite Hlen. apply nth_error_None. exact Hn. }
        rewrite Hnone. split; [reflexivity | split; assumption].
  Qed.

  Variable r : ref.

  (* the objects set_tagged visits *)
  Definition visited : list nat := gdfs e all_applied cons (S (length h)) [] r.

  Lemma set_tagged_marked : marked (set_tagged e subtags h r T x) visited.
  Proof.
    unfold set_tagged, visited.
    destruct (st_visit_sim (S (length h)) (h, []) r marked_init) as [Hs Hm].
    cbn [snd] in Hs. rewrite <- Hs. exact Hm.
  Qed.

  Hypothesis HwfA : wf_b e all_applied = true.
  Hypothesis Hroot : root_ok h r.

  Lemma visited_exact i : In i visited <-> creach e all_applied r i.
  Proof.
    unfold visited. replace (length h) with (length all_applied) by apply map_length.
    apply gdfs_exact; auto.
    - intros j s k. cbn [In]. split; [intros [H|H]; auto | intros [H|H]; auto].
    - destruct r as [a|j]; cbn [root_ok] in *; [exact I |]. unfold all_applied. rewrite map_length. exact Hroot.
  Qed.

  Let h' := set_tagged e subtags h r T x.

  (* on the visited objects the new heap and all_applied agree, and the visited set is closed *)
  Lemma visited_node i n :
    In i visited -> (nth_error h' i = Some n <-> nth_error all_applied i = Some n).
  Proof.
    intros Hin. destruct set_tagged_marked as [Hlen Hm]. fold h' in Hlen, Hm.
    unfold all_applied. rewrite nth_error_map.
    destruct (nth_error h i) as [m|] eqn:Hi; cbn [option_map].
    - rewrite (Hm i m Hi). apply existsb_nat_in in Hin. rewrite Hin. reflexivity.
    - assert (Hnone : nth_error h' i = None).
      { apply nth_error_None. rewrite Hlen. apply nth_error_None. exact Hi. }
      rewrite Hnone. reflexivity.
  Qed.

  Lemma creach_new_old : forall c k,
    creach e h' c k -> (forall j, c = RP j -> In j visited) -> creach e all_applied c k.
  Proof.
    induction 1 as [i|i n c k Hn Hin Hc IH]; intros Hv; [constructor |].
    pose proof (Hv i eq_refl) as Hi. apply (visited_node i n Hi) in Hn.
    eapply cr_step; [exact Hn | exact Hin |]. apply IH. intros j Hj. subst c.
    apply visited_exact. apply visited_exact in Hi.
    clear - Hi Hn Hin. induction Hi as [i|i0 n0 c0 k0 Hn0 Hin0 Hc0 IH0].
    - eapply cr_step; [exact Hn | exact Hin | constructor].
    - eapply cr_step; [exact Hn0 | exact Hin0 |]. apply IH0; assumption.
  Qed.

  Lemma creach_trans g c i k : creach e g c i -> creach e g (RP i) k -> creach e g c k.
  Proof.
    induction 1 as [i|i0 n0 c0 k0 Hn0 Hin0 Hc0 IH0]; intros Hk; [exact Hk |].
    eapply cr_step; [exact Hn0 | exact Hin0 | apply IH0; exact Hk].
  Qed.

  Lemma creach_old_new : forall c k,
    creach e all_applied c k -> (forall j, c = RP j -> In j visited) -> creach e h' c k.
  Proof.
    induction 1 as [i|i n c k Hn Hin Hc IH]; intros Hv; [constructor |].
    pose proof (Hv i eq_refl) as Hi. pose proof Hn as HnA. apply (visited_node i n Hi) in Hn.
    eapply cr_step; [exact Hn | exact Hin |]. apply IH. intros j Hj. subst c.
    apply visited_exact. apply visited_exact in Hi.
    eapply creach_trans; [exact Hi |]. eapply cr_step; [exact HnA | exact Hin | constructor].
  Qed.

  (* (c) the visited objects are exactly those reachable from the root in the NEW heap *)
  Theorem visited_reach_new i : In i visited <-> creach e h' r i.
  Proof.
    assert (Hr : forall j, r = RP j -> In j visited).
    { intros j Hj. apply visited_exact. subst r. constructor. }
    rewrite visited_exact. split; intros Hc.
    - apply creach_old_new; assumption.
    - apply creach_new_old; assumption.
  Qed.

  Theorem set_tagged_length : length h' = length h.
  Proof. exact (proj1 set_tagged_marked). Qed.

  (* (b)+(c): an object still reachable from the root in the new heap holds apply_tagged of its
     old value; every other object is unchanged *)
  Theorem set_tagged_nodes i n :
    nth_error h i = Some n ->
    (creach e h' r i -> nth_error h' i = Some (apply_tagged subtags T x n)) /\
    (~ creach e h' r i -> nth_error h' i = Some n).
  Proof.
    intros Hn. destruct set_tagged_marked as [_ Hm]. fold h' in Hm. specialize (Hm i n Hn).
    split; intros Hc.
    - apply visited_reach_new, existsb_nat_in in Hc. rewrite Hc in Hm. exact Hm.
    - destruct (existsb (Nat.eqb i) visited) eqn:Hex; [| exact Hm].
      exfalso. apply Hc. apply visited_reach_new, existsb_nat_in. exact Hex.
  Qed.

  Lemma creach_new_dec i : creach e h' r i \/ ~ creach e h' r i.
  Proof.
    destruct (in_dec Nat.eq_dec i visited) as [Hin|Hnin].
    - left. apply visited_reach_new. exact Hin.
    - right. intros Hc. apply Hnin. apply visited_reach_new. exact Hc.
  Qed.
End SetTagged.

(* ------------------------------------------------------------------------------------------ *)
(* flat_args, key by key: with distinct stored keys, the flattened arguments of a Buildable are
   exactly its stored (key, value) pairs (in signature order) *)

Lemma sset_in (d : store) k v p : In p (sset d k v) -> p = (k, v) \/ In p d.
Proof.
  unfold sset. induction d as [|[k' v'] d IH]; cbn [dset In]; intros Hin.
  - destruct Hin as [H|[]]; left; auto.
  - destruct (skey_eqb k k') eqn:Hk; cbn [In] in Hin.
    + apply skey_eqb_eq in Hk. subst k'. destruct Hin as [H|H]; [left; auto | right; right; exact H].
    + destruct Hin as [H|H]; [right; left; exact H |].
      destruct (IH H) as [H1|H1]; [left; exact H1 | right; right; exact H1].
Qed.

Lemma sset_keys_in (d : store) k v k' : In k' (map fst (sset d k v)) <-> k' = k \/ In k' (map fst d).
Proof.
  split; [apply sset_keys |].
  unfold sset. induction d as [|[k0 v0] d IH]; cbn [dset map fst In].
  - intros [H|[]]; left; auto.
  - destruct (skey_eqb k k0) eqn:Hk; cbn [map fst In].
    + apply skey_eqb_eq in Hk. subst k0. intros [H|[H|H]]; auto.
    + intros [H|[H|H]]; auto.
Qed.

Lemma nodup_in_sget (st : store) k v : NoDup (map fst st) -> In (k, v) st -> sget st k = Some v.
Proof.
  unfold sget. induction st as [|[k0 v0] st IH]; cbn [map fst dget In]; intros Hnd Hin; [destruct Hin |].
  inversion Hnd as [|? ? Hnotin Hnd']; subst.
  destruct Hin as [Heq|Hin].
  - inversion Heq; subst. rewrite skey_eqb_refl. reflexivity.
  - destruct (skey_eqb k k0) eqn:Hk; [| apply IH; assumption].
    apply skey_eqb_eq in Hk. subst k0. exfalso. apply Hnotin.
    apply in_map_iff. exists (k, v). split; [reflexivity | exact Hin].
Qed.

Lemma find_param_some sg n p : find_param sg n = Some p -> In p sg /\ pname p = n.
Proof.
  induction sg as [|q sg IH]; cbn [find_param]; [discriminate |].
  destruct (N.eqb (pname q) n) eqn:Hq.
  - intros H. inversion H; subst. apply N.eqb_eq in Hq. split; [left; reflexivity | exact Hq].
  - intros H. destruct (IH H). split; [right; assumption | assumption].
Qed.

Section FlatKeys.
  Variable sg : sig.
  Variable veq : ref -> ref -> bool.
  Variable args : store.

  Definition fa_kv (result : store) : Prop := forall k v, In (k, v) result -> sget args k = Some v.

  Lemma fa_kv_sset result k v : fa_kv result -> sget args k = Some v -> fa_kv (sset result k v).
  Proof.
    intros Hr Hg k' v' Hin. apply sset_in in Hin. destruct Hin as [Heq|Hin]; [| auto].
    inversion Heq; subst. exact Hg.
  Qed.

  Lemma oa_varargs_kv fuel : forall index result,
    fa_kv result -> fa_kv (oa_varargs fuel args index result).
  Proof.
    induction fuel as [|f IH]; intros index result Hok; cbn [oa_varargs]; [exact Hok |].
    destruct (sget args (kpos index)) as [v|] eqn:Hg; [| exact Hok].
    apply IH. apply fa_kv_sset; assumption.
  Qed.

  Lemma oa_varargs_mono fuel k : forall index result,
    In k (map fst result) -> In k (map fst (oa_varargs fuel args index result)).
  Proof.
    induction fuel as [|f IH]; intros index result Hin; cbn [oa_varargs]; [exact Hin |].
    destruct (sget args (kpos index)) as [v|]; [| exact Hin].
    apply IH. apply sset_keys_in. right; exact Hin.
  Qed.

  Variable fl : oa_flags.
  Hypothesis Hd : f_defaults fl = false.
  Hypothesis Hu : f_unset fl = false.
  Hypothesis He : f_equal_to_default fl = true.

  Lemma oa_params_kv ps : forall index result,
    fa_kv result -> fa_kv (oa_params veq fl args ps index result).
  Proof.
    induction ps as [|p ps IH]; intros index result Hok; cbn [oa_params]; [exact Hok |].
    apply IH. rewrite Hd, Hu.
    destruct (pk p).
    - destruct (sget args (kpos index)) as [v|] eqn:Hg.
      + destruct (_ || _); [| exact Hok]. apply fa_kv_sset; assumption.
      + destruct (pdefault p); exact Hok.
    - destruct (sget args (KName (pname p))) as [v|] eqn:Hg.
      + destruct (_ || _); [| exact Hok]. apply fa_kv_sset; assumption.
      + destruct (pdefault p); exact Hok.
    - apply oa_varargs_kv; exact Hok.
    - destruct (sget args (KName (pname p))) as [v|] eqn:Hg.
      + destruct (_ || _); [| exact Hok]. apply fa_kv_sset; assumption.
      + destruct (pdefault p); exact Hok.
    - exact Hok.
  Qed.

  Lemma oa_params_mono k ps : forall index result,
    In k (map fst result) -> In k (map fst (oa_params veq fl args ps index result)).
  Proof.
    induction ps as [|p ps IH]; intros index result Hin; cbn [oa_params]; [exact Hin |].
    apply IH.
    destruct (pk p).
    - destruct (match sget args (kpos index) with Some v => Some v | None => _ end); [| exact Hin].
      destruct (_ || _); [| exact Hin]. apply sset_keys_in. right; exact Hin.
    - destruct (match sget args (KName (pname p)) with Some v => Some v | None => _ end); [| exact Hin].
      destruct (_ || _); [| exact Hin]. apply sset_keys_in. right; exact Hin.
    - apply oa_varargs_mono; exact Hin.
    - destruct (match sget args (KName (pname p)) with Some v => Some v | None => _ end); [| exact Hin].
      destruct (_ || _); [| exact Hin]. apply sset_keys_in. right; exact Hin.
    - exact Hin.
  Qed.

  Lemma oa_params_takes p v ps : In p ps ->
    (pk p = PosOrKw \/ pk p = KwOnly) -> sget args (KName (pname p)) = Some v ->
    forall index result, In (KName (pname p)) (map fst (oa_params veq fl args ps index result)).
  Proof.
    intros Hin Hk Hg. induction ps as [|q ps IH]; [destruct Hin |]. intros index result.
    cbn [oa_params]. destruct Hin as [Heq|Hin]; [| apply IH; exact Hin].
    subst q. apply oa_params_mono. rewrite He. cbn [orb].
    destruct Hk as [Hk|Hk]; rewrite Hk, Hg; apply sset_keys_in; left; reflexivity.
  Qed.

  Lemma oa_var_keyword_kv items : forall result,
    (forall k v, In (k, v) items -> sget args k = Some v) ->
    fa_kv result -> fa_kv (oa_var_keyword sg items result).
  Proof.
    induction items as [|[k v] items IH]; intros result Hsub Hok; cbn [oa_var_keyword]; [exact Hok |].
    apply IH; [intros k' v' Hin; apply Hsub; right; exact Hin |].
    match goal with |- fa_kv (if ?c then _ else _) => destruct c end; [| exact Hok].
    apply fa_kv_sset; [exact Hok |]. apply Hsub. left; reflexivity.
  Qed.

  Lemma oa_var_keyword_mono k items : forall result,
    In k (map fst result) -> In k (map fst (oa_var_keyword sg items result)).
  Proof.
    induction items as [|[k0 v0] items IH]; intros result Hin; cbn [oa_var_keyword]; [exact Hin |].
    apply IH. match goal with |- In _ (map fst (if ?c then _ else _)) => destruct c end; [| exact Hin].
    apply sset_keys_in. right; exact Hin.
  Qed.

  Definition vk_take (k : skey) : bool :=
    match k with
    | KPos _ => true
    | KName n => match find_param sg n with
                 | None => true
                 | Some p => match pk p with VarKw | PosOnly | VarPos => true | _ => false end
                 end
    end.

  Lemma oa_var_keyword_takes k v items : In (k, v) items -> vk_take k = true ->
    forall result, In k (map fst (oa_var_keyword sg items result)).
  Proof.
    intros Hin Ht. induction items as [|[k0 v0] items IH]; [destruct Hin |]. intros result.
    cbn [oa_var_keyword]. destruct Hin as [Heq|Hin]; [| apply IH; exact Hin].
    inversion Heq; subst k0 v0. apply oa_var_keyword_mono.
    fold (vk_take k). rewrite Ht. apply sset_keys_in. left; reflexivity.
  Qed.
End FlatKeys.

Lemma flat_args_kv e fn args k v :
  NoDup (map fst args) -> In (k, v) (flat_args e fn args) -> sget args k = Some v.
Proof.
  intros Hnd. unfold flat_args, ordered_arguments, default_flags.
  cbn [f_equal_to_default f_defaults f_var_keyword f_positional negb andb].
  revert k v. apply oa_var_keyword_kv; [intros k v; apply nodup_in_sget; exact Hnd |].
  apply oa_params_kv; [reflexivity | reflexivity |]. intros k v [].
Qed.

Lemma flat_args_has_key e fn args k v :
  sget args k = Some v -> In k (map fst (flat_args e fn args)).
Proof.
  intros Hg. unfold flat_args, ordered_arguments, default_flags.
  cbn [f_equal_to_default f_defaults f_var_keyword f_positional negb andb].
  destruct (vk_take (sig_of e fn) k) eqn:Ht.
  - eapply oa_var_keyword_takes; [apply sget_In; exact Hg | exact Ht].
  - apply oa_var_keyword_mono.
    destruct k as [z|n]; cbn [vk_take] in Ht; [discriminate |].
    destruct (find_param (sig_of e fn) n) as [p|] eqn:Hf; [| discriminate].
    apply find_param_some in Hf. destruct Hf as [Hin Hname]. subst n.
    eapply oa_params_takes; [reflexivity | exact Hin | | exact Hg].
    destruct (pk p); try discriminate; auto.
Qed.

Lemma flat_args_exact e fn args k v :
  NoDup (map fst args) -> (In (k, v) (flat_args e fn args) <-> sget args k = Some v).
Proof.
  intros Hnd. split; [apply flat_args_kv; exact Hnd |].
  intros Hg. pose proof (flat_args_has_key e fn args k v Hg) as Hk.
  apply in_map_iff in Hk. destruct Hk as ([k' v'] & Hfst & Hin). cbn [fst] in Hfst. subst k'.
  pose proof (flat_args_kv e fn args k v' Hnd Hin) as Hg'. rewrite Hg in Hg'. inversion Hg'; subst.
  exact Hin.
Qed.

(* Buildables store their arguments in a dict *)
Definition args_ok (h : heap) : Prop :=
  forall i k fn args tags, nth_error h i = Some (NBuildable k fn args tags) -> NoDup (map fst args).

(* with a leaf value, overwriting tagged arguments creates no new child pointer *)
Lemma children_apply_leaf e subtags T a n j :
  (forall k fn args tags, n = NBuildable k fn args tags -> NoDup (map fst args)) ->
  In (RP j) (children e (apply_tagged subtags T (RA a) n)) -> In (RP j) (children e n).
Proof.
  intros Hnd. destruct n; cbn [apply_tagged]; auto.
  fold (tagged_args subtags T (RA a) tags args). cbn [children].
  specialize (Hnd k fn args tags eq_refl).
  intros Hin. apply in_map_iff in Hin. destruct Hin as ([kk v] & Hv & Hin). cbn [snd] in Hv. subst v.
  assert (Hnd' : NoDup (map fst (tagged_args subtags T (RA a) tags args))).
  { unfold tagged_args. clear Hin. revert args Hnd.
    induction tags as [|[k0 ts] tags IH]; intros args Hnd; cbn [fold_left fst snd]; [exact Hnd |].
    apply IH. destruct (tag_matches subtags T ts); [apply sset_keys_nodup |]; exact Hnd. }
  apply (flat_args_kv e fn _ kk (RP j) Hnd') in Hin.
  rewrite tagged_args_sget in Hin. destruct (key_tagged subtags T tags kk); [discriminate |].
  apply (flat_args_exact e fn args kk (RP j) Hnd) in Hin.
  apply in_map_iff. exists (kk, RP j). split; [reflexivity | exact Hin].
Qed.

(* ------------------------------------------------------------------------------------------ *)
(* well-formedness of the overwritten heap *)

Section WfApplied.
  Variable e : sigenv.
  Variable subtags : list (N * N).
  Variable T : N.
  Variable x : ref.

  (* the value is older than every object that set_tagged would change (a leaf always is) *)
  Definition value_below (h : heap) : Prop :=
    forall i n, nth_error h i = Some n -> apply_tagged subtags T x n <> n -> ref_below i x = true.

  Lemma wf_from_applied h : forall base,
    wf_from e h base = true ->
    (forall i n, nth_error h i = Some n -> apply_tagged subtags T x n <> n -> ref_below (base + i) x = true) ->
    wf_from e (all_applied subtags T x h) base = true.
  Proof.
    unfold all_applied.
    induction h as [|n h IH]; intros base Hwf Hx; [reflexivity |].
    cbn [wf_from map] in *. apply andb_true_iff in Hwf. destruct Hwf as [H0 Hrest].
    apply andb_true_iff. split.
    - destruct (node_eq_dec (apply_tagged subtags T x n) n) as [Heq|Hne]; [rewrite Heq; exact H0 |].
      specialize (Hx 0 n eq_refl Hne). rewrite Nat.add_0_r in Hx.
      rewrite forallb_forall in *. intros v Hv. apply apply_tagged_refs in Hv.
      destruct Hv as [Hv|Hv]; [subst v; exact Hx | auto].
    - apply IH; [exact Hrest |]. intros i m Hm Hne.
      replace (S base + i) with (base + S i) by lia. apply (Hx (S i) m); assumption.
  Qed.

  Lemma wf_applied h : wf_b e h = true -> value_below h -> wf_b e (all_applied subtags T x h) = true.
  Proof. intros Hwf Hx. apply wf_from_applied; [exact Hwf |]. intros i n. cbn [Nat.add]. apply Hx. Qed.

  Lemma keys_ok_applied h : keys_ok h -> keys_ok (all_applied subtags T x h).
  Proof.
    intros Hk i n Hn. unfold all_applied in Hn. rewrite nth_error_map in Hn.
    destruct (nth_error h i) as [m|] eqn:Hm; [| discriminate]. cbn [option_map] in Hn.
    inversion Hn; subst. apply apply_tagged_keys_ok. eapply Hk; eauto.
  Qed.
End WfApplied.

Lemma value_below_leaf subtags T a h : value_below subtags T (RA a) h.
Proof. intros i n _ _. reflexivity. Qed.

Lemma wf_from_pointwise e (h1 : heap) : forall (h2 hc : heap) base,
  length hc = length h1 -> length h2 = length h1 ->
  (forall i n, nth_error hc i = Some n -> nth_error h1 i = Some n \/ nth_error h2 i = Some n) ->
  wf_from e h1 base = true -> wf_from e h2 base = true -> wf_from e hc base = true.
Proof.
  induction h1 as [|n0 h0 IH]; intros h2 hc base Hlen Hlen2 Hn H1 H2.
  - destruct hc; [reflexivity | discriminate].
  - destruct hc as [|m hc]; [discriminate |]. destruct h2 as [|m2 h2]; [discriminate |].
    cbn [wf_from] in *.
    apply andb_true_iff in H1. destruct H1 as [H1a H1b].
    apply andb_true_iff in H2. destruct H2 as [H2a H2b].
    apply andb_true_iff. split.
    + destruct (Hn 0 m eq_refl) as [Hm|Hm]; cbn [nth_error] in Hm; inversion Hm; subst; assumption.
    + apply (IH h2); auto. intros i n Hi. apply (Hn (S i) n Hi).
Qed.

(* ------------------------------------------------------------------------------------------ *)
(* the theorems about set_tagged, for any value that is older than the objects it is stored in *)

Section SetTaggedMain.
  Variable e : sigenv.
  Variable subtags : list (N * N).
  Variable T : N.
  Variable x : ref.
  Variable h : heap.
  Variable r : ref.
  Hypothesis Hwf : wf_b e h = true.
  Hypothesis Hroot : root_ok h r.
  Hypothesis Hx : value_below subtags T x h.

  Let h' := set_tagged e subtags h r T x.

  Lemma wf_all_applied : wf_b e (all_applied subtags T x h) = true.
  Proof. apply wf_applied; assumption. Qed.

  Theorem set_tagged_nodes_gen i n :
    nth_error h i = Some n ->
    (creach e h' r i -> nth_error h' i = Some (apply_tagged subtags T x n)) /\
    (~ creach e h' r i -> nth_error h' i = Some n).
  Proof. apply set_tagged_nodes; [exact wf_all_applied | exact Hroot]. Qed.

  Theorem set_tagged_wf_gen : wf_b e h' = true.
  Proof.
    unfold wf_b. apply (wf_from_pointwise e h (all_applied subtags T x h)).
    - apply set_tagged_length.
    - unfold all_applied. apply map_length.
    - intros i n Hn. fold h' in Hn.
      destruct (nth_error h i) as [m|] eqn:Hm.
      + destruct (set_tagged_nodes_gen i m Hm) as [H1 H2].
        destruct (creach_new_dec e subtags T x h r wf_all_applied Hroot i) as [Hc|Hc].
        * right. unfold all_applied. rewrite nth_error_map, Hm. cbn [option_map].
          fold h' in Hc. rewrite (H1 Hc) in Hn. exact Hn.
        * left. fold h' in Hc. rewrite (H2 Hc) in Hn. exact Hn.
      + exfalso. apply nth_error_None in Hm.
        assert (Hlt : i < length h') by (apply nth_error_Some; congruence).
        unfold h' in Hlt. rewrite set_tagged_length in Hlt. lia.
    - exact Hwf.
    - exact wf_all_applied.
  Qed.

  Theorem set_tagged_keys_ok_gen : keys_ok h -> keys_ok h'.
  Proof.
    intros Hk i n Hn.
    destruct (nth_error h i) as [m|] eqn:Hm.
    - destruct (set_tagged_nodes_gen i m Hm) as [H1 H2].
      destruct (creach_new_dec e subtags T x h r wf_all_applied Hroot i) as [Hc|Hc]; fold h' in Hc.
      + rewrite (H1 Hc) in Hn. inversion Hn; subst. apply apply_tagged_keys_ok. eapply Hk; eauto.
      + rewrite (H2 Hc) in Hn. inversion Hn; subst. eapply Hk; eauto.
    - exfalso. apply nth_error_None in Hm.
      assert (Hlt : i < length h') by (apply nth_error_Some; congruence).
      unfold h' in Hlt. rewrite set_tagged_length in Hlt. lia.
  Qed.

  (* the same with path reachability (PathElement.follow) in the new heap *)
  Theorem set_tagged_nodes_reach_gen (Hk : keys_ok h) i n :
    nth_error h i = Some n ->
    (reach e h' r i -> nth_error h' i = Some (apply_tagged subtags T x n)) /\
    (~ reach e h' r i -> nth_error h' i = Some n).
  Proof.
    intros Hn. destruct (set_tagged_nodes_gen i n Hn) as [H1 H2]. split; intros Hc.
    - apply H1. apply reach_creach. exact Hc.
    - apply H2. intros Hc'. apply Hc. apply creach_reach; [| exact Hc'].
      apply keys_ok_elts_ok. apply set_tagged_keys_ok_gen. exact Hk.
  Qed.
End SetTaggedMain.

(* ------------------------------------------------------------------------------------------ *)
(* 2. set_tagged with a leaf value *)

Section SetTaggedLeaf.
  Variable e : sigenv.
  Variable subtags : list (N * N).
  Variable T : N.
  Variable a : atom.
  Variable h : heap.
  Variable r : ref.
  Hypothesis Hwf : wf_b e h = true.
  Hypothesis Hroot : root_ok h r.

  Let h' := set_tagged e subtags h r T (RA a).

  Theorem set_tagged_leaf_length : length h' = length h.
  Proof. apply set_tagged_length. Qed.

  Theorem set_tagged_leaf_nodes i n :
    nth_error h i = Some n ->
    (creach e h' r i -> nth_error h' i = Some (apply_tagged subtags T (RA a) n)) /\
    (~ creach e h' r i -> nth_error h' i = Some n).
  Proof. apply set_tagged_nodes_gen; auto. apply value_below_leaf. Qed.

  Theorem set_tagged_leaf_nodes_reach (Hk : keys_ok h) i n :
    nth_error h i = Some n ->
    (reach e h' r i -> nth_error h' i = Some (apply_tagged subtags T (RA a) n)) /\
    (~ reach e h' r i -> nth_error h' i = Some n).
  Proof. apply set_tagged_nodes_reach_gen; auto. apply value_below_leaf. Qed.

  Theorem set_tagged_leaf_wf : wf_b e h' = true.
  Proof. apply set_tagged_wf_gen; auto. apply value_below_leaf. Qed.

  Theorem set_tagged_leaf_keys_ok : keys_ok h -> keys_ok h'.
  Proof. apply set_tagged_keys_ok_gen; auto. apply value_below_leaf. Qed.

  (* the objects visited are exactly those reachable in the new heap *)
  Theorem set_tagged_leaf_visited i :
    In i (visited e subtags T (RA a) h r) <-> creach e h' r i.
  Proof. apply visited_reach_new; [| exact Hroot]. apply wf_applied; [exact Hwf | apply value_below_leaf]. Qed.

  (* ... and they were reachable in the old heap *)
  Lemma creach_applied_old (Ha : args_ok h) : forall c k,
    creach e (all_applied subtags T (RA a) h) c k -> creach e h c k.
  Proof.
    induction 1 as [i|i n c k Hn Hin Hc IH]; [constructor |].
    unfold all_applied in Hn. rewrite nth_error_map in Hn.
    destruct (nth_error h i) as [m|] eqn:Hm; [| discriminate]. cbn [option_map] in Hn.
    inversion Hn; subst n. destruct c as [b|j]; [exfalso; eapply creach_atom; eauto |].
    eapply cr_step; [exact Hm | | exact IH].
    eapply children_apply_leaf; [| exact Hin]. intros k0 fn args tags Heq. subst m. eapply Ha; eauto.
  Qed.

  Theorem set_tagged_leaf_reach_old (Ha : args_ok h) i : creach e h' r i -> creach e h r i.
  Proof.
    intros Hc. apply creach_applied_old; [exact Ha |].
    pose proof (wf_applied e subtags T (RA a) h Hwf (value_below_leaf _ _ _ _)) as HwfA.
    apply (visited_exact e subtags T (RA a) h r HwfA Hroot).
    apply set_tagged_leaf_visited. exact Hc.
  Qed.

  (* every argument of every Buildable still reachable from the root whose tag set contains a
     subtag of T holds the value; no other argument, no tag set, no callable and no other object
     changed *)
  Theorem set_tagged_exact :
    length h' = length h /\
    (forall i n, nth_error h i = Some n -> (forall k fn args tags, n <> NBuildable k fn args tags) ->
                 nth_error h' i = Some n) /\
    (forall i k fn args tags, nth_error h i = Some (NBuildable k fn args tags) ->
       exists args',
         nth_error h' i = Some (NBuildable k fn args' tags) /\
         (~ creach e h' r i -> args' = args) /\
         forall kk,
           (creach e h' r i /\ (exists ts, In (kk, ts) tags /\ tag_matches subtags T ts = true) ->
            sget args' kk = Some (RA a)) /\
           (~ (creach e h' r i /\ exists ts, In (kk, ts) tags /\ tag_matches subtags T ts = true) ->
            sget args' kk = sget args kk)).
  Proof.
    split; [apply set_tagged_leaf_length |]. split.
    - intros i n Hn Hnb. destruct (set_tagged_leaf_nodes i n Hn) as [H1 H2].
      pose proof (wf_applied e subtags T (RA a) h Hwf (value_below_leaf _ _ _ _)) as HwfA.
      destruct (creach_new_dec e subtags T (RA a) h r HwfA Hroot i) as [Hc|Hc]; fold h' in Hc.
      + rewrite (H1 Hc). rewrite apply_tagged_not_buildable by exact Hnb. reflexivity.
      + exact (H2 Hc).
    - intros i k fn args tags Hn. destruct (set_tagged_leaf_nodes i _ Hn) as [H1 H2].
      pose proof (wf_applied e subtags T (RA a) h Hwf (value_below_leaf _ _ _ _)) as HwfA.
      destruct (creach_new_dec e subtags T (RA a) h r HwfA Hroot i) as [Hc|Hc]; fold h' in Hc.
      + exists (tagged_args subtags T (RA a) tags args). split; [exact (H1 Hc) |].
        split; [intros Hnc; exfalso; exact (Hnc Hc) |].
        intros kk. rewrite tagged_args_sget. split.
        * intros [_ Hk]. apply key_tagged_spec in Hk. rewrite Hk. reflexivity.
        * intros Hnk. destruct (key_tagged subtags T tags kk) eqn:Hb; [| reflexivity].
          exfalso. apply Hnk. split; [exact Hc |]. apply key_tagged_spec. exact Hb.
      + exists args. split; [exact (H2 Hc) |]. split; [reflexivity |].
        intros kk. split; [| reflexivity]. intros [Hc' _]. exfalso. exact (Hc Hc').
  Qed.
End SetTaggedLeaf.

(* ------------------------------------------------------------------------------------------ *)
(* 3. a structured value: the same theorems hold as soon as the value is older than every object
   it is stored in (value_below); stated for x = RP v *)

Section SetTaggedPtr.
  Variable e : sigenv.
  Variable subtags : list (N * N).
  Variable T : N.
  Variable v : nat.
  Variable h : heap.
  Variable r : ref.
  Hypothesis Hwf : wf_b e h = true.
  Hypothesis Hroot : root_ok h r.
  (* v is below every Buildable that has an argument with a matching tag *)
  Hypothesis Hv : forall i k fn args tags kk ts,
    nth_error h i = Some (NBuildable k fn args tags) ->
    In (kk, ts) tags -> tag_matches subtags T ts = true -> v < i.

  Lemma value_below_ptr : value_below subtags T (RP v) h.
  Proof.
    intros i n Hn Hne. cbn [ref_below]. apply Nat.ltb_lt.
    destruct n; try (exfalso; apply Hne; reflexivity).
    destruct (existsb (fun kt => tag_matches subtags T (snd kt)) tags) eqn:Hex.
    - apply existsb_exists in Hex. destruct Hex as ([kk ts] & Hin & Hm). eapply Hv; eauto.
    - exfalso. apply Hne. cbn [apply_tagged]. f_equal.
      clear - Hex. revert args. induction tags as [|[kk ts] tags IH]; intros args; [reflexivity |].
      cbn [existsb snd] in Hex. apply orb_false_iff in Hex. destruct Hex as [H1 H2].
      cbn [fold_left fst snd]. rewrite H1. apply IH. exact H2.
  Qed.

  Let h' := set_tagged e subtags h r T (RP v).

  Theorem set_tagged_ptr_nodes i n :
    nth_error h i = Some n ->
    (creach e h' r i -> nth_error h' i = Some (apply_tagged subtags T (RP v) n)) /\
    (~ creach e h' r i -> nth_error h' i = Some n).
  Proof. apply set_tagged_nodes_gen; auto. apply value_below_ptr. Qed.

  Theorem set_tagged_ptr_wf : wf_b e h' = true.
  Proof. apply set_tagged_wf_gen; auto. apply value_below_ptr. Qed.
End SetTaggedPtr.

(* ------------------------------------------------------------------------------------------ *)
(* 6. non-vacuity *)

Fixpoint nodup_keys_b (st : store) : bool :=
  match st with
  | [] => true
  | (k, _) :: st' => negb (existsb (fun kv => skey_eqb (fst kv) k) st') && nodup_keys_b st'
  end.

Lemma nodup_keys_b_spec st : nodup_keys_b st = true -> NoDup (map fst st).
Proof.
  induction st as [|[k v] st IH]; cbn [nodup_keys_b map fst]; intros Hb; [constructor |].
  apply andb_true_iff in Hb. destruct Hb as [Hn Hrest]. constructor; [| apply IH; exact Hrest].
  intros Hin. apply in_map_iff in Hin. destruct Hin as ([k' v'] & Hk & Hin). cbn [fst] in Hk. subst k'.
  apply negb_true_iff in Hn. apply (proj2 (not_true_iff_false _) Hn).
  apply existsb_exists. exists (k, v'). split; [exact Hin | apply skey_eqb_refl].
Qed.

Definition args_ok_b (h : heap) : bool :=
  forallb (fun n => match n with NBuildable _ _ args _ => nodup_keys_b args | _ => true end) h.

Lemma args_ok_b_spec h : args_ok_b h = true -> args_ok h.
Proof.
  unfold args_ok_b. rewrite forallb_forall. intros Hall i k fn args tags Hn.
  apply nodup_keys_b_spec. apply (Hall _ (nth_error_In _ _ Hn)).
Qed.

(* def f(p0, /, a, b, c)  and  def g(a);  tags 100 <- 101 (101 is a subclass of 100), 102 *)
Definition tg_env : sigenv :=
  [(10%N, [mkparam 1%N PosOnly None false; mkparam 2%N PosOrKw None false;
           mkparam 3%N PosOrKw None false; mkparam 4%N PosOrKw None false]);
   (11%N, [mkparam 2%N PosOrKw None false])].
Definition tg_subtags : list (N * N) :=
  [(100%N, 100%N); (101%N, 101%N); (102%N, 102%N); (101%N, 100%N)].
Definition tg_heap : heap :=
  [ NBuildable BConfig 11%N [(KName 2%N, RA (AInt 5))] [(KName 2%N, [100%N])];  (* 0: shared, tagged *)
    NBuildable BConfig 11%N [(KName 2%N, RA (AInt 6))] [(KName 2%N, [101%N])];  (* 1: only under p0 *)
    NList [RP 0];                                                             (* 2 *)
    NBuildable BConfig 10%N
      [(KPos 0, RP 1); (KName 2%N, RP 0); (KName 3%N, RP 2); (KName 4%N, RA (AInt 1))]
      [(KPos 0, [101%N]); (KName 2%N, [102%N]); (KName 4%N, [100%N; 102%N])] ].
Definition tg_root : ref := RP 3.

Lemma tg_hyps :
  wf_b tg_env tg_heap = true /\ keys_ok tg_heap /\ root_ok tg_heap tg_root /\ args_ok tg_heap.
Proof.
  split; [vm_compute; reflexivity |]. split; [apply keys_ok_b_spec; vm_compute; reflexivity |].
  split; [cbn; lia | apply args_ok_b_spec; vm_compute; reflexivity].
Qed.

(* set_tagged(root, tag=100, value=9): the positional argument (tag 101 <: 100) and the keyword
   argument c of the root and the argument of the shared child are set; argument a (tag 102) is
   not; object 1 is tagged but no longer reachable, so it keeps its value *)
Example set_tagged_nonvacuous :
  set_tagged tg_env tg_subtags tg_heap tg_root 100%N (RA (AInt 9)) =
  [ NBuildable BConfig 11%N [(KName 2%N, RA (AInt 9))] [(KName 2%N, [100%N])];
    NBuildable BConfig 11%N [(KName 2%N, RA (AInt 6))] [(KName 2%N, [101%N])];
    NList [RP 0];
    NBuildable BConfig 10%N
      [(KPos 0, RA (AInt 9)); (KName 2%N, RP 0); (KName 3%N, RP 2); (KName 4%N, RA (AInt 9))]
      [(KPos 0, [101%N]); (KName 2%N, [102%N]); (KName 4%N, [100%N; 102%N])] ] /\
  visited tg_env tg_subtags 100%N (RA (AInt 9)) tg_heap tg_root = [2; 0; 3]%nat /\
  list_tags tg_env tg_heap tg_root = [100%N; 101%N; 102%N] /\
  (* a tag nobody is a subtag of changes nothing *)
  set_tagged tg_env tg_subtags tg_heap tg_root 103%N (RA (AInt 9)) = tg_heap /\
  (* a structured value: the shared child (older than everything it is stored in) *)
  set_tagged tg_env tg_subtags tg_heap tg_root 101%N (RP 0) =
  [ NBuildable BConfig 11%N [(KName 2%N, RA (AInt 5))] [(KName 2%N, [100%N])];
    NBuildable BConfig 11%N [(KName 2%N, RA (AInt 6))] [(KName 2%N, [101%N])];
    NList [RP 0];
    NBuildable BConfig 10%N
      [(KPos 0, RP 0); (KName 2%N, RP 0); (KName 3%N, RP 2); (KName 4%N, RA (AInt 1))]
      [(KPos 0, [101%N]); (KName 2%N, [102%N]); (KName 4%N, [100%N; 102%N])] ].
Proof. vm_compute. repeat split. Qed.

(* The "reachable" of the theorems has to be reachability in the NEW heap: object 1 above is
   reachable in the old heap, carries a matching tag, and is not updated. *)
Example set_tagged_old_reach_false :
  creach tg_env tg_heap tg_root 1 /\
  (exists k fn args tags kk ts,
     nth_error tg_heap 1 = Some (NBuildable k fn args tags) /\ In (kk, ts) tags /\
     tag_matches tg_subtags 100%N ts = true) /\
  nth_error (set_tagged tg_env tg_subtags tg_heap tg_root 100%N (RA (AInt 9))) 1 = nth_error tg_heap 1.
Proof.
  split.
  - eapply cr_step; [reflexivity | left; reflexivity | constructor].
  - split; [| vm_compute; reflexivity].
    exists BConfig, 11%N, [(KName 2%N, RA (AInt 6))], [(KName 2%N, [101%N])], (KName 2%N), [101%N].
    split; [reflexivity |]. split; [left; reflexivity | vm_compute; reflexivity].
Qed.
