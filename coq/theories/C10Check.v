(* C10Check: _apply_changes on resolved diffs, node for node. *)
From Fiddle Require Import PyBase PySlice Sig ArgStore PyCall Heap Traverse Tags History Diff.

Record case := mkcase { c_env : sigenv; c_heap : heap; c_root : ref; c_changes : list change;
                        c_after : heap }.

(* tag maps are compared up to empty entries and order *)
Definition norm_tags (t : tagmap) : tagmap :=
  filter (fun kt => match snd kt with [] => false | _ => true end) t.
Definition same_tags (a b : tagmap) : bool :=
  forallb (fun kt => if list_eq_dec N.eq_dec (snd kt) (tags_get b (fst kt)) then true else false) (norm_tags a)
  && forallb (fun kt => if list_eq_dec N.eq_dec (snd kt) (tags_get a (fst kt)) then true else false) (norm_tags b).

Definition node_same (a b : node) : bool :=
  match a, b with
  | NBuildable k1 f1 a1 t1, NBuildable k2 f2 a2 t2 =>
      (if bkind_eq_dec k1 k2 then true else false) && N.eqb f1 f2
      && (if store_eq_dec a1 a2 then true else false) && same_tags t1 t2
  | _, _ => if node_eq_dec a b then true else false
  end.

Fixpoint heaps_same (a b : heap) : bool :=
  match a, b with
  | [], [] => true
  | x :: a', y :: b' => node_same x y && heaps_same a' b'
  | _, _ => false
  end.

Definition check_case (c : case) : bool :=
  heaps_same (apply_changes (c_env c) (c_heap c) (c_root c) (c_changes c)) (c_after c).

Definition explain_case (c : case) := apply_changes (c_env c) (c_heap c) (c_root c) (c_changes c).

(* ---- the whole round trip: alignment -> changes -> apply, against the real build_diff + apply_diff ---- *)
From Fiddle Require Import DiffBuild Lang Codegen C02Check.

Record rt_case := mkrt {
  r_env : sigenv; r_heap : heap;               (* one heap holding old and new *)
  r_old : ref; r_new : ref;
  r_align : list (nat * nat);                  (* the alignment the real builder ended with *)
  r_after : heap; r_after_root : ref           (* copy of old after the real apply_diff (own numbering) *)
}.

Fixpoint insert_tags (x : skey * list N) (l : tagmap) : tagmap :=
  match l with
  | [] => [x]
  | y :: l' => if skey_leb (fst x) (fst y) then x :: l else y :: insert_tags x l'
  end.
Definition canon_tags (t : tagmap) : tagmap :=
  fold_right insert_tags [] (filter (fun kt => match snd kt with [] => false | _ => true end) t).
(* dict insertion order is not part of the property: items are compared sorted by key *)
Fixpoint listN_leb (a b : list N) : bool :=
  match a, b with
  | [], _ => true
  | _ :: _, [] => false
  | x :: a', y :: b' => if N.ltb x y then true else if N.eqb x y then listN_leb a' b' else false
  end.
Definition atom_rank (a : atom) : N * Z * list N :=
  match a with
  | AInt z => (0%N, z, []) | ABool b => (1%N, if b then 1 else 0, []) | ANone => (2%N, 0, [])
  | AStr s => (3%N, 0, s) | ABytes s => (4%N, 0, s) | AFloat s => (5%N, 0, s) | ASym n => (6%N, 0, [n])
  | ANoValue => (7%N, 0, []) | AEllipsis => (8%N, 0, []) | AEmptyTuple => (9%N, 0, []) | AOpaque n => (10%N, 0, [n])
  end.
Definition atom_leb (a b : atom) : bool :=
  let '(ra, za, la) := atom_rank a in
  let '(rb, zb, lb) := atom_rank b in
  if N.ltb ra rb then true else if negb (N.eqb ra rb) then false
  else if Z.ltb za zb then true else if negb (Z.eqb za zb) then false else listN_leb la lb.
Fixpoint insert_kv (x : atom * ref) (l : list (atom * ref)) : list (atom * ref) :=
  match l with
  | [] => [x]
  | y :: l' => if atom_leb (fst x) (fst y) then x :: l else y :: insert_kv x l'
  end.
Definition sort_kvs (l : list (atom * ref)) : list (atom * ref) := fold_right insert_kv [] l.
Definition canon_node_tags (n : node) : node :=
  match n with
  | NBuildable k fn st tags => NBuildable k fn (sort_store st) (canon_tags tags)
  | NDict kvs => NDict (sort_kvs kvs)
  | NDefaultDict f kvs => NDefaultDict f (sort_kvs kvs)
  | _ => n
  end.
Definition same_graph (h1 : heap) (r1 : ref) (h2 : heap) (r2 : ref) : bool :=
  iso_b (map canon_node_tags h1) (map canon_node_tags h2) r1 r2.

Definition check_rt (c : rt_case) : bool :=
  let e := r_env c in
  alignment_ok (r_align c) (r_heap c) (r_old c) (r_new c)
  && match patch e (r_align c) (r_heap c) (r_old c) (r_new c) with
     | Some h' =>
         (* the statement of C10 on the case: old has become new *)
         same_graph h' (r_old c) (r_heap c) (r_new c)
         (* and the model agrees with what the real build_diff + apply_diff did *)
         && same_graph h' (r_old c) (r_after c) (r_after_root c)
     | None => false
     end.

Definition explain_rt (c : rt_case) :=
  (alignment_ok (r_align c) (r_heap c) (r_old c) (r_new c),
   build_changes (r_env c) (r_align c) (r_heap c) (r_old c) (r_new c)).
