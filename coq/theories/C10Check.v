(* C10Check: _apply_changes on resolved diffs, node for node. *)
From Fiddle Require Import PyBase PySlice Sig ArgStore PyCall Heap Traverse Tags History Diff.

Record case := mkcase { c_env : sigenv; c_heap : heap; c_root : ref; c_changes : list change;
                        c_after : heap }.

(* tag maps are compared up to empty entries and order *)
Definition norm_tags (t : tagmap) : tagmap :=
  filter (fun kt => match snd kt with [] => false | _ => true end) t.
Definition same_tags (a b : tagmap) : bool :=
  forallb (fun kt => if list_eq_dec N.eq_dec (snd kt) (tags_get b (fst kt)) then true else false) (norm_tags a)
  && forallb (fun kt => if list_eq_dec N.eq_dec (snd kt) (tags_get a (fst kt)) then true else false) (norm_tags b).

Definition node_same (a b : node) : bool :=
  match a, b with
  | NBuildable k1 f1 a1 t1, NBuildable k2 f2 a2 t2 =>
      (if bkind_eq_dec k1 k2 then true else false) && N.eqb f1 f2
      && (if store_eq_dec a1 a2 then true else false) && same_tags t1 t2
  | _, _ => if node_eq_dec a b then true else false
  end.

Fixpoint heaps_same (a b : heap) : bool :=
  match a, b with
  | [], [] => true
  | x :: a', y :: b' => node_same x y && heaps_same a' b'
  | _, _ => false
  end.

Definition check_case (c : case) : bool :=
  heaps_same (apply_changes (c_env c) (c_heap c) (c_root c) (c_changes c)) (c_after c).

Definition explain_case (c : case) := apply_changes (c_env c) (c_heap c) (c_root c) (c_changes c).
